package main

// The examples printed in the documentation (pipeline/README.md "Match
// modes", pipeline/doif/README.md). They serve two purposes: the naive
// evaluator must reproduce every documented outcome (otherwise the run is
// void: c.Fatal), and the real code is run on them as directed cases.

import (
	"bytes"
	"encoding/json"
	"fmt"
	"strings"
)

type exEvent struct {
	json string
	want bool // "discarded" in the README = the action is applied
}

type mfExample struct {
	name   string
	fields string // JSON of match_fields
	mode   string
	events []exEvent
}

type doifExample struct {
	name   string
	rule   string // JSON of do_if
	events []exEvent
}

var mfExamples = []mfExample{
	{"and", `{"k8s_namespace":["payment","tarifficator"],"k8s_pod":"/^payment-api.*/"}`, "and", []exEvent{
		{`{"k8s_namespace": "payment", "k8s_pod":"payment-api-abcd"}`, true},
		{`{"k8s_namespace": "tarifficator", "k8s_pod":"payment-api"}`, true},
		{`{"k8s_namespace": "payment-tarifficator", "k8s_pod":"payment-api"}`, false},
		{`{"k8s_namespace": "tarifficator", "k8s_pod":"no-payment-api"}`, false},
	}},
	{"or", `{"k8s_namespace":["payment","tarifficator"],"k8s_pod":"/^payment-api.*/"}`, "or", []exEvent{
		{`{"k8s_namespace": "payment", "k8s_pod":"payment-api-abcd"}`, true},
		{`{"k8s_namespace": "tarifficator", "k8s_pod":"payment-api"}`, true},
		{`{"k8s_namespace": "map", "k8s_pod":"payment-api"}`, true},
		{`{"k8s_namespace": "payment", "k8s_pod":"map-api"}`, true},
		{`{"k8s_namespace": "tarifficator", "k8s_pod":"tarifficator-go-api"}`, true},
		{`{"k8s_namespace": "sre", "k8s_pod":"cpu-quotas-abcd-1234"}`, false},
	}},
	{"and_prefix", `{"k8s_namespace":"payment","k8s_pod":"payment-api-"}`, "and_prefix", []exEvent{
		{`{"k8s_namespace": "payment", "k8s_pod":"payment-api-abcd-1234"}`, true},
		{`{"k8s_namespace": "payment-2", "k8s_pod":"payment-api-abcd-1234"}`, true},
		{`{"k8s_namespace": "payment", "k8s_pod":"checkout"}`, false},
		{`{"k8s_namespace": "map", "k8s_pod":"payment-api-abcd-1234"}`, false},
		{`{"k8s_namespace": "payment-abcd", "k8s_pod":"payment-api"}`, false},
	}},
	{"or_prefix", `{"k8s_namespace":["payment","tarifficator"],"k8s_pod":"/-api-.*/"}`, "or_prefix", []exEvent{
		{`{"k8s_namespace": "payment", "k8s_pod":"payment-api-abcd-1234"}`, true},
		{`{"k8s_namespace": "payment", "k8s_pod":"checkout"}`, true},
		{`{"k8s_namespace": "map", "k8s_pod":"map-go-api-abcd-1234"}`, true},
		{`{"k8s_namespace": "map", "k8s_pod":"payment-api"}`, false},
		{`{"k8s_namespace": "map", "k8s_pod":"payment-api-abcd-1234"}`, true},
		{`{"k8s_namespace": "tariff", "k8s_pod":"tarifficator"}`, false},
	}},
}

var podSvc = func(a, b, c, d bool) []exEvent {
	return []exEvent{
		{`{"pod":"test-pod-1","service":"test-service"}`, a},
		{`{"pod":"test-pod-2","service":"test-service-2"}`, b},
		{`{"pod":"test-pod","service":"test-service"}`, c},
		{`{"pod":"test-pod","service":"test-service-1"}`, d},
	}
}

var doifExamples = []doifExample{
	{"equal", `{"op":"equal","field":"pod","values":["test-pod-1","test-pod-2"]}`, podSvc(true, true, false, false)},
	{"contains", `{"op":"contains","field":"pod","values":["my-pod","my-test"]}`, []exEvent{
		{`{"pod":"test-my-pod-1","service":"test-service"}`, true},
		{`{"pod":"test-not-my-pod","service":"test-service-2"}`, true},
		{`{"pod":"my-test-pod","service":"test-service"}`, true},
		{`{"pod":"test-pod","service":"test-service-1"}`, false},
	}},
	{"contains_any", `{"op":"contains_any","field":"service","values":["!$#"]}`, []exEvent{
		{`{"pod":"test-pod","service":"test-service!"}`, true},
		{`{"pod":"test-pod","service":"#my_service#"}`, true},
		{`{"pod":"test-pod","service":"$$$"}`, true},
		{`{"pod":"test-pod","service":"test-service-1"}`, false},
	}},
	{"prefix", `{"op":"prefix","field":"pod","values":["test-1","test-2"]}`, []exEvent{
		{`{"pod":"test-1-pod-1","service":"test-service"}`, true},
		{`{"pod":"test-2-pod-2","service":"test-service-2"}`, true},
		{`{"pod":"test-pod","service":"test-service"}`, false},
		{`{"pod":"test-pod","service":"test-service-1"}`, false},
	}},
	{"suffix", `{"op":"suffix","field":"pod","values":["pod-1","pod-2"],"case_sensitive":true}`, []exEvent{
		{`{"pod":"test-1-pod-1","service":"test-service"}`, true},
		{`{"pod":"test-2-pod-2","service":"test-service-2"}`, true},
		{`{"pod":"test-pod","service":"test-service"}`, false},
		{`{"pod":"test-pod","service":"test-service-1"}`, false},
	}},
	{"regex", `{"op":"regex","field":"pod","values":["pod-\\d","my-test.*"]}`, []exEvent{
		{`{"pod":"test-1-pod-1","service":"test-service"}`, true},
		{`{"pod":"test-2-pod-2","service":"test-service-2"}`, true},
		{`{"pod":"test-pod","service":"test-service"}`, false},
		{`{"pod":"my-test-pod","service":"test-service-1"}`, true},
		{`{"pod":"my-test-instance","service":"test-service-1"}`, true},
		{`{"pod":"service123","service":"test-service-1"}`, false},
	}},
	{"or", `{"op":"or","operands":[{"op":"equal","field":"pod","values":["test-pod-1","test-pod-2"]},{"op":"equal","field":"service","values":["test-service"]}]}`, podSvc(true, true, true, false)},
	{"and", `{"op":"and","operands":[{"op":"equal","field":"pod","values":["test-pod-1","test-pod-2"]},{"op":"equal","field":"service","values":["test-service"]}]}`, podSvc(true, false, false, false)},
	{"not", `{"op":"not","operands":[{"op":"equal","field":"service","values":["test-service"]}]}`, podSvc(false, true, false, true)},
	{"byte_len_cmp", `{"op":"byte_len_cmp","field":"pod_id","cmp_op":"lt","value":5}`, []exEvent{
		{`{"pod_id":""}`, true},
		{`{"pod_id":123}`, true},
		{`{"pod_id":12345}`, false},
		{`{"pod_id":123456}`, false},
	}},
	{"array_len_cmp", `{"op":"array_len_cmp","field":"items","cmp_op":"lt","value":2}`, []exEvent{
		{`{"items":[]}`, true},
		{`{"items":[1]}`, true},
		{`{"items":[1, 2]}`, false},
		{`{"items":[1, 2, 3]}`, false},
		{`{"items":"1"}`, false},
		{`{"numbers":[1]}`, false},
	}},
	{"ts_cmp", `{"op":"ts_cmp","field":"timestamp","cmp_op":"lt","value":"2010-01-01T00:00:00Z","format":"2006-01-02T15:04:05.999999999Z07:00"}`, []exEvent{
		{`{"timestamp":"2000-01-01T00:00:00Z"}`, true},
		{`{"timestamp":"2008-01-01T00:00:00Z","id":1}`, true},
		{`{"pod_id":"some"}`, false},
		{`{"timestamp":123}`, false},
		{`{"timestamp":"qwe"}`, false},
		{`{"timestamp":"2011-01-01T00:00:00Z"}`, false},
	}},
	{"check_type", `{"op":"not","operands":[{"op":"check_type","field":"log","values":["obj","arr"]}]}`, []exEvent{
		{`{"log":{"message":"test"}}`, false},
		{`{"log":[{"message":"test"}]}`, false},
		{`{"log":"test"}`, true},
		{`{"log":123}`, true},
		{`{"log":null}`, true},
		{`{"not_log":{"test":"test"}}`, true},
	}},
}

// ---- converters from generic JSON to the models (examples only)

func valFromJSON(s string) *val {
	dec := json.NewDecoder(strings.NewReader(s))
	dec.UseNumber()
	v, err := valFromDecoder(dec)
	if err != nil {
		panic(fmt.Sprintf("valFromJSON(%s): %v", s, err))
	}
	return v
}

func valFromDecoder(dec *json.Decoder) (*val, error) {
	tok, err := dec.Token()
	if err != nil {
		return nil, err
	}
	switch t := tok.(type) {
	case json.Delim:
		switch t {
		case '{':
			o := vObj()
			for dec.More() {
				kt, err := dec.Token()
				if err != nil {
					return nil, err
				}
				c, err := valFromDecoder(dec)
				if err != nil {
					return nil, err
				}
				o.set(kt.(string), c)
			}
			_, err := dec.Token()
			return o, err
		case '[':
			a := vArr()
			for dec.More() {
				c, err := valFromDecoder(dec)
				if err != nil {
					return nil, err
				}
				a.kids = append(a.kids, c)
			}
			_, err := dec.Token()
			return a, err
		}
	case string:
		return vStr(t), nil
	case json.Number:
		return vNum(t.String()), nil
	case bool:
		return vBool(t), nil
	case nil:
		return vNull(), nil
	}
	return nil, fmt.Errorf("unexpected token %v", tok)
}

func ruleFromMap(m map[string]any) *rule {
	r := &rule{op: m["op"].(string)}
	if f, ok := m["field"].(string); ok && f != "" {
		r.path = strings.Split(f, ".") // the examples have no shielded dots
	}
	if ops, ok := m["operands"].([]any); ok {
		for _, o := range ops {
			r.kids = append(r.kids, ruleFromMap(o.(map[string]any)))
		}
	}
	if vals, ok := m["values"].([]any); ok {
		for _, v := range vals {
			r.values = append(r.values, sp(v.(string)))
		}
	}
	if cs, ok := m["case_sensitive"].(bool); ok {
		r.cs = 2
		if cs {
			r.cs = 1
		}
	}
	if c, ok := m["cmp_op"].(string); ok {
		r.cmp = c
	}
	switch v := m["value"].(type) {
	case json.Number:
		n, _ := v.Int64()
		r.n = int(n)
	case string:
		r.value = v
	}
	if f, ok := m["format"].(string); ok {
		r.format = f
	}
	return r
}

func ruleFromJSON(s string) *rule {
	dec := json.NewDecoder(bytes.NewReader([]byte(s)))
	dec.UseNumber()
	m := map[string]any{}
	if err := dec.Decode(&m); err != nil {
		panic(err)
	}
	return ruleFromMap(m)
}

func mfRuleFromExample(ex *mfExample) *mfRule {
	m := &mfRule{mode: ex.mode}
	raw := map[string]any{}
	if err := json.Unmarshal([]byte(ex.fields), &raw); err != nil {
		panic(err)
	}
	keys := make([]string, 0, len(raw))
	for k := range raw {
		keys = append(keys, k)
	}
	sortStrings(keys)
	for _, k := range keys {
		c := mfCond{path: []string{k}}
		switch v := raw[k].(type) {
		case string:
			if strings.HasPrefix(v, "/") {
				c.isRe, c.regex = true, v[1:len(v)-1]
			} else {
				c.bare, c.values = true, []string{v}
			}
		case []any:
			for _, x := range v {
				c.values = append(c.values, x.(string))
			}
		}
		m.conds = append(m.conds, c)
	}
	return m
}
