package main

// Event model and rule model shared by the generators, the naive evaluator
// (ref.go) and the drivers. The event is a Go tree that is serialised to JSON
// text by this file (never parsed back by the oracle), so the oracle does not
// depend on insane-json in any way.

import (
	"fmt"
	"sort"
	"strconv"
	"strings"
	"unicode/utf8"
)

type kind int

const (
	kAbsent kind = iota
	kNull
	kBool
	kNum
	kStr
	kObj
	kArr
)

func (k kind) String() string {
	return [...]string{"absent", "null", "bool", "num", "str", "obj", "arr"}[k]
}

// val is one JSON value of a generated event.
type val struct {
	k    kind
	s    string // kStr: decoded text; kNum: raw literal; kBool: "true"/"false"
	esc  int    // kStr: serialisation style (0 plain, 1 \uXXXX for non-ASCII, 2 \/ and \u for some ASCII); kObj: style of the keys
	keys []string
	kids []*val
}

func vStr(s string) *val   { return &val{k: kStr, s: s} }
func vNum(raw string) *val { return &val{k: kNum, s: raw} }
func vNull() *val          { return &val{k: kNull} }
func vBool(b bool) *val {
	if b {
		return &val{k: kBool, s: "true"}
	}
	return &val{k: kBool, s: "false"}
}
func vObj() *val             { return &val{k: kObj} }
func vArr(kids ...*val) *val { return &val{k: kArr, kids: kids} }

func (v *val) kindOf() kind {
	if v == nil {
		return kAbsent
	}
	return v.k
}

// set puts child under key (replacing an existing one).
func (v *val) set(key string, child *val) {
	for i, k := range v.keys {
		if k == key {
			v.kids[i] = child
			return
		}
	}
	v.keys = append(v.keys, key)
	v.kids = append(v.kids, child)
}

func (v *val) get(key string) *val {
	if v == nil || v.k != kObj {
		return nil
	}
	for i, k := range v.keys {
		if k == key {
			return v.kids[i]
		}
	}
	return nil
}

// lookup follows a path of object keys ("path to field in JSON tree"); nil = absent.
// An empty path is the root value.
func lookup(root *val, path []string) *val {
	cur := root
	for _, seg := range path {
		cur = cur.get(seg)
		if cur == nil {
			return nil
		}
	}
	return cur
}

// setPath creates intermediate objects as needed; returns false when an
// intermediate value exists and is not an object (the path stays absent).
func setPath(root *val, path []string, child *val) bool {
	cur := root
	for i, seg := range path {
		if cur.k != kObj {
			return false
		}
		if i == len(path)-1 {
			cur.set(seg, child)
			return true
		}
		next := cur.get(seg)
		if next == nil {
			next = vObj()
			cur.set(seg, next)
		}
		cur = next
	}
	return false
}

const hexdigits = "0123456789abcdef"

func appendU(b []byte, r rune) []byte {
	return append(b, '\\', 'u', hexdigits[(r>>12)&15], hexdigits[(r>>8)&15], hexdigits[(r>>4)&15], hexdigits[r&15])
}

// needsEscape reports whether the text cannot be written between quotes as is.
func needsEscape(s string) bool {
	for i := 0; i < len(s); i++ {
		if c := s[i]; c < 0x20 || c == '"' || c == '\\' {
			return true
		}
	}
	return false
}

func appendJSONString(b []byte, s string, style int) []byte {
	b = append(b, '"')
	n := 0
	for _, r := range s {
		n++
		switch {
		case r == '"':
			b = append(b, '\\', '"')
		case r == '\\':
			b = append(b, '\\', '\\')
		case r == '\n':
			b = append(b, '\\', 'n')
		case r == '\t':
			b = append(b, '\\', 't')
		case r == '\r':
			b = append(b, '\\', 'r')
		case r < 0x20:
			b = appendU(b, r)
		case r == '/' && style == 2:
			b = append(b, '\\', '/')
		case r < 0x80 && style == 2 && n%3 == 0 && r != ' ':
			b = appendU(b, r)
		case r >= 0x80 && style >= 1:
			if r >= 0x10000 {
				r -= 0x10000
				b = appendU(b, 0xd800+(r>>10))
				b = appendU(b, 0xdc00+(r&0x3ff))
			} else {
				b = appendU(b, r)
			}
		default:
			b = utf8.AppendRune(b, r)
		}
	}
	return append(b, '"')
}

// writtenEscaped reports whether the serialised form of the string differs
// from quote+text+quote.
func (v *val) writtenEscaped() bool {
	if needsEscape(v.s) {
		return true
	}
	if v.esc == 0 {
		return false
	}
	return string(appendJSONString(nil, v.s, v.esc)) != `"`+v.s+`"`
}

func (v *val) appendJSON(b []byte) []byte {
	switch v.k {
	case kNull:
		return append(b, "null"...)
	case kBool, kNum:
		return append(b, v.s...)
	case kStr:
		return appendJSONString(b, v.s, v.esc)
	case kArr:
		b = append(b, '[')
		for i, c := range v.kids {
			if i > 0 {
				b = append(b, ',')
			}
			b = c.appendJSON(b)
		}
		return append(b, ']')
	case kObj:
		b = append(b, '{')
		for i, c := range v.kids {
			if i > 0 {
				b = append(b, ',')
			}
			b = appendJSONString(b, v.keys[i], v.esc)
			b = append(b, ':')
			b = c.appendJSON(b)
		}
		return append(b, '}')
	}
	panic("appendJSON: bad kind")
}

func (v *val) JSON() string { return string(v.appendJSON(nil)) }

// ---------------------------------------------------------------------
// do_if rule model

type rule struct {
	op string

	// leaves
	path   []string
	cs     int       // field ops: 0 omitted (default true), 1 true, 2 false
	values []*string // field ops / check_type; nil element = JSON null
	cmp    string    // len/ts ops
	n      int       // len ops: value
	format string    // ts_cmp: "" = omitted
	value  string    // ts_cmp: RFC3339Nano | now | file_d_start
	shift  string    // ts_cmp: "" = omitted
	intv   string    // ts_cmp: "" = omitted

	// logical
	kids []*rule
}

func (r *rule) isLogical() bool { return r.op == "and" || r.op == "or" || r.op == "not" }
func (r *rule) isFieldOp() bool {
	switch r.op {
	case "equal", "contains", "contains_any", "prefix", "suffix", "regex":
		return true
	}
	return false
}
func (r *rule) caseSensitive() bool { return r.cs != 2 }

// selector renders path segments as a field selector: dots delimit, a dot
// inside a name is shielded with a backslash (README of doif / match_fields).
func selector(path []string) string {
	parts := make([]string, len(path))
	for i, p := range path {
		parts[i] = strings.ReplaceAll(p, ".", `\.`)
	}
	return strings.Join(parts, ".")
}

// toMap renders the rule as the configuration map (as it would come from
// the YAML/JSON config). perm, when not nil, permutes value lists and and/or
// operands (orders the documentation calls irrelevant).
func (r *rule) toMap(perm func(n int) []int) map[string]any {
	order := func(n int) []int {
		if perm == nil {
			o := make([]int, n)
			for i := range o {
				o[i] = i
			}
			return o
		}
		return perm(n)
	}
	m := map[string]any{"op": r.op}
	switch {
	case r.isLogical():
		ops := make([]any, 0, len(r.kids))
		for _, i := range order(len(r.kids)) {
			ops = append(ops, r.kids[i].toMap(perm))
		}
		m["operands"] = ops
	case r.isFieldOp() || r.op == "check_type":
		m["field"] = selector(r.path)
		vals := make([]any, 0, len(r.values))
		for _, i := range order(len(r.values)) {
			if r.values[i] == nil {
				vals = append(vals, nil)
			} else {
				vals = append(vals, *r.values[i])
			}
		}
		m["values"] = vals
		if r.isFieldOp() {
			switch r.cs {
			case 1:
				m["case_sensitive"] = true
			case 2:
				m["case_sensitive"] = false
			}
		}
	case r.op == "byte_len_cmp" || r.op == "array_len_cmp" || r.op == "int_val_cmp":
		m["field"] = selector(r.path)
		m["cmp_op"] = r.cmp
		m["value"] = r.n
	case r.op == "ts_cmp":
		m["field"] = selector(r.path)
		m["cmp_op"] = r.cmp
		m["value"] = r.value
		if r.format != "" {
			m["format"] = r.format
		}
		if r.shift != "" {
			m["value_shift"] = r.shift
		}
		if r.intv != "" {
			m["update_interval"] = r.intv
		}
	default:
		panic("toMap: unknown op " + r.op)
	}
	return m
}

// shape is the structure of the rule without values (for fingerprints).
func (r *rule) shape() string {
	if r.isLogical() {
		parts := make([]string, len(r.kids))
		for i, k := range r.kids {
			parts[i] = k.shape()
		}
		return r.op + "(" + strings.Join(parts, ",") + ")"
	}
	s := r.op
	if r.isFieldOp() {
		if !r.caseSensitive() {
			s += "/ci"
		}
		s += "#" + strconv.Itoa(len(r.values))
	}
	if r.cmp != "" {
		s += "/" + r.cmp
	}
	if r.op == "ts_cmp" {
		switch r.value {
		case "now", "file_d_start":
			s += "/" + r.value
		default:
			s += "/const"
		}
		if r.format != "" {
			s += "/" + r.format
		}
	}
	return s
}

func (r *rule) leaves(out []*rule) []*rule {
	if r.isLogical() {
		for _, k := range r.kids {
			out = k.leaves(out)
		}
		return out
	}
	return append(out, r)
}

func (r *rule) depth() int {
	d := 0
	for _, k := range r.kids {
		if kd := k.depth(); kd > d {
			d = kd
		}
	}
	if r.isLogical() {
		return d + 1
	}
	return 0
}

// ---------------------------------------------------------------------
// match_fields rule model

type mfCond struct {
	path   []string
	values []string // exact / prefix values
	bare   bool     // single value written as a bare string instead of a list
	regex  string   // when != "" the condition is the regexp /regex/ (values unused)
	isRe   bool
}

type mfRule struct {
	conds  []mfCond
	mode   string // "", and, or, and_prefix, or_prefix
	invert int    // 0 omitted, 1 false, 2 true
}

func (m *mfRule) inverted() bool { return m.invert == 2 }
func (m *mfRule) effMode() string {
	if m.mode == "" {
		return "and"
	}
	return m.mode
}

// actionFields renders the selector part of an action config.
func (m *mfRule) actionFields(perm func(n int) []int) map[string]any {
	out := map[string]any{}
	if len(m.conds) > 0 {
		mf := map[string]any{}
		for _, c := range m.conds {
			switch {
			case c.isRe:
				mf[selector(c.path)] = "/" + c.regex + "/"
			case c.bare:
				mf[selector(c.path)] = c.values[0]
			default:
				vals := make([]any, 0, len(c.values))
				if perm == nil {
					for _, v := range c.values {
						vals = append(vals, v)
					}
				} else {
					for _, i := range perm(len(c.values)) {
						vals = append(vals, c.values[i])
					}
				}
				mf[selector(c.path)] = vals
			}
		}
		out["match_fields"] = mf
	}
	if m.mode != "" {
		out["match_mode"] = m.mode
	}
	switch m.invert {
	case 1:
		out["match_invert"] = false
	case 2:
		out["match_invert"] = true
	}
	return out
}

func (m *mfRule) shape() string {
	parts := make([]string, 0, len(m.conds))
	for _, c := range m.conds {
		switch {
		case c.isRe:
			parts = append(parts, "re")
		case c.bare:
			parts = append(parts, "bare")
		default:
			parts = append(parts, fmt.Sprintf("vals%d", len(c.values)))
		}
	}
	sort.Strings(parts)
	return fmt.Sprintf("%s/inv%d[%s]", m.effMode(), m.invert, strings.Join(parts, ","))
}
