package main

// Generators of vocabularies, events, do_if trees and match_fields rules.
// Everything is derived from a *rand.Rand seeded from VERIF_SEED.

import (
	"fmt"
	"math/rand"
	"regexp"
	"strconv"
	"strings"
	"time"
	"unicode"
	"unicode/utf8"
)

// base words: ASCII with mixed case, separators, shared prefixes/suffixes,
// multi-byte text, and runes whose lower/upper case has another UTF-8 length
// (K U+212A -> k, Å U+212B -> å, ẞ U+1E9E -> ß, Ⱥ U+023A -> ⱥ U+2C65, İ U+0130 -> i).
var baseWords = []string{
	"payment", "payment-api", "payment-api-abcd", "tarifficator", "pod-1", "pod-2", "my-test-pod",
	"Test-Pod", "ERROR", "error", "Error: timeout", "a", "ab", "abc", "abcabc", "aaa", "aa",
	"x", "/abc/", "/x", "0", "12", "123", "-5", "null", "true", "false", "{}", "[]",
	"\u043f\u0440\u0438\u0432\u0435\u0442", "\u041f\u0440\u0438\u0432\u0435\u0442 \u041c\u0438\u0440", "\u041f\u041e\u0414-1",
	"\u65e5\u672c\u8a9e\u30ed\u30b0", "na\u00efve caf\u00e9", "\u00c0\u00c9\u00ce", "\u00e0\u00e9\u00ee", "\U0001f600 ok", "a\U0001f600b",
	"Kelvin", "kelvin", "\u212aelvin", "K8S", "k8s", "\u212a8S", "\u212a", "k", "K", "\u212b", "\u00e5", "\u00c5",
	"stra\u1e9ee", "stra\u00dfe", "\u1e9e", "\u023ab", "\u2c65b", "\u023a", "\u023e", "\u0130stanbul", "istanbul", "i\u0307", "\u0130",
	"\u01c5", "\u01c6", "\u2126", "\u03c9", "\u03a3\u03af\u03c3\u03c5\u03c6\u03bf\u03c2", "\u03a3\u038a\u03a3\u03a5\u03a6\u039f\u03a3",
	"line1\nline2", "tab\there", `quo"te`, `back\slash`, "sp ace", "!$#", "$$$", "a.b", "a*b", "(x)", "[z]",
	"with/slash", "<tag>&", "\u00e9", "e\u0301", "\x7f", "\u00df", "SS", "ss",
}

var tailPool = []string{"x", "-1", "z", "\u00e9", "\u042f", "\u212a", "\u023a", "\U0001f600", " ", "0", ".", "A", "a", "k", "\u1e9e"}

// segment names for field paths
var segPool = []string{"a", "b", "msg", "level", "k8s_pod", "k8s_namespace", "x.y", "имя", "ts", "items", "n", "pod", "service", "log"}

type vocab struct {
	paths  [][]string
	strs   []string
	tsBase []time.Time // thresholds used by ts rules of this batch
	nums   []string

	// leaves / conditions of the batch's rules by field selector: generic
	// events aim at them too, so that every event is relevant to many rules
	longText  bool     // concurrent clause: many long (mostly ASCII-padded) texts, so that a check takes longer
	ciBias    bool     // concurrent clause: most field ops are case-insensitive
	tsFormat  string   // the format most ts rules of the batch use
	family    []string // per path: the kind of data the field usually carries (text, ts, arr, int)
	targets   map[string][]*rule
	mfTargets map[string][]*mfCond
}

func pick[T any](rng *rand.Rand, xs []T) T { return xs[rng.Intn(len(xs))] }

func runesOf(s string) []rune { return []rune(s) }

func swapCase(rng *rand.Rand, s string, p float64) string {
	var b strings.Builder
	for _, r := range s {
		if rng.Float64() < p {
			if unicode.IsUpper(r) {
				r = unicode.ToLower(r)
			} else {
				r = unicode.ToUpper(r)
			}
		}
		b.WriteRune(r)
	}
	return b.String()
}

// mutate derives a related text: same, case variants, prefixes, suffixes,
// extensions by one rune at either end, inner substrings, one rune replaced.
func mutate(rng *rand.Rand, s string) string {
	rs := runesOf(s)
	switch rng.Intn(16) {
	case 0, 1, 2:
		return s
	case 3:
		return strings.ToUpper(s)
	case 4:
		return strings.ToLower(s)
	case 5:
		return swapCase(rng, s, 0.5)
	case 6:
		if len(rs) > 0 {
			return string(rs[:rng.Intn(len(rs)+1)])
		}
	case 7:
		if len(rs) > 0 {
			return string(rs[rng.Intn(len(rs)+1):])
		}
	case 8:
		return s + pick(rng, tailPool)
	case 9:
		return pick(rng, tailPool) + s
	case 10:
		return pick(rng, tailPool) + s + pick(rng, tailPool)
	case 11:
		if len(rs) > 1 {
			i := rng.Intn(len(rs))
			j := i + rng.Intn(len(rs)-i+1)
			return string(rs[i:j])
		}
	case 12:
		if len(rs) > 0 {
			i := rng.Intn(len(rs))
			c := append([]rune{}, rs...)
			c[i] = runesOf(pick(rng, tailPool))[0]
			return string(c)
		}
	case 13:
		return s + s
	case 14:
		return swapCase(rng, s, 1) + pick(rng, tailPool)
	case 15:
		if len(rs) > 1 {
			return string(rs[:len(rs)-1])
		}
	}
	return s
}

func longPad(rng *rand.Rand) string {
	return strings.Repeat(pick(rng, []string{"-", "x", "Zq", "pad ", "0"}), 30+rng.Intn(120))
}

func genVocab(rng *rand.Rand) *vocab {
	v := &vocab{}
	// paths: 3-5 top-level, 1-3 nested below a shared parent
	segs := rng.Perm(len(segPool))
	nTop := 2 + rng.Intn(2)
	for i := 0; i < nTop; i++ {
		v.paths = append(v.paths, []string{segPool[segs[i]]})
	}
	parent := segPool[segs[nTop]]
	nNest := 1 + rng.Intn(2)
	for i := 0; i < nNest; i++ {
		p := []string{parent, segPool[segs[nTop+1+i]]}
		if rng.Intn(3) == 0 {
			p = append(p, "leaf")
		}
		v.paths = append(v.paths, p)
	}
	if rng.Intn(4) == 0 {
		v.paths = append(v.paths, []string{parent}) // the parent itself (an object most of the time)
	}
	for i := range v.paths {
		v.family = append(v.family, []string{"text", "ts", "arr", "int", "text", "text", "ts"}[i%7])
	}
	v.tsFormat = pick(rng, tsFormats)
	// strings: 3-5 base words and derivations
	nBase := 3 + rng.Intn(3)
	for i := 0; i < nBase; i++ {
		w := pick(rng, baseWords)
		v.strs = append(v.strs, w)
		for j := 0; j < 4; j++ {
			v.strs = append(v.strs, mutate(rng, w))
		}
	}
	v.strs = append(v.strs, "")
	v.nums = []string{"0", "1", "-1", "5", "12", "123", "12345", "-3", "1.5", "0.4", "1e3", "-0", "2.0", "9223372036854775807", "123456789012345678901", "0.0", "100"}
	// timestamps: 2 constant thresholds; instants at whole seconds or with nanoseconds
	for i := 0; i < 2; i++ {
		sec := int64(946684800) + rng.Int63n(1_200_000_000) // 2000 .. 2038
		nsec := int64(0)
		if rng.Intn(2) == 0 {
			nsec = rng.Int63n(1e9)
		}
		v.tsBase = append(v.tsBase, time.Unix(sec, nsec).UTC())
	}
	return v
}

// ---------------------------------------------------------------------
// do_if rules

var cmpOps = []string{"lt", "le", "gt", "ge", "eq", "ne"}

var tsFormats = []string{"", "", "rfc3339nano", "rfc3339", "rfc1123z", "rubydate", "ansic", "nginx_errorlog",
	"unixtime", "unixtimemilli", "unixtimemicro", "unixtimenano", "2006-01-02 15:04:05.000", "02/Jan/2006:15:04:05 -0700"}

var typeNames = []string{"object", "obj", "array", "arr", "number", "num", "string", "str", "null", "nil"}

func sp(s string) *string { return &s }

func genRegex(rng *rand.Rand, voc *vocab) string {
	w := pick(rng, voc.strs)
	rs := runesOf(w)
	switch rng.Intn(14) {
	case 0:
		return regexp.QuoteMeta(w)
	case 1:
		return "^" + regexp.QuoteMeta(w)
	case 2:
		return regexp.QuoteMeta(w) + "$"
	case 3:
		return "^" + regexp.QuoteMeta(w) + "$"
	case 4:
		if len(rs) > 1 {
			return "^" + regexp.QuoteMeta(string(rs[:1+rng.Intn(len(rs)-1)])) + ".*"
		}
		return `^.+$`
	case 5:
		return `\d+`
	case 6:
		return `^$`
	case 7:
		return `.*`
	case 8:
		return `^.$`
	case 9:
		return `pod-\d`
	case 10:
		return `[A-Z]+`
	case 11:
		return `^[^a]`
	case 12:
		return "(" + regexp.QuoteMeta(w) + "|" + regexp.QuoteMeta(pick(rng, voc.strs)) + ")-?\\d*$"
	default:
		return `(?i)` + regexp.QuoteMeta(w)
	}
}

func genLeaf(rng *rand.Rand, voc *vocab, allowNow bool) *rule {
	r := &rule{path: pick(rng, voc.paths)}
	if rng.Intn(40) == 0 {
		r.path = nil // root value
	}
	x := rng.Intn(100)
	switch {
	case x < 60:
		ops := []string{"equal", "equal", "contains", "contains", "contains_any", "prefix", "prefix", "prefix", "suffix", "suffix", "suffix", "regex", "regex"}
		r.op = pick(rng, ops)
		r.cs = pick(rng, []int{0, 0, 1, 2, 2})
		if voc.ciBias && rng.Intn(100) < 60 {
			r.cs = 2
		}
		switch r.op {
		case "contains_any":
			w := pick(rng, voc.strs)
			if w == "" {
				w = "!$#"
			}
			if rng.Intn(3) == 0 {
				w = mutate(rng, w)
				if w == "" {
					w = "\u00e9-"
				}
			}
			r.values = []*string{sp(w)}
		case "regex":
			n := 1 + rng.Intn(3)
			for i := 0; i < n; i++ {
				r.values = append(r.values, sp(genRegex(rng, voc)))
			}
		default:
			n := 1 + rng.Intn(4)
			for i := 0; i < n; i++ {
				w := pick(rng, voc.strs)
				if rng.Intn(3) == 0 {
					w = mutate(rng, w)
				}
				r.values = append(r.values, sp(w))
			}
			if rng.Intn(8) == 0 { // duplicate
				r.values = append(r.values, r.values[0])
			}
			if r.op == "equal" && rng.Intn(12) == 0 {
				r.values[rng.Intn(len(r.values))] = nil // JSON null: "field is null or absent"
			}
		}
	case x < 68:
		r.op, r.cmp = "byte_len_cmp", pick(rng, cmpOps)
		w := pick(rng, voc.strs)
		r.n = len(w) + rng.Intn(3) - 1
		if rng.Intn(4) == 0 {
			r.n = rng.Intn(12)
		}
		if r.n < 0 {
			r.n = 0
		}
	case x < 74:
		r.op, r.cmp = "array_len_cmp", pick(rng, cmpOps)
		r.n = rng.Intn(4)
	case x < 80:
		r.op, r.cmp = "int_val_cmp", pick(rng, cmpOps)
		r.n = pick(rng, []int{0, 1, 5, 12, 100, 123, 12345})
	case x < 90:
		r.op, r.cmp = "ts_cmp", pick(rng, cmpOps)
		r.format = voc.tsFormat
		if rng.Intn(100) < 35 {
			r.format = pick(rng, tsFormats)
		}
		y := rng.Intn(10)
		switch {
		case allowNow && y == 0:
			r.value = "now"
			r.intv = pick(rng, []string{"", "5s", "1h", "72h", "240h", "240h"})
			r.shift = pick(rng, []string{"", "-48h", "72h", "-1000h", "240h30m"})
		case allowNow && y == 1:
			r.value = "file_d_start"
			r.shift = pick(rng, []string{"", "-48h", "72h"})
		default:
			r.value = pick(rng, voc.tsBase).Format(time.RFC3339Nano)
			r.shift = pick(rng, []string{"", "", "", "1h", "-24h", "1ns", "-1ns", "90m"})
		}
	default:
		r.op = "check_type"
		n := 1 + rng.Intn(3)
		for i := 0; i < n; i++ {
			r.values = append(r.values, sp(pick(rng, typeNames)))
		}
	}
	// fields have habits: most of the time a leaf looks at a field that usually carries its kind of data
	fam := "text"
	switch r.op {
	case "ts_cmp":
		fam = "ts"
	case "array_len_cmp":
		fam = "arr"
	case "int_val_cmp":
		fam = "int"
	case "check_type", "byte_len_cmp":
		fam = ""
	}
	if fam != "" && r.path != nil && rng.Intn(100) < 75 {
		var cands [][]string
		for i, f := range voc.family {
			if f == fam {
				cands = append(cands, voc.paths[i])
			}
		}
		if len(cands) > 0 {
			r.path = pick(rng, cands)
		}
	}
	return r
}

func genRule(rng *rand.Rand, voc *vocab, depth int, allowNow bool) *rule {
	if depth <= 0 || rng.Intn(100) < 35 {
		return genLeaf(rng, voc, allowNow)
	}
	r := &rule{op: pick(rng, []string{"and", "and", "or", "or", "not"})}
	n := 1
	if r.op != "not" {
		n = 1 + rng.Intn(4)
	}
	for i := 0; i < n; i++ {
		r.kids = append(r.kids, genRule(rng, voc, depth-1, allowNow))
	}
	return r
}

// tsThreshold is the instant a ts rule compares with (for generating field
// timestamps around it).
func tsThreshold(r *rule, now time.Time) time.Time {
	var t time.Time
	switch r.value {
	case "now":
		t = now
		intv := 10 * time.Second
		if r.intv != "" {
			intv, _ = time.ParseDuration(r.intv)
		}
		t = t.Add(intv)
	case "file_d_start":
		t = now
	default:
		t, _ = time.Parse(time.RFC3339Nano, r.value)
	}
	if r.shift != "" {
		d, _ := time.ParseDuration(r.shift)
		t = t.Add(d)
	}
	return t
}

func formatTs(format string, t time.Time) string {
	switch format {
	case "", "rfc3339nano":
		return t.Format(time.RFC3339Nano)
	case "unixtime":
		return strconv.FormatInt(t.Unix(), 10)
	case "unixtimemilli":
		return strconv.FormatInt(t.UnixMilli(), 10)
	case "unixtimemicro":
		return strconv.FormatInt(t.UnixMicro(), 10)
	case "unixtimenano":
		return strconv.FormatInt(t.UnixNano(), 10)
	}
	if l, ok := tsAliases[format]; ok {
		return t.Format(l)
	}
	return t.Format(format)
}

// ---------------------------------------------------------------------
// events

func genString(rng *rand.Rand, voc *vocab) *val {
	w := pick(rng, voc.strs)
	if rng.Intn(2) == 0 {
		w = mutate(rng, w)
	}
	if rng.Intn(25) == 0 {
		// long text (beyond small-buffer sizes) that still starts/ends like the word
		w = w + strings.Repeat(pick(rng, []string{"-", "x", "\u00e9", w}), 20+rng.Intn(80)) + w
	} else if voc.longText && rng.Intn(100) < 40 {
		w = w + longPad(rng) + w
	}
	v := vStr(w)
	if rng.Intn(6) == 0 {
		v.esc = 1 + rng.Intn(2)
	}
	return v
}

func genSmall(rng *rand.Rand, voc *vocab, depth int) *val {
	switch x := rng.Intn(10); {
	case x < 4:
		return genString(rng, voc)
	case x < 6:
		return vNum(pick(rng, voc.nums))
	case x == 6:
		return vNull()
	case x == 7:
		return vBool(rng.Intn(2) == 0)
	case x == 8 && depth > 0:
		n := rng.Intn(4)
		a := vArr()
		for i := 0; i < n; i++ {
			a.kids = append(a.kids, genSmall(rng, voc, depth-1))
		}
		return a
	case depth > 0:
		o := vObj()
		n := rng.Intn(3)
		for i := 0; i < n; i++ {
			o.set(pick(rng, []string{"k", "key2", "sub", "\u0451"}), genSmall(rng, voc, depth-1))
		}
		return o
	}
	return genString(rng, voc)
}

func genValue(rng *rand.Rand, voc *vocab) *val {
	switch x := rng.Intn(100); {
	case x < 58:
		return genString(rng, voc)
	case x < 70:
		return vNum(pick(rng, voc.nums))
	case x < 75:
		return vNull()
	case x < 80:
		return vBool(rng.Intn(2) == 0)
	case x < 90:
		n := rng.Intn(4)
		a := vArr()
		for i := 0; i < n; i++ {
			a.kids = append(a.kids, genSmall(rng, voc, 2))
		}
		return a
	default:
		o := vObj()
		n := rng.Intn(3)
		for i := 0; i < n; i++ {
			o.set(pick(rng, []string{"k", "key2", "sub", "\u0451"}), genSmall(rng, voc, 2))
		}
		return o
	}
}

// targetValue makes a value aimed at the boundaries of one leaf.
func targetValue(rng *rand.Rand, voc *vocab, l *rule, now time.Time) *val {
	switch {
	case l.isFieldOp():
		if l.op == "regex" {
			return genString(rng, voc)
		}
		var cands []string
		for _, p := range l.values {
			if p != nil {
				cands = append(cands, *p)
			}
		}
		if len(cands) == 0 {
			return genValue(rng, voc)
		}
		w := pick(rng, cands)
		if l.op == "contains_any" {
			rs := runesOf(w)
			base := pick(rng, voc.strs)
			if rng.Intn(2) == 0 {
				return vStr(base + string(rs[rng.Intn(len(rs))]) + "q")
			}
			return vStr(swapCase(rng, base, 0.3))
		}
		w = mutate(rng, w)
		if rng.Intn(3) == 0 {
			w = mutate(rng, w)
		}
		if voc.longText && rng.Intn(100) < 40 {
			switch l.op {
			case "contains":
				w = longPad(rng) + w + longPad(rng)
			case "prefix":
				w += longPad(rng)
			case "suffix":
				w = longPad(rng) + w
			}
		}
		v := vStr(w)
		if rng.Intn(6) == 0 {
			v.esc = 1 + rng.Intn(2)
		}
		return v
	case l.op == "byte_len_cmp":
		n := l.n + rng.Intn(3) - 1
		if n < 0 {
			n = 0
		}
		switch rng.Intn(5) {
		case 0: // number literal of that length
			if n == 0 {
				return vStr("")
			}
			return vNum("1" + strings.Repeat("0", n-1))
		case 1: // multi-byte text of about that many bytes
			s := ""
			for len(s)+2 <= n {
				s += "\u00e9"
			}
			for len(s) < n {
				s += "z"
			}
			return vStr(s)
		case 2: // array / object of about that size
			if rng.Intn(2) == 0 {
				a := vArr()
				for i := 0; i*2+1 < n; i++ {
					a.kids = append(a.kids, vNum(strconv.Itoa(i%10)))
				}
				return a
			}
			o := vObj()
			if n >= 8 {
				o.set("k", vStr(strings.Repeat("v", n-8)))
			}
			return o
		default:
			return vStr(strings.Repeat("a", n))
		}
	case l.op == "array_len_cmp":
		n := l.n + rng.Intn(3) - 1
		if n < 0 {
			n = 0
		}
		a := vArr()
		for i := 0; i < n; i++ {
			a.kids = append(a.kids, genSmall(rng, voc, 1))
		}
		return a
	case l.op == "int_val_cmp":
		n := l.n + rng.Intn(3) - 1
		s := strconv.Itoa(n)
		switch rng.Intn(6) {
		case 0:
			return vStr(s)
		case 1:
			return vStr(s + "abc")
		case 2:
			return vNum(strconv.Itoa(-n))
		default:
			return vNum(s)
		}
	case l.op == "ts_cmp":
		thr := tsThreshold(l, now)
		var t time.Time
		volatile := l.value == "now" || l.value == "file_d_start"
		switch x := rng.Intn(8); {
		case x == 0 && !volatile:
			t = thr
		case x == 1 && !volatile:
			t = thr.Add(time.Duration(rng.Intn(3)-1) * time.Nanosecond)
		case x == 2 && !volatile:
			t = thr.Add(time.Duration(rng.Intn(3)-1) * time.Second)
		case x == 3 && !volatile:
			// anywhere within 1.5 s: sub-second digits decide
			t = thr.Add(time.Duration(rng.Int63n(3_000_000_000) - 1_500_000_000))
		default:
			// never closer than a day to a wall-clock based threshold; half of
			// the time within a few days of it (so that a wrong update_interval /
			// value_shift term of hours or days flips the decision)
			d := 24*time.Hour + time.Duration(rng.Int63n(int64(5000*time.Hour)))
			if rng.Intn(2) == 0 {
				d = 24*time.Hour + time.Duration(rng.Int63n(int64(96*time.Hour)))
			}
			if rng.Intn(2) == 0 {
				d = -d
			}
			t = thr.Add(d)
		}
		if rng.Intn(3) == 0 {
			t = t.In(time.FixedZone("", (rng.Intn(25)-12)*3600+pick(rng, []int{0, 0, 1800})))
		} else {
			t = t.UTC()
		}
		switch rng.Intn(12) {
		case 0:
			return vStr("qwe")
		case 1: // a valid time in another format
			return vStr(formatTs(pick(rng, tsFormats), t))
		case 2:
			if l.format == "unixtime" {
				return vStr(fmt.Sprintf("%d.%s", t.Unix(), pick(rng, []string{"5", "05", "123456789", "000000001", "999"})))
			}
			return vNum(strconv.FormatInt(t.Unix(), 10)) // a number is "not string"
		}
		return vStr(formatTs(l.format, t))
	case l.op == "check_type":
		return genValue(rng, voc)
	}
	return genValue(rng, voc)
}

// genEvent builds a root object; leaves (may be nil) are aimed at.
func genEvent(rng *rand.Rand, voc *vocab, leaves []*rule, now time.Time) *val {
	root := vObj()
	order := rng.Perm(len(voc.paths))
	for _, i := range order {
		p := voc.paths[i]
		if rng.Intn(100) < 22 {
			continue // absent
		}
		sel := selector(p)
		switch {
		case len(voc.targets[sel]) > 0 && rng.Intn(100) < 55:
			setPath(root, p, targetValue(rng, voc, pick(rng, voc.targets[sel]), now))
		case len(voc.mfTargets[sel]) > 0 && rng.Intn(100) < 55:
			setPath(root, p, mfTargetValue(rng, voc, pick(rng, voc.mfTargets[sel])))
		default:
			setPath(root, p, genValue(rng, voc))
		}
	}
	if rng.Intn(3) == 0 {
		root.set("extra", genSmall(rng, voc, 1))
	}
	if rng.Intn(10) == 0 {
		// many keys: insane-json switches to a map index above 16 fields
		n := 14 + rng.Intn(12)
		for i := 0; i < n; i++ {
			root.set("pad"+strconv.Itoa(i), genSmall(rng, voc, 0))
		}
	}
	if rng.Intn(12) == 0 {
		root.esc = 1 + rng.Intn(2) // keys written with \u escapes
	}
	for _, l := range leaves {
		if len(l.path) == 0 || rng.Intn(100) < 25 {
			continue
		}
		setPath(root, l.path, targetValue(rng, voc, l, now))
	}
	if rng.Intn(12) == 0 && len(voc.paths) > 0 {
		// a parent of nested paths that is not an object
		p := voc.paths[len(voc.paths)-1]
		if len(p) > 1 {
			root.set(p[0], pick(rng, []*val{vStr("scalar"), vNum("7"), vNull(), vArr(vStr("x"))}))
		}
	}
	// shuffle key order of the root
	perm := rng.Perm(len(root.keys))
	keys := make([]string, len(perm))
	kids := make([]*val, len(perm))
	for i, j := range perm {
		keys[i], kids[i] = root.keys[j], root.kids[j]
	}
	root.keys, root.kids = keys, kids
	return root
}

// ---------------------------------------------------------------------
// match_fields rules

func genMfRule(rng *rand.Rand, voc *vocab) *mfRule {
	m := &mfRule{
		mode:   pick(rng, []string{"", "and", "and", "or", "or", "and_prefix", "and_prefix", "or_prefix", "or_prefix"}),
		invert: pick(rng, []int{0, 0, 1, 2, 2}),
	}
	n := 1 + rng.Intn(3)
	if n > len(voc.paths) {
		n = len(voc.paths)
	}
	if rng.Intn(40) == 0 && m.effMode() == "and" {
		n = 0 // no selector at all: the action applies to every event
		m.mode = ""
	}
	order := rng.Perm(len(voc.paths))
	for i := 0; i < n; i++ {
		c := mfCond{path: voc.paths[order[i]]}
		switch x := rng.Intn(10); {
		case x < 3:
			c.isRe = true
			c.regex = genRegex(rng, voc)
			if c.regex == "" || strings.Contains(c.regex, "\n") {
				c.regex = "a"
			}
		case x < 5:
			c.bare = true
			w := pick(rng, voc.strs)
			if strings.HasPrefix(w, "/") { // a bare string starting with "/" would be a regexp
				w = "s" + w
			}
			c.values = []string{w}
		default:
			k := 1 + rng.Intn(4)
			for j := 0; j < k; j++ {
				w := pick(rng, voc.strs)
				if rng.Intn(3) == 0 {
					w = mutate(rng, w)
				}
				c.values = append(c.values, w)
			}
		}
		m.conds = append(m.conds, c)
	}
	return m
}

// mfTargetValue aims at the values of one condition.
func mfTargetValue(rng *rand.Rand, voc *vocab, c *mfCond) *val {
	if c.isRe {
		return genString(rng, voc)
	}
	w := pick(rng, c.values)
	if rng.Intn(2) == 0 {
		w = mutate(rng, w)
	}
	v := vStr(w)
	if rng.Intn(8) == 0 {
		v.esc = 1 + rng.Intn(2)
	}
	if _, err := strconv.Atoi(w); err == nil && rng.Intn(2) == 0 && !strings.HasPrefix(w, "+") && (w == "0" || !strings.HasPrefix(w, "0")) && w != "-0" {
		v = vNum(w)
	}
	return v
}

// genMfEvent: a generic event, with the fields of m (may be nil) aimed at.
func genMfEvent(rng *rand.Rand, voc *vocab, m *mfRule) *val {
	root := genEvent(rng, voc, nil, time.Time{})
	if m == nil {
		return root
	}
	for i := range m.conds {
		if rng.Intn(100) < 30 {
			continue
		}
		setPath(root, m.conds[i].path, mfTargetValue(rng, voc, &m.conds[i]))
	}
	return root
}

func (v *vocab) indexRules(rules []*rule) {
	v.targets = map[string][]*rule{}
	for _, r := range rules {
		for _, l := range r.leaves(nil) {
			if len(l.path) > 0 {
				v.targets[selector(l.path)] = append(v.targets[selector(l.path)], l)
			}
		}
	}
}

func (v *vocab) indexMfRules(rules []*mfRule) {
	v.mfTargets = map[string][]*mfCond{}
	for _, m := range rules {
		for i := range m.conds {
			sel := selector(m.conds[i].path)
			v.mfTargets[sel] = append(v.mfTargets[sel], &m.conds[i])
		}
	}
}

// ---------------------------------------------------------------------
// structural tags used in signatures

// lowerChangesLen: a rune whose lower-case form has another UTF-8 length.
func lowerChangesLen(s string) bool {
	for _, r := range s {
		if utf8.RuneLen(unicode.ToLower(r)) != utf8.RuneLen(r) {
			return true
		}
	}
	return false
}
