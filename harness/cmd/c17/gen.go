package main

// Generators: regular expressions (with a sampler that produces matching
// text), group selections, mask lists, field lists, match rules and events.
// Only configurations that the plugin's own validation accepts are produced
// (unique group numbers, count <= NumSubexp, numbers in range, no
// max_count+replace_word, no replace_word+cut_values, no process+ignore in
// the same list holder, re or match_rules present).

import (
	"fmt"
	"math/rand"
	"regexp"
	"sort"
	"strconv"
	"strings"
)

// ---------- regexp AST ----------

type rx struct {
	op   string // lit class seq alt rep cap ncap anchor
	text string // lit text / class source / anchor source / rep suffix
	set  []string
	sub  []*rx
	min  int
	max  int
}

func (r *rx) String() string {
	switch r.op {
	case "lit":
		return regexp.QuoteMeta(r.text)
	case "class", "anchor":
		return r.text
	case "seq":
		var b strings.Builder
		for _, s := range r.sub {
			if s.op == "alt" {
				b.WriteString("(?:" + s.String() + ")")
			} else {
				b.WriteString(s.String())
			}
		}
		return b.String()
	case "alt":
		var parts []string
		for _, s := range r.sub {
			parts = append(parts, s.String())
		}
		return strings.Join(parts, "|")
	case "rep":
		in := r.sub[0]
		s := in.String()
		switch in.op {
		case "cap", "ncap", "class":
		case "lit":
			if len([]rune(in.text)) != 1 {
				s = "(?:" + s + ")"
			}
		default:
			s = "(?:" + s + ")"
		}
		return s + r.text
	case "cap":
		return "(" + r.sub[0].String() + ")"
	case "ncap":
		return "(?:" + r.sub[0].String() + ")"
	}
	return ""
}

// sample returns text the expression can match (anchors ignored).
func (r *rx) sample(rng *rand.Rand) string {
	switch r.op {
	case "lit":
		return r.text
	case "class":
		return r.set[rng.Intn(len(r.set))]
	case "anchor":
		return ""
	case "seq":
		var b strings.Builder
		for _, s := range r.sub {
			b.WriteString(s.sample(rng))
		}
		return b.String()
	case "alt":
		return r.sub[rng.Intn(len(r.sub))].sample(rng)
	case "rep":
		n := r.min
		if r.max > r.min {
			n += rng.Intn(r.max - r.min + 1)
		}
		var b strings.Builder
		for i := 0; i < n; i++ {
			b.WriteString(r.sub[0].sample(rng))
		}
		return b.String()
	case "cap", "ncap":
		return r.sub[0].sample(rng)
	}
	return ""
}

var litAlphabet = []string{"a", "b", "c", "x", "1", "2", "7", "-", "=", " ", "é", "я", "世", "😀", ".", "*", "/", "\"", "\\", "\n", "$"}

var classes = []rx{
	{op: "class", text: `\d`, set: []string{"1", "2", "7", "0"}},
	{op: "class", text: `[ab]`, set: []string{"a", "b"}},
	{op: "class", text: `[a-c]`, set: []string{"a", "b", "c"}},
	{op: "class", text: `\w`, set: []string{"a", "x", "1", "_"}},
	{op: "class", text: `.`, set: []string{"a", "é", "世", "😀", " ", "1"}},
	{op: "class", text: `[^a]`, set: []string{"b", "я", "2", "-"}},
	{op: "class", text: `\S`, set: []string{"x", "é", "7", "="}},
	{op: "class", text: `[éя世]`, set: []string{"é", "я", "世"}},
	{op: "class", text: `\pL`, set: []string{"a", "я", "世", "é"}},
	{op: "class", text: `\s`, set: []string{" ", "\t", "\n"}},
}

type rxGen struct {
	rng  *rand.Rand
	caps int // capture groups created so far
	max  int
}

func (g *rxGen) atom() *rx {
	if g.rng.Intn(100) < 45 {
		c := classes[g.rng.Intn(len(classes))]
		return &c
	}
	n := 1
	if g.rng.Intn(4) == 0 {
		n = 2
	}
	var b strings.Builder
	for i := 0; i < n; i++ {
		b.WriteString(litAlphabet[g.rng.Intn(len(litAlphabet))])
	}
	return &rx{op: "lit", text: b.String()}
}

var repKinds = []struct {
	suf      string
	min, max int
}{
	{"*", 0, 3}, {"+", 1, 3}, {"?", 0, 1}, {"{1,2}", 1, 2}, {"{2}", 2, 2}, {"*?", 0, 2}, {"+?", 1, 2}, {"??", 0, 1}, {"{0,2}", 0, 2},
}

func (g *rxGen) rep(in *rx) *rx {
	k := repKinds[g.rng.Intn(len(repKinds))]
	return &rx{op: "rep", text: k.suf, sub: []*rx{in}, min: k.min, max: k.max}
}

// expr builds a random expression of bounded depth; capture groups may be
// nested, optional, repeated, alternated or empty-matching.
func (g *rxGen) expr(depth int) *rx {
	r := g.rng.Intn(100)
	switch {
	case depth <= 0 || r < 25:
		a := g.atom()
		if g.rng.Intn(3) == 0 {
			return g.rep(a)
		}
		return a
	case r < 50:
		n := 2 + g.rng.Intn(2)
		s := &rx{op: "seq"}
		for i := 0; i < n; i++ {
			s.sub = append(s.sub, g.expr(depth-1))
		}
		return s
	case r < 62:
		n := 2 + g.rng.Intn(2)
		s := &rx{op: "alt"}
		for i := 0; i < n; i++ {
			s.sub = append(s.sub, g.expr(depth-1))
		}
		return &rx{op: "ncap", sub: []*rx{s}}
	case r < 90 && g.caps < g.max:
		g.caps++
		var inner *rx
		if g.rng.Intn(12) == 0 {
			inner = &rx{op: "seq"} // "()" : empty group
		} else {
			inner = g.expr(depth - 1)
		}
		c := &rx{op: "cap", sub: []*rx{inner}}
		if g.rng.Intn(4) == 0 {
			return g.rep(c) // optional / repeated group
		}
		return c
	default:
		return g.rep(g.expr(depth - 1))
	}
}

// wildRegex: arbitrary shape with 1..4 capture groups.
func genWildRegex(rng *rand.Rand) *rx {
	for {
		g := &rxGen{rng: rng, max: 1 + rng.Intn(4)}
		var e *rx
		switch rng.Intn(6) {
		case 0: // alternation of groups at top level: (a+)|(b+)
			n := 2 + rng.Intn(2)
			s := &rx{op: "alt"}
			for i := 0; i < n && g.caps < 4; i++ {
				g.caps++
				s.sub = append(s.sub, &rx{op: "cap", sub: []*rx{g.expr(1)}})
			}
			e = s
		case 1: // repeated alternation of groups: (?:(a)|(b))*
			s := &rx{op: "alt"}
			for i := 0; i < 2; i++ {
				g.caps++
				s.sub = append(s.sub, &rx{op: "cap", sub: []*rx{g.atom()}})
			}
			e = &rx{op: "seq", sub: []*rx{g.rep(&rx{op: "ncap", sub: []*rx{s}})}}
		default:
			n := 1 + rng.Intn(3)
			s := &rx{op: "seq"}
			for i := 0; i < n; i++ {
				s.sub = append(s.sub, g.expr(2))
			}
			e = s
		}
		if g.caps == 0 {
			continue
		}
		if rng.Intn(10) == 0 {
			e = &rx{op: "seq", sub: []*rx{{op: "anchor", text: `^`}, e}}
		}
		if rng.Intn(10) == 0 {
			e = &rx{op: "seq", sub: []*rx{e, {op: "anchor", text: `$`}}}
		}
		if rng.Intn(12) == 0 {
			e = &rx{op: "seq", sub: []*rx{{op: "anchor", text: `\b`}, e}}
		}
		if _, err := regexp.Compile(e.String()); err != nil {
			continue
		}
		if len(e.String()) > 60 {
			continue
		}
		return e
	}
}

// tameRegex: separators and 1..4 top-level, non-optional, non-nested groups
// (the shape of the README examples: card numbers, key=value ...). Any
// ascending selection of its groups consists of ascending disjoint ranges.
func genTameRegex(rng *rand.Rand) *rx {
	for {
		g := &rxGen{rng: rng}
		n := 1 + rng.Intn(4)
		s := &rx{op: "seq"}
		if rng.Intn(3) == 0 {
			s.sub = append(s.sub, g.atom())
		}
		for i := 0; i < n; i++ {
			var inner *rx
			switch rng.Intn(4) {
			case 0:
				inner = g.rep(g.atom())
			case 1:
				inner = &rx{op: "seq", sub: []*rx{g.atom(), g.rep(g.atom())}}
			case 2:
				inner = &rx{op: "ncap", sub: []*rx{{op: "alt", sub: []*rx{g.atom(), g.atom()}}}}
			default:
				inner = g.atom()
			}
			s.sub = append(s.sub, &rx{op: "cap", sub: []*rx{inner}})
			if i < n-1 && rng.Intn(3) > 0 {
				sep := g.atom()
				if rng.Intn(3) == 0 {
					sep = g.rep(sep)
				}
				s.sub = append(s.sub, sep)
			}
		}
		if rng.Intn(4) == 0 {
			s.sub = append(s.sub, g.atom())
		}
		if _, err := regexp.Compile(s.String()); err != nil {
			continue
		}
		return s
	}
}

// ---------- group selections ----------

func permute(rng *rand.Rand, a []int) []int {
	out := append([]int(nil), a...)
	rng.Shuffle(len(out), func(i, j int) { out[i], out[j] = out[j], out[i] })
	return out
}

// genGroups returns a valid selection for a regexp with n groups.
// class: "zero" ([0] possibly with other numbers), "asc" (ascending subset),
// "any" (any subset in any order).
func genGroups(rng *rand.Rand, n int, class string) []int {
	switch class {
	case "zero":
		if n >= 2 && rng.Intn(4) == 0 { // 0 among others: still the whole match
			k := 1 + rng.Intn(n-1)
			sel := permute(rng, seq(1, n))[:k]
			sel = append(sel, 0)
			return permute(rng, sel)
		}
		return []int{0}
	case "asc":
		k := 1 + rng.Intn(n)
		sel := permute(rng, seq(1, n))[:k]
		sort.Ints(sel)
		return sel
	default:
		k := 1 + rng.Intn(n)
		return permute(rng, seq(1, n))[:k]
	}
}

func seq(a, b int) []int {
	var out []int
	for i := a; i <= b; i++ {
		out = append(out, i)
	}
	return out
}

// ---------- text ----------

var textAlphabet = []string{"a", "b", "c", "x", "1", "2", "7", "0", "-", "=", " ", " ", "é", "я", "世", "😀", ".", "*", "/", "\"", "\\", "\n", "\t", "$", "_", "A", "B"}

func randText(rng *rand.Rand, maxRunes int) string {
	n := rng.Intn(maxRunes + 1)
	var b strings.Builder
	for i := 0; i < n; i++ {
		b.WriteString(textAlphabet[rng.Intn(len(textAlphabet))])
	}
	return b.String()
}

// plantedText embeds samples of the masks' expressions so that matches occur
// at the start, in the middle and at the very end of the value.
func plantedText(rng *rand.Rand, exprs []*rx) string {
	var b strings.Builder
	if rng.Intn(3) > 0 {
		b.WriteString(randText(rng, 5))
	}
	n := 1 + rng.Intn(3)
	for i := 0; i < n; i++ {
		if len(exprs) > 0 {
			b.WriteString(exprs[rng.Intn(len(exprs))].sample(rng))
		}
		if i < n-1 || rng.Intn(3) > 0 {
			b.WriteString(randText(rng, 4))
		}
	}
	return b.String()
}

func genNumber(rng *rand.Rand) string {
	switch rng.Intn(8) {
	case 0:
		return "0"
	case 1:
		return "-" + strconv.Itoa(rng.Intn(100000))
	case 2:
		return fmt.Sprintf("%d.%d", rng.Intn(1000), rng.Intn(1000))
	case 3:
		return fmt.Sprintf("%de%d", 1+rng.Intn(99), rng.Intn(20))
	case 4:
		return "4111111111111111"[:8+rng.Intn(9)]
	case 5:
		return fmt.Sprintf("%d.5E-%d", rng.Intn(10), 1+rng.Intn(9))
	default:
		var b strings.Builder
		n := 1 + rng.Intn(6)
		for i := 0; i < n; i++ {
			d := []string{"1", "2", "7", "0"}[rng.Intn(4)]
			if i == 0 && d == "0" {
				d = "1"
			}
			b.WriteString(d)
		}
		return b.String()
	}
}

// ---------- events ----------

var keyPool = []string{"a", "b", "c", "msg", "f1", "f2", "0", "1", "ключ", "k-é", "user", "q\"k", "sp ace"}

type evGen struct {
	rng   *rand.Rand
	exprs []*rx
	avoid map[string]bool // applied-field names must not occur as keys
}

func (g *evGen) value(depth int) *jnode {
	r := g.rng.Intn(100)
	switch {
	case depth > 0 && r < 14:
		return g.object(depth-1, 1+g.rng.Intn(3))
	case depth > 0 && r < 26:
		n := g.rng.Intn(4)
		a := &jnode{Kind: kArr}
		for i := 0; i < n; i++ {
			a.Vals = append(a.Vals, g.value(depth-1))
		}
		return a
	case r < 34:
		return &jnode{Kind: kNum, Text: genNumber(g.rng)}
	case r < 38:
		return &jnode{Kind: kBool, Text: []string{"true", "false"}[g.rng.Intn(2)]}
	case r < 41:
		return &jnode{Kind: kNull}
	case r < 45:
		return &jnode{Kind: kStr, Text: ""}
	case r < 75:
		return &jnode{Kind: kStr, Text: plantedText(g.rng, g.exprs)}
	case r < 80: // long value: forces the plugin's buffers to grow, then shrink again
		var b strings.Builder
		for b.Len() < 300+g.rng.Intn(2500) {
			b.WriteString(plantedText(g.rng, g.exprs))
		}
		return &jnode{Kind: kStr, Text: b.String()}
	default:
		return &jnode{Kind: kStr, Text: randText(g.rng, 14)}
	}
}

func (g *evGen) object(depth, n int) *jnode {
	o := &jnode{Kind: kObj}
	used := map[string]bool{}
	for i := 0; i < n; i++ {
		var k string
		if n > len(keyPool) || g.rng.Intn(20) == 0 {
			k = fmt.Sprintf("w%d", i)
		} else {
			k = keyPool[g.rng.Intn(len(keyPool))]
		}
		if used[k] || g.avoid[k] {
			continue
		}
		used[k] = true
		o.Keys = append(o.Keys, k)
		o.Vals = append(o.Vals, g.value(depth))
	}
	return o
}

func (g *evGen) event() *jnode {
	n := 1 + g.rng.Intn(5)
	if g.rng.Intn(25) == 0 {
		n = 17 + g.rng.Intn(8) // wide object (the JSON library switches to a key map above 16 fields)
	}
	o := g.object(2, n)
	if len(o.Keys) == 0 {
		o.Keys = []string{"msg"}
		o.Vals = []*jnode{{Kind: kStr, Text: plantedText(g.rng, g.exprs)}}
	}
	return o
}

// ---------- match rules ----------

var ruleValues = []string{"a", "b", "1", "ab", "x", " ", "-", "7", "A", "é", "=", "a1", "c"}

func genRuleSets(rng *rand.Rand) []ruleSetCfg {
	var out []ruleSetCfg
	ns := 1 + rng.Intn(2)
	for i := 0; i < ns; i++ {
		rs := ruleSetCfg{Cond: []string{"and", "or"}[rng.Intn(2)]}
		nr := 1 + rng.Intn(2)
		for j := 0; j < nr; j++ {
			r := ruleCfg{Mode: []string{"prefix", "contains", "suffix"}[rng.Intn(3)]}
			nv := 1 + rng.Intn(3)
			for k := 0; k < nv; k++ {
				r.Values = append(r.Values, ruleValues[rng.Intn(len(ruleValues))])
			}
			// case-insensitive search is documented only for prefix/suffix; values
			// and texts here never contain runes whose case mapping changes length
			if r.Mode != "contains" && rng.Intn(3) == 0 {
				r.CaseInsensitive = true
			}
			if rng.Intn(5) == 0 {
				r.Invert = true
			}
			rs.Rules = append(rs.Rules, r)
		}
		out = append(out, rs)
	}
	return out
}

// ---------- configurations ----------

var replaceWords = []string{"X", "***", "<hidden>", "é世", "ab", "$1", "12", "REDACTED-REDACTED", " "}

func genMask(rng *rand.Rand, class string) (maskCfg, *rx) {
	var m maskCfg
	var e *rx
	switch class {
	case "tame":
		e = genTameRegex(rng)
		re := regexp.MustCompile(e.String())
		m.Groups = genGroups(rng, re.NumSubexp(), "asc")
	case "zero":
		if rng.Intn(2) == 0 {
			e = genTameRegex(rng)
		} else {
			e = genWildRegex(rng)
		}
		re := regexp.MustCompile(e.String())
		m.Groups = genGroups(rng, re.NumSubexp(), "zero")
	case "wild-asc":
		e = genWildRegex(rng)
		re := regexp.MustCompile(e.String())
		m.Groups = genGroups(rng, re.NumSubexp(), "asc")
	case "wild-any":
		if rng.Intn(3) == 0 {
			e = genTameRegex(rng)
		} else {
			e = genWildRegex(rng)
		}
		re := regexp.MustCompile(e.String())
		m.Groups = genGroups(rng, re.NumSubexp(), "any")
	case "rules-only":
		m.MatchRules = genRuleSets(rng)
		m.GenClass = class
		return m, nil
	case "detect-only": // regexp without groups
		e = genTameRegex(rng)
	}
	m.GenClass = class
	m.Re = e.String()
	switch rng.Intn(10) {
	case 0, 1, 2:
		// mask, unlimited
	case 3, 4:
		m.MaxCount = 1 + rng.Intn(5)
	case 5, 6, 7:
		m.ReplaceWord = replaceWords[rng.Intn(len(replaceWords))]
	default:
		m.CutValues = true
		if rng.Intn(3) == 0 {
			m.MaxCount = 1 + rng.Intn(5) // accepted together with cut_values (mask_test.go "cut email")
		}
	}
	if rng.Intn(5) == 0 {
		m.MatchRules = genRuleSets(rng)
	}
	return m, e
}

// pathsOf lists every prefix of every leaf/container path of the events.
func pathsOf(trees []*jnode) []string {
	set := map[string]bool{}
	var walk func(n *jnode, p []string)
	walk = func(n *jnode, p []string) {
		if len(p) > 0 {
			ok := true
			for _, s := range p {
				if strings.ContainsAny(s, `.\`) || s == "" {
					ok = false
				}
			}
			if ok {
				set[strings.Join(p, ".")] = true
			}
		}
		switch n.Kind {
		case kObj:
			for i, k := range n.Keys {
				walk(n.Vals[i], append(append([]string(nil), p...), k))
			}
		case kArr:
			for i, v := range n.Vals {
				walk(v, append(append([]string(nil), p...), strconv.Itoa(i)))
			}
		}
	}
	for _, t := range trees {
		walk(t, nil)
	}
	var out []string
	for k := range set {
		out = append(out, k)
	}
	sort.Strings(out)
	return out
}

func pickPaths(rng *rand.Rand, pool []string, n int) []string {
	set := map[string]bool{}
	for i := 0; i < n; i++ {
		if len(pool) == 0 || rng.Intn(8) == 0 {
			set[[]string{"nosuch", "a.nosuch", "msg.deeper.x"}[rng.Intn(3)]] = true
			continue
		}
		set[pool[rng.Intn(len(pool))]] = true
	}
	var out []string
	for k := range set {
		out = append(out, k)
	}
	sort.Strings(out)
	rng.Shuffle(len(out), func(i, j int) { out[i], out[j] = out[j], out[i] })
	return out
}

var labelNameRe = regexp.MustCompile(`^[a-z][a-z0-9_]*$`)

// genCase builds one configuration and its events.
// class selects the selection shapes of the masks:
//
//	"benign": every mask is tame / [0] / rules-only (the README's kind of use)
//	"hostile": at least one mask selects groups of an arbitrary expression in
//	           ascending or arbitrary order
//
// aux is a second, independent stream used only by shapeMetrics (so that the
// masks / events / field lists drawn from rng are the same with and without
// that step); shape forces one cell of the metrics matrix, nil = random.
// genCase: ext selects a family of the extension batches ("" otherwise):
// "longlist" puts 61-72 never-matching filler masks in front of three
// generated ones, which all get a mask-specific process/ignore list (mask
// indices around and beyond 64); "doif" gives one or more masks a do_if on
// the top-level field "dk" and every event a "dk" value (on/off/other/absent).
func genCase(rng *rand.Rand, id int, class string, nEvents int, aux *rand.Rand, shape *metricsShape, ext string) *testCase {
	tc := &testCase{ID: id, Class: class}
	nm := 1 + rng.Intn(3)
	if ext == "longlist" {
		nm = 3
		for i, n := 0, 61+rng.Intn(12); i < n; i++ {
			tc.Config.Masks = append(tc.Config.Masks, maskCfg{Re: fmt.Sprintf("(ZQfiller%dQZ)", i), Groups: []int{0}, GenClass: "filler"})
		}
	}
	var exprs []*rx
	hostileAt := -1
	if class == "hostile" {
		hostileAt = rng.Intn(nm)
	}
	for i := 0; i < nm; i++ {
		var mc string
		r := rng.Intn(100)
		switch {
		case i == hostileAt:
			mc = []string{"wild-asc", "wild-any", "wild-any"}[rng.Intn(3)]
		case r < 50:
			mc = "tame"
		case r < 85:
			mc = "zero"
		case r < 95:
			mc = "rules-only"
		default:
			mc = "detect-only"
		}
		m, e := genMask(rng, mc)
		if e != nil {
			exprs = append(exprs, e)
		}
		tc.Config.Masks = append(tc.Config.Masks, m)
	}
	// applied marks and metrics
	avoid := map[string]bool{}
	if rng.Intn(2) == 0 {
		tc.Config.MaskAppliedField = "mask_applied"
		tc.Config.MaskAppliedValue = []string{"yes", "", "да \"q\""}[rng.Intn(3)]
		avoid[tc.Config.MaskAppliedField] = true
	}
	if rng.Intn(3) == 0 {
		tc.Config.AppliedMetricName = strPtr("c17_plugin_hits")
	}
	for i := range tc.Config.Masks {
		m := &tc.Config.Masks[i]
		if m.GenClass == "filler" {
			continue
		}
		if rng.Intn(3) == 0 || m.GenClass == "rules-only" {
			m.AppliedField = fmt.Sprintf("applied_%d", i)
			m.AppliedValue = fmt.Sprintf("v%d", i)
			avoid[m.AppliedField] = true
		}
		if rng.Intn(3) == 0 {
			m.MetricName = fmt.Sprintf("c17_mask_%d_hits", i)
		}
	}
	// events
	if ext == "doif" {
		k := rng.Intn(len(tc.Config.Masks))
		for i := range tc.Config.Masks {
			if i == k || rng.Intn(3) == 0 {
				vals := [][]string{{"on"}, {"on", "ON"}, {"off"}}[rng.Intn(3)]
				tc.Config.Masks[i].DoIf = &doIfCfg{Op: "equal", Field: "dk", Values: vals}
			}
		}
		avoid["dk"] = true
	}
	eg := &evGen{rng: rng, exprs: exprs, avoid: avoid}
	for i := 0; i < nEvents; i++ {
		t := eg.event()
		if ext == "doif" {
			var dv *jnode
			switch r := rng.Intn(20); {
			case r < 8:
				dv = &jnode{Kind: kStr, Text: "on"}
			case r < 16:
				dv = &jnode{Kind: kStr, Text: "off"}
			case r < 17:
				dv = &jnode{Kind: kStr, Text: "ON"}
			case r < 18:
				dv = &jnode{Kind: kStr, Text: "on "}
			case r < 19:
				dv = &jnode{Kind: kNum, Text: "1"}
			}
			if dv != nil {
				at := rng.Intn(len(t.Keys) + 1)
				t.Keys = append(t.Keys[:at], append([]string{"dk"}, t.Keys[at:]...)...)
				t.Vals = append(t.Vals[:at], append([]*jnode{dv}, t.Vals[at:]...)...)
			}
		}
		tc.trees = append(tc.trees, t)
		tc.Events = append(tc.Events, encodeJSON(t, rng))
	}
	// metric labels: a top-level key of the events (value after masking must be
	// used); the key must be a valid metric label name
	labelKey := func() []string { return pickLabelKey(rng, tc.trees) }
	if rng.Intn(3) == 0 {
		tc.Config.AppliedMetricLabels = labelKey()
	}
	for i := range tc.Config.Masks {
		m := &tc.Config.Masks[i]
		if m.MetricName != "" && rng.Intn(2) == 0 {
			m.MetricLabels = labelKey()
		}
	}
	// field lists
	pool := pathsOf(tc.trees)
	switch rng.Intn(10) {
	case 0, 1, 2, 3: // none
	case 4:
		tc.Config.IgnoreFields = pickPaths(rng, pool, 1+rng.Intn(3))
	case 5:
		tc.Config.ProcessFields = pickPaths(rng, pool, 1+rng.Intn(3))
	default:
		if rng.Intn(2) == 0 {
			if rng.Intn(2) == 0 {
				tc.Config.IgnoreFields = pickPaths(rng, pool, 1+rng.Intn(2))
			} else {
				tc.Config.ProcessFields = pickPaths(rng, pool, 1+rng.Intn(2))
			}
		}
		any := false
		for i := range tc.Config.Masks {
			switch rng.Intn(3) {
			case 0:
				tc.Config.Masks[i].IgnoreFields = pickPaths(rng, pool, 1+rng.Intn(2))
				any = true
			case 1:
				tc.Config.Masks[i].ProcessFields = pickPaths(rng, pool, 1+rng.Intn(2))
				any = true
			}
		}
		if !any {
			tc.Config.Masks[0].ProcessFields = pickPaths(rng, pool, 1+rng.Intn(2))
		}
	}
	if ext == "longlist" { // every generated mask (the ones with the highest indices) has a list of its own
		for i := range tc.Config.Masks {
			m := &tc.Config.Masks[i]
			if m.GenClass == "filler" || len(m.IgnoreFields) > 0 || len(m.ProcessFields) > 0 {
				continue
			}
			if rng.Intn(2) == 0 {
				m.IgnoreFields = pickPaths(rng, pool, 1+rng.Intn(2))
			} else {
				m.ProcessFields = pickPaths(rng, pool, 1+rng.Intn(2))
			}
		}
	}
	if aux != nil {
		shapeMetrics(tc, aux, shape)
	}
	return tc
}

// pickLabelKey: a top-level key of one of the events, if it is a valid metric
// label name (nil otherwise).
func pickLabelKey(rng *rand.Rand, trees []*jnode) []string {
	t := trees[rng.Intn(len(trees))]
	k := t.Keys[rng.Intn(len(t.Keys))]
	if !labelNameRe.MatchString(k) {
		return nil
	}
	return []string{k}
}

// ---------- metrics matrix ----------

// metricsShape is one cell of
// applied_metric_name {absent, custom, explicit ""} x per-mask metric_name
// {none, without labels, with metric_labels} x mask_applied_field {unset, set}.
type metricsShape struct {
	Plugin  string // default | custom | off
	Mask    string // none | plain | labels
	Applied bool   // mask_applied_field set
}

func (s metricsShape) String() string {
	return fmt.Sprintf("plugin=%s|mask=%s|applied_field=%v", s.Plugin, s.Mask, s.Applied)
}

var metricsMatrix = func() []metricsShape {
	var out []metricsShape
	for _, p := range []string{"default", "custom", "off"} {
		for _, m := range []string{"none", "plain", "labels"} {
			for _, a := range []bool{false, true} {
				out = append(out, metricsShape{p, m, a})
			}
		}
	}
	return out
}()

// shapeOf classifies a configuration into its cell of the matrix.
func shapeOf(cfg *pluginCfg) metricsShape {
	s := metricsShape{Plugin: cfg.pluginMetricKind(), Mask: "none", Applied: cfg.MaskAppliedField != ""}
	for i := range cfg.Masks {
		m := &cfg.Masks[i]
		if m.MetricName == "" {
			continue
		}
		if len(m.MetricLabels) > 0 {
			s.Mask = "labels"
		} else if s.Mask == "none" {
			s.Mask = "plain"
		}
	}
	return s
}

// shapeMetrics post-processes the metric / applied-mark part of a generated
// configuration. Without a forced shape: a quarter of the cases get an
// explicit empty applied_metric_name (plugin-level counter off), and most of
// those get at least one mask with its own metric_name. With a forced shape
// the configuration is moved into exactly that cell.
func shapeMetrics(tc *testCase, aux *rand.Rand, shape *metricsShape) {
	cfg := &tc.Config
	giveMetric := func(i int, labels bool) {
		m := &cfg.Masks[i]
		if m.MetricName == "" {
			m.MetricName = fmt.Sprintf("c17_mask_%d_hits", i)
		}
		m.MetricLabels = nil
		if labels {
			for try := 0; try < 8 && m.MetricLabels == nil; try++ {
				m.MetricLabels = pickLabelKey(aux, tc.trees)
			}
			if m.MetricLabels == nil {
				// no top-level key of these events is a valid label name: a label
				// that no event carries (its value is always "not_set")
				m.MetricLabels = []string{"nosuch_label"}
			}
		}
	}
	if shape == nil {
		if aux.Intn(4) != 0 {
			return
		}
		cfg.AppliedMetricName = strPtr("")
		has := false
		for i := range cfg.Masks {
			has = has || cfg.Masks[i].MetricName != ""
		}
		if !has && aux.Intn(4) != 0 {
			giveMetric(aux.Intn(len(cfg.Masks)), aux.Intn(2) == 0)
		}
		return
	}
	switch shape.Plugin {
	case "default":
		cfg.AppliedMetricName = nil
	case "custom":
		cfg.AppliedMetricName = strPtr("c17_plugin_hits")
	default:
		cfg.AppliedMetricName = strPtr("")
	}
	if shape.Applied {
		if cfg.MaskAppliedField == "" {
			cfg.MaskAppliedField = "mask_applied"
			cfg.MaskAppliedValue = []string{"yes", "", "да \"q\""}[aux.Intn(3)]
		}
	} else {
		cfg.MaskAppliedField, cfg.MaskAppliedValue = "", ""
	}
	if shape.Mask == "none" {
		for i := range cfg.Masks {
			cfg.Masks[i].MetricName, cfg.Masks[i].MetricLabels = "", nil
		}
		return
	}
	forced := aux.Intn(len(cfg.Masks))
	for i := range cfg.Masks {
		if i == forced || aux.Intn(2) == 0 {
			// cell "labels": at least the forced mask carries a label, the others may
			giveMetric(i, shape.Mask == "labels" && (i == forced || aux.Intn(2) == 0))
		} else {
			cfg.Masks[i].MetricName, cfg.Masks[i].MetricLabels = "", nil
		}
	}
}
