package main

// Reference model of the mask action, written from
// plugin/action/mask/README.md and the text of property C17 - not from the
// implementation. Go's regexp is used only to obtain the group ranges
// (FindAllSubmatchIndex); the rewrite is computed here, rune-wise and from
// the *set* of selected ranges (never from their order).

import (
	"regexp"
	"sort"
	"strings"
	"unicode/utf8"
)

// variant enumerates the readings the documentation leaves open; an
// observation is accepted when it equals the model under any variant.
type variant struct {
	// match_rules are evaluated on the original field value (true) or on the
	// value as rewritten by the previous masks (false).
	RulesOnOriginal bool
	// empty string values are not processed at all (true) or processed (false).
	SkipEmpty bool
}

var variants = []variant{{true, true}, {false, true}, {true, false}, {false, false}}

type span struct{ S, E int }

// stepEval is what the model concluded for one (leaf, mask) pair.
type stepEval struct {
	Mask      int
	Selected  bool // field lists let this mask see the leaf
	RulesPass bool
	Regex     bool // the regexp was consulted
	Matches   int
	Applied   bool
	Exact     bool   // the rewritten value is fully determined
	Shape     string // structural shape of the selected ranges (see classifyShape)
	In, Out   string
	Walk      []span // selected ranges in (match, configured group) order, unmatched skipped
	Union     []span
	LastUnset bool // last configured group of the last match did not participate
	Maybe     bool // the value seen by this step is not determined: it may or may not apply
	DoIfOff   bool // the mask's do_if does not hold for the event: the mask must not touch it
}

type leafEval struct {
	Path      []string
	Kind      byte
	Orig      string
	Final     string
	Undefined bool // an overlapping selection in a mode without exact expectation was hit
	WeakStep  *stepEval
	WeakLast  bool // the undefined step is the last one that can touch the leaf
	Steps     []stepEval
	Touched   bool // some regexp mask matched (value may have been re-written, even to itself)
}

type eventExpect struct {
	Tree         *jnode // expected document without the applied fields
	NumOrStr     map[*jnode]bool
	Wild         map[*jnode]*leafEval // leaves without exact expectation
	Leaves       []*leafEval
	LeafOf       map[*jnode]*leafEval
	AppliedCount []int // per mask: number of leaves it was certainly applied to
	Applications int   // total (leaf, mask) applications (certain)
	Any          bool
	// upper bounds: additionally counts the (leaf, mask) pairs that come after
	// an overlapping selection without exact expectation on the same leaf
	AppliedMax      []int
	ApplicationsMax int
	Use             []bool // per mask: do_if holds for this event (nil: no mask has a do_if)
}

type compiledMask struct {
	cfg    *maskCfg
	re     *regexp.Regexp
	groups []int // effective selection: [0] if 0 is listed
}

type model struct {
	cfg   *pluginCfg
	masks []compiledMask
	// parsed field lists
	globalIgnore, globalProcess [][]string
	maskIgnore, maskProcess     [][][]string

	// diag switches the model to the behaviour of a *known defect*; used only
	// to name a disagreement that has already been established with diag unset.
	diag diagHyp
}

// diagHyp: hypotheses about already known defects (see FINDINGS.md).
type diagHyp struct {
	FlipShadowed     map[string]bool // governing-list kind -> decisions below a shadowed ancestor entry are inverted
	ReloadOnEmpty    bool            // a value emptied by one mask is re-read from the original by the next regexp mask
	DetectOnlyAlways bool            // re with empty groups: applied without consulting the regexp
}

func splitPath(s string) []string { return strings.Split(s, ".") }

func parsePaths(l []string) [][]string {
	var out [][]string
	for _, s := range l {
		out = append(out, splitPath(s))
	}
	return out
}

func newModel(cfg *pluginCfg) *model {
	m := &model{cfg: cfg}
	for i := range cfg.Masks {
		mc := &cfg.Masks[i]
		cm := compiledMask{cfg: mc}
		if mc.Re != "" {
			cm.re = regexp.MustCompile(mc.Re)
			cm.groups = append([]int(nil), mc.Groups...)
			for _, g := range mc.Groups {
				if g == 0 { // README: "zero for mask all expression"
					cm.groups = []int{0}
				}
			}
		}
		m.masks = append(m.masks, cm)
		m.maskIgnore = append(m.maskIgnore, parsePaths(mc.IgnoreFields))
		m.maskProcess = append(m.maskProcess, parsePaths(mc.ProcessFields))
	}
	m.globalIgnore = parsePaths(cfg.IgnoreFields)
	m.globalProcess = parsePaths(cfg.ProcessFields)
	return m
}

// covered: some listed path is a prefix of the leaf path ("all nested fields
// will be ignored/processed (even if they are not listed)").
func covered(list [][]string, path []string) bool {
	for _, p := range list {
		if len(p) <= len(path) {
			ok := true
			for i := range p {
				if p[i] != path[i] {
					ok = false
					break
				}
			}
			if ok {
				return true
			}
		}
	}
	return false
}

// governing returns the list that governs mask i ("mask fields lists will
// override plugin lists") and its kind.
func (m *model) governing(i int) (list [][]string, kind string) {
	switch {
	case len(m.maskIgnore[i]) > 0:
		return m.maskIgnore[i], "mask-ignore"
	case len(m.maskProcess[i]) > 0:
		return m.maskProcess[i], "mask-process"
	case len(m.globalIgnore) > 0:
		return m.globalIgnore, "global-ignore"
	case len(m.globalProcess) > 0:
		return m.globalProcess, "global-process"
	}
	return nil, "none"
}

func hasPrefixPath(p, path []string) bool {
	if len(p) > len(path) {
		return false
	}
	for i := range p {
		if p[i] != path[i] {
			return false
		}
	}
	return true
}

// shadowed (diagnosis): mask i's governing list covers `path` through an
// entry E that is a proper ancestor of path, and some *other* list (another
// mask's or the plugin's) names a path strictly below E.
func (m *model) shadowed(i int, path []string) bool {
	list, kind := m.governing(i)
	if kind == "none" {
		return false
	}
	var others [][]string
	add := func(l [][]string, same bool) {
		if !same {
			others = append(others, l...)
		}
	}
	for j := range m.masks {
		add(m.maskIgnore[j], j == i && kind == "mask-ignore")
		add(m.maskProcess[j], j == i && kind == "mask-process")
	}
	// the plugin-level lists count only when some mask is governed by them
	globalInUse := false
	for j := range m.masks {
		if _, k := m.governing(j); k == "global-ignore" || k == "global-process" {
			globalInUse = true
		}
	}
	if globalInUse {
		add(m.globalIgnore, kind == "global-ignore")
		add(m.globalProcess, kind == "global-process")
	}
	for _, e := range list {
		if !hasPrefixPath(e, path) || len(e) == len(path) {
			continue
		}
		for _, o := range others {
			if len(o) > len(e) && hasPrefixPath(e, o) {
				return true
			}
		}
	}
	return false
}

func (m *model) selected(i int, path []string) bool {
	s := m.selectedDoc(i, path)
	if _, kind := m.governing(i); m.diag.FlipShadowed[kind] && m.shadowed(i, path) {
		return !s
	}
	return s
}

func (m *model) selectedDoc(i int, path []string) bool {
	list, kind := m.governing(i)
	switch kind {
	case "mask-ignore", "global-ignore":
		return !covered(list, path)
	case "mask-process", "global-process":
		return covered(list, path)
	}
	return true
}

// ---- match rules (cfg/matchrule README semantics) ----

func ruleMatch(r *ruleCfg, v string) bool {
	data := v
	ok := false
	for _, val := range r.Values {
		if r.CaseInsensitive {
			val = strings.ToLower(val)
		}
		d := data
		if r.CaseInsensitive {
			d = strings.ToLower(d)
		}
		switch r.Mode {
		case "prefix":
			ok = ok || strings.HasPrefix(d, val)
		case "suffix":
			ok = ok || strings.HasSuffix(d, val)
		default:
			ok = ok || strings.Contains(d, val)
		}
	}
	if r.Invert {
		return !ok
	}
	return ok
}

func ruleSetsMatch(sets []ruleSetCfg, v string) bool {
	if len(sets) == 0 {
		return true
	}
	for i := range sets {
		rs := &sets[i]
		res := rs.Cond != "or" // and: all; or: any
		for j := range rs.Rules {
			ok := ruleMatch(&rs.Rules[j], v)
			if rs.Cond == "or" {
				res = res || ok
			} else {
				res = res && ok
			}
		}
		if res {
			return true
		}
	}
	return false
}

// ---- rewrite ----

func mergeSpans(in []span) []span {
	s := append([]span(nil), in...)
	sort.SliceStable(s, func(i, j int) bool {
		if s[i].S != s[j].S {
			return s[i].S < s[j].S
		}
		return s[i].E < s[j].E
	})
	var out []span
	for _, x := range s {
		if x.S == x.E {
			continue
		}
		if n := len(out); n > 0 && x.S <= out[n-1].E {
			if x.E > out[n-1].E {
				out[n-1].E = x.E
			}
			continue
		}
		out = append(out, x)
	}
	return out
}

// disjoint reports whether the spans (including empty ones) are pairwise
// non-overlapping; touching is allowed. An empty span strictly inside another
// span counts as overlapping; two spans with identical bounds overlap unless
// both are empty at... (two empty spans at the same position are distinct
// occurrences and do not overlap).
func disjoint(in []span) bool {
	for i := range in {
		for j := i + 1; j < len(in); j++ {
			a, b := in[i], in[j]
			if a.S == a.E && b.S == b.E {
				continue
			}
			if a.S == a.E { // empty a: inside b?
				if a.S > b.S && a.S < b.E {
					return false
				}
				continue
			}
			if b.S == b.E {
				if b.S > a.S && b.S < a.E {
					return false
				}
				continue
			}
			if a.S < b.E && b.S < a.E {
				return false
			}
		}
	}
	return true
}

func runeCount(s string) int {
	n := 0
	for len(s) > 0 {
		_, k := utf8.DecodeRuneInString(s)
		s = s[k:]
		n++
	}
	return n
}

// rewriteUnion: positional result for mode mask with max_count=0 ("one
// asterisk per character") and for cut, for any shape of selection.
func rewriteUnion(v string, union []span, cut bool) string {
	var b strings.Builder
	pos := 0
	for _, u := range union {
		b.WriteString(v[pos:u.S])
		if !cut {
			b.WriteString(strings.Repeat("*", runeCount(v[u.S:u.E])))
		}
		pos = u.E
	}
	b.WriteString(v[pos:])
	return b.String()
}

// rewriteDisjoint: every selected occurrence is replaced on its own.
func rewriteDisjoint(v string, spans []span, mc *maskCfg) string {
	s := append([]span(nil), spans...)
	sort.SliceStable(s, func(i, j int) bool {
		if s[i].S != s[j].S {
			return s[i].S < s[j].S
		}
		return s[i].E < s[j].E
	})
	var b strings.Builder
	pos := 0
	for _, x := range s {
		b.WriteString(v[pos:x.S])
		switch mc.mode() {
		case "replace":
			b.WriteString(mc.ReplaceWord)
		case "cut":
		default:
			n := runeCount(v[x.S:x.E])
			if mc.MaxCount > 0 && n > mc.MaxCount {
				n = mc.MaxCount
			}
			b.WriteString(strings.Repeat("*", n))
		}
		pos = x.E
	}
	b.WriteString(v[pos:])
	return b.String()
}

// classifyShape names the structural shape of a selection, looking at the
// ranges in (match, configured group) order. It is used for fingerprints and
// for naming crash witnesses, never for the verdict.
func classifyShape(groups []int, idx [][]int) (walk []span, shape string, lastUnset bool) {
	type ent struct {
		sp span
		g  int
	}
	var ents []ent
	for mi, m := range idx {
		for gi, g := range groups {
			s, e := m[2*g], m[2*g+1]
			if s < 0 || e < 0 {
				if mi == len(idx)-1 && gi == len(groups)-1 {
					lastUnset = true
				}
				continue
			}
			ents = append(ents, ent{span{s, e}, g})
		}
	}
	shape = "ascending-disjoint"
	for k := range ents {
		walk = append(walk, ents[k].sp)
	}
	for k := 1; k < len(ents); k++ {
		a, b := ents[k-1], ents[k]
		if b.sp.S >= a.sp.E {
			continue
		}
		switch {
		case b.sp.S < a.sp.S && b.g < a.g:
			shape = "groups-listed-descending"
		case b.sp.S < a.sp.S:
			shape = "ascending-groups-captured-in-descending-position"
		default:
			shape = "nested-or-overlapping-groups"
		}
		return walk, shape, lastUnset
	}
	if lastUnset {
		shape = "last-listed-group-unmatched-in-last-match"
	}
	return walk, shape, lastUnset
}

// doIfHolds: the documented meaning of the one do_if form the harness uses.
func doIfHolds(d *doIfCfg, ev *jnode) bool {
	if d == nil {
		return true
	}
	if ev == nil || ev.Kind != kObj {
		return false
	}
	for i, k := range ev.Keys {
		if k == d.Field {
			if ev.Vals[i].Kind != kStr {
				return false
			}
			for _, v := range d.Values {
				if v == ev.Vals[i].Text {
					return true
				}
			}
			return false
		}
	}
	return false
}

func (m *model) evalLeaf(path []string, kind byte, orig string, v variant, use []bool) *leafEval {
	le := &leafEval{Path: path, Kind: kind, Orig: orig, Final: orig}
	if orig == "" && v.SkipEmpty {
		return le
	}
	run := orig
	weakIdx := -1
	for i := range m.masks {
		cm := &m.masks[i]
		st := stepEval{Mask: i, In: run, Out: run, Exact: true}
		if use != nil && !use[i] { // the mask's do_if does not hold for this event
			st.DoIfOff = true
			le.Steps = append(le.Steps, st)
			continue
		}
		st.Selected = m.selected(i, path)
		if !st.Selected {
			le.Steps = append(le.Steps, st)
			continue
		}
		rv := run
		if v.RulesOnOriginal {
			rv = orig
		}
		st.RulesPass = ruleSetsMatch(cm.cfg.MatchRules, rv)
		if !st.RulesPass {
			le.Steps = append(le.Steps, st)
			continue
		}
		if cm.re == nil { // rules-only mask: marks, rewrites nothing
			st.Applied = true
			le.Steps = append(le.Steps, st)
			continue
		}
		if le.Undefined {
			// value is not determined any more; nothing can be said about this step
			st.Exact = false
			st.Maybe = true
			le.Steps = append(le.Steps, st)
			continue
		}
		if m.diag.DetectOnlyAlways && len(cm.groups) == 0 {
			st.Applied = true
			le.Steps = append(le.Steps, st)
			continue
		}
		if m.diag.ReloadOnEmpty && run == "" && len(cm.groups) > 0 {
			run = orig
			st.In, st.Out = run, run
		}
		st.Regex = true
		idx := cm.re.FindAllStringSubmatchIndex(run, -1)
		st.Matches = len(idx)
		if len(idx) == 0 {
			le.Steps = append(le.Steps, st)
			continue
		}
		st.Applied = true
		le.Touched = true
		st.Walk, st.Shape, st.LastUnset = classifyShape(cm.groups, idx)
		st.Union = mergeSpans(st.Walk)
		switch {
		case disjoint(st.Walk):
			st.Out = rewriteDisjoint(run, st.Walk, cm.cfg)
		case cm.cfg.mode() == "cut":
			st.Out = rewriteUnion(run, st.Union, true)
		case cm.cfg.mode() == "mask" && cm.cfg.MaxCount == 0:
			st.Out = rewriteUnion(run, st.Union, false)
		default:
			st.Exact = false
			le.Undefined = true
		}
		if st.Exact {
			run = st.Out
		}
		le.Steps = append(le.Steps, st)
		if !st.Exact {
			weakIdx = len(le.Steps) - 1
		}
	}
	le.Final = run
	if le.Undefined {
		// is the undefined step the last one that may rewrite the leaf?
		le.WeakLast = true
		le.WeakStep = &le.Steps[weakIdx]
		for k := range le.Steps {
			s := &le.Steps[k]
			if k > weakIdx && s.Selected && m.masks[s.Mask].re != nil && len(m.masks[s.Mask].groups) > 0 {
				le.WeakLast = false
			}
		}
	}
	return le
}

func isJSONNumber(s string) bool {
	n, err := parseJSON(s)
	return err == nil && n.Kind == kNum && n.Text == s
}

// expect computes the expected event for one input document.
func (m *model) expect(in *jnode, v variant) *eventExpect {
	ex := &eventExpect{Tree: in.clone(), NumOrStr: map[*jnode]bool{}, Wild: map[*jnode]*leafEval{}, LeafOf: map[*jnode]*leafEval{}, AppliedCount: make([]int, len(m.masks)), AppliedMax: make([]int, len(m.masks))}
	var leaves []leaf
	collectLeaves(ex.Tree, nil, &leaves)
	var use []bool
	for i := range m.masks {
		if m.masks[i].cfg.DoIf != nil {
			if use == nil {
				use = make([]bool, len(m.masks))
				for k := range use {
					use[k] = true
				}
			}
			use[i] = doIfHolds(m.masks[i].cfg.DoIf, in) // decided on the event as it arrives, before any mask ran
		}
	}
	ex.Use = use
	for _, lf := range leaves {
		le := m.evalLeaf(lf.Path, lf.Node.Kind, lf.Node.Text, v, use)
		ex.Leaves = append(ex.Leaves, le)
		ex.LeafOf[lf.Node] = le
		for _, st := range le.Steps {
			if st.Applied {
				ex.AppliedCount[st.Mask]++
				ex.Applications++
				ex.Any = true
			}
			if st.Applied || st.Maybe {
				ex.AppliedMax[st.Mask]++
				ex.ApplicationsMax++
			}
		}
		if le.Undefined {
			ex.Wild[lf.Node] = le
			continue
		}
		if le.Final != le.Orig {
			lf.Node.Text = le.Final
			if lf.Node.Kind == kNum {
				lf.Node.Kind = kStr // a masked number can only be carried as a string
				if isJSONNumber(le.Final) {
					ex.NumOrStr[lf.Node] = true
				}
			}
		} else if le.Touched && lf.Node.Kind == kNum {
			ex.NumOrStr[lf.Node] = true
		}
	}
	return ex
}

// weakCheck verifies the sound claims for an overlapping selection in a mode
// without exact expectation: bytes outside the union of the selected ranges
// are preserved in order and the union is replaced by masking material only.
func weakCheck(le *leafEval, mc *maskCfg, got string) bool {
	st := le.WeakStep
	var pat strings.Builder
	pat.WriteString(`^`)
	pos := 0
	for _, u := range st.Union {
		pat.WriteString(regexp.QuoteMeta(st.In[pos:u.S]))
		if mc.mode() == "replace" {
			pat.WriteString(`(?:` + regexp.QuoteMeta(mc.ReplaceWord) + `)+`)
		} else {
			pat.WriteString(`\*+`)
		}
		pos = u.E
	}
	pat.WriteString(regexp.QuoteMeta(st.In[pos:]))
	pat.WriteString(`$`)
	re, err := regexp.Compile("(?s)" + pat.String())
	if err != nil {
		return true
	}
	return re.MatchString(got)
}
