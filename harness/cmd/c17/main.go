// C17 - Mask hides every matched secret and touches nothing else.
//
// Runtime monitor: generated mask configurations and events are pushed
// through the real plugin inside a real pipeline (child processes); every
// output document and the metric deltas are compared with an independent
// reference model (model.go). See NOTES.md.
package main

import (
	"encoding/json"
	"fmt"
	"math/rand"
	"os"
	"strings"
	"sync"
	"time"
	"unicode/utf8"

	"verifharness/core"
)

const (
	casesPerBatch     = 24
	maxCrashesPerCase = 2
	// give up early when at least this many events refuted the property and they
	// are more than a quarter of everything sent (the unchanged tree with all its
	// known defects refutes ~6% of the generated events)
	stopAfterRefuting = 2000
	confirmPerShape   = 4 // crashes re-run alone per (message, site); later ones are attributed by the one-command-at-a-time log
)

func siteNoLine(site string) string {
	if i := strings.LastIndex(site, ":"); i > 0 {
		return site[:i]
	}
	return site
}

func bucket(n int) string {
	switch {
	case n == 0:
		return "0"
	case n == 1:
		return "1"
	case n <= 3:
		return "2-3"
	}
	return "4+"
}

func multiByte(s string) bool { return len(s) != utf8.RuneCountInString(s) }

type runner struct {
	c         *core.Ctx
	nEvents   int
	nRandom   int // batches of the random family; batches after these walk the metrics matrix
	nBase     int // random + metrics-matrix batches; batches after these are the extension families
	mu        sync.Mutex
	confirmed map[string]int
	sigs      map[string]int // every refuting observation by signature (listed or not)
	refuting  int64
}

func (r *runner) violation(sig, what string, witness any) {
	r.mu.Lock()
	r.sigs[sig]++
	r.refuting++
	r.mu.Unlock()
	r.c.Violation(sig, what, witness)
}

func (r *runner) genBatch(b int) []*testCase {
	rng := rand.New(rand.NewSource(r.c.SubSeed("batch", b)))
	// own stream for the metric / applied-mark shaping: the masks, events and
	// field lists of a batch do not depend on it
	aux := rand.New(rand.NewSource(r.c.SubSeed("metrics", b)))
	var cases []*testCase
	for i := 0; i < casesPerBatch; i++ {
		class := "benign"
		if rng.Intn(100) < 30 {
			class = "hostile"
		}
		var shape *metricsShape
		if b >= r.nRandom && b < r.nBase { // metrics matrix family: every cell in turn
			shape = &metricsMatrix[((b-r.nRandom)*casesPerBatch+i)%len(metricsMatrix)]
		}
		ext := ""
		if b >= r.nBase { // extension batches: long mask lists / do_if + parallel pass / parallel pass over ordinary cases
			ext = extFamilies[(b-r.nBase)%len(extFamilies)]
		}
		tc := genCase(rng, b*casesPerBatch+i, class, r.nEvents, aux, shape, strings.TrimPrefix(ext, "par-"))
		if strings.HasPrefix(ext, "par-") {
			tc.Par = parRounds
		}
		tc.Class += ext2class(ext)
		cases = append(cases, tc)
	}
	return cases
}

// extension batches (after the random and the metrics-matrix batches, so the
// cases of those keep their seeds): "par-" = with the parallel pass
var extFamilies = []string{"longlist", "par-doif", "par-"}

const parRounds = 16

func ext2class(ext string) string {
	switch ext {
	case "longlist":
		return "+longlist"
	case "par-doif":
		return "+doif"
	}
	return ""
}

func parseLines(res *core.ChildResult) []childLine {
	var out []childLine
	for _, raw := range res.Log {
		var l childLine
		if json.Unmarshal(raw, &l) == nil {
			out = append(out, l)
		}
	}
	return out
}

func (r *runner) runBatch(b int) {
	c := r.c
	r.mu.Lock()
	refuting := r.refuting
	r.mu.Unlock()
	if refuting >= stopAfterRefuting && refuting*4 > c.Counter("events_sent") {
		// the property is refuted many times over; more cases add nothing
		c.Count("batches_skipped_after_many_violations", 1)
		return
	}
	cases := r.genBatch(b)
	checkers := make([]*checker, len(cases))
	for i, tc := range cases {
		checkers[i] = newChecker(tc)
	}
	startCase, startEv := 0, 0
	restarts := 0
	crashesInCase := map[int]int{}
	seqOut := map[int]map[int]string{} // case -> event -> output of the single-processor pass
	for startCase < len(cases) {
		gmp := 2
		if b >= r.nBase {
			gmp = 4 // 8 processors in the parallel pass
		}
		res := core.RunChild("mask", childIn{Cases: cases, StartCase: startCase, StartEvent: startEv}, core.ChildOpt{Timeout: 10 * time.Minute, GOMAXPROCS: gmp})
		lines := parseLines(res)
		c.Count("child_runs", 1)
		c.Count("child_wall_ms_total", int64(res.WallS*1000))
		var pending *childLine // cmd without res
		lastStart := -1
		pendingPar := -1 // parcmd without par
		done := false
		for i := range lines {
			l := &lines[i]
			switch l.T {
			case "start":
				lastStart = l.Case
				pending = nil
			case "parcmd":
				pendingPar = l.Case
			case "par":
				pendingPar = -1
				r.checkPar(cases[l.Case], seqOut[l.Case], l)
			case "cmd":
				pending = l
			case "res":
				pending = nil
				if l.Ev < 0 {
					c.Inconclusive("configuration rejected by the plugin: " + core.Trunc(l.Err, 80))
					c.Count("config_rejected", 1)
					continue
				}
				c.Count("child_event_us_total", l.Us)
				if !l.Timeout && l.TooBig == 0 {
					if seqOut[l.Case] == nil {
						seqOut[l.Case] = map[int]string{}
					}
					seqOut[l.Case][l.Ev] = l.Out
				}
				t0 := time.Now()
				r.checkEvent(cases[l.Case], checkers[l.Case], l)
				c.Count("oracle_us_total", time.Since(t0).Microseconds())
			case "done":
				done = true
			}
		}
		if done && res.Completed {
			return
		}
		if res.TimedOut {
			c.Inconclusive("child watchdog")
			return
		}
		restarts++
		if restarts > casesPerBatch*r.nEvents+8 {
			c.Inconclusive("too many child restarts in one batch")
			return
		}
		// abnormal end: attribute to the last logged command
		switch {
		case pendingPar >= 0:
			msg, site := core.PanicSite(res.Stderr)
			tc := cases[pendingPar]
			r.violation("parallel pass: process died while several processors ran the plugin: "+core.Trunc(core.NormalizeMsg(msg), 80)+"@"+siteNoLine(site),
				"the single-processor pass over the same events went through; with GOMAXPROCS*2 processors (one plugin instance each, started from the same config pointer) the process died",
				map[string]any{"config": tc.Config, "events": tc.Events, "stderr_tail": core.Trunc(res.Stderr, 1500)})
			startCase, startEv = pendingPar+1, 0
		case pending != nil:
			r.crash(cases[pending.Case], checkers[pending.Case], pending.Case, pending.Ev, cases, res)
			crashesInCase[pending.Case]++
			startCase, startEv = pending.Case, pending.Ev+1
			if crashesInCase[pending.Case] >= maxCrashesPerCase && startEv < len(cases[startCase].Events) {
				// the same configuration keeps killing the process: the remaining
				// events of this case would only repeat the observation
				c.Count("events_skipped_after_repeated_crash", int64(len(cases[startCase].Events)-startEv))
				startEv = len(cases[startCase].Events)
			}
			if startEv >= len(cases[startCase].Events) {
				startCase, startEv = startCase+1, 0
			}
		case lastStart >= 0 && lastStart >= startCase:
			// died while starting the pipeline / plugin for this case, or between events
			msg, site := core.PanicSite(res.Stderr)
			c.Inconclusive("child died outside an event: " + core.Trunc(core.NormalizeMsg(msg), 100) + "@" + siteNoLine(site))
			c.Count("died_outside_event", 1)
			if os.Getenv("VERIF_C17_DEBUG") != "" {
				fmt.Fprintln(os.Stderr, "DIED OUTSIDE EVENT:", res.Stderr[max(0, len(res.Stderr)-1200):])
			}
			startCase, startEv = lastStart+1, 0
		default:
			c.Inconclusive("child died before the first case: " + core.Trunc(res.Stderr, 200))
			return
		}
	}
}

// checkPar: every output of the parallel pass must be byte-identical to what
// the single-processor pipeline (judged by the model) produced for the same
// event - the plugin's result is a function of the event and the
// configuration, not of which instance ran it or what the others were doing.
func (r *runner) checkPar(tc *testCase, seq map[int]string, l *childLine) {
	c := r.c
	c.Count("parallel_cases", 1)
	if l.Timeout {
		c.Inconclusive("parallel pass: not every event reached the output within 2 min")
	}
	if l.Err != "" {
		r.violation("parallel pass: event delivered twice", l.Err, map[string]any{"config": tc.Config})
	}
	n := len(tc.Events)
	reported := false
	for idx, out := range l.Outs {
		want, ok := seq[idx%n]
		if !ok || out == "" || want == "" {
			c.Count("parallel_events_without_reference", 1)
			continue
		}
		c.Eval(1)
		c.Count("parallel_events_compared", 1)
		if tc.Config.hasDoIf() {
			c.Count("parallel_events_compared_do_if", 1)
		}
		if out == want {
			c.Count("parallel_events_identical_to_sequential", 1)
			continue
		}
		if len(out) >= outputCap {
			continue
		}
		c.Count("parallel_events_different", 1)
		if !reported {
			reported = true
			kind := "parallel pass: output differs from the single-processor pipeline"
			if tc.Config.hasDoIf() {
				kind += " (masks with do_if)"
			}
			r.violation(kind, fmt.Sprintf("with %d processors (one plugin instance each, started from the same config pointer) event %d (round %d) came out differently than from the single-processor pipeline", l.Procs, idx%n, idx/n),
				map[string]any{"config": tc.Config, "event": tc.Events[idx%n], "sequential_out": want, "parallel_out": out})
		}
	}
}

// crash: the child died while the plugin processed event ev of case ci.
func (r *runner) crash(tc *testCase, ck *checker, ci, ev int, cases []*testCase, first *core.ChildResult) {
	c := r.c
	c.Eval(1)
	c.Count("events_sent", 1)
	msg, site := core.PanicSite(first.Stderr)
	nm := core.NormalizeMsg(msg)
	key := nm + "@" + siteNoLine(site)
	r.mu.Lock()
	r.confirmed[key]++
	doConfirm := r.confirmed[key] <= confirmPerShape || msg == ""
	r.mu.Unlock()
	conf := first
	if doConfirm {
		// confirm: that single event alone, in a fresh process
		conf = core.RunChild("mask", childIn{Cases: cases, StartCase: ci, StartEvent: ev, OnlyOne: true}, core.ChildOpt{Timeout: 3 * time.Minute, GOMAXPROCS: 2})
		if conf.TimedOut || conf.Completed {
			c.Inconclusive("crash not reproduced when the event is sent alone")
			c.Count("crash_unconfirmed", 1)
			return
		}
		msg, site = core.PanicSite(conf.Stderr)
		nm = core.NormalizeMsg(msg)
		c.Count("crash_rerun_alone_confirmed", 1)
	}
	shape, st, le, via := ck.crashShape(tc.trees[ev], nm)
	c.Count("crashes", 1)
	c.Count("crash_shape_"+shape, 1)
	det := map[string]any{
		"config": tc.Config, "event": tc.Events[ev], "panic": msg, "site": site,
		"stderr": core.Trunc(conf.Stderr, 1500),
	}
	what := "the collector process dies while the mask action rewrites a value"
	if st != nil {
		mc := &tc.Config.Masks[st.Mask]
		det["mask"] = st.Mask
		det["re"] = mc.Re
		det["groups"] = mc.Groups
		det["value"] = st.In
		det["leaf"] = strings.Join(le.Path, ".")
		det["selected_ranges_in_listed_order"] = st.Walk
		if via != "" {
			det["note"] = via
			c.Count("crash_reached_via_other_known_defect", 1)
		}
		what = fmt.Sprintf("%s: re=%q groups=%v on value %q (selection shape: %s): %s", what, mc.Re, mc.Groups, core.Trunc(st.In, 80), shape, msg)
		c.Nontrivial("crash|" + shape + "|" + shortMode(mc) + "|" + bucket(st.Matches))
	}
	sig := fmt.Sprintf("mask crash: selection=%s; %s @%s", shape, nm, siteNoLine(site))
	r.violation(sig, what, det)
}

func (r *runner) checkEvent(tc *testCase, ck *checker, l *childLine) {
	c := r.c
	c.Eval(1)
	c.Count("events_sent", 1)
	if l.Timeout {
		c.Inconclusive("event not delivered to the output within 30s")
		return
	}
	if l.TooBig > 0 {
		// undecided by itself (several inserting masks can legitimately blow a
		// value up); the remaining events of the case are not sent
		c.Inconclusive("output document larger than the harness cap")
		c.Count("events_skipped_after_oversized_output", int64(len(tc.Events)-l.Ev-1))
		return
	}
	got, err := parseJSON(l.Out)
	if err != nil {
		r.violation("output document is not valid JSON", err.Error(), map[string]any{"config": tc.Config, "event": tc.Events[l.Ev], "out": l.Out})
		return
	}
	tree := tc.trees[l.Ev]
	var ex0 *eventExpect
	var r0 *cmpResult
	accepted := -1
	for vi, v := range variants {
		ex := ck.m.expect(tree, v)
		res := ck.compare(ex, got, l.Metrics)
		if vi == 0 {
			ex0, r0 = ex, res
		}
		if res == nil {
			accepted = vi
			if vi != 0 {
				ex0 = ex
			}
			break
		}
	}
	if accepted < 0 {
		c.Count("mismatch_"+r0.Stage, 1)
		det := map[string]any{"config": tc.Config, "event": tc.Events[l.Ev], "out": l.Out, "metrics": l.Metrics, "first_difference": r0.Msg}
		if set := ck.explain(ex0, tree, got, l.Metrics); set != nil {
			// the observation is exactly what the listed defect(s) produce
			for _, k := range set {
				r.violation(knownDefects[k].Signature, knownDefects[k].What+" — first difference here: "+r0.Msg, det)
			}
			return
		}
		mm := ck.classify(ex0, r0, got)
		for k, v := range det {
			mm.Detail[k] = v
		}
		r.violation(mm.Signature, mm.What, mm.Detail)
		return
	}
	c.Count(fmt.Sprintf("accepted_under_variant_%d", accepted), 1)
	r.evidence(tc, ck, ex0, l)
}

// evidence records what this (conforming) event exercised.
func (r *runner) evidence(tc *testCase, ck *checker, ex *eventExpect, l *childLine) {
	c := r.c
	cfg := &tc.Config
	if ex.Any {
		c.Count("events_with_a_match", 1)
	} else {
		c.Count("events_without_match", 1)
	}
	if len(l.Metrics) > 0 {
		c.Count("events_with_metric_delta", 1)
	}
	// metrics matrix: which cell this (conforming) event belongs to and what was
	// seen of its counters
	shape := shapeOf(cfg)
	maskMoved, maskQuiet := false, false
	for i := range cfg.Masks {
		if cfg.Masks[i].MetricName == "" {
			continue
		}
		moved := false
		for k := range l.Metrics {
			if strings.HasPrefix(k, cfg.Masks[i].MetricName+"{") {
				moved = true
			}
		}
		if moved {
			maskMoved = true
			c.Count("mask_counter_moved_checked", 1)
			if len(cfg.Masks[i].MetricLabels) > 0 {
				c.Count("mask_counter_moved_with_label_checked", 1)
			}
			if shape.Plugin == "off" {
				c.Count("mask_counter_moved_while_plugin_metric_off", 1)
			}
		} else {
			maskQuiet = true
			if ex.Any {
				c.Count("mask_counter_quiet_while_another_mask_applied", 1)
			}
		}
	}
	if ex.Any {
		c.Count("metrics_cell_applied|"+shape.String(), 1)
		switch shape.Plugin {
		case "off":
			c.Count("events_applied_plugin_metric_off", 1)
		case "custom":
			c.Count("events_applied_plugin_metric_custom", 1)
		default:
			c.Count("events_applied_plugin_metric_default", 1)
		}
	} else {
		c.Count("metrics_cell_not_applied|"+shape.String(), 1)
	}
	c.Nontrivial(fmt.Sprintf("metrics|%s|any=%v|mask_moved=%v|mask_quiet=%v", shape, ex.Any, maskMoved, maskQuiet))
	for _, le := range ex.Leaves {
		c.Count("leaves", 1)
		if le.Kind == kNum {
			c.Count("leaves_number", 1)
		}
		if le.Orig == "" {
			c.Count("leaves_empty", 1)
		}
		if le.Undefined {
			c.Count("leaves_overlap_weak_only", 1)
		}
		if le.Final != le.Orig && !le.Undefined {
			c.Count("leaves_rewritten", 1)
			if le.Kind == kNum {
				c.Count("leaves_number_rewritten", 1)
			}
			if le.Final == "" {
				c.Count("leaves_emptied", 1)
			}
		}
		for k := range le.Steps {
			s := &le.Steps[k]
			mc := &cfg.Masks[s.Mask]
			c.Count("pairs_mask_x_leaf", 1)
			_, kind := ck.m.governing(s.Mask)
			ownList := s.Mask >= 64 && (len(mc.IgnoreFields) > 0 || len(mc.ProcessFields) > 0)
			if mc.DoIf != nil && !s.DoIfOff && s.Applied {
				c.Count("pair_do_if_on_applied", 1)
			}
			if ownList && s.Applied {
				c.Count("pair_own_list_mask_index_64_or_more_applied", 1)
			}
			switch {
			case s.DoIfOff:
				c.Count("pair_do_if_off", 1)
				c.Nontrivial("do_if-off|" + fmt.Sprint(len(le.Path)))
				continue
			case !s.Selected:
				if ownList {
					c.Count("pair_own_list_mask_index_64_or_more_not_selected", 1)
				}
				c.Count("pair_not_selected_by_field_lists", 1)
				c.Count("pair_not_selected_"+kind, 1)
				c.Nontrivial("skip|" + kind + "|" + fmt.Sprint(len(le.Path)))
				continue
			case !s.RulesPass:
				c.Count("pair_match_rules_reject", 1)
				continue
			}
			if kind != "none" {
				c.Count("pair_selected_"+kind, 1)
			}
			if !s.Regex {
				if s.Applied {
					c.Count("pair_rules_only_applied", 1)
					c.Nontrivial("rules-only|" + kind)
				}
				continue
			}
			if !s.Applied {
				c.Count("pair_regexp_no_match", 1)
				continue
			}
			c.Count("pair_regexp_matched", 1)
			c.Count("pair_"+shortModeKey(mc), 1)
			c.Count("shape_"+s.Shape, 1)
			sel := ""
			touchS, touchE := false, false
			empty := false
			for _, sp := range s.Walk {
				sel += s.In[sp.S:sp.E]
				if sp.S == 0 {
					touchS = true
				}
				if sp.E == len(s.In) {
					touchE = true
				}
				if sp.S == sp.E {
					empty = true
				}
			}
			if multiByte(sel) {
				c.Count("pair_selected_text_multibyte", 1)
			}
			if empty {
				c.Count("pair_with_empty_selected_range", 1)
			}
			if touchE {
				c.Count("pair_selection_touches_value_end", 1)
			}
			changed := "same"
			if s.Out != s.In {
				changed = "rewritten"
			}
			if len(mc.MatchRules) > 0 {
				c.Count("pair_regexp_matched_behind_match_rules", 1)
			}
			c.Nontrivial(strings.Join([]string{
				"rw", mc.GenClass, shortModeKey(mc), s.Shape, bucket(s.Matches), bucket(len(s.Walk)),
				fmt.Sprint(multiByte(sel)), fmt.Sprint(touchS), fmt.Sprint(touchE), fmt.Sprint(empty),
				string(le.Kind), kind, changed, fmt.Sprint(len(mc.Groups)), fmt.Sprint(s.Mask), bucket(utf8.RuneCountInString(s.In) / 64),
			}, "|"))
		}
	}
	if ex.Any && (cfg.MaskAppliedField != "" || anyAppliedField(cfg)) {
		c.Count("events_with_applied_mark_checked", 1)
	}
	if r.c.Counter("events_sent")%997 == 0 || (ex.Any && r.c.Counter("events_with_a_match") < 4) {
		c.Sample(map[string]any{"config": cfg, "event": core.Trunc(tc.Events[l.Ev], 400), "out": core.Trunc(l.Out, 400), "metrics": l.Metrics})
	}
}

func anyAppliedField(cfg *pluginCfg) bool {
	for i := range cfg.Masks {
		if cfg.Masks[i].AppliedField != "" {
			return true
		}
	}
	return false
}

func shortModeKey(mc *maskCfg) string {
	switch mc.mode() {
	case "mask":
		if mc.MaxCount > 0 {
			return "mode_mask_max_count"
		}
		return "mode_mask_unlimited"
	case "replace":
		return "mode_replace_word"
	}
	return "mode_cut"
}

func main() {
	core.RegisterChild("mask", childMain)
	if len(os.Args) > 2 && os.Args[1] == "probe" { // diagnostics: c17 probe '{"config":{...},"events":["{...}"]}'
		probe(os.Args[2])
		return
	}
	core.Main("C17", "exploration", func(c *core.Ctx) {
		c.SetRule("per case: 1-3 generated masks (regexp AST generator: literals incl. multi-byte and metacharacters, classes, groups nested/alternated/optional/repeated/empty; group lists: ascending subsets, [0], 0 among others, any subset in any order; modes mask/max_count/replace_word/cut_values; match_rules; global and per-mask process/ignore lists over nested objects/arrays; applied fields, metrics, metric labels; applied_metric_name absent / custom / explicit empty string, plus a directed family walking every cell of applied_metric_name x per-mask metric_name (none / plain / with metric_labels) x mask_applied_field) decoded through pipeline.GetConfig and run by the real plugin in a real pipeline; per case N generated events (nested objects/arrays, strings planted with samples of the masks' expressions so matches touch value ends, numbers, empty/long values, escapes) sent one by one through the same plugin instance. Non-trivial = a (mask, leaf) pair where the regexp matched, or field lists/match rules decided; fingerprint = generator class | mode | selection shape | #matches | #ranges | multi-byte | touches start/end | empty range | leaf kind | governing list kind | rewritten | #groups | mask position | length bucket")
		c.Assume("Go regexp.FindAllSubmatchIndex is trusted for group ranges (the oracle judges the rewrite, not the regexp engine)")
		c.Assume("encoding/json is trusted to parse the documents produced by the pipeline")
		c.Assume("documentation leaves open: match_rules on original vs rewritten value; empty values processed or not; counters per event or per value; a number whose text is unchanged/remains numeric may stay a number or become a string - every reading is accepted")
		nCases := c.N(5184, 90000)
		r := &runner{c: c, nEvents: c.N(12, 16), confirmed: map[string]int{}, sigs: map[string]int{}}
		r.nRandom = nCases / casesPerBatch
		// metrics matrix family: 18 cells x 8 (quick) / x 64 (thorough) cases
		nMatrix := c.N(144, 1152)
		r.nBase = r.nRandom + nMatrix/casesPerBatch
		// extension batches: 3 families x 2 (quick) / x 16 (thorough) batches of 24 cases
		nExt := c.N(6, 48)
		nBatches := r.nBase + nExt
		core.ParallelFor(r.nBase, 24, r.runBatch)
		// the parallel passes want real parallelism inside each child (GOMAXPROCS 4)
		core.ParallelFor(nExt, 4, func(i int) { r.runBatch(r.nBase + i) })
		_ = nBatches

		c.Extra("refuting_observations_by_signature", r.sigs)
		c.Extra("cases", nCases+nMatrix)
		c.Extra("cases_metrics_matrix", nMatrix)
		c.Extra("cases_extension_families", map[string]any{"families": extFamilies, "cases": nExt * casesPerBatch, "parallel_rounds": parRounds,
			"what": "longlist: 61-72 never-matching filler masks before three generated masks that each have a process/ignore list of their own (mask indices around and beyond 64), judged by the model; par-doif: masks with do_if (equal on the top-level field dk; events with dk on/off/ON/'on '/1/absent) judged by the model in the single-processor pass, then the same events 16 times over through a pipeline with 8 processors (4 feeders, 12 sources), every output byte-identical to the single-processor one; par-: the parallel pass over ordinary cases"})
		c.Extra("events_per_case", r.nEvents)
		// a run that did not observe the behaviours it is about decides nothing
		need := []string{"events_with_a_match", "events_without_match", "leaves_rewritten", "pair_mode_mask_unlimited", "pair_mode_mask_max_count",
			"pair_mode_replace_word", "pair_mode_cut", "pair_not_selected_by_field_lists", "pair_match_rules_reject", "pair_selected_text_multibyte",
			"pair_selection_touches_value_end", "events_with_applied_mark_checked", "events_with_metric_delta", "leaves_number_rewritten", "pair_rules_only_applied",
			"mask_counter_moved_checked", "mask_counter_moved_with_label_checked", "mask_counter_moved_while_plugin_metric_off",
			"mask_counter_quiet_while_another_mask_applied", "events_applied_plugin_metric_off", "events_applied_plugin_metric_custom", "events_applied_plugin_metric_default",
			"parallel_events_compared", "parallel_events_compared_do_if", "pair_do_if_off", "pair_do_if_on_applied", "pair_own_list_mask_index_64_or_more_applied", "pair_own_list_mask_index_64_or_more_not_selected"}
		for _, cell := range metricsMatrix { // every cell of the metrics matrix, with and without a match
			need = append(need, "metrics_cell_applied|"+cell.String(), "metrics_cell_not_applied|"+cell.String())
		}
		for _, n := range need {
			if c.Counter(n) == 0 {
				c.Fatal("behaviour class %q was never observed", n)
			}
		}
		if c.Counter("config_rejected")*100 > int64(nCases) {
			c.Fatal("too many generated configurations were rejected by the plugin (%d)", c.Counter("config_rejected"))
		}
	})
}

// probe runs one hand-written case through the real plugin (in a child) and
// prints what the plugin produced next to what the model expects.
func probe(arg string) {
	var tc testCase
	if err := json.Unmarshal([]byte(arg), &tc); err != nil {
		fmt.Println("bad case:", err)
		return
	}
	for _, e := range tc.Events {
		t, err := parseJSON(e)
		if err != nil {
			fmt.Println("bad event:", err)
			return
		}
		tc.trees = append(tc.trees, t)
	}
	ck := newChecker(&tc)
	start := 0
	for start < len(tc.Events) {
		res := core.RunChild("mask", childIn{Cases: []*testCase{&tc}, StartEvent: start}, core.ChildOpt{Timeout: time.Minute})
		next := len(tc.Events)
		for _, l := range parseLines(res) {
			switch l.T {
			case "cmd":
				next = l.Ev + 1
			case "res":
				if l.Ev < 0 {
					fmt.Println("config rejected:", l.Err)
					return
				}
				ex := ck.m.expect(tc.trees[l.Ev], variants[0])
				got, _ := parseJSON(l.Out)
				verdict := "conforms"
				if got == nil {
					verdict = "invalid output"
				} else if r := ck.compare(ex, got, l.Metrics); r != nil {
					verdict = "DISAGREES: " + r.Msg
				}
				fmt.Printf("event %d: in  %s\n         out %s\n         metrics %v\n         model: body %s marks %v -> %s\n", l.Ev, tc.Events[l.Ev], l.Out, l.Metrics, encodeJSON(ex.Tree, nil), ck.marks(ex), verdict)
			}
		}
		if res.Completed {
			return
		}
		msg, site := core.PanicSite(res.Stderr)
		fmt.Printf("event %d: in  %s\n         PROCESS DIED: %s @%s\n%s\n", next-1, tc.Events[next-1], msg, site, core.Trunc(res.Stderr, 1500))
		start = next
	}
}
