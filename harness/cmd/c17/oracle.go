package main

// Comparison of one observed event (output document + metric deltas) with
// the reference model, and structural classification of a disagreement.

import (
	"fmt"
	"sort"
	"strings"
)

type mismatch struct {
	Signature string
	What      string
	Detail    map[string]any
}

type checker struct {
	tc *testCase
	m  *model
}

func newChecker(tc *testCase) *checker {
	return &checker{tc: tc, m: newModel(&tc.Config)}
}

type expectedMark struct {
	name, value, owner string
	optional           bool // may or may not be set (undetermined value, see eventExpect.AppliedMax)
}

func (ck *checker) marks(ex *eventExpect) []expectedMark {
	var out []expectedMark
	for i := range ck.tc.Config.Masks {
		mc := &ck.tc.Config.Masks[i]
		if mc.AppliedField != "" && ex.AppliedMax[i] > 0 {
			out = append(out, expectedMark{mc.AppliedField, mc.AppliedValue, "mask", ex.AppliedCount[i] == 0})
		}
	}
	if ck.tc.Config.MaskAppliedField != "" && ex.ApplicationsMax > 0 {
		out = append(out, expectedMark{ck.tc.Config.MaskAppliedField, ck.tc.Config.MaskAppliedValue, "plugin", !ex.Any})
	}
	return out
}

func hasEmpty(sp []span) bool {
	for _, s := range sp {
		if s.S == s.E {
			return true
		}
	}
	return false
}

// compare returns nil when the observation equals the expectation.
// stage: "structure" | "marks" | "leaf" | "metrics".
type cmpResult struct {
	Stage string
	Diff  *treeDiff
	Msg   string
	Sub   string // finer class for marks / metrics
}

func (ck *checker) compare(ex *eventExpect, got *jnode, metrics map[string]float64) *cmpResult {
	cfg := &ck.tc.Config
	if got.Kind != kObj {
		return &cmpResult{Stage: "structure", Msg: "root is not an object any more", Sub: "root-kind"}
	}
	n := len(ex.Tree.Keys)
	if len(got.Keys) < n {
		return &cmpResult{Stage: "structure", Msg: fmt.Sprintf("root keys %q, want at least %q", got.Keys, ex.Tree.Keys), Sub: "root-keys-lost"}
	}
	// body: the original keys, in order
	body := &jnode{Kind: kObj, Keys: got.Keys[:n], Vals: got.Vals[:n]}
	wild := map[*jnode]func(string) string{}
	for node, le := range ex.Wild {
		le := le
		mc := &cfg.Masks[le.WeakStep.Mask]
		wild[node] = func(text string) string {
			if !le.WeakLast || hasEmpty(le.WeakStep.Walk) {
				return "" // nothing sound can be said
			}
			if !weakCheck(le, mc, text) {
				return "bytes outside the selected ranges were not preserved / masked text not replaced"
			}
			return ""
		}
	}
	if d := diffTrees(ex.Tree, body, "", ex.NumOrStr, wild); d != nil {
		st := "leaf"
		if d.Class != "value" && d.Class != "weak" && !(d.Class == "kind" && (d.Want.Kind == kStr || d.Want.Kind == kNum) && (d.Got.Kind == kStr || d.Got.Kind == kNum)) {
			st = "structure"
		}
		return &cmpResult{Stage: st, Diff: d, Msg: d.Msg, Sub: d.Class}
	}
	// applied marks: exactly the expected set, each a string with the configured value
	want := ck.marks(ex)
	wantBy := map[string]expectedMark{}
	for _, w := range want {
		wantBy[w.name] = w
	}
	seen := map[string]bool{}
	for i := n; i < len(got.Keys); i++ {
		k := got.Keys[i]
		w, ok := wantBy[k]
		if !ok {
			owner := "unknown"
			if k == cfg.MaskAppliedField {
				owner = "plugin"
			}
			for j := range cfg.Masks {
				if cfg.Masks[j].AppliedField == k {
					owner = "mask"
				}
			}
			return &cmpResult{Stage: "marks", Msg: fmt.Sprintf("unexpected field %q=%q added (no mask matched for it)", k, got.Vals[i].Text), Sub: "unexpected-" + owner + "-mark"}
		}
		if seen[k] {
			return &cmpResult{Stage: "marks", Msg: fmt.Sprintf("field %q added twice", k), Sub: "duplicate-mark"}
		}
		seen[k] = true
		if got.Vals[i].Kind != kStr || got.Vals[i].Text != w.value {
			return &cmpResult{Stage: "marks", Msg: fmt.Sprintf("field %q has value %c %q, want string %q", k, got.Vals[i].Kind, got.Vals[i].Text, w.value), Sub: "wrong-mark-value"}
		}
	}
	for _, w := range want {
		if !seen[w.name] && !w.optional {
			return &cmpResult{Stage: "marks", Msg: fmt.Sprintf("field %q=%q missing although a mask matched", w.name, w.value), Sub: "missing-" + w.owner + "-mark"}
		}
	}
	// metrics. An explicit empty applied_metric_name switches the plugin-level
	// counter off (nothing to observe for it); the per-mask counters are
	// independent of it: "metrics are set exactly when some mask matched" holds
	// for every mask that has a metric_name, whatever the plugin-level name is.
	pluginOff := cfg.pluginMetricName() == ""
	if !pluginOff {
		if r := ck.compareMetric(ex, cfg.pluginMetricName(), cfg.AppliedMetricLabels, "plugin", ex.Any, ex.ApplicationsMax, metrics); r != nil {
			return r
		}
	}
	for i := range cfg.Masks {
		mc := &cfg.Masks[i]
		if mc.MetricName == "" {
			continue
		}
		if r := ck.compareMetric(ex, mc.MetricName, mc.MetricLabels, "mask", ex.AppliedCount[i] > 0, ex.AppliedMax[i], metrics); r != nil {
			if pluginOff {
				r.Sub += " while applied_metric_name is explicitly empty"
			}
			return r
		}
	}
	return nil
}

// compareMetric: the counter moves iff the mask(s) matched; by at least one
// and at most the number of applications (the README does not say whether
// events or values are counted). With a label, the label value is the value
// of that event field *after* masking, or "not_set".
func (ck *checker) compareMetric(ex *eventExpect, name string, labels []string, owner string, applied bool, maxDelta int, metrics map[string]float64) *cmpResult {
	sum := 0.0
	var keys []string
	for k, v := range metrics {
		if strings.HasPrefix(k, name+"{") {
			sum += v
			keys = append(keys, k)
		}
	}
	sort.Strings(keys)
	switch {
	case !applied && maxDelta > 0 && sum >= 0 && sum <= float64(maxDelta):
		// undetermined: may or may not have matched
	case !applied && sum != 0:
		return &cmpResult{Stage: "metrics", Msg: fmt.Sprintf("%s counter %s moved by %v although nothing matched", owner, name, sum), Sub: owner + "-counter-unexpected"}
	case applied && sum == 0:
		return &cmpResult{Stage: "metrics", Msg: fmt.Sprintf("%s counter %s did not move although a mask matched", owner, name), Sub: owner + "-counter-missing"}
	case applied && (sum < 1 || sum > float64(maxDelta)):
		return &cmpResult{Stage: "metrics", Msg: fmt.Sprintf("%s counter %s moved by %v, want 1..%d", owner, name, sum, maxDelta), Sub: owner + "-counter-out-of-range"}
	}
	if sum > 0 && len(labels) == 1 {
		lab := labels[0]
		wantVal, known := "not_set", true
		for i, k := range ex.Tree.Keys {
			if k != lab {
				continue
			}
			node := ex.Tree.Vals[i]
			if _, w := ex.Wild[node]; w || (node.Kind != kStr && node.Kind != kNum) {
				known = false
			} else {
				wantVal = node.Text
			}
		}
		if known {
			wantKey := name + "{" + lab + "=" + wantVal + "}"
			for _, k := range keys {
				if k != wantKey {
					return &cmpResult{Stage: "metrics", Msg: fmt.Sprintf("%s counter carries label %s, want %s (the field value after masking)", owner, k, wantKey), Sub: owner + "-counter-label"}
				}
			}
		}
	}
	return nil
}

// ---------- classification of a disagreement ----------

func shortMode(mc *maskCfg) string {
	s := "mode=" + mc.mode()
	if mc.MaxCount > 0 && mc.mode() == "mask" {
		s += " max_count>0"
	}
	return s
}

// knownDefect is a hypothesis the diagnosis can switch on in the model.
type knownDefect struct {
	Signature string
	What      string
	set       func(d *diagHyp)
	relevant  func(ck *checker, ex *eventExpect) bool // can the defect show at all in this event?
}

func shadowKind(kind string) func(ck *checker, ex *eventExpect) bool {
	return func(ck *checker, ex *eventExpect) bool {
		for i := range ck.m.masks {
			if _, k := ck.m.governing(i); k != kind {
				continue
			}
			for _, le := range ex.Leaves {
				if ck.m.shadowed(i, le.Path) {
					return true
				}
			}
		}
		return false
	}
}

func cutThenRegexp(ck *checker, _ *eventExpect) bool {
	cut := false
	for i := range ck.m.masks {
		cm := &ck.m.masks[i]
		if cut && cm.re != nil && len(cm.groups) > 0 {
			return true
		}
		if cm.re != nil && len(cm.groups) > 0 && cm.cfg.mode() == "cut" {
			cut = true
		}
	}
	return false
}

func hasDetectOnly(ck *checker, _ *eventExpect) bool {
	for i := range ck.m.masks {
		if ck.m.masks[i].re != nil && len(ck.m.masks[i].groups) == 0 {
			return true
		}
	}
	return false
}

var knownDefects = []knownDefect{
	{"field lists: global-ignore entry is an ancestor of a path listed in another list and is not inherited by its other descendants",
		"plugin-level ignore_fields names X, another list names X.Y: fields below X other than the listed one are processed although X is ignored",
		func(d *diagHyp) { d.FlipShadowed["global-ignore"] = true }, shadowKind("global-ignore")},
	{"field lists: global-process entry is an ancestor of a path listed in another list and is not inherited by its other descendants",
		"plugin-level process_fields names X, another list names X.Y: fields below X are left unmasked although X is to be processed",
		func(d *diagHyp) { d.FlipShadowed["global-process"] = true }, shadowKind("global-process")},
	{"field lists: mask-ignore entry is an ancestor of a path listed in another list and is not inherited by its other descendants",
		"a mask's ignore_fields names X, another list names X.Y: fields below X are processed by that mask although X is ignored",
		func(d *diagHyp) { d.FlipShadowed["mask-ignore"] = true }, shadowKind("mask-ignore")},
	{"field lists: mask-process entry is an ancestor of a path listed in another list and is not inherited by its other descendants",
		"a mask's process_fields names X, another list names X.Y: fields below X are left unmasked by that mask although X is to be processed",
		func(d *diagHyp) { d.FlipShadowed["mask-process"] = true }, shadowKind("mask-process")},
	{"value emptied by a mask is restored from the original when a later mask is evaluated",
		"a mask removes the whole value (cut_values); the next regexp mask evaluated on that field re-reads the original value, so the secret is written back",
		func(d *diagHyp) { d.ReloadOnEmpty = true }, cutThenRegexp},
	{"mask with re and no groups is reported as applied without consulting the regexp",
		"a mask with a regexp and an empty group list sets applied_field / mask_applied_field / counters for every non-empty value that passes its match rules, whether or not the regexp matches",
		func(d *diagHyp) { d.DetectOnlyAlways = true }, hasDetectOnly},
}

// explain searches the smallest set of known defects under which the model
// reproduces the observation exactly (under any documented variant).
func (ck *checker) explain(ex0 *eventExpect, tree, got *jnode, metrics map[string]float64) []int {
	var rel []int
	for k := range knownDefects {
		if knownDefects[k].relevant(ck, ex0) {
			rel = append(rel, k)
		}
	}
	n := len(rel)
	var sets [][]int
	for mask := 1; mask < 1<<n; mask++ {
		var set []int
		for b := 0; b < n; b++ {
			if mask&(1<<b) != 0 {
				set = append(set, rel[b])
			}
		}
		sets = append(sets, set)
	}
	sort.SliceStable(sets, func(a, b int) bool { return len(sets[a]) < len(sets[b]) })
	defer func() { ck.m.diag = diagHyp{} }()
	for _, set := range sets {
		d := diagHyp{FlipShadowed: map[string]bool{}}
		for _, k := range set {
			knownDefects[k].set(&d)
		}
		ck.m.diag = d
		for _, v := range variants {
			if ck.compare(ck.m.expect(tree, v), got, metrics) == nil {
				return set
			}
		}
	}
	return nil
}

// classify names a disagreement that is not explained by a known defect.
func (ck *checker) classify(ex *eventExpect, r *cmpResult, got *jnode) mismatch {
	cfg := &ck.tc.Config
	mm := mismatch{Detail: map[string]any{"stage": r.Stage, "diff": r.Msg}}
	switch r.Stage {
	case "structure":
		mm.Signature = "document structure changed: " + r.Sub
		mm.What = "keys / structure / non-processed nodes differ after the mask action: " + r.Msg
		return mm
	case "leaf":
		le := ex.LeafOf[r.Diff.Want]
		if le == nil {
			mm.Signature = "value of a node that is not a string/number leaf changed"
			mm.What = r.Msg
			return mm
		}
		mm.Detail["path"] = le.Path
		mm.Detail["original"] = le.Orig
		mm.Detail["expected"] = le.Final
		mm.Detail["got"] = r.Diff.Got.Text
		mm.Detail["steps"] = le.Steps
		gotText := r.Diff.Got.Text
		last := -1
		for k := range le.Steps {
			if le.Steps[k].Applied && le.Steps[k].Regex {
				last = k
			}
		}
		kind := "string"
		if le.Kind == kNum {
			kind = "number"
		}
		if r.Sub == "kind" {
			mm.Signature = "leaf type changed without a change of its text: " + kind
			mm.What = r.Msg
			return mm
		}
		if last < 0 {
			mm.Signature = "value changed although no mask matched it: leaf=" + kind
			mm.What = r.Msg
			return mm
		}
		s := &le.Steps[last]
		dir := "other"
		switch {
		case gotText == le.Orig:
			dir = "left-unmasked"
		case r.Sub == "weak":
			dir = "outside-bytes-or-masking-material"
		}
		mm.Signature = fmt.Sprintf("rewrite mismatch: %s selection=%s result=%s leaf=%s", shortMode(&cfg.Masks[s.Mask]), s.Shape, dir, kind)
		mm.What = fmt.Sprintf("leaf %q: %s", strings.Join(le.Path, "."), r.Msg)
		return mm
	}
	mm.Signature = r.Stage + " mismatch: " + r.Sub
	mm.What = r.Msg
	return mm
}

// crashShape picks the (leaf, mask) evaluation whose selection shape explains
// a crash with the given (normalised) message. Diagnosis only.
func (ck *checker) crashShape(tree *jnode, normMsg string) (shape string, st *stepEval, le *leafEval, via string) {
	const viaNote = "value reached through another known defect (field list not inherited / emptied value re-read)"
	// the documented behaviour never brings a hostile selection to a value of
	// this event? then one of the other known defects may have (a field list
	// that is not inherited lets a mask see a field it must not see; a value
	// emptied by a cut mask is re-read by the next mask)
	d := diagHyp{FlipShadowed: map[string]bool{"global-ignore": true, "global-process": true, "mask-ignore": true, "mask-process": true}, ReloadOnEmpty: true}
	defer func() { ck.m.diag = diagHyp{} }()
	type cand struct {
		shape string
		st    *stepEval
		le    *leafEval
		exact bool
		via   string
	}
	var cands []cand
	for pass, hyp := range []diagHyp{{}, d} {
		ck.m.diag = hyp
		sh, s, l, exact := ck.crashShapeUnder(tree, normMsg)
		v := ""
		if pass == 1 {
			v = viaNote
		}
		if s != nil {
			cands = append(cands, cand{sh, s, l, exact, v})
		}
	}
	for _, c := range cands {
		if c.exact {
			return c.shape, c.st, c.le, c.via
		}
	}
	if len(cands) > 0 {
		c := cands[0]
		return c.shape, c.st, c.le, c.via
	}
	return "none", nil, nil, ""
}

// crashShapeUnder: exact = the shape class agrees with the panic message
// ("[-N:]" comes from an unmatched last group, "[N:N]" from ranges that are
// not ascending).
func (ck *checker) crashShapeUnder(tree *jnode, normMsg string) (shape string, st *stepEval, le *leafEval, exact bool) {
	ex := ck.m.expect(tree, variants[0])
	wantLast := strings.Contains(normMsg, "[-N:]") || strings.Contains(normMsg, "[:-N]")
	var firstAny *stepEval
	var firstAnyLeaf *leafEval
	for _, l := range ex.Leaves {
		for k := range l.Steps {
			s := &l.Steps[k]
			if !s.Regex || !s.Applied || s.Shape == "ascending-disjoint" {
				continue
			}
			if firstAny == nil {
				firstAny, firstAnyLeaf = s, l
			}
			isLast := s.Shape == "last-listed-group-unmatched-in-last-match"
			if isLast == wantLast {
				return s.Shape, s, l, true
			}
		}
	}
	if firstAny != nil {
		return firstAny.Shape, firstAny, firstAnyLeaf, false
	}
	return "none", nil, nil, false
}
