package main

// Order-preserving JSON tree used by the generator, the reference model and
// the comparison of the real output. Numbers keep their raw text.

import (
	"bytes"
	"encoding/json"
	"fmt"
	"io"
	"math/rand"
	"strings"
	"unicode/utf8"
)

const (
	kObj  = 'o'
	kArr  = 'a'
	kStr  = 's'
	kNum  = 'n'
	kBool = 'b'
	kNull = 'z'
)

type jnode struct {
	Kind byte
	Keys []string
	Vals []*jnode // object values (parallel to Keys) or array elements
	Text string   // string value / raw number text / "true" / "false"
}

func (n *jnode) clone() *jnode {
	if n == nil {
		return nil
	}
	c := &jnode{Kind: n.Kind, Text: n.Text}
	if n.Keys != nil {
		c.Keys = append([]string(nil), n.Keys...)
	}
	for _, v := range n.Vals {
		c.Vals = append(c.Vals, v.clone())
	}
	return c
}

// parseJSON decodes one JSON document keeping key order and number text.
func parseJSON(s string) (*jnode, error) {
	dec := json.NewDecoder(strings.NewReader(s))
	dec.UseNumber()
	n, err := parseValue(dec)
	if err != nil {
		return nil, err
	}
	if _, err := dec.Token(); err != io.EOF {
		return nil, fmt.Errorf("trailing data after JSON value")
	}
	return n, nil
}

func parseValue(dec *json.Decoder) (*jnode, error) {
	t, err := dec.Token()
	if err != nil {
		return nil, err
	}
	switch v := t.(type) {
	case json.Delim:
		switch v {
		case '{':
			n := &jnode{Kind: kObj}
			for dec.More() {
				kt, err := dec.Token()
				if err != nil {
					return nil, err
				}
				k, ok := kt.(string)
				if !ok {
					return nil, fmt.Errorf("non-string key")
				}
				val, err := parseValue(dec)
				if err != nil {
					return nil, err
				}
				n.Keys = append(n.Keys, k)
				n.Vals = append(n.Vals, val)
			}
			if _, err := dec.Token(); err != nil {
				return nil, err
			}
			return n, nil
		case '[':
			n := &jnode{Kind: kArr}
			for dec.More() {
				val, err := parseValue(dec)
				if err != nil {
					return nil, err
				}
				n.Vals = append(n.Vals, val)
			}
			if _, err := dec.Token(); err != nil {
				return nil, err
			}
			return n, nil
		}
		return nil, fmt.Errorf("unexpected delimiter %v", v)
	case string:
		return &jnode{Kind: kStr, Text: v}, nil
	case json.Number:
		return &jnode{Kind: kNum, Text: string(v)}, nil
	case bool:
		if v {
			return &jnode{Kind: kBool, Text: "true"}, nil
		}
		return &jnode{Kind: kBool, Text: "false"}, nil
	case nil:
		return &jnode{Kind: kNull}, nil
	}
	return nil, fmt.Errorf("unexpected token %v", t)
}

// encodeJSON writes the tree; when rng != nil strings are escaped in varying
// (all valid) styles: \uXXXX for non-ASCII runes (surrogate pairs above the
// BMP), "\/" for '/', short vs \u00XX escapes for control characters.
func encodeJSON(n *jnode, rng *rand.Rand) string {
	var b bytes.Buffer
	encodeNode(&b, n, rng)
	return b.String()
}

func encodeNode(b *bytes.Buffer, n *jnode, rng *rand.Rand) {
	switch n.Kind {
	case kObj:
		b.WriteByte('{')
		for i, k := range n.Keys {
			if i > 0 {
				b.WriteByte(',')
			}
			encodeString(b, k, rng)
			b.WriteByte(':')
			encodeNode(b, n.Vals[i], rng)
		}
		b.WriteByte('}')
	case kArr:
		b.WriteByte('[')
		for i, v := range n.Vals {
			if i > 0 {
				b.WriteByte(',')
			}
			encodeNode(b, v, rng)
		}
		b.WriteByte(']')
	case kStr:
		encodeString(b, n.Text, rng)
	case kNum, kBool:
		b.WriteString(n.Text)
	case kNull:
		b.WriteString("null")
	}
}

func encodeString(b *bytes.Buffer, s string, rng *rand.Rand) {
	b.WriteByte('"')
	for _, r := range s {
		switch {
		case r == '"':
			b.WriteString(`\"`)
		case r == '\\':
			b.WriteString(`\\`)
		case r == '\n':
			if rng != nil && rng.Intn(4) == 0 {
				b.WriteString(`\u000a`)
			} else {
				b.WriteString(`\n`)
			}
		case r == '\t':
			if rng != nil && rng.Intn(4) == 0 {
				b.WriteString(`\u0009`)
			} else {
				b.WriteString(`\t`)
			}
		case r == '\r':
			b.WriteString(`\r`)
		case r < 0x20:
			fmt.Fprintf(b, `\u%04x`, r)
		case r == '/' && rng != nil && rng.Intn(3) == 0:
			b.WriteString(`\/`)
		case r >= 0x80 && rng != nil && rng.Intn(5) == 0:
			if r >= 0x10000 {
				r2 := r - 0x10000
				fmt.Fprintf(b, `\u%04x\u%04x`, 0xd800+(r2>>10), 0xdc00+(r2&0x3ff))
			} else {
				fmt.Fprintf(b, `\u%04X`, r)
			}
		default:
			var tmp [4]byte
			k := utf8.EncodeRune(tmp[:], r)
			b.Write(tmp[:k])
		}
	}
	b.WriteByte('"')
}

// leaf describes one string/number leaf and its path (object keys and
// decimal array indexes from the root).
type leaf struct {
	Path []string
	Node *jnode
}

func collectLeaves(n *jnode, path []string, out *[]leaf) {
	switch n.Kind {
	case kObj:
		for i, k := range n.Keys {
			collectLeaves(n.Vals[i], append(append([]string(nil), path...), k), out)
		}
	case kArr:
		for i, v := range n.Vals {
			collectLeaves(v, append(append([]string(nil), path...), fmt.Sprint(i)), out)
		}
	case kStr, kNum:
		*out = append(*out, leaf{Path: append([]string(nil), path...), Node: n})
	}
}

// treeDiff is the first difference between the expected and the real tree.
type treeDiff struct {
	Path  string
	Class string // kind | keys | key | length | value | weak
	Want  *jnode
	Got   *jnode
	Msg   string
}

// diffTrees returns nil when equal. numOrStr lists nodes of `want` that may
// be either a number or a string with the same text; wild lists nodes of
// `want` without exact expectation and the check to apply to the real text
// instead ("" = fine).
func diffTrees(want, got *jnode, path string, numOrStr map[*jnode]bool, wild map[*jnode]func(string) string) *treeDiff {
	if chk, ok := wild[want]; ok {
		if got.Kind != kStr && got.Kind != kNum {
			return &treeDiff{path, "kind", want, got, fmt.Sprintf("%s: kind %c, want string/number", path, got.Kind)}
		}
		if m := chk(got.Text); m != "" {
			return &treeDiff{path, "weak", want, got, fmt.Sprintf("%s: %s (got %q)", path, m, got.Text)}
		}
		return nil
	}
	if want.Kind != got.Kind {
		if numOrStr[want] && (got.Kind == kStr || got.Kind == kNum) {
			if got.Text == want.Text {
				return nil
			}
			return &treeDiff{path, "value", want, got, fmt.Sprintf("%s: value %q, want %q", path, got.Text, want.Text)}
		}
		if (want.Kind == kStr || want.Kind == kNum) && (got.Kind == kStr || got.Kind == kNum) {
			cls := "kind"
			if got.Text != want.Text {
				cls = "value"
			}
			return &treeDiff{path, cls, want, got, fmt.Sprintf("%s: %c %q, want %c %q", path, got.Kind, got.Text, want.Kind, want.Text)}
		}
		return &treeDiff{path, "kind", want, got, fmt.Sprintf("%s: kind %c != %c (want %q got %q)", path, want.Kind, got.Kind, want.Text, got.Text)}
	}
	switch want.Kind {
	case kObj:
		if len(want.Keys) != len(got.Keys) {
			return &treeDiff{path, "keys", want, got, fmt.Sprintf("%s: object has keys %q, want %q", path, got.Keys, want.Keys)}
		}
		for i := range want.Keys {
			if want.Keys[i] != got.Keys[i] {
				return &treeDiff{path, "key", want, got, fmt.Sprintf("%s: key[%d] %q != %q", path, i, got.Keys[i], want.Keys[i])}
			}
			if d := diffTrees(want.Vals[i], got.Vals[i], path+"."+want.Keys[i], numOrStr, wild); d != nil {
				return d
			}
		}
	case kArr:
		if len(want.Vals) != len(got.Vals) {
			return &treeDiff{path, "length", want, got, fmt.Sprintf("%s: array has %d elements, want %d", path, len(got.Vals), len(want.Vals))}
		}
		for i := range want.Vals {
			if d := diffTrees(want.Vals[i], got.Vals[i], fmt.Sprintf("%s.%d", path, i), numOrStr, wild); d != nil {
				return d
			}
		}
	default:
		if want.Text != got.Text {
			return &treeDiff{path, "value", want, got, fmt.Sprintf("%s: value %q, want %q", path, got.Text, want.Text)}
		}
	}
	return nil
}
