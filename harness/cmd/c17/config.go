package main

// Plain description of a mask plugin configuration, as the harness sees it.
// It is marshalled to the JSON the real plugin decodes (pipeline.GetConfig:
// cfg.DecodeConfig + cfg.Parse, the path file.d itself uses for an action),
// and it is the input of the reference model. Field names are those of
// plugin/action/mask/README.md.

type ruleCfg struct {
	Values          []string `json:"values"`
	Mode            string   `json:"mode"` // prefix | contains | suffix
	CaseInsensitive bool     `json:"case_insensitive,omitempty"`
	Invert          bool     `json:"invert,omitempty"`
}

type ruleSetCfg struct {
	Name  string    `json:"name,omitempty"`
	Cond  string    `json:"cond"` // and | or
	Rules []ruleCfg `json:"rules"`
}

type maskCfg struct {
	MatchRules    []ruleSetCfg `json:"match_rules,omitempty"`
	Re            string       `json:"re,omitempty"`
	Groups        []int        `json:"groups,omitempty"`
	MaxCount      int          `json:"max_count,omitempty"`
	ReplaceWord   string       `json:"replace_word,omitempty"`
	CutValues     bool         `json:"cut_values,omitempty"`
	IgnoreFields  []string     `json:"ignore_fields,omitempty"`
	ProcessFields []string     `json:"process_fields,omitempty"`
	AppliedField  string       `json:"applied_field,omitempty"`
	AppliedValue  string       `json:"applied_value,omitempty"`
	MetricName    string       `json:"metric_name,omitempty"`
	MetricLabels  []string     `json:"metric_labels,omitempty"`
	// do_if of the mask (README: "Mask will be applied only if the condition
	// holds"); the harness uses one documented form only: a field op `equal`
	// on a top-level string field
	DoIf *doIfCfg `json:"do_if,omitempty"`

	// generator bookkeeping (not part of the plugin configuration)
	GenClass string `json:"-"`
}

// doIfCfg: {"op":"equal","field":F,"values":[...]} - holds iff the event has
// a top-level field F whose value is a string equal to one of the values.
type doIfCfg struct {
	Op     string   `json:"op"`
	Field  string   `json:"field"`
	Values []string `json:"values"`
}

type pluginCfg struct {
	Masks            []maskCfg `json:"masks"`
	MaskAppliedField string    `json:"mask_applied_field,omitempty"`
	MaskAppliedValue string    `json:"mask_applied_value,omitempty"`
	IgnoreFields     []string  `json:"ignore_fields,omitempty"`
	ProcessFields    []string  `json:"process_fields,omitempty"`
	// nil: the key is absent (the plugin's default name applies); a pointer to
	// "" is an *explicit* empty string, which survives cfg.DecodeConfig
	// (defaults are applied before the JSON is decoded) and switches the
	// plugin-level counter off while the per-mask counters must keep working.
	AppliedMetricName   *string  `json:"applied_metric_name,omitempty"`
	AppliedMetricLabels []string `json:"applied_metric_labels,omitempty"`
}

const defaultAppliedMetric = "mask_applied_total" // README: applied_metric_name default

// pluginMetricName: the name of the plugin-level counter, "" when it has
// been switched off by an explicit empty applied_metric_name.
func (p *pluginCfg) pluginMetricName() string {
	if p.AppliedMetricName == nil {
		return defaultAppliedMetric
	}
	return *p.AppliedMetricName
}

// pluginMetricKind: default | custom | off (evidence / fingerprints).
func (p *pluginCfg) pluginMetricKind() string {
	switch {
	case p.AppliedMetricName == nil:
		return "default"
	case *p.AppliedMetricName == "":
		return "off"
	}
	return "custom"
}

func strPtr(s string) *string { return &s }

func (m *maskCfg) mode() string {
	switch {
	case m.ReplaceWord != "":
		return "replace"
	case m.CutValues:
		return "cut"
	}
	return "mask"
}

// testCase is one configuration with the events sent through it, in order,
// through one plugin instance (so the plugin's buffers are reused).
type testCase struct {
	ID     int       `json:"id"`
	Config pluginCfg `json:"config"`
	Events []string  `json:"events"` // JSON documents as sent to the pipeline
	Class  string    `json:"class"`  // generator class of the configuration
	// Par > 0 (families of the extension batches): after the sequential pass
	// the same events are sent Par times through a second pipeline with
	// GOMAXPROCS*2 processors (one plugin instance each, all started from the
	// same config pointer, the way file.d starts an action)
	Par   int      `json:"par,omitempty"`
	trees []*jnode // parsed events (generator side)
}

func (p *pluginCfg) hasDoIf() bool {
	for i := range p.Masks {
		if p.Masks[i].DoIf != nil {
			return true
		}
	}
	return false
}
