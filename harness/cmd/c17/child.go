package main

// Child workload: the real mask plugin inside a real pipeline (fake input,
// devnull output, one processor), configured through the same path file.d
// uses for an action (JSON -> pipeline.GetConfig -> Plugin.Start).

import (
	"encoding/json"
	"fmt"
	"os"
	"sort"
	"strings"
	"sync"
	"time"

	"github.com/ozontech/file.d/fd"
	"github.com/ozontech/file.d/pipeline"
	_ "github.com/ozontech/file.d/plugin/action/mask"
	"github.com/ozontech/file.d/plugin/input/fake"
	"github.com/ozontech/file.d/plugin/output/devnull"
	"github.com/prometheus/client_golang/prometheus"
	dto "github.com/prometheus/client_model/go"
	"go.uber.org/zap"

	"verifharness/core"
)

const outputCap = 1 << 20

type childIn struct {
	Cases      []*testCase `json:"cases"`
	StartCase  int         `json:"start_case"`  // index into Cases
	StartEvent int         `json:"start_event"` // first event of StartCase to send
	OnlyOne    bool        `json:"only_one"`    // send exactly that one event (crash confirmation)
}

// childLine is one line of the child's log: a command about to be executed
// ("cmd") or the observation made after it ("res").
type childLine struct {
	T       string             `json:"t"` // start | cmd | res | done
	Case    int                `json:"case"`
	Ev      int                `json:"ev"`
	Out     string             `json:"out,omitempty"`
	Metrics map[string]float64 `json:"metrics,omitempty"` // delta per "name{labelvalues}"
	Timeout bool               `json:"timeout,omitempty"`
	TooBig  int                `json:"too_big,omitempty"` // output larger than the harness cap: its size
	Err     string             `json:"err,omitempty"`
	Us      int64              `json:"us,omitempty"` // duration of the command (diagnostics)
	// parallel pass ("parcmd" before, "par" after): output per (round, event),
	// index = round*len(events)+event; "" = not delivered
	Outs  []string `json:"outs,omitempty"`
	Procs int      `json:"procs,omitempty"`
}

func metricSnapshot(reg *prometheus.Registry, names []string) map[string]float64 {
	out := map[string]float64{}
	mfs, err := reg.Gather()
	if err != nil {
		return out
	}
	for _, mf := range mfs {
		full := mf.GetName()
		var short string
		for _, n := range names {
			if strings.HasSuffix(full, "_"+n) {
				short = n
			}
		}
		if short == "" || mf.GetType() != dto.MetricType_COUNTER {
			continue
		}
		for _, m := range mf.GetMetric() {
			var lv []string
			for _, lp := range m.GetLabel() {
				lv = append(lv, lp.GetName()+"="+lp.GetValue())
			}
			sort.Strings(lv)
			out[short+"{"+strings.Join(lv, ",")+"}"] += m.GetCounter().GetValue()
		}
	}
	return out
}

func watchedMetrics(cfg *pluginCfg) []string {
	var names []string
	if n := cfg.pluginMetricName(); n != "" { // "": the plugin-level counter is switched off
		names = append(names, n)
	}
	for i := range cfg.Masks {
		if cfg.Masks[i].MetricName != "" {
			names = append(names, cfg.Masks[i].MetricName)
		}
	}
	return names
}

func runCaseInChild(tc *testCase, ci int, from int, onlyOne bool, io *core.ChildIO) error {
	if err := runSeqInChild(tc, ci, from, onlyOne, io); err != nil {
		return err
	}
	if tc.Par > 0 && !onlyOne {
		return runParInChild(tc, ci, io)
	}
	return nil
}

// runParInChild: the events of the case, tc.Par times over, through a pipeline
// with the default GOMAXPROCS*2 processors. file.d starts one plugin instance
// per processor from the same config pointer; 4 feeders spread the events over
// 12 sources so that several instances work at once. What comes out is keyed
// by the offset given to In.
func runParInChild(tc *testCase, ci int, io *core.ChildIO) error {
	cfgJSON, err := json.Marshal(&tc.Config)
	if err != nil {
		return err
	}
	info, err := fd.DefaultPluginRegistry.Get(pipeline.PluginKindAction, "mask")
	if err != nil {
		return err
	}
	config, err := pipeline.GetConfig(info, cfgJSON, nil)
	if err != nil {
		return nil // reported by the sequential pass
	}
	total := tc.Par * len(tc.Events)
	settings := &pipeline.Settings{
		Capacity:            total + 16, // nobody waits for a free event
		MaintenanceInterval: time.Second * 5,
		EventTimeout:        pipeline.DefaultEventTimeout,
		Antispam:            pipeline.AntispamSettings{Threshold: pipeline.DefaultAntispamThreshold},
		AvgEventSize:        128,
		MetaCacheSize:       32,
		StreamField:         "c17_stream_field_never_present",
		Decoder:             "json",
		Metric: &pipeline.MetricSettings{
			HoldDuration:        pipeline.DefaultMetricHoldDuration,
			MaxLabelValueLength: pipeline.DefaultMetricMaxLabelValueLength,
		},
	}
	p := pipeline.New(fmt.Sprintf("c17_par_%d", ci), settings, prometheus.NewRegistry(), zap.NewNop())
	inAny, _ := fake.Factory()
	input := inAny.(*fake.Plugin)
	p.SetInput(&pipeline.InputPluginInfo{
		PluginStaticInfo:  &pipeline.PluginStaticInfo{Type: "fake"},
		PluginRuntimeInfo: &pipeline.PluginRuntimeInfo{Plugin: input},
	})
	outAny, _ := devnull.Factory()
	output := outAny.(*devnull.Plugin)
	p.SetOutput(&pipeline.OutputPluginInfo{
		PluginStaticInfo:  &pipeline.PluginStaticInfo{Type: "devnull"},
		PluginRuntimeInfo: &pipeline.PluginRuntimeInfo{Plugin: output},
	})
	infoCopy := *info
	infoCopy.Config = config
	infoCopy.Type = "mask"
	p.AddAction(&pipeline.ActionPluginStaticInfo{
		PluginStaticInfo: &infoCopy,
		MatchMode:        pipeline.MatchModeAnd,
	})
	var mu sync.Mutex
	outs := make([]string, total)
	twice := -1
	got := make(chan struct{}, total+16)
	output.SetOutFn(func(e *pipeline.Event) {
		s := e.Root.EncodeToString()
		if len(s) > outputCap {
			s = s[:outputCap]
		}
		mu.Lock()
		if e.Offset >= 0 && int(e.Offset) < total {
			if outs[e.Offset] != "" {
				twice = int(e.Offset)
			}
			outs[e.Offset] = s
		}
		mu.Unlock()
		got <- struct{}{}
	})
	io.Log(childLine{T: "parcmd", Case: ci})
	p.Start()
	defer p.Stop()
	const feeders, sources = 4, 12
	for f := 0; f < feeders; f++ {
		go func(f int) {
			for i := f; i < total; i += feeders {
				src := pipeline.SourceID(i % sources)
				input.In(src, fmt.Sprintf("c17-%d.log", src), pipeline.NewOffsets(int64(i), nil), []byte(tc.Events[i%len(tc.Events)]))
			}
		}(f)
	}
	line := childLine{T: "par", Case: ci, Procs: len(p.Procs)}
	timer := time.NewTimer(2 * time.Minute)
	defer timer.Stop()
wait:
	for n := 0; n < total; n++ {
		select {
		case <-got:
		case <-timer.C:
			line.Timeout = true
			break wait
		}
	}
	mu.Lock()
	line.Outs = append([]string(nil), outs...)
	if twice >= 0 {
		line.Err = fmt.Sprintf("offset %d reached the output twice", twice)
	}
	mu.Unlock()
	io.Log(line)
	return nil
}

func runSeqInChild(tc *testCase, ci int, from int, onlyOne bool, io *core.ChildIO) error {
	cfgJSON, err := json.Marshal(&tc.Config)
	if err != nil {
		return err
	}
	io.Log(childLine{T: "start", Case: ci, Ev: from})

	info, err := fd.DefaultPluginRegistry.Get(pipeline.PluginKindAction, "mask")
	if err != nil {
		return err
	}
	config, err := pipeline.GetConfig(info, cfgJSON, nil)
	if err != nil {
		io.Log(childLine{T: "res", Case: ci, Ev: -1, Err: "config rejected: " + err.Error()})
		return nil
	}
	settings := &pipeline.Settings{
		Capacity:            16,
		MaintenanceInterval: time.Second * 5,
		EventTimeout:        pipeline.DefaultEventTimeout,
		Antispam:            pipeline.AntispamSettings{Threshold: pipeline.DefaultAntispamThreshold},
		AvgEventSize:        128, // small on purpose: the plugin's buffers must grow and are reused
		MetaCacheSize:       32,
		StreamField:         "stream",
		Decoder:             "json",
		Metric: &pipeline.MetricSettings{
			HoldDuration:        pipeline.DefaultMetricHoldDuration,
			MaxLabelValueLength: pipeline.DefaultMetricMaxLabelValueLength,
		},
	}
	reg := prometheus.NewRegistry()
	p := pipeline.New(fmt.Sprintf("c17_%d", ci), settings, reg, dbgLogger())
	p.DisableParallelism()

	inAny, _ := fake.Factory()
	input := inAny.(*fake.Plugin)
	p.SetInput(&pipeline.InputPluginInfo{
		PluginStaticInfo:  &pipeline.PluginStaticInfo{Type: "fake"},
		PluginRuntimeInfo: &pipeline.PluginRuntimeInfo{Plugin: input},
	})
	outAny, _ := devnull.Factory()
	output := outAny.(*devnull.Plugin)
	p.SetOutput(&pipeline.OutputPluginInfo{
		PluginStaticInfo:  &pipeline.PluginStaticInfo{Type: "devnull"},
		PluginRuntimeInfo: &pipeline.PluginRuntimeInfo{Plugin: output},
	})
	infoCopy := *info
	infoCopy.Config = config
	infoCopy.Type = "mask"
	p.AddAction(&pipeline.ActionPluginStaticInfo{
		PluginStaticInfo: &infoCopy,
		MatchMode:        pipeline.MatchModeAnd,
	})
	outCh := make(chan string, 4)
	output.SetOutFn(func(e *pipeline.Event) {
		outCh <- e.Root.EncodeToString()
	})
	p.Start()
	defer p.Stop()

	names := watchedMetrics(&tc.Config)
	prev := metricSnapshot(reg, names)
	for ei := from; ei < len(tc.Events); ei++ {
		io.Log(childLine{T: "cmd", Case: ci, Ev: ei})
		t0 := time.Now()
		input.In(0, "c17.log", pipeline.NewOffsets(int64(ei), nil), []byte(tc.Events[ei]))
		line := childLine{T: "res", Case: ci, Ev: ei}
		select {
		case s := <-outCh:
			line.Out = s
			if len(s) > outputCap+64*len(tc.Events[ei]) {
				// far beyond anything the generated masks can legitimately produce;
				// do not carry megabytes around, and leave this plugin instance
				line.Out, line.TooBig = "", len(s)
			}
		case <-time.After(30 * time.Second):
			line.Timeout = true
		}
		cur := metricSnapshot(reg, names)
		line.Metrics = map[string]float64{}
		for k, v := range cur {
			if d := v - prev[k]; d != 0 {
				line.Metrics[k] = d
			}
		}
		prev = cur
		line.Us = time.Since(t0).Microseconds()
		io.Log(line)
		if line.Timeout || line.TooBig > 0 || onlyOne {
			break
		}
	}
	return nil
}

func childMain(raw json.RawMessage, io *core.ChildIO) (any, error) {
	var in childIn
	if err := json.Unmarshal(raw, &in); err != nil {
		return nil, err
	}
	for ci := in.StartCase; ci < len(in.Cases); ci++ {
		from := 0
		if ci == in.StartCase {
			from = in.StartEvent
		}
		if err := runCaseInChild(in.Cases[ci], ci, from, in.OnlyOne, io); err != nil {
			return nil, err
		}
		if in.OnlyOne {
			break
		}
	}
	io.Log(childLine{T: "done"})
	return map[string]bool{"ok": true}, nil
}

// dbgLogger: VERIF_C17_DEBUG=1 makes the pipeline (and so the plugin) log to
// stderr - a plugin that refuses a configuration with logger.Fatal otherwise
// ends the child without a word.
func dbgLogger() *zap.Logger {
	if os.Getenv("VERIF_C17_DEBUG") != "" {
		return zap.NewExample()
	}
	return zap.NewNop()
}
