// C09 — retry and dead-queue routing: a failed batch goes exactly one way.
// The real RetriableBatcher + Router + dead-queue Batcher inside real
// pipelines (internal/pipemon), with scripted failure plans; the oracle
// (judgeRetry) works on the recorded send attempts, give-ups, dead-queue
// hand-overs and commits.
package main

import (
	"verifharness/core"
	"verifharness/internal/pipemon"
)

func main() {
	core.Main("C09", "exploration", func(c *core.Ctx) {
		c.SetRule("pipeline cases whose main output is built on the real RetriableBatcher with failure plans (every K-th batch fails N attempts, 50% random, all) × retry counts {-1,0,1,2,3,5} × with/without dead queue (real Router + second Batcher) × workers × split chains × Stop while retries are pending; oracle per batch: failed sends before give-up >= retry+1, never a give-up for negative retry, pause i >= 0.5·min_retention·multiplier^i (lower envelope, load-safe), no commit before the final send returned or gave up, on exhaustion with dead queue every event (parents included) handed to the dead-queue Out exactly once and committed only after the dead queue acknowledged it, error callback once; distinct = configuration class × observed phenomena; non-trivial = a send failed at least once")
		c.Assume("the dead-queue output is a plain Batcher-based output that acknowledges; pauses are measured on the harness's monotonic clock at the send boundary (lower bounds only)")
		pipemon.RunProperty(c, "C09", pipemon.Plan{"dlq": {40, 800}, "retry": {24, 400}, "stop": {10, 120}}, false, nil)
		if c.Counter("send_attempts") <= c.Counter("quiescent") {
			c.Fatal("no retries observed")
		}
	})
}
