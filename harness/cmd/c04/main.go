// C04 — no wedge. Liveness restated as bounded progress in logical heartbeat
// ticks (DESIGN §C04): directed lost-wake-up scenarios on both pools (gates),
// pool stress, and whole pipelines with hold/collapse actions, short event
// time-outs, capacity and processors down to 1.
package main

import (
	"verifharness/core"
	"verifharness/internal/pipemon"
	"verifharness/internal/poolmon"
)

func main() {
	poolmon.Register()
	core.Main("C04", "exploration", func(c *core.Ctx) {
		c.SetRule("layer 1: directed lost-wake-up schedules on both pool kinds (capacity 1..3): a getter is stopped by a gate between its availability check and its wait, the capacity is freed meanwhile, the gate is released; it must return within 3 pool heartbeat ticks; layer 2: pool stress with randomly placed sleeps in that window; layer 3: real pipelines with join / hold / collapse chains, event time-outs 100..300 ms, feeders pausing longer than the time-out, capacity and processors down to 1: after the last progress no event may stay in use for more than the allowed number of streamer heartbeat ticks; distinct = scenario class × observed phenomena; non-trivial = the window or a time-out was actually exercised")
		c.Assume("bounded progress in heartbeat ticks replaces unbounded 'eventually' (no finite run decides the latter)")
		c.Assume("outputs of these cases keep acknowledging (failure plans are bounded)")
		poolmon.RunDirected(c, "C04")
		poolmon.RunStress(c, "C04")
		pipemon.RunProperty(c, "C04", pipemon.Plan{"hold": {22, 600}, "tiny": {12, 300}, "mix": {10, 250}, "directed": {18, 300}, "volume": {6, 60}, "dlq-nosplit": {9, 150}}, true, nil)
		if c.Counter("timeouts_injected") == 0 {
			c.Fatal("no stream time-out was ever injected")
		}
	})
}
