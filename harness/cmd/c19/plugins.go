package main

// One adapter per output plugin: how it is configured and started (the way
// the plugin's own tests do: test.NewConfig + Start with output params), where
// its payloads are captured, the independent framing parser for that sink
// and the reference relation "record r carries event e".

import (
	"bytes"
	"fmt"
	"os"
	"path/filepath"
	"strconv"
	"strings"
	"sync"
	"time"
	"unicode/utf8"

	"github.com/ozontech/file.d/metric"
	"github.com/ozontech/file.d/pipeline"
	"github.com/ozontech/file.d/plugin/output/elasticsearch"
	"github.com/ozontech/file.d/plugin/output/file"
	"github.com/ozontech/file.d/plugin/output/gelf"
	httpout "github.com/ozontech/file.d/plugin/output/http"
	"github.com/ozontech/file.d/plugin/output/kafka"
	"github.com/ozontech/file.d/plugin/output/loki"
	"github.com/ozontech/file.d/plugin/output/splunk"
	"github.com/ozontech/file.d/test"
	"github.com/prometheus/client_golang/prometheus"
	"go.uber.org/zap"
	"go.uber.org/zap/zapcore"
)

var pluginNames = []string{"elasticsearch", "http", "file", "splunk", "loki", "gelf", "kafka"}

// failure is a structural description of a refuting observation.
type failure struct {
	Site    string // where: action-line, doc, envelope, frame, coverage, split, resend ...
	Fail    string // what
	Trigger string // structural property of the input that explains it ("" = none)
	Idx     int    // index of the event in the expected list (-1 unknown)
	Detail  string // free text for the witness (not part of the signature)
}

// rec is one framed record of a payload.
type rec struct {
	doc    *jv
	action *jv
	raw    []byte
	topic  string
	empty  bool   // an empty line (http raw)
	bad    string // record-level failure class ("" = parsed fine)
	site   string
	detail string
}

// recCtl is the recording OutputPluginController.
type recCtl struct {
	mu      sync.Mutex
	commits []*pipeline.Event
	errs    []string
	note    chan struct{}
}

func newRecCtl() *recCtl { return &recCtl{note: make(chan struct{}, 1)} }

func (c *recCtl) Commit(e *pipeline.Event) {
	c.mu.Lock()
	c.commits = append(c.commits, e)
	c.mu.Unlock()
	select {
	case c.note <- struct{}{}:
	default:
	}
}

func (c *recCtl) Error(err string) { c.mu.Lock(); c.errs = append(c.errs, err); c.mu.Unlock() }

func (c *recCtl) count() int { c.mu.Lock(); defer c.mu.Unlock(); return len(c.commits) }

func (c *recCtl) take() []*pipeline.Event {
	c.mu.Lock()
	defer c.mu.Unlock()
	out := c.commits
	c.commits = nil
	return out
}

// waitCommits waits until n commits were seen (generous watchdog).
func (c *recCtl) waitCommits(n int, d time.Duration) bool {
	deadline := time.After(d)
	for {
		if c.count() >= n {
			return true
		}
		select {
		case <-c.note:
		case <-time.After(20 * time.Millisecond):
		case <-deadline:
			return c.count() >= n
		}
	}
}

// pluginCfg is the drawn configuration of one case.
type pluginCfg struct {
	Plugin    string
	BatchSize int
	AvgSize   int
	Workers   int
	Gzip      bool
	Split     bool
	FlushMs   int
	Retry     int // retry option of the plugin (0 = 10)
	// transport-failure cases (fleet.go)
	Mult      int      `json:",omitempty"` // retention_exponentially_multiplier (0 = the default, 2)
	GzipLevel string   `json:",omitempty"` // gzip_compression_level ("" = default)
	Fleet     []string `json:",omitempty"` // endpoint kinds in configuration order (elasticsearch, http)
	// file: big-event cases (bigfile.go)
	BigFile bool `json:",omitempty"` // batches holding very large events written by several workers
	SealMs  int  `json:",omitempty"` // retention_interval in ms (0 = 24h: the file is never sealed up while the case runs)
	// elasticsearch
	OpType      string
	IndexFormat string
	IndexValues []string
	TimeFormat  string
	// http
	Raw      bool
	RawField string
	// splunk
	Copies [][2]string
	// loki
	Labels   [][2]string
	MsgField string
	TsField  string
	// gelf
	FullField   string
	DefaultMsg  string
	RefuseFirst bool // gelf: nobody listens at first (connection refused, then retry)
	// kafka
	UseTopic     bool
	TopicField   string
	DefaultTopic string
}

func (c *pluginCfg) retry() int {
	if c.Retry > 0 {
		return c.Retry
	}
	return 10
}

func (c *pluginCfg) tag() string {
	t := fmt.Sprintf("%s|bs%s|avg%s|w%d", c.Plugin, sizeBucket(c.BatchSize), byteBucket(c.AvgSize), c.Workers)
	if c.Gzip {
		t += "|gz"
	}
	if c.Split {
		t += "|split"
	}
	if c.Retry > 0 {
		t += fmt.Sprintf("|retry%d", c.Retry)
	}
	if c.Mult > 0 {
		t += "|transport"
		if c.GzipLevel != "" {
			t += "|gz=" + c.GzipLevel
		}
		if len(c.Fleet) > 0 {
			t += "|fleet=" + fleetTag(c.Fleet)
		}
	}
	if c.BigFile {
		t += "|bigfile|seal=" + sealBucket(c.SealMs)
	}
	switch c.Plugin {
	case "elasticsearch":
		t += "|" + c.OpType + "|" + c.IndexFormat
	case "http":
		if c.Raw {
			t += "|raw"
		}
	case "splunk":
		t += fmt.Sprintf("|cp%d", len(c.Copies))
	case "kafka":
		t += fmt.Sprintf("|tf%v", c.UseTopic)
	case "gelf":
		t += "|full=" + c.FullField
	}
	return t
}

// sigCfg is the configuration part of signatures: only the mode switches that
// select a different code path.
func (c *pluginCfg) sigCfg() string {
	s := "plugin=" + c.Plugin
	if c.Plugin == "http" && c.Raw {
		s += " encoding=raw"
	}
	if c.BigFile {
		s += " workload=big-events-concurrent-workers"
	}
	return s
}

type session struct {
	cfg  *pluginCfg
	out  pipeline.OutputPlugin
	ctl  *recCtl
	rec  *recorder
	http *httpSink
	tcp  *tcpSink
	// file
	dir     string
	fileOff int64
	// gelf
	gelfAddr string

	stopFns   []func()
	abandoned bool

	parse    func(c *capture) ([]rec, *failure)
	match    func(r *rec, ev *evSpec) (site, fail, detail string)
	optional func(ev *evSpec) bool
	trigger  func(site string, ev *evSpec, b *batchSpec) string
	startTm  time.Time
}

func (s *session) stop() {
	if s.abandoned {
		// a worker may be stuck in the plugin: close the sinks first (that fails its
		// requests), and do not wait for Stop for ever
		for i := 0; i < len(s.stopFns)-1; i++ {
			s.stopFns[i]()
		}
		done := make(chan struct{})
		go func() { s.out.Stop(); close(done) }()
		select {
		case <-done:
		case <-time.After(5 * time.Second):
		}
		return
	}
	for i := len(s.stopFns) - 1; i >= 0; i-- {
		s.stopFns[i]()
	}
}

// requestCount is the number of requests captured and not yet taken.
func (s *session) requestCount() int {
	if s.rec == nil {
		return 0
	}
	s.rec.mu.Lock()
	defer s.rec.mu.Unlock()
	return len(s.rec.caps)
}

// waitBatch waits until n commits were seen. It gives up early (storm=true)
// when the sink has seen more requests than maxReq: a count-based bound, no
// wall clock involved in that verdict.
func (s *session) waitBatch(n, maxReq int, d time.Duration) (committed, storm bool) {
	deadline := time.After(d)
	for {
		if s.ctl.count() >= n {
			return true, false
		}
		if s.requestCount() > maxReq {
			return false, true
		}
		select {
		case <-s.ctl.note:
		case <-time.After(10 * time.Millisecond):
		case <-deadline:
			return s.ctl.count() >= n, false
		}
	}
}

func quietLogger() *zap.SugaredLogger {
	lgCfg := zap.NewProductionConfig()
	lgCfg.Level.SetLevel(zapcore.DPanicLevel)
	lgCfg.OutputPaths = []string{"stderr"}
	lg, err := lgCfg.Build()
	if err != nil {
		panic(err)
	}
	return lg.Sugar()
}

var sharedLogger = quietLogger()

func newParams(ctl pipeline.OutputPluginController, avg int) *pipeline.OutputPluginParams {
	return &pipeline.OutputPluginParams{
		PluginDefaultParams: pipeline.PluginDefaultParams{
			PipelineName:     "c19",
			PipelineSettings: &pipeline.Settings{AvgEventSize: avg, Capacity: 256},
			MetricCtl:        metric.NewCtl("c19", prometheus.NewRegistry(), time.Minute, 0),
		},
		Controller: ctl,
		Router:     pipeline.NewRouter(),
		Logger:     sharedLogger.Named("output"),
	}
}

var cfgParams = map[string]int{"gomaxprocs": 1, "capacity": 256}

// clientTimeout: the sinks always answer (or cut the connection) at once, so
// the HTTP client's timeouts never have to fire. With the defaults (1 s .. 5 s)
// a child starved of CPU on a loaded machine can time out on a request the sink
// has already accepted; the plugin then re-sends an acknowledged batch, which
// looks like a duplicate. A stall that long ends at the batch watchdog
// (inconclusive) instead.
const clientTimeout = "10m"

const hugeBytes = 1 << 40 // batch_size_bytes: reached only by the trigger event

// startSession configures and starts the real plugin against its sink.
func startSession(c *pluginCfg, scratch string) (*session, error) {
	s := &session{cfg: c, ctl: newRecCtl(), startTm: time.Now()}
	s.optional = func(*evSpec) bool { return false }
	s.trigger = func(string, *evSpec, *batchSpec) string { return "" }
	params := newParams(s.ctl, c.AvgSize)
	bs := strconv.Itoa(c.BatchSize)
	bsb := strconv.Itoa(hugeBytes)
	wk := strconv.Itoa(c.Workers)
	flush := fmt.Sprintf("%dms", c.FlushMs)
	gz := "default"
	if c.GzipLevel != "" {
		gz = c.GzipLevel
	}

	switch c.Plugin {
	case "elasticsearch":
		sink, err := newHTTPSink(200, `{"took":1,"errors":false,"items":[]}`)
		if err != nil {
			return nil, err
		}
		s.http, s.rec = sink, sink.rec
		s.stopFns = append(s.stopFns, sink.close)
		p, cfgAny := elasticsearch.Factory()
		cf := cfgAny.(*elasticsearch.Config)
		urls, err := s.buildFleet(sink, 200, `{"took":1,"errors":false,"items":[]}`)
		if err != nil {
			s.stop()
			return nil, err
		}
		cf.Endpoints = urls
		if c.Mult > 0 {
			cf.RetentionExponentMultiplier = c.Mult
		}
		cf.ConnectionTimeout = cfgDur(clientTimeout)
		cf.UseGzip = c.Gzip
		cf.GzipCompressionLevel = gz
		cf.IndexFormat = c.IndexFormat
		cf.IndexValues = c.IndexValues
		cf.TimeFormat = c.TimeFormat
		cf.WorkersCount = cfgExpr(wk)
		cf.BatchSize = cfgExpr(bs)
		cf.BatchSizeBytes = cfgExpr(bsb)
		cf.BatchFlushTimeout = cfgDur(flush)
		cf.BatchOpType = c.OpType
		cf.SplitBatch = c.Split
		cf.Retention = cfgDur("1ms")
		cf.Retry = c.retry()
		test.NewConfig(cf, cfgParams)
		// NewConfig applies defaults for empty values only; slices given above are kept.
		cf.IndexValues = c.IndexValues
		s.out = p.(pipeline.OutputPlugin)
		s.out.Start(cf, params)
		s.parse, s.match = s.esParse, s.esMatch
		s.trigger = func(site string, ev *evSpec, _ *batchSpec) string {
			if site != "action-line" {
				return ""
			}
			for _, name := range c.IndexValues {
				if v := ev.Tree.get(name); v != nil && v.k == 's' && needsJSONEscape(v.s) {
					return "index-value-needs-json-escaping"
				}
			}
			return ""
		}

	case "http":
		sink, err := newHTTPSink(200, "ok")
		if err != nil {
			return nil, err
		}
		s.http, s.rec = sink, sink.rec
		s.stopFns = append(s.stopFns, sink.close)
		p, cfgAny := httpout.Factory()
		cf := cfgAny.(*httpout.Config)
		urls, err := s.buildFleet(sink, 200, "ok")
		if err != nil {
			s.stop()
			return nil, err
		}
		for _, u := range urls {
			cf.Endpoints = append(cf.Endpoints, u+"/ingest/")
		}
		if c.Mult > 0 {
			cf.RetentionExponentMultiplier = c.Mult
		}
		cf.ConnectionTimeout = cfgDur(clientTimeout)
		cf.ContentType = "application/x-ndjson"
		if c.Raw {
			cf.Encoding.Type = "raw"
			cf.Encoding.Params = []byte(`{"field":` + strconv.Quote(c.RawField) + `}`)
		}
		cf.UseGzip = c.Gzip
		cf.GzipCompressionLevel = gz
		cf.WorkersCount = cfgExpr(wk)
		cf.BatchSize = cfgExpr(bs)
		cf.BatchSizeBytes = cfgExpr(bsb)
		cf.BatchFlushTimeout = cfgDur(flush)
		cf.SplitBatch = c.Split
		cf.Retention = cfgDur("1ms")
		cf.Retry = c.retry()
		test.NewConfig(cf, cfgParams)
		s.out = p.(pipeline.OutputPlugin)
		s.out.Start(cf, params)
		s.parse = s.ndjsonParse
		if c.Raw {
			s.match = s.httpRawMatch
			s.optional = func(ev *evSpec) bool { return ev.Tree.get(c.RawField) == nil }
			s.trigger = func(site string, _ *evSpec, b *batchSpec) string {
				for i, e := range b.deliverable() {
					if i > 0 && e.Tree.get(c.RawField) == nil {
						return "event-without-the-raw-field-follows-other-events-of-the-batch"
					}
				}
				return ""
			}
		} else {
			s.match = s.docMatch
		}

	case "file":
		s.dir = filepath.Join(scratch, "out") + string(filepath.Separator)
		p, cfgAny := file.Factory()
		cf := cfgAny.(*file.Config)
		cf.TargetFile = s.dir + "c19.log"
		cf.RetentionInterval = cfgDur("24h")
		if c.SealMs > 0 {
			cf.RetentionInterval = cfgDur(fmt.Sprintf("%dms", c.SealMs))
		}
		cf.WorkersCount = cfgExpr(wk)
		cf.BatchSize = cfgExpr(bs)
		cf.BatchSizeBytes = cfgExpr(bsb)
		cf.BatchFlushTimeout = cfgDur(flush)
		test.NewConfig(cf, cfgParams)
		s.out = p.(pipeline.OutputPlugin)
		s.out.Start(cf, params)
		s.parse, s.match = s.ndjsonParse, s.docMatch

	case "splunk":
		sink, err := newHTTPSink(200, `{"text":"Success","code":0}`)
		if err != nil {
			return nil, err
		}
		s.http, s.rec = sink, sink.rec
		s.stopFns = append(s.stopFns, sink.close)
		p, cfgAny := splunk.Factory()
		cf := cfgAny.(*splunk.Config)
		cf.Endpoint = sink.url() + "/services/collector"
		cf.Token = "tok"
		cf.UseGzip = c.Gzip
		cf.GzipCompressionLevel = gz
		cf.WorkersCount = cfgExpr(wk)
		cf.BatchSize = cfgExpr(bs)
		cf.BatchSizeBytes = cfgExpr(bsb)
		cf.BatchFlushTimeout = cfgDur(flush)
		cf.RequestTimeout = cfgDur(clientTimeout)
		cf.Retention = cfgDur("1ms")
		cf.Retry = c.retry()
		if c.Mult > 0 {
			cf.RetentionExponentMultiplier = c.Mult
		}
		for _, cp := range c.Copies {
			cf.CopyFields = append(cf.CopyFields, splunk.CopyField{From: cp[0], To: cp[1]})
		}
		test.NewConfig(cf, cfgParams)
		s.out = p.(pipeline.OutputPlugin)
		s.out.Start(cf, params)
		s.parse, s.match = s.splunkParse, s.splunkMatch
		s.trigger = func(_ string, ev *evSpec, _ *batchSpec) string {
			for _, cp := range c.Copies {
				v := ev.Tree.dig(strings.Split(cp[0], ".")...)
				if v == nil || (v.k != 'o' && v.k != 'a') {
					continue
				}
				for _, ch := range v.vals {
					if ch.k == 'o' || ch.k == 'a' {
						return "copy_fields-source-is-a-container-that-holds-another-container"
					}
				}
			}
			return ""
		}

	case "loki":
		sink, err := newHTTPSink(204, "")
		if err != nil {
			return nil, err
		}
		s.http, s.rec = sink, sink.rec
		s.stopFns = append(s.stopFns, sink.close)
		p, cfgAny := loki.Factory()
		cf := cfgAny.(*loki.Config)
		cf.Address = sink.url()
		for _, l := range c.Labels {
			cf.Labels = append(cf.Labels, loki.Label{Label: l[0], Value: l[1]})
		}
		cf.MessageField = c.MsgField
		cf.TimestampField = c.TsField
		cf.RequestTimeout = cfgDur(clientTimeout)
		cf.ConnectionTimeout = cfgDur(clientTimeout)
		cf.WorkersCount = cfgExpr(wk)
		cf.BatchSize = cfgExpr(bs)
		cf.BatchSizeBytes = cfgExpr(bsb)
		cf.BatchFlushTimeout = cfgDur(flush)
		cf.Retention = cfgDur("1ms")
		cf.Retry = c.retry()
		if c.Mult > 0 {
			cf.RetentionExponentMultiplier = c.Mult
		}
		lb := cf.Labels
		test.NewConfig(cf, cfgParams)
		cf.Labels = lb
		s.out = p.(pipeline.OutputPlugin)
		s.out.Start(cf, params)
		s.parse, s.match = s.lokiParse, s.lokiMatch

	case "gelf":
		var addr string
		if c.RefuseFirst {
			a, err := reservePort()
			if err != nil {
				return nil, err
			}
			addr = a
		} else {
			sink, err := newTCPSink("")
			if err != nil {
				return nil, err
			}
			s.tcp = sink
			addr = sink.addr
		}
		s.gelfAddr = addr
		s.stopFns = append(s.stopFns, func() {
			if s.tcp != nil {
				s.tcp.close()
			}
		})
		p, cfgAny := gelf.Factory()
		cf := cfgAny.(*gelf.Config)
		cf.Endpoint = addr
		cf.FullMessageField = c.FullField
		if c.DefaultMsg != "" {
			cf.DefaultShortMessageValue = c.DefaultMsg
		}
		cf.WorkersCount = cfgExpr(wk)
		cf.BatchSize = cfgExpr(bs)
		cf.BatchSizeBytes = cfgExpr(bsb)
		cf.BatchFlushTimeout = cfgDur(flush)
		cf.Retention = cfgDur("1ms")
		cf.Retry = 10
		test.NewConfig(cf, cfgParams)
		s.out = p.(pipeline.OutputPlugin)
		s.out.Start(cf, params)
		s.parse, s.match = s.gelfParse, s.gelfMatch

	case "kafka":
		br, err := newStubBroker()
		if err != nil {
			return nil, err
		}
		s.stopFns = append(s.stopFns, br.close)
		s.rec = newRecorder()
		p, cfgAny := kafka.Factory()
		cf := cfgAny.(*kafka.Config)
		cf.Brokers = []string{br.addr()}
		cf.DefaultTopic = c.DefaultTopic
		cf.UseTopicField = c.UseTopic
		cf.TopicField = c.TopicField
		cf.WorkersCount = cfgExpr(wk)
		cf.BatchSize = cfgExpr(bs)
		cf.BatchSizeBytes = cfgExpr(bsb)
		cf.BatchFlushTimeout = cfgDur(flush)
		cf.Retention = cfgDur("1ms")
		cf.Retry = 10
		test.NewConfig(cf, cfgParams)
		kp := p.(*kafka.Plugin)
		kp.Start(cf, params)
		old := kafka.VerifSwapClient(kp, &kafkaRecorder{rec: s.rec})
		if old != nil {
			old.Close()
		}
		s.out = kp
		s.parse, s.match = s.kafkaParse, s.kafkaMatch
	default:
		return nil, fmt.Errorf("unknown plugin %q", c.Plugin)
	}
	s.stopFns = append(s.stopFns, s.out.Stop)
	return s, nil
}

func needsJSONEscape(s string) bool {
	for i := 0; i < len(s); i++ {
		if s[i] < 0x20 || s[i] == '"' || s[i] == '\\' {
			return true
		}
	}
	return false
}

// collect returns the payloads captured since the previous call. want is the
// number of deliverable events of the batch (used only to know how long to
// wait for the asynchronous TCP reader).
func (s *session) collect(want int) []capture {
	switch {
	case s.cfg.Plugin == "file":
		matches, _ := filepath.Glob(s.dir + "*")
		var caps []capture
		if len(matches) != 1 {
			return []capture{{Accepted: true, Path: fmt.Sprintf("%d files in target dir", len(matches))}}
		}
		b, err := os.ReadFile(matches[0])
		if err != nil {
			return []capture{{Accepted: true, Path: err.Error()}}
		}
		if int64(len(b)) < s.fileOff {
			s.fileOff = 0
		}
		nb := b[s.fileOff:]
		s.fileOff = int64(len(b))
		if len(nb) > 0 {
			caps = append(caps, capture{Body: nb, Accepted: true})
		}
		return caps
	case s.cfg.Plugin == "gelf":
		if s.tcp == nil {
			return nil
		}
		last, lastChange := -1, time.Now()
		for {
			n, nul := s.tcp.stats()
			if nul >= want && (n == 0 || want > 0) {
				break
			}
			if n != last {
				last, lastChange = n, time.Now()
			}
			if time.Since(lastChange) > 4*time.Second { // only reached when events are really missing
				break
			}
			select {
			case <-s.tcp.note:
			case <-time.After(10 * time.Millisecond):
			}
		}
		if want == 0 {
			time.Sleep(20 * time.Millisecond)
		}
		var caps []capture
		for _, b := range s.tcp.takeStreams() {
			caps = append(caps, capture{Body: b, Accepted: true})
		}
		return caps
	default:
		return s.rec.take()
	}
}

func (s *session) setPlan(p sinkPlan) {
	if s.rec != nil {
		s.rec.setPlan(p)
	}
}

// ---------------------------------------------------------------------------
// NDJSON (file, http)

func splitLines(body []byte) (lines [][]byte, trailing bool) {
	if len(body) == 0 {
		return nil, true
	}
	parts := bytes.Split(body, []byte{'\n'})
	if len(parts[len(parts)-1]) == 0 {
		return parts[:len(parts)-1], true
	}
	return parts, false
}

func (s *session) ndjsonParse(c *capture) ([]rec, *failure) {
	lines, trailing := splitLines(c.Body)
	if !trailing {
		return nil, &failure{Site: "frame", Fail: "last-line-not-newline-terminated", Idx: -1, Detail: tail(c.Body, 120)}
	}
	out := make([]rec, 0, len(lines))
	for _, ln := range lines {
		r := rec{raw: ln}
		if len(ln) == 0 {
			r.empty = true
		}
		if !s.cfg.Raw {
			v, err := parseWhole(ln)
			if err != nil {
				r.bad, r.site, r.detail = "line-is-not-valid-json", "doc", err.Error()+": "+core_trunc(string(ln), 200)
			}
			r.doc = v
		}
		out = append(out, r)
	}
	return out, nil
}

func (s *session) docMatch(r *rec, ev *evSpec) (string, string, string) {
	if r.bad != "" {
		return r.site, r.bad, r.detail
	}
	if !equalJV(r.doc, ev.Tree) {
		return "doc", "document-differs-from-event", "got " + brief(r.doc) + " want " + brief(ev.Tree)
	}
	return "", "", ""
}

// http raw: "extracts a single field and sends its value as-is": the JSON
// encoding of the value and (for strings) the bare string are both accepted.
func (s *session) httpRawMatch(r *rec, ev *evSpec) (string, string, string) {
	want := ev.Tree.get(s.cfg.RawField)
	if want == nil {
		if r.empty {
			return "", "", ""
		}
		return "doc", "line-for-event-without-field", ""
	}
	if v, err := parseWhole(r.raw); err == nil && equalJV(v, want) {
		return "", "", ""
	}
	if want.k == 's' && eqStr(string(r.raw), want.s) {
		return "", "", ""
	}
	return "doc", "line-differs-from-field-value", "got " + core_trunc(string(r.raw), 200) + " want " + brief(want)
}

// ---------------------------------------------------------------------------
// Elasticsearch bulk

func (s *session) esParse(c *capture) ([]rec, *failure) {
	lines, trailing := splitLines(c.Body)
	if !trailing {
		return nil, &failure{Site: "frame", Fail: "last-line-not-newline-terminated", Idx: -1, Detail: tail(c.Body, 120)}
	}
	var out []rec
	for i := 0; i < len(lines); i += 2 {
		r := rec{raw: lines[i]}
		a, err := parseWhole(lines[i])
		if err != nil {
			r.bad, r.site, r.detail = "action-line-is-not-valid-json", "action-line", err.Error()+": "+core_trunc(string(lines[i]), 200)
			out = append(out, r)
			continue
		}
		r.action = a
		if i+1 >= len(lines) {
			r.bad, r.site = "document-line-missing", "doc"
			out = append(out, r)
			break
		}
		d, err := parseWhole(lines[i+1])
		if err != nil {
			r.bad, r.site, r.detail = "document-line-is-not-valid-json", "doc", err.Error()+": "+core_trunc(string(lines[i+1]), 200)
		}
		r.doc = d
		out = append(out, r)
	}
	return out, nil
}

// esIndexNames lists the acceptable index names for an event: each
// placeholder is replaced by the event's field value ("not_set"/"" when there
// is nothing to put) or the formatted current time.
func (s *session) esIndexNames(ev *evSpec) (names []string, anyValue bool) {
	names = []string{""}
	vi := 0
	for _, ch := range []byte(s.cfg.IndexFormat) {
		if ch != '%' {
			for i := range names {
				names[i] += string(ch)
			}
			continue
		}
		var alts []string
		name := s.cfg.IndexValues[vi]
		vi++
		if name == "@time" {
			alts = []string{s.startTm.Format(s.cfg.TimeFormat), time.Now().Format(s.cfg.TimeFormat)}
		} else {
			v := ev.Tree.get(name)
			switch {
			case v == nil, v.k == 's' && v.s == "":
				alts = []string{"not_set", ""}
			case v.k == 's', v.k == 'n':
				alts = []string{v.s}
			case v.k == 't':
				alts = []string{"true", "not_set", ""}
			case v.k == 'f':
				alts = []string{"false", "not_set", ""}
			case v.k == 'z':
				alts = []string{"null", "not_set", ""}
			default:
				return nil, true
			}
		}
		var next []string
		for _, n := range names {
			for _, a := range alts {
				next = append(next, n+a)
			}
		}
		names = next
	}
	return names, false
}

func (s *session) esMatch(r *rec, ev *evSpec) (string, string, string) {
	if r.bad != "" && r.site == "action-line" {
		return r.site, r.bad, r.detail
	}
	a := r.action
	if a == nil || a.k != 'o' || len(a.keys) != 1 || a.keys[0] != s.cfg.OpType || a.vals[0].k != 'o' ||
		len(a.vals[0].keys) != 1 || a.vals[0].keys[0] != "_index" || a.vals[0].vals[0].k != 's' {
		return "action-line", "action-is-not-{op:{_index:string}}", "got " + brief(a)
	}
	names, anyV := s.esIndexNames(ev)
	if !anyV {
		got := a.vals[0].vals[0].s
		ok := false
		for _, n := range names {
			if eqStr(n, got) {
				ok = true
			}
		}
		if !ok {
			return "action-line", "index-name-differs-from-routing-value", fmt.Sprintf("got %q want one of %q", got, names)
		}
	}
	if r.bad != "" {
		return r.site, r.bad, r.detail
	}
	if !equalJV(r.doc, ev.Tree) {
		return "doc", "document-differs-from-event", "got " + brief(r.doc) + " want " + brief(ev.Tree)
	}
	return "", "", ""
}

// ---------------------------------------------------------------------------
// Splunk HEC: concatenated {"event":...} envelopes

func (s *session) splunkParse(c *capture) ([]rec, *failure) {
	var out []rec
	b := c.Body
	for len(bytes.TrimLeft(b, " \t\r\n")) > 0 {
		v, n, err := parsePrefix(b)
		if err != nil {
			out = append(out, rec{bad: "envelope-is-not-valid-json", site: "envelope", detail: err.Error() + ": " + core_trunc(string(b), 200)})
			return out, nil
		}
		out = append(out, rec{doc: v})
		b = b[n:]
	}
	return out, nil
}

func setNested(o *jv, path []string, val *jv) {
	cur := o
	for i, p := range path {
		if i == len(path)-1 {
			cur.set(p, val)
			return
		}
		nx := cur.get(p)
		if nx == nil || nx.k != 'o' {
			nx = jobj()
			cur.set(p, nx)
		}
		cur = nx
	}
}

func (s *session) splunkMatch(r *rec, ev *evSpec) (string, string, string) {
	if r.bad != "" {
		return r.site, r.bad, r.detail
	}
	if r.doc.k != 'o' {
		return "envelope", "envelope-is-not-an-object", brief(r.doc)
	}
	got := r.doc.get("event")
	if got == nil || !equalJV(got, ev.Tree) {
		return "envelope", "event-member-differs-from-event", "got " + brief(got) + " want " + brief(ev.Tree)
	}
	want := jobj().set("event", ev.Tree)
	for _, cp := range s.cfg.Copies {
		if v := ev.Tree.dig(strings.Split(cp[0], ".")...); v != nil {
			setNested(want, strings.Split(cp[1], "."), v)
		}
	}
	if !equalJV(r.doc, want) {
		return "envelope", "copied-fields-differ", "got " + brief(r.doc.without("event")) + " want " + brief(want.without("event"))
	}
	return "", "", ""
}

// ---------------------------------------------------------------------------
// Loki push: {"streams":[{"stream":{labels},"values":[[ts,line,meta?],...]}]}

func (s *session) lokiParse(c *capture) ([]rec, *failure) {
	v, err := parseWhole(c.Body)
	if err != nil {
		return nil, &failure{Site: "envelope", Fail: "body-is-not-valid-json", Idx: -1, Detail: err.Error() + ": " + core_trunc(string(c.Body), 200)}
	}
	streams := v.get("streams")
	if v.k != 'o' || streams == nil || streams.k != 'a' || len(streams.vals) == 0 {
		return nil, &failure{Site: "envelope", Fail: "no-streams-array", Idx: -1, Detail: brief(v)}
	}
	want := jobj()
	for _, l := range s.cfg.Labels {
		want.set(l[0], jstr(l[1]))
	}
	var out []rec
	for _, st := range streams.vals {
		if !equalJV(st.get("stream"), want) {
			return nil, &failure{Site: "envelope", Fail: "stream-labels-differ-from-config", Idx: -1, Detail: "got " + brief(st.get("stream")) + " want " + brief(want)}
		}
		vals := st.get("values")
		if vals == nil || vals.k != 'a' {
			return nil, &failure{Site: "envelope", Fail: "no-values-array", Idx: -1, Detail: brief(st)}
		}
		for _, e := range vals.vals {
			out = append(out, rec{doc: e})
		}
	}
	return out, nil
}

func allDigits(s string) bool {
	if s == "" {
		return false
	}
	for i := 0; i < len(s); i++ {
		if s[i] < '0' || s[i] > '9' {
			return false
		}
	}
	return true
}

func (s *session) lokiMatch(r *rec, ev *evSpec) (string, string, string) {
	e := r.doc
	if e == nil || e.k != 'a' || len(e.vals) < 2 || len(e.vals) > 3 || e.vals[0].k != 's' || e.vals[1].k != 's' {
		return "entry", "entry-is-not-[ts,line,meta]", brief(e)
	}
	// identify the event first (so that a mismatch is attributed to content, not order)
	msg := ev.Tree.get(s.cfg.MsgField)
	ts := ev.Tree.get(s.cfg.TsField)
	if len(e.vals) == 3 {
		meta := e.vals[2]
		if !(equalJV(meta, ev.Tree.without(s.cfg.MsgField, s.cfg.TsField)) || equalJV(meta, ev.Tree)) {
			return "entry", "metadata-differs-from-event", "got " + brief(meta) + " want " + brief(ev.Tree.without(s.cfg.MsgField, s.cfg.TsField))
		}
	}
	switch {
	case msg == nil:
		if e.vals[1].s != "" {
			return "entry", "line-differs-from-message-field", fmt.Sprintf("got %q want \"\"", core_trunc(e.vals[1].s, 100))
		}
	case msg.k == 's':
		if !eqStr(e.vals[1].s, msg.s) {
			return "entry", "line-differs-from-message-field", fmt.Sprintf("got %q want %q", core_trunc(e.vals[1].s, 100), core_trunc(msg.s, 100))
		}
	}
	switch {
	case ts == nil || (ts.k == 's' && ts.s == ""):
		if !allDigits(e.vals[0].s) {
			return "entry", "timestamp-is-not-unix-nano", e.vals[0].s
		}
	case ts.k == 's' || ts.k == 'n':
		if e.vals[0].s != ts.s {
			return "entry", "timestamp-differs-from-timestamp-field", fmt.Sprintf("got %q want %q", e.vals[0].s, ts.s)
		}
	}
	return "", "", ""
}

// ---------------------------------------------------------------------------
// GELF: null-terminated JSON messages

func (s *session) gelfParse(c *capture) ([]rec, *failure) {
	if len(c.Body) == 0 {
		return nil, nil
	}
	if c.Body[len(c.Body)-1] != 0 {
		return nil, &failure{Site: "frame", Fail: "last-message-not-null-terminated", Idx: -1, Detail: tail(c.Body, 120)}
	}
	chunks := bytes.Split(c.Body[:len(c.Body)-1], []byte{0})
	out := make([]rec, 0, len(chunks))
	for _, ch := range chunks {
		r := rec{raw: ch}
		v, err := parseWhole(ch)
		if err != nil {
			r.bad, r.site, r.detail = "message-is-not-valid-json", "message", err.Error()+": "+core_trunc(string(ch), 200)
		} else if v.k != 'o' {
			r.bad, r.site = "message-is-not-an-object", "message"
		}
		r.doc = v
		out = append(out, r)
	}
	return out, nil
}

func gelfAllowed(r rune) bool {
	return (r >= 'a' && r <= 'z') || (r >= 'A' && r <= 'Z') || (r >= '0' && r <= '9') || r == '_' || r == '-' || r == '.'
}

// gelfSanitize is the canonical extra-field name ("_" + name, every
// character outside letters/digits/_/-/. replaced by '-').
func gelfSanitize(k string) string {
	var sb strings.Builder
	sb.WriteByte('_')
	for _, r := range k {
		if gelfAllowed(r) {
			sb.WriteRune(r)
		} else {
			sb.WriteByte('-')
		}
	}
	return sb.String()
}

// gelfKeyMatches: out is "_" + in, where every disallowed character of in
// may have been replaced by any one allowed character.
func gelfKeyMatches(out, in string) bool {
	if !strings.HasPrefix(out, "_") {
		return false
	}
	o := []rune(out[1:])
	i := 0
	for _, r := range in {
		if i >= len(o) {
			return false
		}
		if gelfAllowed(r) {
			if o[i] != r {
				return false
			}
		} else if !gelfAllowed(o[i]) {
			return false
		}
		i++
	}
	return i == len(o)
}

func isBlank(s string) bool { return strings.TrimSpace(s) == "" }

func (s *session) gelfMatch(r *rec, ev *evSpec) (string, string, string) {
	if r.bad != "" {
		return r.site, r.bad, r.detail
	}
	o := r.doc
	used := make([]bool, len(o.keys))
	take := func(key string) *jv {
		for i, k := range o.keys {
			if k == key && !used[i] {
				used[i] = true
				return o.vals[i]
			}
		}
		return nil
	}
	if v := take("version"); v == nil || v.k != 's' || v.s != "1.1" {
		return "message", "version-is-not-1.1", brief(v)
	}
	// identity first: the _id extra field
	if v := o.get("_id"); v == nil || v.k != 's' || v.s != ev.ID {
		return "message", "message-is-not-this-event", "got _id " + brief(v) + " want " + ev.ID
	}
	host := take("host")
	if host == nil || host.k != 's' {
		return "message", "host-missing-or-not-a-string", brief(host)
	}
	if w := ev.Tree.get("host"); w != nil && w.k == 's' && !isBlank(w.s) && !eqStr(host.s, w.s) {
		return "message", "host-differs-from-host-field", fmt.Sprintf("got %q want %q", host.s, w.s)
	}
	sm := take("short_message")
	if sm == nil || sm.k != 's' {
		return "message", "short_message-missing-or-not-a-string", brief(sm)
	}
	def := s.cfg.DefaultMsg
	if def == "" {
		def = "not set"
	}
	switch w := ev.Tree.get("message"); {
	case w == nil || (w.k == 's' && isBlank(w.s)):
		// what counts as blank is not documented: the default or the (white-space) value itself
		if sm.s != strings.TrimSpace(def) && sm.s != def && !(w != nil && eqStr(sm.s, w.s)) {
			return "message", "short_message-is-not-the-default", fmt.Sprintf("got %q want %q", sm.s, def)
		}
	case w.k == 's':
		if !eqStr(sm.s, w.s) {
			return "message", "short_message-differs-from-message-field", fmt.Sprintf("got %q want %q", core_trunc(sm.s, 100), core_trunc(w.s, 100))
		}
	}
	consumed := map[string]bool{"host": true, "message": true}
	if s.cfg.FullField != "" {
		consumed[s.cfg.FullField] = true
		fm := take("full_message")
		if w := ev.Tree.get(s.cfg.FullField); w != nil {
			if fm == nil || fm.k != 's' {
				return "message", "full_message-missing-or-not-a-string", brief(fm)
			}
			if w.k == 's' && !isBlank(w.s) && !eqStr(fm.s, w.s) {
				return "message", "full_message-differs-from-field", fmt.Sprintf("got %q want %q", core_trunc(fm.s, 100), core_trunc(w.s, 100))
			}
		}
	}
	if v := take("timestamp"); v != nil && v.k != 'n' {
		return "message", "timestamp-is-not-a-number", brief(v)
	}
	if v := take("level"); v != nil && v.k != 'n' {
		return "message", "level-is-not-a-number", brief(v)
	}
	// extras
	for i, k := range ev.Tree.keys {
		want := ev.Tree.vals[i]
		soft := k == "time" || k == "level" // may have been consumed into timestamp / level
		if consumed[k] {
			continue
		}
		var got *jv
		for j, ok := range o.keys {
			if !used[j] && gelfKeyMatches(ok, k) {
				used[j] = true
				got = o.vals[j]
				break
			}
		}
		if got == nil {
			if soft {
				continue
			}
			return "message", "extra-field-missing", fmt.Sprintf("no _field for %q in %s", k, core_trunc(string(r.raw), 300))
		}
		okv := equalJV(got, want)
		if !okv && got.k == 's' {
			if want.k == 'n' && eqNum(got.s, want.s) {
				okv = true
			} else if pv, err := parseWhole([]byte(got.s)); err == nil && equalJV(pv, want) {
				okv = true
			}
		}
		if !okv {
			return "message", "extra-field-value-differs", fmt.Sprintf("field %q: got %s want %s", k, brief(got), brief(want))
		}
	}
	for j, u := range used {
		if !u {
			return "message", "unexpected-field", fmt.Sprintf("%q in %s", o.keys[j], core_trunc(string(r.raw), 300))
		}
	}
	return "", "", ""
}

// ---------------------------------------------------------------------------
// Kafka: one record per event

func (s *session) kafkaParse(c *capture) ([]rec, *failure) {
	out := make([]rec, 0, len(c.Records))
	for _, kr := range c.Records {
		r := rec{raw: kr.Value, topic: kr.Topic}
		v, err := parseWhole(kr.Value)
		if err != nil {
			r.bad, r.site, r.detail = "record-value-is-not-valid-json", "record", err.Error()+": "+core_trunc(string(kr.Value), 200)
		}
		r.doc = v
		out = append(out, r)
	}
	return out, nil
}

func (s *session) kafkaMatch(r *rec, ev *evSpec) (string, string, string) {
	if r.bad != "" {
		return r.site, r.bad, r.detail
	}
	if !equalJV(r.doc, ev.Tree) {
		return "record", "record-value-differs-from-event", "got " + brief(r.doc) + " want " + brief(ev.Tree)
	}
	want := []string{s.cfg.DefaultTopic}
	if s.cfg.UseTopic {
		if v := ev.Tree.get(s.cfg.TopicField); v != nil {
			switch {
			case v.k == 's' && v.s != "":
				want = []string{v.s}
			case v.k == 'n':
				want = []string{v.s, s.cfg.DefaultTopic}
			case v.k == 'o' || v.k == 'a':
				want = nil // undocumented: anything
			case v.k != 's':
				want = append(want, map[byte]string{'t': "true", 'f': "false", 'z': "null"}[v.k])
			}
		}
	}
	if want != nil {
		ok := false
		for _, w := range want {
			if eqStr(w, r.topic) {
				ok = true
			}
		}
		if !ok {
			return "record", "topic-differs-from-routing-value", fmt.Sprintf("got %q want %q", r.topic, want)
		}
	}
	return "", "", ""
}

func tail(b []byte, n int) string {
	if len(b) > n {
		b = b[len(b)-n:]
	}
	return strconv.QuoteToASCII(string(b))
}

func core_trunc(s string, n int) string {
	if len(s) > n {
		s = s[:n] + "…"
	}
	if !utf8.ValidString(s) {
		return strconv.QuoteToASCII(s)
	}
	return s
}
