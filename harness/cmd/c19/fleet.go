package main

// Transport-failure cases for the outputs built on xhttp.Client
// (elasticsearch, http, splunk, loki).
//
//   - elasticsearch and http take a list of endpoints: the case configures a
//     FLEET of 2..5 endpoints of which some never accept a payload (a bound but
//     not listening loopback port: connection refused; a listener that resets /
//     closes every connection right after accept; a listener that reads the
//     request and hangs up without an answer; a server that answers 5xx to
//     everything) and the others are live sinks. All of them record into ONE
//     recorder, so there is one arrival order and one response plan.
//   - splunk and loki have a single endpoint option (and part of the es/http
//     cases keep a single endpoint too): the live sink itself cuts the connection
//     for the first requests of a batch (plan DropFirst: the request is read,
//     then the connection is closed, or reset, without an answer).
//
// Both are crossed with use_gzip on/off and the gzip levels. The oracle is
// the one of all other cases, applied to what the live sinks accepted.

import (
	"bufio"
	"fmt"
	"io"
	"math/rand"
	"net"
	"net/http"
	"sort"
	"strings"
	"syscall"
)

// endpoint kinds of a fleet
const (
	epLive   = "live"   // accepts (subject to the batch's plan)
	epClosed = "closed" // bound, not listening: connect is refused; leaves no trace at any sink
	epReset  = "reset"  // accept, then close with SO_LINGER 0 (RST)
	epClose  = "close"  // accept, then close at once (FIN, or RST when request bytes were already queued)
	epHangup = "hangup" // read the whole request, then close without an answer (the client sees EOF)
	ep5xx    = "5xx"    // answers 503 to everything
)

var deadKinds = []string{epClosed, epClosed, epReset, epClose, epHangup, ep5xx}

func isXHTTP(plugin string) bool {
	switch plugin {
	case "elasticsearch", "http", "splunk", "loki":
		return true
	}
	return false
}

var xhttpPlugins = []string{"elasticsearch", "http", "splunk", "loki"}

// boundPort is a loopback TCP socket that is bound but never listens: a
// connect to it is refused, and no other process can take the port while the
// case runs (a merely "free" port could be grabbed by somebody's listener).
type boundPort struct {
	fd   int
	addr string
}

func newBoundPort() (*boundPort, error) {
	fd, err := syscall.Socket(syscall.AF_INET, syscall.SOCK_STREAM|syscall.SOCK_CLOEXEC, 0)
	if err != nil {
		return nil, err
	}
	if err := syscall.Bind(fd, &syscall.SockaddrInet4{Port: 0, Addr: [4]byte{127, 0, 0, 1}}); err != nil {
		_ = syscall.Close(fd)
		return nil, err
	}
	sa, err := syscall.Getsockname(fd)
	if err != nil {
		_ = syscall.Close(fd)
		return nil, err
	}
	in4, ok := sa.(*syscall.SockaddrInet4)
	if !ok {
		_ = syscall.Close(fd)
		return nil, fmt.Errorf("unexpected socket address %T", sa)
	}
	return &boundPort{fd: fd, addr: fmt.Sprintf("127.0.0.1:%d", in4.Port)}, nil
}

func (b *boundPort) close() { _ = syscall.Close(b.fd) }

// cutListener accepts connections and cuts them; every cut is recorded in
// the shared recorder BEFORE the connection is closed, so that the record
// precedes everything the client does after it saw the error.
type cutListener struct {
	ln   net.Listener
	kind string
	rec  *recorder
}

func newCutListener(kind string, rec *recorder) (*cutListener, error) {
	ln, err := net.Listen("tcp", "127.0.0.1:0")
	if err != nil {
		return nil, err
	}
	l := &cutListener{ln: ln, kind: kind, rec: rec}
	go l.serve()
	return l, nil
}

func (l *cutListener) addr() string { return l.ln.Addr().String() }
func (l *cutListener) close()       { _ = l.ln.Close() }

func (l *cutListener) serve() {
	for {
		c, err := l.ln.Accept()
		if err != nil {
			return
		}
		switch l.kind {
		case epReset:
			l.rec.add(capture{Transport: true, NoRequest: true, Via: l.kind, Path: "[connection reset right after accept]"})
			if tc, ok := c.(*net.TCPConn); ok {
				_ = tc.SetLinger(0)
			}
			_ = c.Close()
		case epClose:
			l.rec.add(capture{Transport: true, NoRequest: true, Via: l.kind, Path: "[connection closed right after accept]"})
			_ = c.Close()
		default: // hangup
			go l.hangup(c)
		}
	}
}

func (l *cutListener) hangup(c net.Conn) {
	defer c.Close()
	req, err := http.ReadRequest(bufio.NewReader(c))
	if err != nil {
		l.rec.add(capture{Transport: true, NoRequest: true, Via: l.kind, Path: "[unreadable request: " + err.Error() + "]"})
		return
	}
	raw, err := io.ReadAll(req.Body)
	if err != nil {
		l.rec.add(capture{Transport: true, NoRequest: true, Via: l.kind, Path: "[unreadable request body: " + err.Error() + "]"})
		return
	}
	cp := capture{Body: raw, Transport: true, Via: l.kind, Path: req.RequestURI, CType: req.Header.Get("Content-Type")}
	if req.Header.Get("Content-Encoding") == "gzip" {
		body, members, err := gunzipAll(raw)
		if err != nil {
			cp.Status, cp.Path = 400, cp.Path+" [undecodable gzip]"
		} else {
			cp.Body, cp.GzipMembers = body, members
		}
	}
	l.rec.add(cp)
}

// buildFleet starts the endpoints of c.Fleet (in configuration order) around
// the main live sink and returns their base URLs.
func (s *session) buildFleet(main *httpSink, okCode int, okBody string) ([]string, error) {
	c := s.cfg
	if len(c.Fleet) == 0 {
		return []string{main.url()}, nil
	}
	var urls []string
	mainUsed := false
	for _, kind := range c.Fleet {
		switch kind {
		case epLive:
			if !mainUsed {
				mainUsed = true
				urls = append(urls, main.url())
				continue
			}
			extra, err := newHTTPSinkOn(main.rec, okCode, okBody, 0, "live#2")
			if err != nil {
				return nil, err
			}
			s.stopFns = append(s.stopFns, extra.close)
			urls = append(urls, extra.url())
		case ep5xx:
			bad, err := newHTTPSinkOn(main.rec, okCode, okBody, http.StatusServiceUnavailable, ep5xx)
			if err != nil {
				return nil, err
			}
			s.stopFns = append(s.stopFns, bad.close)
			urls = append(urls, bad.url())
		case epClosed:
			bp, err := newBoundPort()
			if err != nil {
				return nil, err
			}
			s.stopFns = append(s.stopFns, bp.close)
			urls = append(urls, "http://"+bp.addr)
		case epReset, epClose, epHangup:
			cl, err := newCutListener(kind, main.rec)
			if err != nil {
				return nil, err
			}
			s.stopFns = append(s.stopFns, cl.close)
			urls = append(urls, "http://"+cl.addr())
		default:
			return nil, fmt.Errorf("unknown endpoint kind %q", kind)
		}
	}
	if !mainUsed {
		return nil, fmt.Errorf("fleet %v has no live endpoint", c.Fleet)
	}
	return urls, nil
}

// fleetTag is the set of endpoint kinds (order free) for fingerprints.
func fleetTag(fleet []string) string {
	n := map[string]int{}
	for _, k := range fleet {
		n[k]++
	}
	var ks []string
	for k, v := range n {
		ks = append(ks, fmt.Sprintf("%s%d", k, v))
	}
	sort.Strings(ks)
	return strings.Join(ks, "+")
}

func hasKind(fleet []string, kind string) bool {
	for _, k := range fleet {
		if k == kind {
			return true
		}
	}
	return false
}

// addTransport turns a generated case into a transport-failure case. It
// draws from its own PRNG; the batches (events, flush triggers, 5xx / 413
// plans) are the ones genCase made.
func addTransport(cs *caseSpec, seed int64) {
	c := &cs.Cfg
	gp := rand.New(rand.NewSource(seed ^ 0x7a5f11e7))
	// sequential: with one worker the arrival order at the sinks is the order
	// of the plugin's requests
	c.Workers, cs.Concurrent = 1, false
	// the endpoint is picked at random per request: many retries, constant 1 ms
	// back-off, so that "every attempt of a batch met a dead endpoint" does not
	// happen (p <= (2/3)^61 per batch)
	c.Retry, c.Mult = 60, 1
	if c.Plugin != "loki" { // loki has no compression option
		c.Gzip = gp.Intn(100) < 60
		if c.Gzip {
			c.GzipLevel = []string{"default", "default", "default", "best-speed", "best-compression", "huffman-only", "no"}[gp.Intn(7)]
		}
	}
	multi := (c.Plugin == "elasticsearch" || c.Plugin == "http") && gp.Intn(100) < 75
	if multi {
		n := 2 + gp.Intn(4)
		minLive := (n + 2) / 3 // at most 2/3 of the endpoints never accept
		kinds := deadKinds
		if c.Split {
			// an attempt of a split batch needs every one of its requests to meet a
			// live endpoint: more live ones, and only failures that leave a trace at
			// the sinks (the judge must see where a round of the bisection ended)
			minLive = (n + 1) / 2
			kinds = []string{epReset, epClose, epHangup, ep5xx}
		}
		live := minLive
		if n-1 > minLive && gp.Intn(2) == 0 {
			live += gp.Intn(n - 1 - minLive + 1)
		}
		fleet := make([]string, 0, n)
		for i := 0; i < live; i++ {
			fleet = append(fleet, epLive)
		}
		for len(fleet) < n {
			fleet = append(fleet, kinds[gp.Intn(len(kinds))])
		}
		gp.Shuffle(len(fleet), func(i, j int) { fleet[i], fleet[j] = fleet[j], fleet[i] })
		c.Fleet = fleet
		if c.Split {
			// a split attempt seldom gets all its requests through; giving the batch
			// up after retry+2 observed failures is excused, so keep that cheap
			c.Retry = 20
		}
		for bi := range cs.Batches {
			b := &cs.Batches[bi]
			b.Shape += "|fleet"
		}
		return
	}
	// single endpoint: the live sink cuts the connection for the first requests
	// of a batch. fasthttp re-sends a POST by itself (up to 5 attempts) when the
	// server closed the connection before answering (EOF); a reset goes back to
	// the plugin at once.
	for bi := range cs.Batches {
		b := &cs.Batches[bi]
		if len(b.deliverable()) == 0 || gp.Intn(100) >= 75 {
			continue
		}
		b.Plan.DropFirst = []int{1, 1, 2, 3, 5, 6, 11}[gp.Intn(7)]
		b.Plan.DropRST = gp.Intn(2) == 0
		how := "eof"
		if b.Plan.DropRST {
			how = "rst"
		}
		b.Shape += fmt.Sprintf("|drop%s%s", sizeBucket(b.Plan.DropFirst), how)
	}
}
