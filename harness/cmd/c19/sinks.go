package main

// Transport-level capture: a loopback HTTP sink with a scripted response
// plan, a loopback TCP sink (GELF), a recording KafkaClient and a minimal stub
// broker (ApiVersions + Metadata) so that the kafka plugin's real Start path
// (kgo.NewClient + Ping) succeeds before the client is swapped.

import (
	"bytes"
	"compress/gzip"
	"context"
	"encoding/binary"
	"errors"
	"io"
	"net"
	"net/http"
	"sync"
	"time"

	"github.com/twmb/franz-go/pkg/kgo"
	"github.com/twmb/franz-go/pkg/kmsg"
)

// capture is one payload seen at a transport.
type capture struct {
	Body     []byte
	Accepted bool   // the sink answered success
	Status   int    // HTTP status (0 for non HTTP)
	Path     string // request URI (HTTP)
	CType    string
	Records  []kafkaRec // kafka only
	// Transport: the sink cut the connection instead of answering (the client
	// sees a transport error: reset / EOF). NoRequest: the connection was cut
	// right after accept, nothing was read (there is no body to judge).
	Transport bool
	NoRequest bool
	Via       string // kind of the endpoint that saw the request ("" = the main sink)
	// GzipMembers: number of gzip members of a compressed body (a real server
	// reads the stream to EOF, i.e. the concatenation of all members)
	GzipMembers int
}

type kafkaRec struct {
	Topic string
	Value []byte
}

// sinkPlan scripts the answers of a sink for the requests that follow.
type sinkPlan struct {
	Limit     int // HTTP: answer 413 to bodies longer than Limit (0 = no limit)
	FailFirst int // answer FailCode / an error to the next FailFirst requests
	FailCode  int
	// Poison: every body (that passes the Limit) containing this marker is
	// answered FailCode, for as long as the plan is installed: a retryable
	// failure that persists until the plugin gives the batch up.
	Poison string
	// DropFirst: the sink reads the next DropFirst requests and then closes the
	// connection without answering (DropRST: with SO_LINGER 0, i.e. a reset).
	DropFirst int
	DropRST   bool
}

type recorder struct {
	mu   sync.Mutex
	caps []capture
	plan sinkPlan
	note chan struct{}
}

func newRecorder() *recorder { return &recorder{note: make(chan struct{}, 1)} }

func (r *recorder) setPlan(p sinkPlan) { r.mu.Lock(); r.plan = p; r.mu.Unlock() }

func (r *recorder) add(c capture) {
	r.mu.Lock()
	r.caps = append(r.caps, c)
	r.mu.Unlock()
	select {
	case r.note <- struct{}{}:
	default:
	}
}

// take returns and clears what was captured so far.
func (r *recorder) take() []capture {
	r.mu.Lock()
	defer r.mu.Unlock()
	out := r.caps
	r.caps = nil
	return out
}

// decide applies the plan to one request of the given size.
func (r *recorder) decide(size int, body []byte) (ok bool, code int) {
	r.mu.Lock()
	defer r.mu.Unlock()
	if r.plan.DropFirst > 0 {
		r.plan.DropFirst--
		if r.plan.DropRST {
			return false, codeDropRST
		}
		return false, codeDrop
	}
	if r.plan.FailFirst > 0 {
		r.plan.FailFirst--
		return false, r.plan.FailCode
	}
	if r.plan.Limit > 0 && size > r.plan.Limit {
		return false, http.StatusRequestEntityTooLarge
	}
	if r.plan.Poison != "" && bytes.Contains(body, []byte(r.plan.Poison)) {
		return false, r.plan.FailCode
	}
	return true, 0
}

// pseudo status codes of decide: cut the connection instead of answering
const (
	codeDrop    = -1
	codeDropRST = -2
)

// gunzipAll decodes a gzip body the way a real server does: the stream is
// read to EOF and every member is decoded (RFC 1952 2.2: a gzip file is a
// series of members; Go's gzip.Reader, zlib's gzread, Elasticsearch's
// GZIPInputStream all return the concatenation). The members are counted
// for the witness.
func gunzipAll(raw []byte) (body []byte, members int, err error) {
	br := bytes.NewReader(raw) // an io.ByteReader: the gzip reader does not read past a member
	zr, err := gzip.NewReader(br)
	if err != nil {
		return nil, 0, err
	}
	for {
		zr.Multistream(false)
		part, err := io.ReadAll(zr)
		if err != nil {
			return nil, members, err
		}
		body = append(body, part...)
		members++
		if err := zr.Reset(br); err == io.EOF {
			return body, members, nil
		} else if err != nil {
			return nil, members, err
		}
	}
}

// ---- HTTP ----

type httpSink struct {
	rec    *recorder
	srv    *http.Server
	ln     net.Listener
	okCode int
	okBody string
	// force: answer this status to every request (an endpoint that is up but
	// broken: 5xx), whatever the plan says
	force int
	via   string
}

func newHTTPSink(okCode int, okBody string) (*httpSink, error) {
	return newHTTPSinkOn(newRecorder(), okCode, okBody, 0, "")
}

// newHTTPSinkOn starts one more listener that records into rec (several
// endpoints of one plugin instance: one arrival order, one plan).
func newHTTPSinkOn(rec *recorder, okCode int, okBody string, force int, via string) (*httpSink, error) {
	ln, err := net.Listen("tcp", "127.0.0.1:0")
	if err != nil {
		return nil, err
	}
	s := &httpSink{rec: rec, ln: ln, okCode: okCode, okBody: okBody, force: force, via: via}
	s.srv = &http.Server{Handler: http.HandlerFunc(s.handle)}
	go func() { _ = s.srv.Serve(ln) }()
	return s, nil
}

func (s *httpSink) url() string { return "http://" + s.ln.Addr().String() }

func (s *httpSink) close() { _ = s.srv.Close() }

func (s *httpSink) handle(w http.ResponseWriter, req *http.Request) {
	raw, err := io.ReadAll(req.Body)
	if err != nil {
		w.WriteHeader(http.StatusBadRequest)
		return
	}
	body, members := raw, 0
	if req.Header.Get("Content-Encoding") == "gzip" {
		body, members, err = gunzipAll(raw)
		if err != nil {
			s.rec.add(capture{Body: raw, Status: 400, Path: req.RequestURI + " [undecodable gzip]", Via: s.via})
			w.WriteHeader(http.StatusBadRequest)
			return
		}
	}
	var ok bool
	var code int
	if s.force != 0 {
		ok, code = false, s.force
	} else {
		ok, code = s.rec.decide(len(body), body)
	}
	c := capture{Body: body, Accepted: ok, Path: req.RequestURI, CType: req.Header.Get("Content-Type"), Via: s.via, GzipMembers: members}
	if !ok && code < 0 {
		// cut the connection without an answer (the request was read completely)
		c.Transport = true
		s.rec.add(c)
		if hj, isHj := w.(http.Hijacker); isHj {
			if conn, _, err := hj.Hijack(); err == nil {
				if tc, isTCP := conn.(*net.TCPConn); isTCP && code == codeDropRST {
					_ = tc.SetLinger(0)
				}
				_ = conn.Close()
			}
		}
		return
	}
	if ok {
		c.Status = s.okCode
	} else {
		c.Status = code
	}
	s.rec.add(c)
	w.WriteHeader(c.Status)
	if ok && s.okBody != "" {
		_, _ = io.WriteString(w, s.okBody)
	} else if !ok {
		_, _ = io.WriteString(w, `{"error":"scripted"}`)
	}
}

// ---- TCP (GELF) ----

// tcpSink records, per connection, everything written to it (each plugin
// worker owns one connection; bytes of different connections are never mixed).
type tcpSink struct {
	mu   sync.Mutex
	ln   net.Listener
	addr string
	bufs [][]byte
	note chan struct{}
}

func newTCPSink(addr string) (*tcpSink, error) {
	if addr == "" {
		addr = "127.0.0.1:0"
	}
	ln, err := net.Listen("tcp", addr)
	if err != nil {
		return nil, err
	}
	s := &tcpSink{ln: ln, addr: ln.Addr().String(), note: make(chan struct{}, 1)}
	go s.serve()
	return s, nil
}

func (s *tcpSink) serve() {
	for {
		c, err := s.ln.Accept()
		if err != nil {
			return
		}
		s.mu.Lock()
		idx := len(s.bufs)
		s.bufs = append(s.bufs, nil)
		s.mu.Unlock()
		go func() {
			defer c.Close()
			tmp := make([]byte, 64<<10)
			for {
				n, err := c.Read(tmp)
				if n > 0 {
					s.mu.Lock()
					s.bufs[idx] = append(s.bufs[idx], tmp[:n]...)
					s.mu.Unlock()
					select {
					case s.note <- struct{}{}:
					default:
					}
				}
				if err != nil {
					return
				}
			}
		}()
	}
}

// stats returns the number of bytes and of NUL bytes received and not yet taken.
func (s *tcpSink) stats() (n, nul int) {
	s.mu.Lock()
	defer s.mu.Unlock()
	for _, b := range s.bufs {
		n += len(b)
		nul += bytes.Count(b, []byte{0})
	}
	return
}

// takeStreams returns what each connection received since the last call.
func (s *tcpSink) takeStreams() [][]byte {
	s.mu.Lock()
	defer s.mu.Unlock()
	var out [][]byte
	for i, b := range s.bufs {
		if len(b) > 0 {
			out = append(out, b)
			s.bufs[i] = nil
		}
	}
	return out
}

func (s *tcpSink) close() { _ = s.ln.Close() }

// reservePort returns a loopback address nobody listens on (for the
// connection-refused-then-retry scenario).
func reservePort() (string, error) {
	ln, err := net.Listen("tcp", "127.0.0.1:0")
	if err != nil {
		return "", err
	}
	addr := ln.Addr().String()
	_ = ln.Close()
	return addr, nil
}

// ---- Kafka ----

// kafkaRecorder implements the plugin's KafkaClient interface; payload bytes
// are copied at ProduceSync time (that is when a real client would serialise
// them).
type kafkaRecorder struct {
	rec *recorder
}

func (k *kafkaRecorder) ProduceSync(_ context.Context, rs ...*kgo.Record) kgo.ProduceResults {
	c := capture{}
	for _, r := range rs {
		c.Records = append(c.Records, kafkaRec{Topic: r.Topic, Value: append([]byte(nil), r.Value...)})
	}
	ok, _ := k.rec.decide(0, nil)
	c.Accepted = ok
	k.rec.add(c)
	res := make(kgo.ProduceResults, 0, len(rs))
	for _, r := range rs {
		pr := kgo.ProduceResult{Record: r}
		if !ok {
			pr.Err = errors.New("scripted produce failure")
		}
		res = append(res, pr)
	}
	return res
}

func (k *kafkaRecorder) Close() {}

// stubBroker answers ApiVersions and Metadata, which is all kgo.Client.Ping
// needs.
type stubBroker struct {
	ln net.Listener
}

func newStubBroker() (*stubBroker, error) {
	ln, err := net.Listen("tcp", "127.0.0.1:0")
	if err != nil {
		return nil, err
	}
	b := &stubBroker{ln: ln}
	go b.serve()
	return b, nil
}

func (b *stubBroker) addr() string { return b.ln.Addr().String() }
func (b *stubBroker) close()       { _ = b.ln.Close() }

func (b *stubBroker) serve() {
	for {
		c, err := b.ln.Accept()
		if err != nil {
			return
		}
		go b.conn(c)
	}
}

func (b *stubBroker) conn(c net.Conn) {
	defer c.Close()
	port := int32(b.ln.Addr().(*net.TCPAddr).Port)
	for {
		_ = c.SetReadDeadline(time.Now().Add(5 * time.Minute))
		var szb [4]byte
		if _, err := io.ReadFull(c, szb[:]); err != nil {
			return
		}
		sz := binary.BigEndian.Uint32(szb[:])
		if sz < 8 || sz > 1<<20 {
			return
		}
		req := make([]byte, sz)
		if _, err := io.ReadFull(c, req); err != nil {
			return
		}
		key := int16(binary.BigEndian.Uint16(req[0:2]))
		ver := int16(binary.BigEndian.Uint16(req[2:4]))
		corr := req[4:8]
		out := make([]byte, 4, 256)
		out = append(out, corr...)
		switch key {
		case 18: // ApiVersions: the response header is never flexible
			resp := kmsg.NewPtrApiVersionsResponse()
			if ver > 3 {
				// unsupported: answer a v0 body with UNSUPPORTED_VERSION and our range
				resp.Version = 0
				resp.ErrorCode = 35
			} else {
				resp.Version = ver
			}
			for _, k := range [][3]int16{{18, 0, 3}, {3, 0, 7}, {0, 3, 7}, {22, 0, 1}} {
				ak := kmsg.NewApiVersionsResponseApiKey()
				ak.ApiKey, ak.MinVersion, ak.MaxVersion = k[0], k[1], k[2]
				resp.ApiKeys = append(resp.ApiKeys, ak)
			}
			out = resp.AppendTo(out)
		case 3: // Metadata (we advertise <= v7: non-flexible header)
			resp := kmsg.NewPtrMetadataResponse()
			resp.Version = ver
			br := kmsg.NewMetadataResponseBroker()
			br.NodeID, br.Host, br.Port = 1, "127.0.0.1", port
			resp.Brokers = append(resp.Brokers, br)
			resp.ControllerID = 1
			out = resp.AppendTo(out)
		default:
			return
		}
		binary.BigEndian.PutUint32(out[0:4], uint32(len(out)-4))
		if _, err := c.Write(out); err != nil {
			return
		}
	}
}
