package main

// Big-event cases of the file output (mode "bigfile").
//
// One case = one real file output instance with 2..8 workers behind its real
// Batcher, fed back to back with batches that hold very large events (an
// encoding of several hundred KiB up to a few MiB next to ordinary small
// ones), so that several workers are inside the plugin's write path at the
// same time, each with a payload that is orders of magnitude bigger than a
// pipe / page / stdio buffer. Part of the cases run with a retention_interval
// of a few milliseconds: the seal-up ticker renames the file and opens a new
// one again and again WHILE the workers write.
//
// The oracle is the one of all other file cases, applied to everything found
// in the target directory afterwards (sealed files and the current one):
// every file ends with a newline, every line is one well-formed JSON document
// equal to one event of the case, every deliverable event is there exactly
// once, and inside a file the events of a batch are one contiguous run of
// lines in batch order (nothing of another batch lies inside a payload). A
// batch may continue in another file only where the first file ends behind a
// whole event and the other file starts with the next one (counted, never seen
// on the unchanged tree: a payload is one write).

import (
	"fmt"
	"math/rand"
	"os"
	"path/filepath"
	"sort"
	"strings"
	"sync"
	"time"

	"github.com/ozontech/file.d/pipeline"
)

const modeBigFile = "bigfile"

// bigBudget is the sum of the event encodings of one case (bytes): bounds the
// memory of a child (every event lives as text, tree, Event.Buf and Root).
const bigBudget = 16 << 20

func sealBucket(ms int) string {
	switch {
	case ms == 0:
		return "never"
	case ms <= 10:
		return "<=10ms"
	default:
		return ">10ms"
	}
}

func encBucket(n int) string {
	switch {
	case n < 64<<10:
		return "<64k"
	case n < 256<<10:
		return "64k-256k"
	case n < 1<<20:
		return "256k-1m"
	default:
		return "1m+"
	}
}

// padPool hands out big strings that share one backing array per unit (the
// trees of a case then cost next to nothing).
type padPool struct {
	units []string
	pools []string
}

var (
	padOnce sync.Once
	thePads *padPool
)

func sharedPadPool() *padPool {
	padOnce.Do(func() { thePads = newPadPool(3 << 20) })
	return thePads
}

func newPadPool(maxLen int) *padPool {
	p := &padPool{units: []string{"x", "0123456789abcdef", "é", "ab\"", "\\", "line\n", "日本語 ", "</a>&"}}
	for _, u := range p.units {
		p.pools = append(p.pools, strings.Repeat(u, maxLen/len(u)+1))
	}
	return p
}

func (p *padPool) get(r *rand.Rand, n int) string {
	k := r.Intn(len(p.units))
	if r.Intn(3) == 0 {
		k = 0
	}
	u := len(p.units[k])
	return p.pools[k][:(n/u+1)*u]
}

func genBigFileCase(seed int64, caseNo int) *caseSpec {
	g := &gen{r: rand.New(rand.NewSource(seed))}
	cs := &caseSpec{Concurrent: true}
	c := &cs.Cfg
	c.Plugin = "file"
	c.BigFile = true
	c.Workers = []int{2, 3, 4, 4, 8}[g.r.Intn(5)]
	c.BatchSize = []int{1, 2, 2, 3, 4}[g.r.Intn(5)]
	c.AvgSize = []int{128, 4096, 65536}[g.r.Intn(3)]
	c.FlushMs = 3600000
	if g.chance(65) {
		c.SealMs = []int{3, 5, 10, 20, 40}[g.r.Intn(5)]
	}
	fp := &fieldPlan{reserved: map[string]bool{"pad": true}}
	pool := sharedPadPool()
	total := 0
	minBatches := 3 * c.Workers
	for bi := 0; (total < bigBudget && bi < 64) || bi < minBatches; bi++ {
		n := 1 + g.r.Intn(c.BatchSize)
		if g.chance(40) {
			n = c.BatchSize
		}
		b := batchSpec{Trigger: "bytes"}
		if n == c.BatchSize {
			b.Trigger = "count"
		}
		// most batches hold one very large event (sometimes two), the others are
		// made of ordinary events only: the material that gets between the pieces
		// of a big payload when payloads are not written as a whole
		bigAt, bigAt2 := -1, -1
		if g.chance(80) {
			bigAt = g.r.Intn(n)
			if n > 1 && g.chance(15) {
				bigAt2 = g.r.Intn(n)
			}
		}
		bytes := 0
		maxEnc := 0
		for ei := 0; ei < n; ei++ {
			id := fmt.Sprintf("big%db%de%d", caseNo, bi, ei)
			kind := "regular"
			switch k := g.r.Intn(20); {
			case k < 5:
				kind = "child"
			case k == 5 && n > 1 && ei != bigAt && ei != bigAt2 && ei > 0:
				kind = "parent"
				id = "PARENT-" + id
			}
			ev := g.event(id, kind, fp, []int{0, 1, 1, 2}[g.r.Intn(4)])
			padLen := 0
			switch {
			case ei == bigAt || ei == bigAt2:
				switch k := g.r.Intn(10); {
				case k < 4:
					padLen = 260<<10 + g.r.Intn(400<<10)
				case k < 8:
					padLen = 600<<10 + g.r.Intn(900<<10)
				default:
					padLen = 1500<<10 + g.r.Intn(1500<<10)
				}
				if total+bytes+padLen > bigBudget+(3<<20) {
					padLen = 260<<10 + g.r.Intn(200<<10)
				}
			case g.chance(15):
				padLen = 20<<10 + g.r.Intn(200<<10)
			}
			if padLen > 0 {
				g.placeField(ev.Tree, "pad", jstr(pool.get(g.r, padLen)))
				ev.Text = render(ev.Tree, &renderOpt{rng: g.r, shortEsc: true})
			}
			bytes += len(ev.Text)
			if kind != "parent" && len(ev.Text) > maxEnc {
				maxEnc = len(ev.Text)
			}
			b.Events = append(b.Events, ev)
		}
		total += bytes
		b.Shape = fmt.Sprintf("n%s|par%s|maxev%s|%s", sizeBucket(n), sizeBucket(n-len(b.deliverable())), encBucket(maxEnc), b.Trigger)
		cs.Batches = append(cs.Batches, b)
	}
	return cs
}

type outFile struct {
	name string
	body []byte
}

// readOutDir reads every file of the target directory. The seal-up ticker may
// still rename the current file once after the last write (the new file stays
// empty and is never sealed): the directory is read until two listings around
// the reads agree.
func readOutDir(dir string) ([]outFile, error) {
	list := func() (string, []string, error) {
		names, err := filepath.Glob(dir + "*")
		if err != nil {
			return "", nil, err
		}
		sort.Strings(names)
		var sb strings.Builder
		for _, n := range names {
			st, err := os.Stat(n)
			if err != nil {
				return "", nil, err
			}
			fmt.Fprintf(&sb, "%s:%d\n", n, st.Size())
		}
		return sb.String(), names, nil
	}
	var lastErr error
	for try := 0; try < 400; try++ {
		if try > 0 {
			time.Sleep(10 * time.Millisecond)
		}
		before, names, err := list()
		if err != nil {
			lastErr = err
			continue
		}
		var out []outFile
		ok := true
		for _, n := range names {
			b, err := os.ReadFile(n)
			if err != nil {
				lastErr, ok = err, false
				break
			}
			out = append(out, outFile{name: filepath.Base(n), body: b})
		}
		if !ok {
			continue
		}
		after, _, err := list()
		if err != nil || after != before {
			lastErr = fmt.Errorf("the directory keeps changing")
			continue
		}
		return out, nil
	}
	return nil, lastErr
}

type bigLoc struct{ bi, ei int } // batch, index among the deliverable events of the batch

// bigFailOrder: the failure classes of a big-event case, most specific first.
// A case reports the first class present (the others go to the witness), so
// that the signature of a defect does not depend on which of its consequences
// happened to be met first.
var bigFailOrder = []string{
	"doc/line-is-not-valid-json",
	"frame/last-line-not-newline-terminated",
	"doc/line-matches-no-event",
	"doc/document-differs-from-event",
	"coverage/parent-event-of-a-split-in-payload",
	"coverage/event-duplicated",
	"coverage/events-missing-from-the-files",
	"coverage/events-of-a-batch-not-one-contiguous-run-of-lines",
	"commit/commit-count-differs-from-the-events-fed",
	"commit/commit-order-differs-from-feed-order",
}

func runBigFile(cs *caseSpec, s *session, res *caseResult) {
	c := &cs.Cfg
	t0 := time.Now()
	defer func() { res.count("bigfile.wall_ms_informational", time.Since(t0).Milliseconds()) }()
	var fed []*pipeline.Event
	byID := map[string]bigLoc{}
	parents := map[string]bool{}
	exps := make([][]evSpec, len(cs.Batches))
	maxEnc := make([]int, len(cs.Batches)) // longest event encoding (as rendered by the harness) of the batch
	for bi := range cs.Batches {
		b := &cs.Batches[bi]
		for i := range b.Events {
			size := len(b.Events[i].Text)
			if b.Events[i].Kind != "parent" && size > maxEnc[bi] {
				maxEnc[bi] = size
			}
			if b.Trigger == "bytes" && i == len(b.Events)-1 {
				size = hugeBytes
			}
			fed = append(fed, makeEvent(&b.Events[i], size))
			b.Events[i].Text = nil // the oracle works on the tree
		}
		exps[bi] = b.deliverable()
		for ei, e := range exps[bi] {
			byID[e.ID] = bigLoc{bi, ei}
		}
		for _, e := range b.Events {
			if e.Kind == "parent" {
				parents[e.ID] = true
			}
		}
	}
	if batchLog != nil {
		batchLog(map[string]any{"batch_no": 0, "shape": fmt.Sprintf("bigfile: %d batches, %d events", len(cs.Batches), len(fed))})
	}
	for _, e := range fed {
		s.out.Out(e)
	}
	if !s.ctl.waitCommits(len(fed), 120*time.Second) {
		s.abandoned = true
		res.Inconclusive = append(res.Inconclusive, "watchdog: big-event case not committed (file)")
		return
	}
	commits := s.ctl.take()
	files, err := readOutDir(s.dir)
	if err != nil {
		res.Inconclusive = append(res.Inconclusive, "big-event case: cannot read the target directory: "+err.Error())
		return
	}

	fails := map[string][]string{} // class -> details (first few)
	fail := func(class, detail string) {
		if len(fails[class]) < 4 {
			fails[class] = append(fails[class], detail)
		}
	}
	if len(commits) != len(fed) {
		fail("commit/commit-count-differs-from-the-events-fed", fmt.Sprintf("%d commits for %d events", len(commits), len(fed)))
	} else {
		for i := range fed {
			if commits[i] != fed[i] {
				fail("commit/commit-order-differs-from-feed-order", fmt.Sprintf("commit #%d is not event #%d", i, i))
				break
			}
		}
	}

	seen := make([][]int, len(cs.Batches))
	for bi := range exps {
		seen[bi] = make([]int, len(exps[bi]))
	}
	badBatch := make([]bool, len(cs.Batches))
	continued := make([]int, len(cs.Batches)) // ends of runs of a batch that lie at a file boundary
	var order []int                           // batches in the order their first line was met
	nonEmpty := 0
	const notContig = "coverage/events-of-a-batch-not-one-contiguous-run-of-lines"
	for _, f := range files {
		if len(f.body) == 0 {
			continue
		}
		nonEmpty++
		lines, trailing := splitLines(f.body)
		if !trailing {
			fail("frame/last-line-not-newline-terminated", fmt.Sprintf("file %s (%d bytes) ends with %q", f.name, len(f.body), tail(f.body, 80)))
		}
		open := bigLoc{-1, -1} // the event the previous line was; {-1,-1}: no batch is open
		closeOpen := func(where string, fileEnd bool) {
			if open.bi >= 0 && open.ei != len(exps[open.bi])-1 {
				if fileEnd {
					// the file was sealed up behind a whole event of the batch: the rest of
					// the batch has to open another file (below); nothing is malformed
					continued[open.bi]++
				} else {
					badBatch[open.bi] = true
					fail(notContig, fmt.Sprintf("file %s: %s after event #%d of the %d events of batch %d", f.name, where, open.ei, len(exps[open.bi]), open.bi))
				}
			}
			open = bigLoc{-1, -1}
		}
		for li, ln := range lines {
			at := fmt.Sprintf("file %s line %d of %d (%d bytes)", f.name, li, len(lines), len(ln))
			v, err := parseWhole(ln)
			if err != nil {
				fail("doc/line-is-not-valid-json", fmt.Sprintf("%s: %v: starts %q ends %q", at, err, core_trunc(string(ln), 100), tail(ln, 100)))
				closeOpen("an invalid line", false)
				continue
			}
			id := ""
			if idv := v.get("id"); idv != nil && idv.k == 's' {
				id = idv.s
			}
			l, ok := byID[id]
			if !ok {
				if parents[id] {
					fail("coverage/parent-event-of-a-split-in-payload", at+": "+id)
				} else {
					fail("doc/line-matches-no-event", at+": "+brief(v))
				}
				closeOpen("a foreign line", false)
				continue
			}
			if !equalJV(v, exps[l.bi][l.ei].Tree) {
				badBatch[l.bi] = true
				fail("doc/document-differs-from-event", fmt.Sprintf("%s: event %s: got %s want %s", at, id, brief(v), brief(exps[l.bi][l.ei].Tree)))
			}
			seen[l.bi][l.ei]++
			if seen[l.bi][l.ei] > 1 {
				badBatch[l.bi] = true
				fail("coverage/event-duplicated", fmt.Sprintf("%s: event %s is there for the %d. time", at, id, seen[l.bi][l.ei]))
			}
			if l.ei == 0 {
				closeOpen("a new batch starts", false)
				order = append(order, l.bi)
			} else if open.bi != l.bi || open.ei != l.ei-1 {
				closeOpen("event "+id+" follows", false)
				if li == 0 {
					continued[l.bi]++ // the rest of a batch whose first part closes another file
				} else {
					badBatch[l.bi] = true
					fail(notContig, fmt.Sprintf("%s: event #%d of batch %d does not follow event #%d of its batch", at, l.ei, l.bi, l.ei-1))
				}
			}
			open = l
		}
		closeOpen("the file ends", true)
	}
	for bi := range seen {
		for ei, n := range seen[bi] {
			if n == 0 {
				badBatch[bi] = true
				fail("coverage/events-missing-from-the-files", fmt.Sprintf("event #%d (%s) of batch %d (%s)", ei, exps[bi][ei].ID, bi, cs.Batches[bi].Shape))
			}
		}
	}

	// verdict: one violation per case, the most specific class present
	anyFail := len(fails) > 0
	if anyFail {
		var present []string
		top := ""
		for _, cl := range bigFailOrder {
			if len(fails[cl]) > 0 {
				if top == "" {
					top = cl
				}
				present = append(present, cl)
			}
		}
		site, what, _ := strings.Cut(top, "/")
		f := &failure{Site: site, Fail: what, Idx: -1, Detail: fails[top][0]}
		var names []string
		for _, of := range files {
			names = append(names, fmt.Sprintf("%s:%d", of.name, len(of.body)))
		}
		var shapes []string
		for bi := range cs.Batches {
			shapes = append(shapes, cs.Batches[bi].Shape)
		}
		res.Violations = append(res.Violations, violationOut{Signature: signature(c, f),
			What: fmt.Sprintf("file: %d workers, %d batches with very large events, retention_interval %s: %s/%s — %s", c.Workers, len(cs.Batches), map[bool]string{true: fmt.Sprintf("%dms", c.SealMs), false: "24h"}[c.SealMs > 0], site, what, core_trunc(f.Detail, 300)),
			Witness: map[string]any{"config": c, "failure_classes_present": present, "details": fails, "files": names, "batch_shapes": shapes,
				"batches_in_file_order": order}})
	}

	// evidence
	res.count("bigfile.cases", 1)
	res.count("bigfile.files_judged", int64(nonEmpty))
	if nonEmpty >= 2 {
		res.count("bigfile.cases_with_sealed_files", 1)
		if !anyFail {
			res.count("bigfile.cases_ok_with_sealed_files", 1)
		}
	} else if !anyFail {
		res.count("bigfile.cases_ok_single_file", 1)
	}
	overtaken := 0
	for k := 1; k < len(order); k++ {
		if order[k] < order[k-1] {
			overtaken++
		}
	}
	if overtaken > 0 {
		// payloads are in the files in another order than the batches were handed
		// out: several workers were writing at the same time
		res.count("bigfile.cases_with_batches_overtaken_by_another_worker", 1)
	}
	for bi := range cs.Batches {
		b := &cs.Batches[bi]
		res.Evals++
		res.count("batches."+c.Plugin, 1)
		res.count("bigfile.batches", 1)
		res.count("events_deliverable", int64(len(exps[bi])))
		res.fp(c.tag() + "||" + b.Shape + "||bigfile")
		if badBatch[bi] || (anyFail && len(exps[bi]) > 0 && seen[bi][0] == 0) {
			res.count("bigfile.batches_failed", 1)
			continue
		}
		if anyFail {
			continue // a case with a malformed file: its other batches are not counted as judged ok
		}
		res.count("bigfile.batches_ok", 1)
		if continued[bi] > 0 {
			res.count("bigfile.batches_ok_cut_by_a_seal_up_between_two_events", 1)
		}
		res.count("bigfile.batches_ok.maxev"+encBucket(maxEnc[bi]), 1)
	}
}
