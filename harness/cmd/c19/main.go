// C19 — output payloads carry every event of a batch exactly once, well-formed.
//
// Runtime monitoring of the real output plugins (elasticsearch, http, file,
// splunk, loki, gelf, kafka) through their real Out -> Batcher -> out path;
// payloads are captured at the transport and judged by independent framing
// parsers against the generated events. See NOTES.md.
package main

import (
	"encoding/json"
	"fmt"
	"os"
	"path/filepath"
	"regexp"
	"runtime"
	"sort"
	"strings"
	"sync"
	"syscall"
	"time"

	"verifharness/core"
)

type childIn struct {
	Plugin string  `json:"plugin"`
	Cases  []int   `json:"cases"`
	Seeds  []int64 `json:"seeds"`
	Mode   string  `json:"mode,omitempty"` // "" or modeTransport
}

// batchLog is set in children: one line per batch before it is handed to the
// plugin, so that a crash / runaway is attributed to the batch and its plan.
var batchLog func(v any)

const heapCeiling = 384 << 20

// memoryWatchdog ends the child as soon as the heap explodes (an encoder
// looping over a corrupted tree allocates without bound): it prints a
// "fatal error:" line, names the first /repo function of the goroutine that
// is running, dumps all stacks and exits.
func memoryWatchdog() {
	_ = syscall.Setrlimit(syscall.RLIMIT_AS, &syscall.Rlimit{Cur: 10 << 30, Max: 10 << 30})
	go func() {
		var ms runtime.MemStats
		for {
			time.Sleep(20 * time.Millisecond)
			runtime.ReadMemStats(&ms)
			if ms.HeapAlloc < heapCeiling {
				continue
			}
			buf := make([]byte, 4<<20)
			buf = buf[:runtime.Stack(buf, true)]
			at := runawayFunc(string(buf))
			fmt.Fprintf(os.Stderr, "fatal error: c19 memory watchdog: heap above %d MiB (runaway allocation)\nC19-RUNAWAY at=%s\n\n%s\n", heapCeiling>>20, at, buf)
			os.Exit(7)
		}
	}()
}

// runawayFunc finds, among the goroutines that are running or runnable, the
// innermost function of the code under test.
func runawayFunc(dump string) string {
	// two passes: goroutines inside an output plugin first (a helper goroutine of
	// the repo that happens to be runnable must not be blamed)
	for _, need := range []string{"github.com/ozontech/file.d/plugin/output/", "github.com/ozontech/file.d/"} {
		for _, blk := range strings.Split(dump, "\n\n") {
			lines := strings.Split(blk, "\n")
			if len(lines) == 0 || !(strings.Contains(lines[0], "[running") || strings.Contains(lines[0], "[runnable")) {
				continue
			}
			if strings.Contains(blk, "main.memoryWatchdog") || !strings.Contains(blk, need) {
				continue
			}
			for _, l := range lines[1:] {
				if strings.HasPrefix(l, "github.com/ozontech/file.d/") {
					f := strings.TrimPrefix(l, "github.com/ozontech/file.d/")
					if j := strings.LastIndex(f, "("); j > 0 {
						f = f[:j]
					}
					return f
				}
			}
		}
	}
	return "unknown"
}

func childRun(raw json.RawMessage, io *core.ChildIO) (any, error) {
	var in childIn
	if err := json.Unmarshal(raw, &in); err != nil {
		return nil, err
	}
	memoryWatchdog()
	batchLog = func(v any) { io.Log(v) }
	if os.Getenv("C19_TRACE") == "1" {
		traceFn = func(v any) { io.Log(v) }
	}
	// every case's result goes to the on-disk log as soon as the case is done, so
	// that a later crash of this child loses nothing
	for i, no := range in.Cases {
		cs := genCase(in.Seeds[i], in.Plugin, no, in.Mode)
		io.Log(map[string]any{"plugin": in.Plugin, "case": no, "seed": in.Seeds[i], "cfg": cs.Cfg.tag(), "mode": in.Mode})
		dir := filepath.Join(io.Dir, fmt.Sprintf("case-%d", no))
		_ = os.MkdirAll(dir, 0o755)
		res := newCaseResult()
		runCase(cs, dir, res)
		_ = os.RemoveAll(dir)
		io.Log(map[string]any{"done": no, "result": res})
	}
	return map[string]any{"cases": len(in.Cases)}, nil
}

func main() {
	core.RegisterChild("run", childRun)
	core.RegisterChild("probe", childProbe)
	core.Main("C19", "exploration", run)
}

type job struct {
	plugin string
	cases  []int
	seeds  []int64
	mode   string
}

// crashInfo is what the child's log says about where it died.
type crashInfo struct {
	Plugin string `json:"plugin"`
	Case   int    `json:"case"`
	Seed   int64  `json:"seed"`
	Cfg    string `json:"cfg"`
	Batch  int    `json:"batch"`
	Shape  string `json:"shape"`
	Retry  bool   `json:"retry"`
	Events []string
}

func crashWhere(r *core.ChildResult) (ci crashInfo, doneCases map[int]*caseResult) {
	doneCases = map[int]*caseResult{}
	ci.Case, ci.Batch = -1, -1
	for _, l := range r.Log {
		var m struct {
			Plugin *string     `json:"plugin"`
			Case   *int        `json:"case"`
			Seed   int64       `json:"seed"`
			Cfg    string      `json:"cfg"`
			Done   *int        `json:"done"`
			Result *caseResult `json:"result"`
			Batch  *int        `json:"batch_no"`
			Shape  string      `json:"shape"`
			Retry  bool        `json:"retry"`
			Events []string    `json:"events"`
		}
		if json.Unmarshal(l, &m) != nil {
			continue
		}
		switch {
		case m.Done != nil:
			doneCases[*m.Done] = m.Result
		case m.Batch != nil:
			ci.Batch, ci.Shape, ci.Retry, ci.Events = *m.Batch, m.Shape, m.Retry, m.Events
		case m.Case != nil && m.Plugin != nil:
			ci.Plugin, ci.Case, ci.Seed, ci.Cfg = *m.Plugin, *m.Case, m.Seed, m.Cfg
			ci.Batch = -1
		}
	}
	return ci, doneCases
}

var runawayRe = regexp.MustCompile(`C19-RUNAWAY at=(\S+)`)

func run(c *core.Ctx) {
	c.SetRule("one case = one real output plugin instance (elasticsearch, http json/raw, file, splunk, loki, gelf, kafka) with a drawn configuration " +
		"(batch_size 1..64, avg_event_size 1..4096 to hit both buffer reuse and the shrink branch, 1 or 4 workers, gzip, split_batch, index format / copy_fields / labels / topic field ...) " +
		"fed 3..8 successive batches of very different sizes (1..batch_size events, tiny to 20 kB / 80-level deep events, regular / child / child-parent kinds, " +
		"hostile characters in keys, values and routing fields) under a scripted sink (accept, 5xx-then-accept, 413 above a byte limit); " +
		"one evaluation = one batch judged; non-trivial fingerprint = plugin config class x batch shape (event count, parents, bytes, flush trigger, sink plan) x " +
		"shape of the previous batch on the same worker (buffer reuse pattern) x hostile classes of the routing values; " +
		"plus transport-failure cases of the four outputs built on xhttp.Client: elasticsearch/http with 2..5 endpoints of which some never accept " +
		"(refusing port, reset/close after accept, hang-up after the request, always-5xx) and the rest are live sinks sharing one recorder; " +
		"splunk/loki (single endpoint) and part of es/http with a live sink that cuts the connection for the first 1..11 requests of a batch; " +
		"crossed with use_gzip on/off and five gzip levels; the same oracle over what the live sinks accepted (gzip bodies decoded to EOF, all members); " +
		"plus big-event cases of the file output: 2..8 workers behind the real Batcher fed back to back with batches whose events encode to several hundred KiB .. 3 MiB " +
		"(next to ordinary ones), retention_interval 24h or 3..40 ms (seal-ups while the workers write); the same line oracle over every file of the target directory " +
		"(sealed and current): each file newline-terminated, each line one valid JSON document equal to its event, every event exactly once, a batch's lines contiguous and in order")
	c.Assume("the loopback HTTP/TCP sinks and the recording KafkaClient deliver the bytes the plugin handed to the transport; net/http and compress/gzip are trusted")
	c.Assume("events are built with pipeline.VerifNewEvent + Root.DecodeBytes (the kinds a real split produces), not by a running pipeline")
	c.Assume("Kafka framing is observed at the plugin's KafkaClient interface (bytes copied at ProduceSync time), not on the wire")

	perPlugin := c.N(800, 12000)
	chunk := c.N(20, 60)
	var jobs []job
	only := os.Getenv("C19_PLUGINS") // debugging aid: comma separated subset (the floors then fail the run: exit 2)
	for _, p := range pluginNames {
		if only != "" && !strings.Contains(","+only+",", ","+p+",") {
			continue
		}
		for from := 0; from < perPlugin; from += chunk {
			j := job{plugin: p}
			for k := from; k < from+chunk && k < perPlugin; k++ {
				j.cases = append(j.cases, k)
				j.seeds = append(j.seeds, c.SubSeed("case|"+p, k))
			}
			jobs = append(jobs, j)
		}
	}
	// transport-failure cases of the outputs built on xhttp.Client (fleet.go):
	// numbered after the ordinary cases, own seed stream
	perTransport := c.N(200, 3000)
	for _, p := range xhttpPlugins {
		if only != "" && !strings.Contains(","+only+",", ","+p+",") {
			continue
		}
		for from := 0; from < perTransport; from += chunk {
			j := job{plugin: p, mode: modeTransport}
			for k := from; k < from+chunk && k < perTransport; k++ {
				j.cases = append(j.cases, perPlugin+k)
				j.seeds = append(j.seeds, c.SubSeed("transport-case|"+p, perPlugin+k))
			}
			jobs = append(jobs, j)
		}
	}
	// big-event cases of the file output (bigfile.go): numbered after all others, own seed stream
	perBig := c.N(16, 160)
	bigFrom := perPlugin + perTransport
	if only == "" || strings.Contains(","+only+",", ",file,") {
		bigChunk := 4
		for from := 0; from < perBig; from += bigChunk {
			j := job{plugin: "file", mode: modeBigFile}
			for k := from; k < from+bigChunk && k < perBig; k++ {
				j.cases = append(j.cases, bigFrom+k)
				j.seeds = append(j.seeds, c.SubSeed("bigfile-case|file", bigFrom+k))
			}
			jobs = append(jobs, j)
		}
	}
	// interleave plugins so that slow ones spread over the workers
	sort.SliceStable(jobs, func(a, b int) bool { return jobs[a].cases[0] < jobs[b].cases[0] })

	var mu sync.Mutex
	total := map[string]int64{}
	// core keeps replay files for the first 25 violations only: report every
	// signature once (first witness) and count the repeats
	seenSig := map[string]int{}
	violate := func(sig, what string, witness any) {
		mu.Lock()
		seenSig[sig]++
		n := seenSig[sig]
		mu.Unlock()
		if n == 1 {
			c.Violation(sig, what, witness)
		}
	}
	noConfirm := os.Getenv("C19_NO_CONFIRM") == "1" // debugging aid
	recurs := func(plugin, mode string, no int, sig string) bool {
		stream := "case|"
		if mode == modeTransport {
			stream = "transport-case|"
		}
		if mode == modeBigFile {
			stream = "bigfile-case|"
		}
		r := core.RunChild("run", childIn{Plugin: plugin, Mode: mode, Cases: []int{no}, Seeds: []int64{c.SubSeed(stream+plugin, no)}},
			core.ChildOpt{Timeout: 5 * time.Minute, Env: []string{"C19_TRACE="}})
		_, done := crashWhere(r)
		for _, out := range done {
			if out == nil {
				continue
			}
			for _, v := range out.Violations {
				if v.Signature == sig {
					return true
				}
			}
		}
		return false
	}
	absorb := func(j job, r *core.ChildResult) {
		_, done := crashWhere(r)
		nos := make([]int, 0, len(done))
		for no := range done {
			nos = append(nos, no)
		}
		sort.Ints(nos)
		for _, no := range nos {
			out := done[no]
			if out == nil {
				c.Inconclusive("case result missing in the child log")
				continue
			}
			c.Eval(out.Evals)
			mu.Lock()
			for k, v := range out.Counters {
				total[k] += v
			}
			mu.Unlock()
			for k, v := range out.Counters {
				c.Count(k, v)
			}
			for _, fp := range out.Fingerprints {
				c.Nontrivial(fp)
			}
			if no == 0 {
				for _, s := range out.Samples {
					c.Sample(s)
					break
				}
			}
			for _, in := range out.Inconclusive {
				c.Inconclusive(in)
			}
			for _, v := range out.Violations {
				// a signature not yet confirmed in this run: the case (deterministic
				// inputs) is re-run alone and must show it again. An observation that
				// does not recur decides nothing (e.g. a scheduling dependent
				// effect); it is kept in the evidence as inconclusive.
				mu.Lock()
				known := seenSig[v.Signature] > 0
				mu.Unlock()
				if !known && !noConfirm && !recurs(j.plugin, j.mode, no, v.Signature) {
					c.Count("violations_not_reproduced_on_rerun", 1)
					wj, _ := json.Marshal(v.Witness)
					fmt.Printf("note: not reproduced on re-run (inconclusive): %s case=%d mode=%q: %s\n  witness: %s\n", v.Signature, no, j.mode, core.Trunc(v.What, 500), core.Trunc(string(wj), 6000))
					c.Inconclusive("violation not reproduced when its case was re-run alone: " + v.Signature)
					continue
				}
				violate(v.Signature, v.What, v.Witness)
			}
		}
	}
	crashSig := func(plugin string, ci crashInfo, r *core.ChildResult) (sig, what string) {
		phase := "first-attempt"
		if ci.Retry {
			phase = "retry-after-failed-send"
		}
		if m := runawayRe.FindStringSubmatch(r.Stderr); m != nil {
			sig = fmt.Sprintf("plugin=%s site=process phase=%s fail=unbounded-allocation-while-building-payload at=%s", plugin, phase, m[1])
			what = "the output plugin allocates without bound while building a payload (the process hangs until it is OOM-killed)"
		} else {
			msg, fn := core.PanicFunc(r.Stderr)
			if strings.Contains(msg, "out of memory") {
				sig = fmt.Sprintf("plugin=%s site=process phase=%s fail=unbounded-allocation-while-building-payload at=%s", plugin, phase, fn)
			} else {
				sig = fmt.Sprintf("plugin=%s site=process phase=%s fail=crash msg=%s at=%s", plugin, phase, core.NormalizeMsg(msg), fn)
			}
			what = "the output plugin killed the process while building / sending a payload: " + msg
		}
		// a crash of the http raw encoder path that has the same structural cause as
		// the (non-crashing) truncation is the same defect
		if plugin == "http" && strings.Contains(ci.Cfg, "|raw") && rawFieldTrigger(ci.Events) {
			sig = "plugin=http encoding=raw trigger=event-without-the-raw-field-follows-other-events-of-the-batch"
		}
		return sig, what
	}
	reportCrash := func(plugin string, ci crashInfo, r *core.ChildResult) {
		sig, what := crashSig(plugin, ci, r)
		c.Eval(1)
		c.Count("process_crashes", 1)
		violate(sig, what, map[string]any{"where": ci, "stderr_tail": core.Trunc(tailStr(r.Stderr, 2500), 2600)})
	}
	confirmed := map[string]int{}
	runJob := func(j job) {
		for len(j.cases) > 0 {
			r := core.RunChild("run", childIn{Plugin: j.plugin, Mode: j.mode, Cases: j.cases, Seeds: j.seeds}, core.ChildOpt{Timeout: 10 * time.Minute, Env: []string{"C19_TRACE="}})
			if r.TimedOut {
				c.Inconclusive("watchdog: child " + j.plugin)
				return
			}
			if !r.Crashed() {
				absorb(j, r)
				return
			}
			ci, _ := crashWhere(r)
			idx := -1
			for k, no := range j.cases {
				if no == ci.Case {
					idx = k
				}
			}
			if idx < 0 {
				c.Inconclusive("child died before its first case: " + j.plugin + ": " + core.Trunc(tailStr(r.Stderr, 300), 300))
				return
			}
			absorb(j, r) // the cases that finished before the crash
			// confirm: that single case alone, with the batch contents traced. A
			// signature confirmed twice already is not confirmed again (the http
			// crashes always are: their classification needs the traced events).
			sig0, _ := crashSig(j.plugin, ci, r)
			mu.Lock()
			nConf := confirmed[sig0]
			confirmed[sig0]++
			mu.Unlock()
			if nConf >= 2 && j.plugin != "http" {
				c.Count("process_crashes_repeat_not_reconfirmed", 1)
				reportCrash(j.plugin, ci, r)
			} else {
				r2 := core.RunChild("run", childIn{Plugin: j.plugin, Mode: j.mode, Cases: j.cases[idx : idx+1], Seeds: j.seeds[idx : idx+1]},
					core.ChildOpt{Timeout: 5 * time.Minute, Env: []string{"C19_TRACE=1"}})
				if r2.Crashed() {
					ci2, _ := crashWhere(r2)
					reportCrash(j.plugin, ci2, r2)
				} else if r2.Completed {
					fmt.Printf("note: child of %s died at case %d batch %d but the case alone completes; first death (head, tail of its stderr):\n%s\n[...]\n%s\n", j.plugin, ci.Case, ci.Batch, core.Trunc(r.Stderr, 1500), core.Trunc(tailStr(r.Stderr, 1500), 1600))
					c.Inconclusive("crash not reproduced alone: " + j.plugin)
					absorb(job{plugin: j.plugin, mode: j.mode}, r2)
				} else {
					c.Inconclusive("watchdog: confirmation run " + j.plugin)
				}
			}
			j.cases, j.seeds = j.cases[idx+1:], j.seeds[idx+1:]
		}
	}
	core.ParallelFor(len(jobs), 12, func(i int) { runJob(jobs[i]) })

	occ := map[string]int{}
	for k, v := range seenSig {
		occ[k] = v
	}
	c.Extra("violating_batches_per_signature", occ)

	// floors: a run that never observed an expected behaviour class decides nothing
	need := []string{"ok_parents_omitted", "split_resend_observed", "retry_after_failure_observed", "batches_concurrent",
		"trigger.count", "trigger.bytes", "trigger.timeout", "batches_only_parents_no_payload", "single_event_413", "gelf_connect_refused_then_retry",
		"giveup_after_partial_accept", "giveup_retries_exhausted", "batch_right_after_a_given_up_batch"}
	for _, p := range pluginNames {
		need = append(need, "batches_ok."+p, "ok_multi_event_payload."+p)
	}
	// transport-failure classes: multi-endpoint fleets with and without gzip judged ok
	// (elasticsearch, http), a payload accepted after the sink cut a connection (all
	// four xhttp outputs; gzip where the output has the option), a refusing port
	for _, p := range []string{"elasticsearch", "http"} {
		need = append(need, "transport.fleet_batches_accepted_ok.gzip."+p, "transport.fleet_batches_accepted_ok.plain."+p)
	}
	for _, p := range xhttpPlugins {
		need = append(need, "transport.accepted_ok_after_connection_cut.plain."+p)
		if p != "loki" {
			need = append(need, "transport.accepted_ok_after_connection_cut.gzip."+p)
		}
	}
	need = append(need, "transport.fleet_with_refusing_port_accepted_ok.gzip", "transport.fleet_with_refusing_port_accepted_ok.plain",
		"transport.requests_via.reset", "transport.requests_via.close", "transport.requests_via.hangup", "transport.requests_via.5xx", "transport.requests_via.live#2")
	// big-event cases of the file output: batches whose largest event is 256 KiB..1 MiB and
	// above 1 MiB judged ok, with and without seal-ups while the workers wrote, and
	// payloads of concurrent workers seen out of hand-out order
	need = append(need, "bigfile.batches_ok.maxev256k-1m", "bigfile.batches_ok.maxev1m+", "bigfile.cases_ok_with_sealed_files",
		"bigfile.cases_ok_single_file", "bigfile.cases_with_batches_overtaken_by_another_worker")
	for _, k := range need {
		if total[k] == 0 {
			c.Fatal("expected behaviour class never observed: %s", k)
		}
	}
}

// rawFieldTrigger: does the traced batch ("kind json" strings) contain a
// deliverable event without the raw field ("message") after another one?
func rawFieldTrigger(events []string) bool {
	n := 0
	for _, e := range events {
		kind, text, ok := strings.Cut(e, " ")
		if !ok || kind == "parent" {
			continue
		}
		v, err := parseWhole([]byte(text))
		if err != nil {
			continue
		}
		if n > 0 && v.get("message") == nil {
			return true
		}
		n++
	}
	return false
}

func tailStr(s string, n int) string {
	if len(s) > n {
		return s[len(s)-n:]
	}
	return s
}

// ---- probe: run explicit batches (used for minimal reproductions / replays) ----
//
//	bin/c19 child probe in.json out.json
//	in.json: {"cfg":{pluginCfg...},"batches":[{"events":[{"kind":"regular","json":"{...}"}],"plan":{...}}]}

type probeIn struct {
	Cfg     pluginCfg `json:"cfg"`
	Batches []struct {
		Events []struct {
			Kind string `json:"kind"`
			JSON string `json:"json"`
		} `json:"events"`
		Plan sinkPlan `json:"plan"`
	} `json:"batches"`
}

func childProbe(raw json.RawMessage, io *core.ChildIO) (any, error) {
	var in probeIn
	if err := json.Unmarshal(raw, &in); err != nil {
		return nil, err
	}
	memoryWatchdog()
	cs := &caseSpec{Cfg: in.Cfg}
	if cs.Cfg.FlushMs == 0 {
		cs.Cfg.FlushMs = 3600000
	}
	if cs.Cfg.Workers == 0 {
		cs.Cfg.Workers = 1
	}
	if cs.Cfg.AvgSize == 0 {
		cs.Cfg.AvgSize = 128
	}
	for bi, b := range in.Batches {
		bs := batchSpec{Plan: b.Plan, Trigger: "bytes", Shape: "probe"}
		for ei, e := range b.Events {
			tree, err := parseWhole([]byte(e.JSON))
			if err != nil {
				return nil, fmt.Errorf("batch %d event %d: %v", bi, ei, err)
			}
			kind := e.Kind
			if kind == "" {
				kind = "regular"
			}
			id := ""
			if v := tree.get("id"); v != nil {
				id = v.s
			}
			bs.Events = append(bs.Events, evSpec{Kind: kind, ID: id, Tree: tree, Text: []byte(e.JSON)})
		}
		if len(bs.Events) == cs.Cfg.BatchSize {
			bs.Trigger = "count"
		}
		cs.Batches = append(cs.Batches, bs)
	}
	traceFn = func(v any) { io.Log(v) }
	res := newCaseResult()
	probeCaps = [][]string{}
	runCase(cs, io.Dir, res)
	return map[string]any{"violations": res.Violations, "inconclusive": res.Inconclusive, "counters": res.Counters, "payloads": probeCaps}, nil
}

// probeCaps, when non-nil, receives the payloads of every batch (probe mode).
var probeCaps [][]string
