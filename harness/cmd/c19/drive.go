package main

// Case generation, execution against the real plugin and the oracle
// ("the payloads of a batch carry its deliverable events exactly once, in
// order, each well-formed in the sink's framing").

import (
	"fmt"
	"math/rand"
	"sort"
	"strings"
	"time"

	"github.com/ozontech/file.d/cfg"
	"github.com/ozontech/file.d/pipeline"
)

// traceFn, when set (C19_TRACE=1 in a child), logs every batch before it is sent.
var traceFn func(any)

func cfgExpr(s string) cfg.Expression { return cfg.Expression(s) }
func cfgDur(s string) cfg.Duration    { return cfg.Duration(s) }

// routeClasses are the hostile classes used for routing values (index,
// topic, label, message/stream fields); one class per value so that a
// failure can be classified structurally.
var hostileRoute = []string{"quote", "backslash", "newline", "control", "jsonish", "badutf8"}
var benignRoute = []string{"plain", "plain", "multibyte", "space", "percent", "html", "empty", "missing", "number"}

func (g *gen) routeValue(class string) *jv {
	switch class {
	case "missing":
		return nil
	case "number":
		return jnum(g.number())
	default:
		return jstr(g.strOf(class))
	}
}

// caseSpec is one generated case: a plugin configuration and a sequence of
// batches processed by one plugin instance.
type caseSpec struct {
	Cfg        pluginCfg
	Batches    []batchSpec
	Concurrent bool
	Hostile    bool
}

var nowNano = time.Now().UnixNano()

// mode "" = the ordinary cases; modeTransport = transport-failure cases of the
// xhttp outputs (fleet.go), generated on top of an ordinary case.
const modeTransport = "transport"

func genCase(seed int64, plugin string, caseNo int, mode string) *caseSpec {
	if mode == modeBigFile {
		return genBigFileCase(seed, caseNo) // bigfile.go: own generator, own seed stream
	}
	g := &gen{r: rand.New(rand.NewSource(seed))}
	cs := &caseSpec{}
	c := &cs.Cfg
	c.Plugin = plugin
	c.BatchSize = []int{1, 2, 3, 4, 8, 8, 16, 16, 32, 64}[g.r.Intn(10)]
	c.AvgSize = []int{1, 16, 128, 128, 4096}[g.r.Intn(5)]
	c.Workers = 1
	c.FlushMs = 3600000
	timeoutMode := g.chance(4)
	if timeoutMode {
		c.FlushMs = 20
	}
	if g.chance(12) && !timeoutMode {
		c.Workers = 4
		cs.Concurrent = true
	}
	cs.Hostile = g.chance(40)
	fp := &fieldPlan{reserved: map[string]bool{}}
	route := func() (string, *jv) {
		var cl string
		if cs.Hostile && g.chance(50) {
			cl = hostileRoute[g.r.Intn(len(hostileRoute))]
		} else {
			cl = benignRoute[g.r.Intn(len(benignRoute))]
		}
		return cl, g.routeValue(cl)
	}
	switch plugin {
	case "elasticsearch":
		c.Gzip = g.chance(15)
		c.Split = g.chance(45)
		c.OpType = g.pick("index", "index", "create")
		c.TimeFormat = "2006-01-02"
		switch g.r.Intn(5) {
		case 0:
			c.IndexFormat, c.IndexValues = "idx-%", []string{"svc"}
		case 1:
			c.IndexFormat, c.IndexValues = "%", []string{"svc"}
		case 2:
			c.IndexFormat, c.IndexValues = "%-%-x", []string{"svc", "env"}
		case 3:
			c.IndexFormat, c.IndexValues = "logs-%-%", []string{"env", "@time"}
		default:
			c.IndexFormat, c.IndexValues = "t-%", []string{"@time"}
		}
		fp.reserved["svc"], fp.reserved["env"] = true, true
		fp.fields = func(g *gen, ev *evSpec, o *jv) {
			for _, name := range []string{"svc", "env"} {
				cl, v := route()
				if v != nil {
					g.placeField(o, name, v)
				}
				for _, used := range c.IndexValues {
					if used == name {
						ev.Route += cl + ","
					}
				}
			}
		}
	case "http":
		c.Gzip = g.chance(15)
		c.Split = g.chance(45)
		c.Raw = g.chance(30)
		c.RawField = "message"
		fp.reserved["message"] = true
		fp.fields = func(g *gen, ev *evSpec, o *jv) {
			switch k := g.r.Intn(100); {
			case k < 12:
				ev.Route = "missing"
			case k < 20:
				g.placeField(o, "message", g.value(2))
				ev.Route = "any"
			default:
				cl, v := route()
				if v == nil {
					cl, v = "plain", jstr(g.word())
				}
				g.placeField(o, "message", v)
				ev.Route = cl
			}
		}
	case "file":
	case "splunk":
		c.Gzip = g.chance(15)
		switch g.r.Intn(4) {
		case 0:
		case 1:
			c.Copies = [][2]string{{"ts", "time"}, {"service", "fields.service_name"}}
		case 2:
			c.Copies = [][2]string{{"meta.svc", "fields.svc"}, {"service", "fields.a.b"}, {"ts", "time"}}
		default:
			c.Copies = [][2]string{{"meta", "fields.meta"}, {"service", "source"}}
		}
		fp.reserved["ts"], fp.reserved["service"], fp.reserved["meta"] = true, true, true
		fp.fields = func(g *gen, ev *evSpec, o *jv) {
			if g.chance(70) {
				g.placeField(o, "ts", g.value(0))
			}
			cl, v := route()
			if v != nil {
				g.placeField(o, "service", v)
			}
			ev.Route = cl
			if g.chance(60) {
				m := jobj().set("svc", g.value(1))
				if g.chance(50) {
					m.set(g.word(), g.value(1))
				}
				g.placeField(o, "meta", m)
			} else if g.chance(20) {
				g.placeField(o, "meta", jstr(g.anyStr()))
			}
		}
	case "loki":
		c.MsgField = g.pick("message", "log")
		c.TsField = "ts"
		_, l1 := "", g.strOf(g.pick("plain", "quote", "backslash", "newline", "multibyte", "badutf8", "html"))
		l2 := g.anyStr()
		if l2 == "" {
			l2 = "x"
		}
		c.Labels = [][2]string{{"app", l1}, {g.pick("env", "k\"q", "a b"), l2}}
		fp.reserved[c.MsgField], fp.reserved["ts"] = true, true
		fp.fields = func(g *gen, ev *evSpec, o *jv) {
			cl, v := route()
			if cl == "number" {
				cl, v = "plain", jstr(g.word())
			}
			if v != nil {
				g.placeField(o, c.MsgField, v)
			}
			ev.Route = cl
			nano := fmt.Sprint(nowNano - int64(g.r.Intn(1e9))*1000 - 1e9)
			switch k := g.r.Intn(10); {
			case k < 7:
				g.placeField(o, "ts", jstr(nano))
			case k < 8:
				g.placeField(o, "ts", jnum(nano))
			}
		}
	case "gelf":
		fp.safeKeys = true
		c.FullField = g.pick("", "", "full")
		c.DefaultMsg = g.pick("", "", "n/a")
		for _, k := range []string{"host", "message", "time", "level", "full", "version", "short_message", "full_message", "timestamp"} {
			fp.reserved[k] = true
		}
		fp.fields = func(g *gen, ev *evSpec, o *jv) {
			cl, v := route()
			if cl == "number" {
				v = jnum(fmt.Sprint(g.r.Intn(1000)))
			}
			if v != nil {
				g.placeField(o, "message", v)
			}
			ev.Route = cl
			switch g.r.Intn(5) {
			case 0:
			case 1:
				g.placeField(o, "host", jstr(" "))
			default:
				g.placeField(o, "host", jstr(g.anyStr()))
			}
			switch g.r.Intn(6) {
			case 0:
			case 1:
				g.placeField(o, "time", jnum(fmt.Sprint(1700000000+g.r.Intn(1000))))
			case 2:
				g.placeField(o, "time", jnum(fmt.Sprint(1700000000000+g.r.Intn(1000))))
			case 3:
				g.placeField(o, "time", jstr("2023-11-14T22:13:20.123456789Z"))
			case 4:
				g.placeField(o, "time", jstr(g.anyStr()))
			default:
				g.placeField(o, "time", jnum("17.5"))
			}
			switch g.r.Intn(6) {
			case 0:
			case 1:
				g.placeField(o, "level", jstr(g.pick("error", "info", "DEBUG", "warn", "weird", "")))
			case 2:
				g.placeField(o, "level", jnum(fmt.Sprint(g.r.Intn(8))))
			case 3:
				g.placeField(o, "level", jobj().set("a", jnum("1")))
			default:
				g.placeField(o, "level", jstr("notice"))
			}
			if c.FullField != "" && g.chance(70) {
				g.placeField(o, c.FullField, jstr(g.anyStr()))
			}
		}
	case "kafka":
		c.UseTopic = g.chance(75)
		c.TopicField = g.pick("topic", "pipeline_kafka_topic")
		c.DefaultTopic = "default-topic"
		fp.reserved[c.TopicField] = true
		fp.fields = func(g *gen, ev *evSpec, o *jv) {
			cl, v := route()
			if v != nil {
				g.placeField(o, c.TopicField, v)
			}
			ev.Route = cl
		}
	}

	if c.Raw {
		c.Workers, cs.Concurrent = 1, false // raw lines carry no id: payloads of concurrent workers cannot be attributed
	}
	nb := 3 + g.r.Intn(6)
	sizes := g.batchSizes(nb, c.BatchSize)
	if plugin == "gelf" && g.chance(6) && !cs.Concurrent && !timeoutMode {
		c.RefuseFirst = true
		nb = 2
		sizes = sizes[:2]
	}
	canFail := plugin != "file" && plugin != "gelf"
	for bi := 0; bi < nb; bi++ {
		n := sizes[bi]
		b := batchSpec{}
		kinds := g.kinds(n)
		// size class pattern: alternate very different payload sizes
		total := 0
		for ei := 0; ei < n; ei++ {
			sc := []int{0, 1, 1, 1, 2, 3}[g.r.Intn(6)]
			if g.chance(30) {
				sc = bi % 2 * 2 // whole batches of tiny resp. big events
			}
			id := fmt.Sprintf("c%db%de%d", caseNo, bi, ei)
			if kinds[ei] == "parent" {
				id = "PARENT-" + id
			}
			ev := g.event(id, kinds[ei], fp, sc)
			total += len(ev.Text)
			b.Events = append(b.Events, ev)
		}
		switch {
		case timeoutMode:
			b.Trigger = "timeout"
		case n == c.BatchSize:
			b.Trigger = "count"
		default:
			b.Trigger = "bytes"
		}
		nd := len(b.deliverable())
		planTag := "plain"
		if !cs.Concurrent && canFail && nd > 0 {
			switch k := g.r.Intn(100); {
			case k < 12:
				b.Plan.FailFirst = 1 + g.r.Intn(2)
				b.Plan.FailCode = []int{500, 503, 502}[g.r.Intn(3)]
				planTag = "retry"
			case c.Split && k < 70:
				per := total/nd + 40
				switch g.r.Intn(6) {
				case 0:
					b.Plan.Limit = total*3 + 1000
					planTag = "limit-fits"
				case 1:
					b.Plan.Limit = total/2 + 20
					planTag = "limit-half"
				case 2:
					b.Plan.Limit = total/4 + 20
					planTag = "limit-quarter"
				case 3:
					b.Plan.Limit = per * 3 / 2
					planTag = "limit-1.5ev"
				case 4:
					b.Plan.Limit = per * 3
					planTag = "limit-3ev"
				default:
					b.Plan.Limit = 10
					planTag = "limit-nothing-fits"
				}
			case !c.Split && (plugin == "elasticsearch" || plugin == "http") && k < 18:
				b.Plan.Limit = total/2 + 20
				planTag = "limit-nosplit"
			}
		}
		np := n - nd
		b.Shape = fmt.Sprintf("n%s|par%s|bytes%s|%s|%s", sizeBucket(n), sizeBucket(np), byteBucket(total), b.Trigger, planTag)
		cs.Batches = append(cs.Batches, b)
	}
	if mode == modeTransport {
		addTransport(cs, seed)
		return cs
	}
	addGiveUp(cs, seed, caseNo, timeoutMode)
	return cs
}

// addGiveUp turns one batch (not the last) of some split_batch cases into a
// "partially delivered, then given up" batch: the sink answers 413 above a
// limit that lets a leading part through and a retryable 5xx to every body
// that holds a poison document, for as long as the plugin retries (retry 1..2,
// retention 1ms). The batches that follow on the same worker are ordinary and
// are judged as usual. A separate PRNG keeps all other cases unchanged.
func addGiveUp(cs *caseSpec, seed int64, caseNo int, timeoutMode bool) {
	c := &cs.Cfg
	if !(c.Plugin == "elasticsearch" || c.Plugin == "http") || !c.Split || c.Raw || cs.Concurrent || timeoutMode || len(cs.Batches) < 2 {
		return
	}
	gp := rand.New(rand.NewSource(seed ^ 0x6776557))
	if gp.Intn(100) >= 40 {
		return
	}
	var cand []int
	for bi := 0; bi < len(cs.Batches)-1; bi++ {
		if len(cs.Batches[bi].deliverable()) >= 2 {
			cand = append(cand, bi)
		}
	}
	if len(cand) == 0 {
		return
	}
	bi := cand[gp.Intn(len(cand))]
	b := &cs.Batches[bi]
	nd := len(b.deliverable())
	pd := nd/2 + gp.Intn(nd-nd/2) // poison document: in the second half, never the first
	if pd == 0 {
		pd = 1
	}
	marker := fmt.Sprintf("7777%03d%02d%03d", caseNo%1000, bi, pd)
	total, prefix, di := 0, 0, 0
	for i := range b.Events {
		e := &b.Events[i]
		if e.Kind == "parent" {
			continue
		}
		if di == pd {
			e.Tree.set("poisonmark", jnum(marker))
			e.Text = render(e.Tree, &renderOpt{rng: gp, shortEsc: true})
		}
		if di < pd {
			prefix += len(e.Text) + 50
		}
		total += len(e.Text) + 50
		di++
	}
	limit := 0
	switch gp.Intn(4) {
	case 0:
		limit = total * 3 / 4
	case 1:
		limit = total/2 + 60
	case 2:
		limit = prefix + 20
	default:
		limit = total - 30
	}
	c.Retry = 1 + gp.Intn(2)
	b.Plan = sinkPlan{Limit: limit, FailCode: []int{500, 503, 502, 429}[gp.Intn(4)], Poison: marker}
	if i := strings.LastIndex(b.Shape, "|"); i >= 0 {
		b.Shape = b.Shape[:i] + "|giveup"
	}
}

// violationOut is what a child reports for one refuting observation.
type violationOut struct {
	Signature string         `json:"signature"`
	What      string         `json:"what"`
	Witness   map[string]any `json:"witness"`
}

type caseResult struct {
	Evals        int              `json:"evals"`
	Counters     map[string]int64 `json:"counters"`
	Fingerprints []string         `json:"fingerprints"`
	Violations   []violationOut   `json:"violations"`
	Inconclusive []string         `json:"inconclusive"`
	Samples      []map[string]any `json:"samples"`
	fpSet        map[string]bool
}

func newCaseResult() *caseResult {
	return &caseResult{Counters: map[string]int64{}, fpSet: map[string]bool{}}
}

func (r *caseResult) count(k string, n int64) { r.Counters[k] += n }
func (r *caseResult) fp(s string) {
	if !r.fpSet[s] {
		r.fpSet[s] = true
		r.Fingerprints = append(r.Fingerprints, s)
	}
}

func signature(c *pluginCfg, f *failure) string {
	if f.Trigger != "" {
		return c.sigCfg() + " trigger=" + f.Trigger
	}
	if f.Site == "split" {
		return "plugin=" + c.Plugin + " site=" + f.Site + " fail=" + f.Fail // the split code does not depend on the encoding
	}
	return c.sigCfg() + " site=" + f.Site + " fail=" + f.Fail
}

func makeEvent(ev *evSpec, size int) *pipeline.Event {
	e := pipeline.VerifNewEvent(ev.Kind, size)
	e.Buf = append(e.Buf[:0], ev.Text...)
	if err := e.Root.DecodeBytes(e.Buf); err != nil {
		panic(fmt.Sprintf("harness: generated event is not decodable: %v: %q", err, ev.Text))
	}
	return e
}

// judged is the state of the coverage accounting of one batch.
type batchJudge struct {
	s                *session
	b                *batchSpec
	exp              []evSpec
	next             int
	fails            []*failure
	rejected         int
	single413        int  // index (in exp) of an event rejected alone with 413, or -1
	skippedSingle413 int  // accepted payloads that start right behind that event
	firstOK          bool // the first attempt's body satisfied the oracle
	// roundOver: the last request got a retryable failure; the plugin's retry may
	// start the batch over (events accepted before are sent again: at least
	// once) or resume after the accepted prefix. maxNext is the longest prefix
	// accepted in any round.
	roundOver bool
	maxNext   int
	retryable int
	// resendOnly: the first attempt never reached the sink (connection
	// refused); every payload seen was built for a retry
	resendOnly bool
	attempts   int
	// transport-failure cases: requests / connections the sinks cut without an
	// answer, and the capture the first failure was found in
	transportFails int
	failCap        *capture
}

// alignAndCheck compares the records of one capture with exp[start:] and
// returns how many expected events were consumed.
func (j *batchJudge) alignAndCheck(recs []rec, start int) (consumed int, f *failure) {
	s := j.s
	jx := start
	for i := range recs {
		r := &recs[i]
		for {
			if jx >= len(j.exp) {
				return jx - start, j.classifyExtra(r, i)
			}
			site, fail, detail := s.match(r, &j.exp[jx])
			if fail == "" {
				jx++
				break
			}
			if s.optional(&j.exp[jx]) {
				jx++
				continue
			}
			// is it some other event of the batch (order / duplicate / parent)?
			if f := j.classifyMisplaced(r, jx); f != nil {
				return jx - start, f
			}
			return jx - start, &failure{Site: site, Fail: fail, Idx: jx, Detail: detail, Trigger: s.trigger(site, &j.exp[jx], j.b)}
		}
	}
	return jx - start, nil
}

func (j *batchJudge) classifyMisplaced(r *rec, at int) *failure {
	if j.s.cfg.Raw {
		return nil // raw lines carry no identity: a line may equal the field of several events
	}
	for k := range j.exp {
		if k == at {
			continue
		}
		if _, fail, _ := j.s.match(r, &j.exp[k]); fail == "" && !j.s.optional(&j.exp[k]) {
			what := "event-out-of-order-or-duplicated"
			if k > at {
				what = "event-skipped"
			}
			f := &failure{Site: "coverage", Fail: what, Idx: at, Detail: fmt.Sprintf("record matches event #%d (%s) where #%d was expected", k, j.exp[k].ID, at)}
			if at >= 0 {
				f.Trigger = j.s.trigger("coverage", &j.exp[at], j.b)
			} else {
				f.Trigger = j.s.trigger("coverage", &j.exp[k], j.b)
			}
			return f
		}
	}
	for k := range j.b.Events {
		if j.b.Events[k].Kind == "parent" {
			if _, fail, _ := j.s.match(r, &j.b.Events[k]); fail == "" {
				return &failure{Site: "coverage", Fail: "parent-event-of-a-split-in-payload", Idx: at, Detail: j.b.Events[k].ID}
			}
		}
	}
	return nil
}

func (j *batchJudge) classifyExtra(r *rec, i int) *failure {
	if f := j.classifyMisplaced(r, -1); f != nil {
		if f.Fail != "parent-event-of-a-split-in-payload" {
			f.Fail = "event-duplicated"
		}
		return f
	}
	if r.empty && j.s.cfg.Raw {
		return nil
	}
	tr := ""
	if len(j.exp) > 0 {
		tr = j.s.trigger("coverage", &j.exp[len(j.exp)-1], j.b)
	}
	return &failure{Site: "coverage", Fail: "record-beyond-the-events-of-the-batch", Idx: -1, Detail: fmt.Sprintf("record #%d: %s", i, core_trunc(string(r.raw), 200)), Trigger: tr}
}

// onCapture judges one request/payload of the batch, in arrival order.
func (j *batchJudge) onCapture(c *capture) {
	j.attempts++
	if c.Transport {
		j.transportFails++
	}
	if len(j.fails) > 0 {
		return // the first failure of a batch is the finding; what follows is its consequence
	}
	if c.NoRequest {
		// the connection was cut before anything was read: the client got a
		// transport error, the plugin's retry may start the batch over
		j.roundOver = true
		j.retryable++
		return
	}
	recs, f := j.s.parse(c)
	if f != nil {
		if f.Trigger == "" && len(j.exp) > 0 {
			f.Trigger = j.s.trigger(f.Site, &j.exp[min(j.next, len(j.exp)-1)], j.b)
		}
		j.fail(f, c)
		return
	}
	if c.Accepted {
		n, f := j.alignAndCheck(recs, j.next)
		if f != nil && j.roundOver && j.next > 0 {
			// a new round after a retryable failure may start the batch over
			if n0, f0 := j.alignAndCheck(recs, 0); f0 == nil {
				j.next, n, f = 0, n0, nil
			}
		}
		if f != nil && j.single413 >= 0 {
			// the next expected event was rejected alone with 413: it cannot be
			// delivered (finish() excuses it too). When the flush timer cut the
			// harness's batch into two plugin batches (a starved feeder), the events
			// behind it still arrive: accept a payload that starts right behind it,
			// in this round or in a round started over
			for _, from := range []int{j.next, 0} {
				if from == j.single413 || (from < j.single413 && j.roundOver) {
					if n1, f1 := j.alignAndCheck(recs, j.single413+1); f1 == nil {
						j.next, n, f = j.single413+1, n1, nil
						j.skippedSingle413++
						break
					}
				}
			}
		}
		j.roundOver = false
		j.next += n
		if j.next > j.maxNext {
			j.maxNext = j.next
		}
		if f != nil {
			j.fail(f, c)
		} else if j.attempts == 1 {
			j.firstOK = true
		}
		return
	}
	// a rejected request: well-formed, and a contiguous run of the batch that
	// starts at or after the first event not yet accepted
	j.rejected++
	lo := j.next
	if j.roundOver {
		lo = 0 // the retry may start the batch over
	}
	retryable := c.Status != 413
	defer func() {
		if retryable {
			j.roundOver = true
			j.retryable++
		}
	}()
	var best *failure
	for start := lo; start <= len(j.exp); start++ {
		if start > lo && !(j.s.cfg.Split && j.b.Plan.Limit > 0) {
			break // without a split a rejected body is the whole (rest of the) batch
		}
		n, f := j.alignAndCheck(recs, start)
		if f == nil {
			if j.roundOver && !retryable && start < j.next {
				j.next = start // a 413 for a body that starts before the accepted prefix: the batch was started over
			}
			if c.Status == 413 && len(recs) == 1 && n >= 1 {
				j.single413 = start + n - 1
			}
			if j.attempts == 1 {
				j.firstOK = true
			}
			return
		}
		if best == nil {
			best = f
		}
		if len(recs) == 0 {
			break
		}
	}
	if best != nil {
		j.fail(best, c)
	}
}

func (j *batchJudge) fail(f *failure, c *capture) {
	if c != nil {
		f.Detail += fmt.Sprintf(" | request #%d status=%d accepted=%v bytes=%d", j.attempts, c.Status, c.Accepted, len(c.Body))
		if c.Via != "" {
			f.Detail += " endpoint=" + c.Via
		}
		if c.Transport {
			f.Detail += " (connection cut by the sink after the request was read)"
		}
		if c.GzipMembers > 0 {
			f.Detail += fmt.Sprintf(" gzip-members=%d", c.GzipMembers)
		}
		if j.failCap == nil {
			j.failCap = c
		}
		if (j.attempts > 1 && j.firstOK && j.b.Plan.FailFirst > 0) || j.resendOnly {
			// the same batch was encoded correctly on the first attempt
			f = &failure{Site: "resend", Fail: "payload-built-for-a-retry-violates-the-oracle", Idx: f.Idx,
				Detail: fmt.Sprintf("[%s %s] %s", f.Site, f.Fail, f.Detail)}
		}
	}
	if c != nil && c.GzipMembers > 1 {
		// structural trigger: the request body is a concatenation of several gzip
		// members, which every receiver decodes as the concatenation of their
		// contents (the plugins hand one buffer per request to the client: one
		// member). Whatever the symptom (duplicate, order, framing), it is one defect.
		f.Trigger = "request-body-is-several-gzip-members"
	}
	j.fails = append(j.fails, f)
}

// finish checks coverage at the end of the batch.
func (j *batchJudge) finish(dropExcused bool) {
	if len(j.fails) > 0 {
		return // content failures already explain missing coverage
	}
	missing := 0
	firstMissing := -1
	if j.maxNext > j.next {
		j.next = j.maxNext
	}
	for k := j.next; k < len(j.exp); k++ {
		if !j.s.optional(&j.exp[k]) {
			missing++
			if firstMissing < 0 {
				firstMissing = k
			}
		}
	}
	if missing == 0 || dropExcused {
		return
	}
	if j.single413 >= 0 {
		// an event that cannot be delivered alone: it is excused, its successors are not
		if j.next == j.single413 && missing == 1 {
			return
		}
		if j.next <= j.single413 {
			j.fails = append(j.fails, &failure{Site: "split", Fail: "events-after-an-event-rejected-alone-with-413-are-never-sent", Idx: firstMissing,
				Detail: fmt.Sprintf("event #%d was rejected alone (413); events #%d..#%d of the batch were never sent although the batch was committed", j.single413, j.single413+1, len(j.exp)-1)})
			return
		}
	}
	if j.resendOnly {
		// every payload of this batch was built for a retry (the first attempt never
		// reached the sink): a coverage gap is the same observation as a malformed
		// retried payload
		j.fails = append(j.fails, &failure{Site: "resend", Fail: "payload-built-for-a-retry-violates-the-oracle", Idx: firstMissing,
			Detail: fmt.Sprintf("%d of %d deliverable events never appeared in an accepted payload of the retried batch (first: #%d %s)", missing, len(j.exp), firstMissing, j.exp[firstMissing].ID)})
		return
	}
	j.fails = append(j.fails, &failure{Site: "coverage", Fail: "events-missing-from-accepted-payloads", Idx: firstMissing,
		Detail:  fmt.Sprintf("%d of %d deliverable events never appeared in an accepted payload (first: #%d %s)", missing, len(j.exp), firstMissing, j.exp[firstMissing].ID),
		Trigger: j.s.trigger("coverage", &j.exp[firstMissing], j.b)})
}

func evWitness(b *batchSpec) []map[string]any {
	var out []map[string]any
	for i, e := range b.Events {
		if i >= 12 {
			out = append(out, map[string]any{"more": len(b.Events) - i})
			break
		}
		out = append(out, map[string]any{"kind": e.Kind, "json": core_trunc(string(e.Text), 400)})
	}
	return out
}

// runCase executes one case against the real plugin and judges it.
func runCase(cs *caseSpec, scratch string, res *caseResult) {
	c := &cs.Cfg
	s, err := startSession(c, scratch)
	if err != nil {
		res.Inconclusive = append(res.Inconclusive, "cannot start sink: "+err.Error())
		return
	}
	defer s.stop()
	res.count("cases."+c.Plugin, 1)
	prevShape := "first"
	report := func(bi int, b *batchSpec, j *batchJudge, caps []capture) {
		seen := map[string]bool{}
		for _, f := range j.fails {
			sig := signature(c, f)
			if seen[sig] {
				continue
			}
			seen[sig] = true
			w := map[string]any{
				"config": c, "batch_index": bi, "batch_shape": b.Shape, "plan": b.Plan, "events": evWitness(b),
				"failing_event_index": f.Idx, "detail": f.Detail,
			}
			var earlier []string
			for k := 0; k < bi && k < len(cs.Batches); k++ {
				earlier = append(earlier, cs.Batches[k].Shape)
			}
			w["earlier_batches_on_this_worker"] = earlier
			if f.Idx >= 0 && f.Idx < len(j.exp) {
				w["failing_event"] = core_trunc(string(j.exp[f.Idx].Text), 600)
			}
			var bodies []string
			for k, cp := range caps {
				if k >= 6 {
					break
				}
				body := string(cp.Body)
				if cp.Records != nil {
					var sb strings.Builder
					for _, r := range cp.Records {
						fmt.Fprintf(&sb, "[%s] %s\n", r.Topic, r.Value)
					}
					body = sb.String()
				}
				if cp.NoRequest {
					body = cp.Path
				}
				bodies = append(bodies, fmt.Sprintf("status=%d %s", cp.Status, core_trunc(body, 700)))
			}
			w["payloads"] = bodies
			if j.failCap != nil {
				w["failing_payload"] = fmt.Sprintf("status=%d accepted=%v endpoint=%q gzip_members=%d %s", j.failCap.Status, j.failCap.Accepted, j.failCap.Via, j.failCap.GzipMembers, core_trunc(string(j.failCap.Body), 1500))
			}
			res.Violations = append(res.Violations, violationOut{Signature: sig,
				What:    fmt.Sprintf("%s: %s/%s%s — %s", c.Plugin, f.Site, f.Fail, map[bool]string{true: " (trigger " + f.Trigger + ")", false: ""}[f.Trigger != ""], core_trunc(f.Detail, 300)),
				Witness: w})
		}
	}

	if c.BigFile {
		runBigFile(cs, s, res)
		return
	}
	if cs.Concurrent {
		runConcurrent(cs, s, res, report)
		return
	}

	afterGiveUp, sinceGiveUp := false, 0
	for bi := range cs.Batches {
		b := &cs.Batches[bi]
		exp := b.deliverable()
		s.setPlan(b.Plan)
		evs := make([]*pipeline.Event, len(b.Events))
		for i := range b.Events {
			size := len(b.Events[i].Text)
			if b.Trigger == "bytes" && i == len(b.Events)-1 {
				size = hugeBytes
			}
			evs[i] = makeEvent(&b.Events[i], size)
		}
		if batchLog != nil || traceFn != nil {
			m := map[string]any{"batch_no": bi, "shape": b.Shape, "retry": b.Plan.FailFirst > 0 || (c.RefuseFirst && bi == 0), "plan": b.Plan}
			if traceFn != nil {
				var texts []string
				for i := range b.Events {
					texts = append(texts, b.Events[i].Kind+" "+string(b.Events[i].Text))
				}
				m["events"] = texts
			}
			if traceFn != nil {
				traceFn(m)
			} else {
				batchLog(m)
			}
		}
		for _, e := range evs {
			s.out.Out(e)
		}
		if c.RefuseFirst && bi == 0 {
			// nobody listens: the first connect is refused; start listening now so that the retry succeeds
			time.Sleep(150 * time.Millisecond)
			sink, err := newTCPSink(s.gelfAddr)
			for try := 0; err != nil && try < 60; try++ {
				// the reserved ephemeral port may be taken for a moment by somebody's outgoing
				// connection; the plugin keeps retrying (1 s apart), so there is time
				time.Sleep(50 * time.Millisecond)
				sink, err = newTCPSink(s.gelfAddr)
			}
			if err != nil {
				res.Inconclusive = append(res.Inconclusive, "cannot re-listen on reserved port: "+err.Error())
				return
			}
			s.tcp = sink
		}
		// a bisection of n events needs at most 2n-1 requests; add the scripted
		// failures, the plugin's 10 retries and a margin
		maxReq := 4*len(evs) + 2*b.Plan.FailFirst + 40
		if b.Plan.Poison != "" {
			maxReq = (c.retry()+3)*(2*len(evs)+2) + 40 // every attempt may bisect the whole batch again
		}
		if c.Mult > 0 {
			// transport-failure case: every attempt may bisect the whole batch again and the
			// client re-sends a request up to 5 times by itself when the server hangs up
			maxReq = (c.retry()+3)*(2*len(evs)+2)*5 + 5*b.Plan.DropFirst + 40
		}
		committed, storm := s.waitBatch(len(evs), maxReq, 60*time.Second)
		if storm {
			s.abandoned = true
			res.Evals++
			res.count("batches."+c.Plugin, 1)
			res.count("batches_failed."+c.Plugin, 1)
			f := &failure{Site: "split", Fail: "more-requests-for-one-batch-than-any-bisection-needs", Idx: -1,
				Detail: fmt.Sprintf("%d requests seen for a batch of %d events (bound %d) and the batch is still not committed: the resend does not terminate", s.requestCount(), len(evs), maxReq)}
			if len(exp) > 0 {
				f.Trigger = s.trigger("split", &exp[0], b)
			}
			caps := s.rec.take()
			if len(caps) > 8 {
				caps = caps[:8]
			}
			report(bi, b, &batchJudge{s: s, b: b, exp: exp, fails: []*failure{f}}, caps)
			return
		}
		if !committed {
			s.abandoned = true
			res.Inconclusive = append(res.Inconclusive, fmt.Sprintf("watchdog: batch not committed (%s, %s)", c.Plugin, b.Shape))
			return
		}
		commits := s.ctl.take()
		caps := s.collect(len(exp))
		if probeCaps != nil {
			var l []string
			for _, cp := range caps {
				body := string(cp.Body)
				for _, r := range cp.Records {
					body += fmt.Sprintf("[%s] %s\n", r.Topic, r.Value)
				}
				l = append(l, fmt.Sprintf("status=%d accepted=%v: %s", cp.Status, cp.Accepted, body))
			}
			probeCaps = append(probeCaps, l)
		}
		res.Evals++
		res.count("batches."+c.Plugin, 1)
		res.count("events_deliverable", int64(len(exp)))
		res.count("events_parent", int64(len(evs)-len(exp)))

		j := &batchJudge{s: s, b: b, exp: exp, single413: -1, resendOnly: c.RefuseFirst && bi == 0}
		// commits: every event of the batch exactly once, in batch order
		if len(commits) != len(evs) {
			j.fails = append(j.fails, &failure{Site: "commit", Fail: "commit-count-differs-from-batch", Idx: -1, Detail: fmt.Sprintf("%d commits for %d events", len(commits), len(evs))})
		} else {
			for i := range evs {
				if commits[i] != evs[i] {
					j.fails = append(j.fails, &failure{Site: "commit", Fail: "commit-order-differs-from-batch-order", Idx: -1})
					break
				}
			}
		}
		accepted, rejected413, rejected5xx := 0, 0, 0
		for k := range caps {
			j.onCapture(&caps[k])
			switch {
			case caps[k].Accepted:
				accepted++
			case caps[k].Status == 413:
				rejected413++
			default:
				rejected5xx++
			}
		}
		// a batch dropped by a documented non-retryable answer (413 without split) is excused
		dropExcused := b.Plan.Limit > 0 && !c.Split && rejected413 > 0
		if b.Plan.Limit > 0 && c.Split && accepted == 0 && rejected413 > 0 && j.single413 >= 0 && j.next == 0 && j.single413 == 0 && len(exp) == 1 {
			dropExcused = true
		}
		// a batch the plugin gave up after its retries (documented: "skip message") is excused too;
		// what it did send must still be well-formed, in order, and the batches after it complete
		gaveUp := b.Plan.Poison != "" && j.retryable > 0
		if gaveUp {
			dropExcused = true
		}
		// an endpoint fleet: the endpoint is drawn at random per request, so all
		// retry+2 attempts of a batch can meet a broken endpoint (likely only when a
		// split needs many requests per attempt). Every such failure is visible at
		// the sinks (fleets of split cases have no "closed" endpoint); a batch
		// with that many observed failures was given up as documented.
		fleetGaveUp := len(c.Fleet) > 0 && j.retryable >= c.retry()+2
		if fleetGaveUp {
			dropExcused = true
			res.count("transport.fleet_batches_given_up_after_all_retries", 1)
		}
		if afterGiveUp {
			res.count("batches_after_a_given_up_batch", 1)
			if sinceGiveUp == 0 {
				res.count("batch_right_after_a_given_up_batch", 1)
			}
			sinceGiveUp++
		}
		if gaveUp {
			res.count("giveup_batches", 1)
			if j.maxNext > 0 {
				res.count("giveup_after_partial_accept", 1)
				afterGiveUp, sinceGiveUp = true, 0
			}
			if j.retryable >= c.retry()+2 {
				res.count("giveup_retries_exhausted", 1)
			}
		}
		j.finish(dropExcused)
		report(bi, b, j, caps)

		// evidence
		payloadBytes := 0
		for _, cp := range caps {
			payloadBytes += len(cp.Body)
			for _, r := range cp.Records {
				payloadBytes += len(r.Value)
			}
		}
		routes := map[string]bool{}
		for _, e := range exp {
			for _, r := range strings.Split(e.Route, ",") {
				if r != "" {
					routes[r] = true
				}
			}
		}
		var rl []string
		for r := range routes {
			rl = append(rl, r)
		}
		sort.Strings(rl)
		res.fp(c.tag() + "||" + b.Shape + "||prev:" + prevShape + "||route:" + strings.Join(rl, "+"))
		prevShape = fmt.Sprintf("n%s,bytes%s", sizeBucket(len(b.Events)), byteBucket(payloadBytes))
		if len(j.fails) == 0 {
			res.count("batches_ok."+c.Plugin, 1)
			if len(exp) >= 2 {
				res.count("ok_multi_event_payload."+c.Plugin, 1)
			}
			if len(evs) > len(exp) && len(exp) > 0 {
				res.count("ok_parents_omitted", 1)
			}
		} else {
			res.count("batches_failed."+c.Plugin, 1)
		}
		if len(exp) == 0 {
			res.count("batches_only_parents", 1)
			if len(caps) == 0 {
				res.count("batches_only_parents_no_payload", 1)
			}
		}
		if rejected413 > 0 && accepted > 0 {
			res.count("split_resend_observed", 1)
		}
		if rejected413 > 0 {
			res.count("requests_413", int64(rejected413))
		}
		if rejected5xx > 0 && accepted > 0 {
			res.count("retry_after_failure_observed", 1)
		}
		if j.single413 >= 0 {
			res.count("single_event_413", 1)
		}
		if j.skippedSingle413 > 0 {
			res.count("payload_accepted_behind_an_event_rejected_alone_with_413", int64(j.skippedSingle413))
		}
		if c.Mult > 0 {
			transportEvidence(res, c, b, j, caps, accepted)
		}
		res.count("requests_accepted", int64(accepted))
		res.count("trigger."+b.Trigger, 1)
		for r := range routes {
			res.count("route."+r, 1)
		}
		if c.RefuseFirst && bi == 0 {
			res.count("gelf_connect_refused_then_retry", 1)
		}
		if len(j.fails) > 0 && c.Plugin == "gelf" {
			return // the TCP stream cannot be re-synchronised cheaply after a failure
		}
		if len(res.Samples) < 2 && len(exp) > 0 && len(caps) > 0 {
			body := string(caps[0].Body)
			if caps[0].Records != nil {
				body = fmt.Sprintf("[%s] %s", caps[0].Records[0].Topic, caps[0].Records[0].Value)
			}
			res.Samples = append(res.Samples, map[string]any{"plugin": c.Plugin, "cfg": c.tag(), "batch": b.Shape,
				"first_event": core_trunc(string(exp[0].Text), 300), "payload_head": core_trunc(body, 400), "verdict_failures": len(j.fails)})
		}
	}
}

// transportEvidence counts what a transport-failure case exercised.
func transportEvidence(res *caseResult, c *pluginCfg, b *batchSpec, j *batchJudge, caps []capture, accepted int) {
	gz := "plain"
	if c.Gzip {
		gz = "gzip"
	}
	ok := len(j.fails) == 0 && accepted > 0
	res.count("transport.batches."+c.Plugin, 1)
	if len(c.Fleet) > 0 {
		res.count("transport.fleet_batches."+gz+"."+c.Plugin, 1)
		if ok {
			res.count("transport.fleet_batches_accepted_ok."+gz+"."+c.Plugin, 1)
		}
		if ok && hasKind(c.Fleet, epClosed) {
			res.count("transport.fleet_with_refusing_port_accepted_ok."+gz, 1)
		}
	} else if b.Plan.DropFirst > 0 {
		res.count("transport.drop_batches."+gz+"."+c.Plugin, 1)
	}
	if j.transportFails > 0 {
		res.count("transport.connection_cuts_observed", int64(j.transportFails))
		if ok {
			res.count("transport.accepted_ok_after_connection_cut."+gz+"."+c.Plugin, 1)
		}
	}
	for k := range caps {
		if caps[k].Via != "" {
			res.count("transport.requests_via."+caps[k].Via, 1)
		}
		if caps[k].Accepted && caps[k].GzipMembers > 0 {
			res.count("transport.accepted_gzip_bodies", 1)
			if caps[k].GzipMembers > 1 {
				res.count("transport.accepted_gzip_bodies_with_several_members", 1)
			}
		}
	}
}

// runConcurrent submits all batches back to back to a multi-worker plugin
// instance; every payload must be exactly one whole batch.
func runConcurrent(cs *caseSpec, s *session, res *caseResult, report func(int, *batchSpec, *batchJudge, []capture)) {
	c := &cs.Cfg
	total := 0
	var all [][]*pipeline.Event
	for bi := range cs.Batches {
		b := &cs.Batches[bi]
		evs := make([]*pipeline.Event, len(b.Events))
		for i := range b.Events {
			size := len(b.Events[i].Text)
			if b.Trigger == "bytes" && i == len(b.Events)-1 {
				size = hugeBytes
			}
			evs[i] = makeEvent(&b.Events[i], size)
		}
		all = append(all, evs)
		total += len(evs)
	}
	for _, evs := range all {
		for _, e := range evs {
			s.out.Out(e)
		}
	}
	if !s.ctl.waitCommits(total, 60*time.Second) {
		s.abandoned = true
		res.Inconclusive = append(res.Inconclusive, "watchdog: concurrent case not committed ("+c.Plugin+")")
		return
	}
	nd := 0
	for bi := range cs.Batches {
		nd += len(cs.Batches[bi].deliverable())
	}
	caps := s.collect(nd)
	if c.Plugin == "file" || c.Plugin == "gelf" {
		// one byte stream: cut it into per-batch pieces is not possible without
		// trusting the content; judge the stream as a permutation of whole batches
		caps = cutStream(s, caps, cs)
	}
	judges := make([]*batchJudge, len(cs.Batches))
	for bi := range cs.Batches {
		judges[bi] = &batchJudge{s: s, b: &cs.Batches[bi], exp: cs.Batches[bi].deliverable(), single413: -1}
	}
	for k := range caps {
		recs, f := s.parse(&caps[k])
		if f != nil {
			j := judges[0]
			j.attempts++
			j.fail(f, &caps[k])
			continue
		}
		if len(recs) == 0 {
			continue
		}
		// owner: by the id member of the first record, else the batch whose
		// next uncovered event matches it
		owner := -1
		if id := recID(c.Plugin, &recs[0]); id != "" {
			for bi, j := range judges {
				for k := range j.exp {
					if j.exp[k].ID == id {
						owner = bi
					}
				}
			}
			if owner < 0 {
				for bi := range cs.Batches {
					for _, e := range cs.Batches[bi].Events {
						if e.ID == id {
							owner = bi // a parent event: let that batch's judge classify it
						}
					}
				}
			}
		}
		if owner < 0 {
			for bi, j := range judges {
				if j.next < len(j.exp) {
					if _, fail, _ := s.match(&recs[0], &j.exp[j.next]); fail == "" {
						owner = bi
						break
					}
				}
			}
		}
		if owner < 0 {
			// cannot say whose payload this is (its first record carries no usable id
			// and matches nothing): judge it against the first unfinished batch, but
			// explain it by any structural trigger present in the case
			for bi, j := range judges {
				if j.next < len(j.exp) && len(j.fails) == 0 {
					owner = bi
					break
				}
			}
			if owner < 0 {
				owner = 0
			}
			j := judges[owner]
			before := len(j.fails)
			j.onCapture(&caps[k])
			if len(j.fails) > before && j.fails[before].Trigger == "" {
				f := j.fails[before]
			search:
				for bi := range cs.Batches {
					d := cs.Batches[bi].deliverable()
					for ei := range d {
						for _, site := range []string{f.Site, "action-line"} {
							if t := s.trigger(site, &d[ei], &cs.Batches[bi]); t != "" {
								f.Trigger = t
								break search
							}
						}
					}
				}
				if f.Trigger == "" {
					f.Site, f.Fail = "coverage", "payload-not-attributable-to-any-batch/"+f.Fail
				}
			}
			continue
		}
		judges[owner].onCapture(&caps[k])
	}
	anyFail := false
	for _, j := range judges {
		if len(j.fails) > 0 {
			anyFail = true
		}
	}
	for bi, j := range judges {
		if !anyFail {
			j.finish(false) // missing events are judged only when nothing else went wrong in the case
		}
		res.Evals++
		res.count("batches."+c.Plugin, 1)
		res.count("batches_concurrent", 1)
		res.count("events_deliverable", int64(len(j.exp)))
		report(bi, j.b, j, caps)
		res.fp(c.tag() + "||" + j.b.Shape + "||concurrent")
		if len(j.fails) == 0 {
			res.count("batches_ok."+c.Plugin, 1)
			if len(j.exp) >= 2 {
				res.count("ok_multi_event_payload."+c.Plugin, 1)
			}
		} else {
			res.count("batches_failed."+c.Plugin, 1)
		}
	}
}

// recID extracts the id member our events carry from a framed record.
func recID(plugin string, r *rec) string {
	var v *jv
	switch plugin {
	case "splunk":
		v = r.doc.get("event").get("id")
	case "loki":
		if r.doc != nil && r.doc.k == 'a' && len(r.doc.vals) == 3 {
			v = r.doc.vals[2].get("id")
		}
	case "gelf":
		v = r.doc.get("_id")
	default:
		v = r.doc.get("id")
	}
	if v != nil && v.k == 's' {
		return v.s
	}
	return ""
}

// cutStream cuts the byte stream of a file / TCP sink written by several
// workers into one capture per record so that ownership can be decided per
// record run (each worker's write is atomic: records of one batch are
// contiguous).
func cutStream(s *session, caps []capture, cs *caseSpec) []capture {
	var out []capture
	sep := byte('\n')
	if s.cfg.Plugin == "gelf" {
		sep = 0
	}
	sizes := map[string]int{}
	for bi := range cs.Batches {
		d := cs.Batches[bi].deliverable()
		if len(d) > 0 {
			sizes[d[0].ID] = len(d)
		}
	}
	for _, c := range caps {
		b := c.Body
		for len(b) > 0 {
			// the first record tells which batch starts here (by its id member)
			end := indexByte(b, sep)
			if end < 0 {
				out = append(out, capture{Body: b, Accepted: true})
				break
			}
			n := 1
			if v, err := parseWhole(b[:end]); err == nil {
				idv := v.get("id")
				if idv == nil {
					idv = v.get("_id")
				}
				if idv != nil && sizes[idv.s] > 0 {
					n = sizes[idv.s]
				}
			}
			cut := 0
			for k := 0; k < n; k++ {
				e := indexByte(b[cut:], sep)
				if e < 0 {
					cut = len(b)
					break
				}
				cut += e + 1
			}
			out = append(out, capture{Body: b[:cut], Accepted: true})
			b = b[cut:]
		}
	}
	return out
}

func indexByte(b []byte, c byte) int {
	for i, x := range b {
		if x == c {
			return i
		}
	}
	return -1
}
