package main

// Independent JSON reference: a small strict RFC 8259 parser producing a value
// tree whose strings are raw decoded bytes (so invalid UTF-8 carried by an
// event survives the comparison), semantic equality, and a renderer that
// writes a tree back as JSON text with randomly chosen (always legal)
// escapes. Nothing here uses the code under test or encoding/json.

import (
	"errors"
	"fmt"
	"math/rand"
	"strconv"
	"strings"
	"unicode/utf8"
)

type jv struct {
	k    byte // 'o' object, 'a' array, 's' string, 'n' number, 't', 'f', 'z' (null)
	s    string
	keys []string
	vals []*jv
}

func jstr(s string) *jv   { return &jv{k: 's', s: s} }
func jnum(lit string) *jv { return &jv{k: 'n', s: lit} }
func jobj() *jv           { return &jv{k: 'o'} }
func jarr(e ...*jv) *jv   { return &jv{k: 'a', vals: e} }
func jlit(k byte) *jv     { return &jv{k: k} }

func (v *jv) set(key string, val *jv) *jv {
	for i, k := range v.keys {
		if k == key {
			v.vals[i] = val
			return v
		}
	}
	v.keys = append(v.keys, key)
	v.vals = append(v.vals, val)
	return v
}

func (v *jv) get(key string) *jv {
	if v == nil || v.k != 'o' {
		return nil
	}
	for i, k := range v.keys {
		if k == key {
			return v.vals[i]
		}
	}
	return nil
}

// dig follows a path of object keys.
func (v *jv) dig(path ...string) *jv {
	cur := v
	for _, p := range path {
		cur = cur.get(p)
		if cur == nil {
			return nil
		}
	}
	return cur
}

// without returns a shallow copy of an object lacking the given keys.
func (v *jv) without(keys ...string) *jv {
	out := jobj()
outer:
	for i, k := range v.keys {
		for _, d := range keys {
			if d == k {
				continue outer
			}
		}
		out.keys = append(out.keys, k)
		out.vals = append(out.vals, v.vals[i])
	}
	return out
}

// ---- strict parser ----

type jparser struct {
	b     []byte
	i     int
	depth int
}

var errTrailing = errors.New("trailing bytes after the JSON value")

// parseWhole accepts exactly one JSON value surrounded by optional JSON
// whitespace.
func parseWhole(b []byte) (*jv, error) {
	p := &jparser{b: b}
	p.ws()
	v, err := p.value()
	if err != nil {
		return nil, err
	}
	p.ws()
	if p.i != len(b) {
		return nil, errTrailing
	}
	return v, nil
}

// parsePrefix parses one value at the start of b and returns the number of
// bytes consumed (used for concatenated-JSON framing).
func parsePrefix(b []byte) (*jv, int, error) {
	p := &jparser{b: b}
	p.ws()
	v, err := p.value()
	if err != nil {
		return nil, p.i, err
	}
	return v, p.i, nil
}

func (p *jparser) ws() {
	for p.i < len(p.b) {
		switch p.b[p.i] {
		case ' ', '\t', '\n', '\r':
			p.i++
		default:
			return
		}
	}
}

func (p *jparser) value() (*jv, error) {
	if p.i >= len(p.b) {
		return nil, errors.New("unexpected end of input")
	}
	switch c := p.b[p.i]; {
	case c == '{':
		return p.object()
	case c == '[':
		return p.array()
	case c == '"':
		s, err := p.str()
		if err != nil {
			return nil, err
		}
		return jstr(s), nil
	case c == 't':
		return p.lit("true", 't')
	case c == 'f':
		return p.lit("false", 'f')
	case c == 'n':
		return p.lit("null", 'z')
	case c == '-' || (c >= '0' && c <= '9'):
		return p.number()
	default:
		return nil, fmt.Errorf("unexpected byte 0x%02x at start of a value", c)
	}
}

func (p *jparser) lit(word string, k byte) (*jv, error) {
	if p.i+len(word) <= len(p.b) && string(p.b[p.i:p.i+len(word)]) == word {
		p.i += len(word)
		return jlit(k), nil
	}
	return nil, errors.New("bad literal")
}

func (p *jparser) number() (*jv, error) {
	st := p.i
	if p.b[p.i] == '-' {
		p.i++
	}
	digits := func() int {
		n := 0
		for p.i < len(p.b) && p.b[p.i] >= '0' && p.b[p.i] <= '9' {
			p.i++
			n++
		}
		return n
	}
	if p.i < len(p.b) && p.b[p.i] == '0' {
		p.i++
	} else if digits() == 0 {
		return nil, errors.New("bad number")
	}
	if p.i < len(p.b) && p.b[p.i] == '.' {
		p.i++
		if digits() == 0 {
			return nil, errors.New("bad number fraction")
		}
	}
	if p.i < len(p.b) && (p.b[p.i] == 'e' || p.b[p.i] == 'E') {
		p.i++
		if p.i < len(p.b) && (p.b[p.i] == '+' || p.b[p.i] == '-') {
			p.i++
		}
		if digits() == 0 {
			return nil, errors.New("bad number exponent")
		}
	}
	return jnum(string(p.b[st:p.i])), nil
}

func hex4(b []byte) (rune, bool) {
	if len(b) < 4 {
		return 0, false
	}
	var r rune
	for _, c := range b[:4] {
		r <<= 4
		switch {
		case c >= '0' && c <= '9':
			r |= rune(c - '0')
		case c >= 'a' && c <= 'f':
			r |= rune(c-'a') + 10
		case c >= 'A' && c <= 'F':
			r |= rune(c-'A') + 10
		default:
			return 0, false
		}
	}
	return r, true
}

func (p *jparser) str() (string, error) {
	p.i++ // opening quote
	var sb strings.Builder
	for {
		if p.i >= len(p.b) {
			return "", errors.New("unterminated string")
		}
		c := p.b[p.i]
		switch {
		case c == '"':
			p.i++
			return sb.String(), nil
		case c < 0x20:
			return "", fmt.Errorf("raw control byte 0x%02x inside a string", c)
		case c == '\\':
			if p.i+1 >= len(p.b) {
				return "", errors.New("unterminated escape")
			}
			e := p.b[p.i+1]
			p.i += 2
			switch e {
			case '"', '\\', '/':
				sb.WriteByte(e)
			case 'b':
				sb.WriteByte('\b')
			case 'f':
				sb.WriteByte('\f')
			case 'n':
				sb.WriteByte('\n')
			case 'r':
				sb.WriteByte('\r')
			case 't':
				sb.WriteByte('\t')
			case 'u':
				r, ok := hex4(p.b[p.i:])
				if !ok {
					return "", errors.New("bad \\u escape")
				}
				p.i += 4
				if r >= 0xD800 && r < 0xDC00 {
					// high surrogate: needs a low one
					if p.i+6 <= len(p.b) && p.b[p.i] == '\\' && p.b[p.i+1] == 'u' {
						if r2, ok := hex4(p.b[p.i+2:]); ok && r2 >= 0xDC00 && r2 < 0xE000 {
							p.i += 6
							sb.WriteRune(0x10000 + (r-0xD800)<<10 + (r2 - 0xDC00))
							continue
						}
					}
					sb.WriteRune(utf8.RuneError)
				} else if r >= 0xDC00 && r < 0xE000 {
					sb.WriteRune(utf8.RuneError)
				} else {
					sb.WriteRune(r)
				}
			default:
				return "", fmt.Errorf("illegal escape \\%c", e)
			}
		default:
			sb.WriteByte(c)
			p.i++
		}
	}
}

func (p *jparser) object() (*jv, error) {
	p.depth++
	defer func() { p.depth-- }()
	if p.depth > 20000 {
		return nil, errors.New("too deep")
	}
	p.i++
	o := jobj()
	p.ws()
	if p.i < len(p.b) && p.b[p.i] == '}' {
		p.i++
		return o, nil
	}
	for {
		p.ws()
		if p.i >= len(p.b) || p.b[p.i] != '"' {
			return nil, errors.New("object key expected")
		}
		k, err := p.str()
		if err != nil {
			return nil, err
		}
		p.ws()
		if p.i >= len(p.b) || p.b[p.i] != ':' {
			return nil, errors.New("':' expected")
		}
		p.i++
		p.ws()
		v, err := p.value()
		if err != nil {
			return nil, err
		}
		o.keys = append(o.keys, k)
		o.vals = append(o.vals, v)
		p.ws()
		if p.i >= len(p.b) {
			return nil, errors.New("unterminated object")
		}
		if p.b[p.i] == ',' {
			p.i++
			continue
		}
		if p.b[p.i] == '}' {
			p.i++
			return o, nil
		}
		return nil, errors.New("',' or '}' expected")
	}
}

func (p *jparser) array() (*jv, error) {
	p.depth++
	defer func() { p.depth-- }()
	if p.depth > 20000 {
		return nil, errors.New("too deep")
	}
	p.i++
	a := &jv{k: 'a'}
	p.ws()
	if p.i < len(p.b) && p.b[p.i] == ']' {
		p.i++
		return a, nil
	}
	for {
		p.ws()
		v, err := p.value()
		if err != nil {
			return nil, err
		}
		a.vals = append(a.vals, v)
		p.ws()
		if p.i >= len(p.b) {
			return nil, errors.New("unterminated array")
		}
		if p.b[p.i] == ',' {
			p.i++
			continue
		}
		if p.b[p.i] == ']' {
			p.i++
			return a, nil
		}
		return nil, errors.New("',' or ']' expected")
	}
}

// ---- semantic equality ----

// normStr maps every byte that is not part of a valid UTF-8 sequence to
// U+FFFD, so that an output which passes invalid bytes through and one that
// replaces them (encoding/json does) are both accepted.
func normStr(s string) string {
	if utf8.ValidString(s) {
		return s
	}
	var sb strings.Builder
	for i := 0; i < len(s); {
		r, n := utf8.DecodeRuneInString(s[i:])
		if r == utf8.RuneError && n == 1 {
			sb.WriteRune(utf8.RuneError)
		} else {
			sb.WriteString(s[i : i+n])
		}
		i += n
	}
	return sb.String()
}

func eqStr(a, b string) bool { return a == b || normStr(a) == normStr(b) }

func eqNum(a, b string) bool {
	if a == b {
		return true
	}
	fa, ea := strconv.ParseFloat(a, 64)
	fb, eb := strconv.ParseFloat(b, 64)
	if ea != nil || eb != nil {
		return false
	}
	return fa == fb
}

func equalJV(a, b *jv) bool {
	if a == nil || b == nil {
		return a == b
	}
	if a.k != b.k {
		return false
	}
	switch a.k {
	case 's':
		return eqStr(a.s, b.s)
	case 'n':
		return eqNum(a.s, b.s)
	case 'a':
		if len(a.vals) != len(b.vals) {
			return false
		}
		for i := range a.vals {
			if !equalJV(a.vals[i], b.vals[i]) {
				return false
			}
		}
		return true
	case 'o':
		if len(a.keys) != len(b.keys) {
			return false
		}
		used := make([]bool, len(b.keys))
	outer:
		for i, k := range a.keys {
			for j, k2 := range b.keys {
				if !used[j] && eqStr(k, k2) && equalJV(a.vals[i], b.vals[j]) {
					used[j] = true
					continue outer
				}
			}
			return false
		}
		return true
	}
	return true
}

// ---- renderer ----

// renderOpt controls the (always legal) textual variety of rendered JSON.
type renderOpt struct {
	rng      *rand.Rand
	ws       bool // sprinkle whitespace between tokens
	escapeP  int  // per-rune probability (percent) of a gratuitous \uXXXX escape
	shortEsc bool // prefer \n \t ... over \u000a
}

func render(v *jv, o *renderOpt) []byte {
	return renderTo(nil, v, o)
}

func (o *renderOpt) sp(dst []byte) []byte {
	if o.ws && o.rng.Intn(3) == 0 {
		return append(dst, " \t  "[o.rng.Intn(2):][:1+o.rng.Intn(2)]...)
	}
	return dst
}

func renderTo(dst []byte, v *jv, o *renderOpt) []byte {
	switch v.k {
	case 'o':
		dst = append(dst, '{')
		for i, k := range v.keys {
			if i > 0 {
				dst = append(dst, ',')
			}
			dst = o.sp(dst)
			dst = renderStr(dst, k, o)
			dst = o.sp(dst)
			dst = append(dst, ':')
			dst = o.sp(dst)
			dst = renderTo(dst, v.vals[i], o)
			dst = o.sp(dst)
		}
		return append(dst, '}')
	case 'a':
		dst = append(dst, '[')
		for i, e := range v.vals {
			if i > 0 {
				dst = append(dst, ',')
			}
			dst = o.sp(dst)
			dst = renderTo(dst, e, o)
		}
		return append(dst, ']')
	case 's':
		return renderStr(dst, v.s, o)
	case 'n':
		return append(dst, v.s...)
	case 't':
		return append(dst, "true"...)
	case 'f':
		return append(dst, "false"...)
	default:
		return append(dst, "null"...)
	}
}

const hexd = "0123456789abcdef"

func appendU(dst []byte, r rune, upper bool) []byte {
	dst = append(dst, '\\', 'u')
	for sh := 12; sh >= 0; sh -= 4 {
		c := hexd[(r>>uint(sh))&0xf]
		if upper && c >= 'a' {
			c -= 32
		}
		dst = append(dst, c)
	}
	return dst
}

func renderStr(dst []byte, s string, o *renderOpt) []byte {
	dst = append(dst, '"')
	for i := 0; i < len(s); {
		r, n := utf8.DecodeRuneInString(s[i:])
		if r == utf8.RuneError && n == 1 {
			dst = append(dst, s[i]) // invalid byte: passed raw (what real logs contain)
			i++
			continue
		}
		must := r < 0x20 || r == '"' || r == '\\'
		switch {
		case must && (o.shortEsc || o.rng.Intn(2) == 0) && strings.ContainsRune("\"\\\b\f\n\r\t", r):
			dst = append(dst, '\\')
			switch r {
			case '\b':
				dst = append(dst, 'b')
			case '\f':
				dst = append(dst, 'f')
			case '\n':
				dst = append(dst, 'n')
			case '\r':
				dst = append(dst, 'r')
			case '\t':
				dst = append(dst, 't')
			default:
				dst = append(dst, byte(r))
			}
		case must:
			dst = appendU(dst, r, o.rng.Intn(2) == 0)
		case o.escapeP > 0 && o.rng.Intn(100) < o.escapeP:
			if r == '/' && o.rng.Intn(2) == 0 {
				dst = append(dst, '\\', '/')
			} else if r >= 0x10000 {
				r2 := r - 0x10000
				dst = appendU(dst, 0xD800+(r2>>10), o.rng.Intn(2) == 0)
				dst = appendU(dst, 0xDC00+(r2&0x3ff), o.rng.Intn(2) == 0)
			} else {
				dst = appendU(dst, r, o.rng.Intn(2) == 0)
			}
		default:
			dst = append(dst, s[i:i+n]...)
		}
		i += n
	}
	return append(dst, '"')
}

// brief renders a value compactly for messages (truncated).
func brief(v *jv) string {
	if v == nil {
		return "<nil>"
	}
	b := render(v, &renderOpt{rng: rand.New(rand.NewSource(1)), shortEsc: true})
	if len(b) > 300 {
		return string(b[:300]) + "…"
	}
	return string(b)
}
