package main

// Seeded generators: hostile strings, JSON event trees, events of every
// kind, batch sequences with very different sizes.

import (
	"fmt"
	"math/rand"
	"strings"
)

type gen struct {
	r *rand.Rand
}

func (g *gen) pick(ss ...string) string { return ss[g.r.Intn(len(ss))] }
func (g *gen) chance(pct int) bool      { return g.r.Intn(100) < pct }

// hostile string classes. Each class string is also used in fingerprints.
var strClasses = []string{"plain", "quote", "backslash", "newline", "control", "multibyte", "badutf8", "html", "percent", "empty", "jsonish", "long", "space"}

func (g *gen) word() string {
	const al = "abcdefghijklmnopqrstuvwxyzABCDEFGHIJKLMNOPQRSTUVWXYZ0123456789_-."
	n := 1 + g.r.Intn(10)
	b := make([]byte, n)
	for i := range b {
		b[i] = al[g.r.Intn(len(al))]
	}
	return string(b)
}

// strOf returns a string of the given hostile class.
func (g *gen) strOf(class string) string {
	w := g.word
	switch class {
	case "plain":
		return w()
	case "quote":
		return g.pick(w()+`"`+w(), `"`, `""`, w()+`"`, `"`+w(), `'`+w()+`"`)
	case "backslash":
		return g.pick(w()+`\`+w(), `\`, `\\`, w()+`\`, `\n`+w(), `C:\dir\`+w(), `\u0041`, w()+`\"`[:1]+w())
	case "newline":
		return g.pick(w()+"\n"+w(), "\n", w()+"\r\n"+w(), "\t"+w(), w()+"\n", "\n\n")
	case "control":
		return g.pick(w()+"\x01"+w(), "\x00", w()+"\x1f", "\x7f"+w(), w()+"\x00"+w(), "\x1b[31m"+w(), "\b\f")
	case "multibyte":
		return g.pick("é"+w(), "日本語", w()+"😀", "\u2028"+w(), "ﬀ", "Ω≈ç√", "𝔘𝔫𝔦", "\u00a0", "я"+w()+"ж")
	case "badutf8":
		return g.pick("\xff"+w(), w()+"\xc3", "\xe2\x82", w()+"\xf0\x9f\x98"+w(), "\x80", "\xed\xa0\x80", w()+"\xfe\xff")
	case "html":
		return g.pick("<"+w()+">", "a&b", "<script>", "&amp;")
	case "percent":
		return g.pick("%", "%"+w(), w()+"%", "%s%d", "100%")
	case "empty":
		return ""
	case "jsonish":
		return g.pick(`{"a":1}`, `","_id":"x`, `"}}`, `[1,2]`, `null`, `{"index":{}}`, `\"`, `"}}`+"\n"+`{"x":1}`)
	case "long":
		n := []int{200, 1000, 5000, 20000}[g.r.Intn(4)]
		unit := g.pick("x", "ab\"", "é", "\\", "0123456789")
		return strings.Repeat(unit, n/len(unit)+1)
	case "space":
		return g.pick(" ", "  "+w(), w()+" "+w(), "\t ")
	}
	return w()
}

func (g *gen) anyStr() string {
	if g.chance(45) {
		return g.word()
	}
	return g.strOf(strClasses[g.r.Intn(len(strClasses))])
}

func (g *gen) number() string {
	switch g.r.Intn(10) {
	case 0:
		return "0"
	case 1:
		return fmt.Sprintf("-%d", g.r.Intn(1000))
	case 2:
		return fmt.Sprintf("%d.%d", g.r.Intn(100), g.r.Intn(1000))
	case 3:
		return fmt.Sprintf("%de%d", 1+g.r.Intn(9), g.r.Intn(30))
	case 4:
		return fmt.Sprintf("%d.5E-%d", g.r.Intn(9), g.r.Intn(20))
	case 5:
		return "12345678901234567890123"
	case 6:
		return "-0"
	case 7:
		return "1e400"
	default:
		return fmt.Sprint(g.r.Intn(1 << 30))
	}
}

// value builds a random JSON value.
func (g *gen) value(depth int) *jv {
	k := g.r.Intn(100)
	if depth <= 0 && k >= 70 {
		k = g.r.Intn(70)
	}
	switch {
	case k < 40:
		return jstr(g.anyStr())
	case k < 55:
		return jnum(g.number())
	case k < 60:
		return jlit('t')
	case k < 65:
		return jlit('f')
	case k < 70:
		return jlit('z')
	case k < 86:
		o := jobj()
		n := g.r.Intn(4)
		for i := 0; i < n; i++ {
			o.set(g.key(), g.value(depth-1))
		}
		return o
	default:
		a := &jv{k: 'a'}
		n := g.r.Intn(4)
		for i := 0; i < n; i++ {
			a.vals = append(a.vals, g.value(depth-1))
		}
		return a
	}
}

// deep builds a value nested n levels.
func (g *gen) deep(n int) *jv {
	v := jstr(g.anyStr())
	for i := 0; i < n; i++ {
		if g.r.Intn(2) == 0 {
			v = jobj().set(g.word(), v)
		} else {
			v = jarr(v)
		}
	}
	return v
}

func (g *gen) key() string {
	if g.chance(70) {
		return g.word()
	}
	return g.strOf(g.pick("quote", "backslash", "newline", "control", "multibyte", "badutf8", "space", "percent", "html"))
}

// evSpec is one event handed to an output plugin.
type evSpec struct {
	Kind string // regular | child | parent
	ID   string
	Tree *jv
	Text []byte
	// Route holds the hostile class chosen for the routing value(s) of this
	// event (fingerprints / signatures).
	Route string
}

// fieldPlan tells the event generator which plugin-relevant fields to place.
type fieldPlan struct {
	// routing fields: name -> generator of the value (nil entry = absent)
	fields func(g *gen, ev *evSpec, o *jv)
	// safeKeys: restrict random keys to ones that stay distinct after GELF sanitising
	safeKeys bool
	// reserved keys the random part must not use
	reserved map[string]bool
}

func (g *gen) event(id string, kind string, fp *fieldPlan, sizeClass int) evSpec {
	ev := evSpec{Kind: kind, ID: id}
	o := jobj()
	used := map[string]bool{"id": true}
	for k := range fp.reserved {
		used[k] = true
	}
	sanUsed := map[string]bool{}
	addRandom := func(n int, depth int) {
		for i := 0; i < n; i++ {
			k := g.key()
			if fp.safeKeys {
				if k == "" {
					k = g.word()
				}
				sk := gelfSanitize(k)
				if sanUsed[sk] || used[k] || strings.HasPrefix(k, "_") {
					continue
				}
				sanUsed[sk] = true
			}
			if used[k] || used[normStr(k)] {
				continue
			}
			used[k] = true
			used[normStr(k)] = true
			o.set(k, g.value(depth))
		}
	}
	switch sizeClass {
	case 0: // tiny
		addRandom(g.r.Intn(2), 1)
	case 1: // normal
		addRandom(1+g.r.Intn(6), 3)
	case 2: // big
		addRandom(2+g.r.Intn(4), 3)
		o.set("blob"+g.word(), jstr(g.strOf("long")))
	default: // deep
		addRandom(g.r.Intn(3), 2)
		o.set("deep"+g.word(), g.deep(20+g.r.Intn(60)))
	}
	// the id goes to a random position
	idv := jstr(id)
	pos := g.r.Intn(len(o.keys) + 1)
	o.keys = append(o.keys[:pos], append([]string{"id"}, o.keys[pos:]...)...)
	o.vals = append(o.vals[:pos], append([]*jv{idv}, o.vals[pos:]...)...)
	if fp.fields != nil {
		fp.fields(g, &ev, o)
	}
	if kind == "parent" {
		// what a split parent looks like: it still holds the array that was split
		o.set("data", jarr(jobj().set("message", jstr("child-a")), jobj().set("message", jstr("child-b"))))
	}
	ev.Tree = o
	ro := &renderOpt{rng: g.r, ws: g.chance(25), shortEsc: g.chance(60)}
	if g.chance(30) {
		ro.escapeP = 1 + g.r.Intn(30)
	}
	ev.Text = render(o, ro)
	return ev
}

// placeField inserts key at a random position of the object.
func (g *gen) placeField(o *jv, key string, val *jv) {
	if o.get(key) != nil {
		o.set(key, val)
		return
	}
	pos := g.r.Intn(len(o.keys) + 1)
	o.keys = append(o.keys[:pos], append([]string{key}, o.keys[pos:]...)...)
	o.vals = append(o.vals[:pos], append([]*jv{val}, o.vals[pos:]...)...)
}

// batchSpec is one batch handed to the plugin.
type batchSpec struct {
	Events  []evSpec
	Trigger string // count | bytes | timeout
	Plan    sinkPlan
	Shape   string // fingerprint of the batch shape
}

func (b *batchSpec) deliverable() []evSpec {
	var out []evSpec
	for _, e := range b.Events {
		if e.Kind != "parent" {
			out = append(out, e)
		}
	}
	return out
}

// batchSizes draws a sequence of batch sizes (number of events) with big
// jumps between successive batches; maxN is the plugin's batch_size.
func (g *gen) batchSizes(n, maxN int) []int {
	out := make([]int, n)
	for i := range out {
		switch g.r.Intn(6) {
		case 0:
			out[i] = 1
		case 1:
			out[i] = maxN
		case 2:
			out[i] = maxN - 1
		case 3:
			out[i] = 2
		default:
			out[i] = 1 + g.r.Intn(maxN)
		}
		if out[i] > maxN {
			out[i] = maxN
		}
		if out[i] < 1 {
			out[i] = 1
		}
	}
	return out
}

// kinds draws the kind sequence of a batch of n events.
func (g *gen) kinds(n int) []string {
	out := make([]string, n)
	mode := g.r.Intn(10)
	for i := range out {
		switch {
		case mode < 4:
			out[i] = "regular"
		case mode < 8: // split-like: runs of children closed by their parent
			out[i] = "child"
		default:
			out[i] = []string{"regular", "child", "parent"}[g.r.Intn(3)]
		}
	}
	if mode >= 4 && mode < 8 {
		for i := 0; i < n; i++ {
			if g.r.Intn(4) == 0 {
				out[i] = "parent"
			} else if g.r.Intn(5) == 0 {
				out[i] = "regular"
			}
		}
	}
	if mode == 9 && n <= 3 && g.r.Intn(3) == 0 { // only parents: nothing deliverable
		for i := range out {
			out[i] = "parent"
		}
	}
	return out
}

func sizeBucket(n int) string {
	switch {
	case n == 0:
		return "0"
	case n == 1:
		return "1"
	case n <= 3:
		return "2-3"
	case n <= 8:
		return "4-8"
	case n <= 20:
		return "9-20"
	default:
		return "21+"
	}
}

func byteBucket(n int) string {
	switch {
	case n < 64:
		return "<64"
	case n < 512:
		return "<512"
	case n < 4096:
		return "<4k"
	case n < 32768:
		return "<32k"
	default:
		return "32k+"
	}
}
