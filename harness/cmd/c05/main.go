// C05 — in-flight events never exceed capacity; none leaks or is handed out
// twice. Layer 1: standalone pools (both kinds) under concurrent get/back with
// an exact outstanding-set monitor and a porcupine check of the recorded
// get/back history against a counting-semaphore model. Layer 2: the pool
// monitor installed in real pipelines (internal/pipemon).
package main

import (
	"verifharness/core"
	"verifharness/internal/pipemon"
	"verifharness/internal/poolmon"
)

func main() {
	poolmon.Register()
	core.Main("C05", "exploration", func(c *core.Ctx) {
		c.SetRule("layer 1: standalone event pools (std and low_memory, capacity 1..8, 2..16 goroutines, size classes 0 B..1 MiB) driven through get/back with an outstanding-set monitor (count taken after get returns / before back is called: a lower bound of the true in-flight number) and porcupine linearizability of each short get/back history against a counting semaphore; layer 2: the same monitor wrapped around the pool of real pipelines (case space of C01 plus capacity 1..3 back-pressure cases) with leak accounting at idle; distinct = configuration class × observed phenomena (waiters parked, capacity reached, size classes); non-trivial = capacity reached or events accepted")
		c.Assume("pointer identity identifies an event object; the pool wrapper (build tag verif) delegates every call unchanged")
		poolmon.RunStress(c, "C05")
		pipemon.RunProperty(c, "C05", pipemon.Plan{"mix": {24, 500}, "tiny": {16, 300}, "dlq": {12, 150}, "hold": {6, 120}, "directed": {9, 120}}, true, nil)
		if c.Counter("pool_waiters_seen") == 0 {
			c.Fatal("no reader was ever seen waiting on a full pool")
		}
	})
}
