// Skeleton / self-test of the core runtime (not a property check).
package main

import (
	"encoding/json"
	"fmt"
	"time"

	"verifharness/core"
)

type in struct{ N int }

func main() {
	core.RegisterChild("sq", func(raw json.RawMessage, io *core.ChildIO) (any, error) {
		var x in
		_ = json.Unmarshal(raw, &x)
		io.Log(map[string]any{"cmd": "square", "n": x.N})
		if x.N == 13 {
			var p *int
			_ = *p // crash
		}
		return map[string]int{"sq": x.N * x.N}, nil
	})
	core.Main("C00", "exploration", func(c *core.Ctx) {
		c.SetRule("self-test: squares in child processes; non-trivial = n>1")
		core.ParallelFor(16, 8, func(i int) {
			r := core.RunChild("sq", in{N: i}, core.ChildOpt{Timeout: time.Minute})
			c.Eval(1)
			if r.Crashed() {
				msg, site := core.PanicSite(r.Stderr)
				if i != 13 {
					c.Violation("crash:"+core.NormalizeMsg(msg)+"@"+site, "child crashed", map[string]any{"n": i, "last": r.LastLog(), "stderr": core.Trunc(r.Stderr, 500)})
				} else {
					c.Count("expected_crash", 1)
					fmt.Println("expected crash:", msg, site, string(r.LastLog()))
				}
				return
			}
			var out map[string]int
			_ = json.Unmarshal(r.Out, &out)
			if out["sq"] != i*i {
				c.Violation("wrong-square", "bad", out)
			}
			if i > 1 {
				c.Nontrivial(fmt.Sprint(i))
			}
			c.Sample(map[string]any{"n": i, "out": out})
		})
	})
}
