package main

import (
	"strings"
)

// family is one decoder type with all its parameter sets and entry points.
type family interface {
	name() string
	// begin (re)configures the family for a case (decoders whose parameters
	// depend on the case are rebuilt here; long-lived ones are kept so that
	// pooled buffers are re-used across cases).
	begin(x *exec, r *rng)
	// valid generates the body of a well-formed line (no terminator) and a
	// short tag describing its shape.
	valid(r *rng) ([]byte, string)
	terminators() []string
	alphabet() string
	// feed hands one input to every parameter set / entry point and applies
	// the oracles.
	feed(x *exec, line []byte)
	// labels lists the cfg labels (for the evidence).
	labels() []string
	// entries lists the entry points for the "results stay valid" passes
	// (retain.go); called after begin.
	entries() []entry
}

func byteClass(c byte) string {
	switch {
	case c >= 'a' && c <= 'z' || c >= 'A' && c <= 'Z':
		return "a"
	case c >= '0' && c <= '9':
		return "0"
	case c == ' ':
		return "sp"
	case c == '\n':
		return "nl"
	case c == '\r':
		return "cr"
	case c == '\t':
		return "tab"
	case c < 0x20 || c == 0x7f:
		return "ctl"
	case c >= 0x80:
		return "hi"
	}
	return string([]byte{c})
}

func termName(t string) string {
	switch t {
	case "":
		return "none"
	case "\n":
		return "lf"
	case "\r\n":
		return "crlf"
	}
	return "other"
}

var commonHostile = [][]byte{
	[]byte(""), []byte("\n"), []byte(" "), []byte(" \n"), []byte("\r\n"), []byte("\x00"), []byte("\x00\n"),
	[]byte("\xff\xfe\n"), []byte("\xef\xbb\xbf\n"), []byte("-"), []byte("-\n"), []byte("<"), []byte("<>"), []byte("<1>"), []byte("<1>\n"),
	[]byte(strings.Repeat(" ", 700) + "\n"), []byte(strings.Repeat("[", 900)), []byte(strings.Repeat("\"", 501) + "\n"),
	[]byte(strings.Repeat("{\"a\":", 600) + "\n"), []byte(strings.Repeat("[", 3000) + strings.Repeat("]", 3000) + "\n"),
	[]byte(strings.Repeat(",", 300)), []byte(strings.Repeat("\\", 333) + "\"\n"), []byte(strings.Repeat("]", 300) + "\n"),
	[]byte(strings.Repeat("a", 70000) + "\n"),
}

const maxSystematic = 360

// positions returns every index of a line of length n, or an evenly spread
// sample when the line is long.
func positions(n int, r *rng) []int {
	if n <= maxSystematic {
		out := make([]int, n)
		for i := range out {
			out[i] = i
		}
		return out
	}
	out := make([]int, 0, maxSystematic)
	step := float64(n) / float64(maxSystematic)
	for k := 0; k < maxSystematic; k++ {
		lo := int(float64(k) * step)
		hi := int(float64(k+1) * step)
		if hi <= lo {
			hi = lo + 1
		}
		out = append(out, lo+r.n(hi-lo))
	}
	return out
}

// runCase derives all inputs of one case and feeds them.
func runCase(x *exec, f family, caseSeed uint64, idx int) {
	r := newRng(caseSeed)
	x.curCase = idx
	f.begin(x, r)
	ents := f.entries()
	var concLines [][]byte
	feed := func(mut string, line []byte) {
		x.curMut = mut
		x.inputs++
		f.feed(x, line)
		// results-stay-valid pass: every well-formed line and every 4th other input
		if strings.HasPrefix(mut, "valid") || x.inputs%4 == 0 {
			x.retainPass(ents, line)
			if len(line) < 4096 && (len(concLines) < 12 || (len(concLines) < 40 && x.inputs%28 == 0)) {
				concLines = append(concLines, append([]byte(nil), line...))
			}
		}
	}
	defer func() {
		x.concPass(ents, concLines)
		if st, ok := f.(stresser); ok {
			st.stress(x, newRng(mix(caseSeed, 0x57E55)))
		}
	}()
	if idx%8 == 0 {
		for _, h := range commonHostile {
			feed("hostile", h)
		}
	}
	alpha := f.alphabet()
	scratch := make([]byte, 0, 4096)
	nValid := 3
	for v := 0; v < nValid; v++ {
		body, tag := f.valid(r)
		for _, t := range f.terminators() {
			line := append(append(scratch[:0], body...), t...)
			feed("valid:"+tag+":"+termName(t), line)
		}
		if v > 0 {
			continue // systematic mutation only for the first valid line of a case
		}
		base := append(append([]byte(nil), body...), f.terminators()[0]...)
		L := len(base)
		pos := positions(L, r)
		// every truncation (prefix), including the empty one
		for _, p := range pos {
			last := "empty"
			if p > 0 {
				last = byteClass(base[p-1])
			}
			feed("trunc:after:"+last, base[:p])
		}
		// every single-byte deletion
		for _, p := range pos {
			line := append(append(scratch[:0], base[:p]...), base[p+1:]...)
			feed("del:"+byteClass(base[p]), line)
		}
		// every single-byte duplication
		for _, p := range pos {
			line := append(append(append(scratch[:0], base[:p+1]...), base[p]), base[p+1:]...)
			feed("dup:"+byteClass(base[p]), line)
		}
		// structural deletions: every run of 1..6 consecutive tokens (a token is a
		// maximal run of letters/digits/high bytes, or one other byte) removed
		toks := tokenize(base)
		type span struct{ a, b int }
		var spans []span
		for i := range toks {
			for n := 1; n <= 6 && i+n <= len(toks); n++ {
				a, b := toks[i], len(base)
				if i+n < len(toks) {
					b = toks[i+n]
				}
				if b-a > 1 {
					spans = append(spans, span{a, b})
				}
			}
		}
		for len(spans) > 420 {
			k := r.n(len(spans))
			spans[k] = spans[len(spans)-1]
			spans = spans[:len(spans)-1]
		}
		for _, sp := range spans {
			line := append(append(scratch[:0], base[:sp.a]...), base[sp.b:]...)
			next := "end"
			if sp.b < L {
				next = byteClass(base[sp.b])
			}
			prev := "start"
			if sp.a > 0 {
				prev = byteClass(base[sp.a-1])
			}
			feed("tokdel:"+prev+"|"+next, line)
		}
		// suffixes (line joined to the tail of a previous one)
		for k := 0; k < 16 && L > 1; k++ {
			p := 1 + r.n(L-1)
			feed("suffix", base[p:])
		}
		// substitutions and insertions from the delimiter-heavy alphabet
		for k := 0; k < 48 && L > 0; k++ {
			p := r.n(L)
			c := alpha[r.n(len(alpha))]
			line := append(scratch[:0], base...)
			line[p] = c
			feed("sub:"+byteClass(c), line)
		}
		for k := 0; k < 48; k++ {
			p := r.n(L + 1)
			c := alpha[r.n(len(alpha))]
			line := append(append(append(scratch[:0], base[:p]...), c), base[p:]...)
			feed("ins:"+byteClass(c), line)
		}
		// two lines glued together, and a chunk of the line repeated
		if L > 4 {
			p := r.n(L)
			line := append(append(scratch[:0], base[:p]...), base...)
			feed("glued", line)
			a := r.n(L - 1)
			b := a + 1 + r.n(L-a-1)
			line = append(append(append(scratch[:0], base[:b]...), base[a:b]...), base[b:]...)
			feed("chunk-dup", line)
			line = append(append(scratch[:0], base[:a]...), base[b:]...)
			feed("chunk-del", line)
		}
	}
	// random byte strings over the alphabet, with and without newline
	for k := 0; k < 32; k++ {
		n := r.n(40)
		if r.pct(10) {
			n = r.n(300)
		}
		line := scratch[:0]
		for i := 0; i < n; i++ {
			if r.pct(6) {
				line = append(line, pick(r, multibyte)...)
			} else if r.pct(3) {
				line = append(line, byte(r.n(256)))
			} else {
				line = append(line, alpha[r.n(len(alpha))])
			}
		}
		if r.pct(60) {
			line = append(line, '\n')
			feed("random:lf", line)
		} else {
			feed("random:none", line)
		}
	}
}

// tokenize returns the start offsets of the tokens of b.
func tokenize(b []byte) []int {
	var out []int
	word := func(c byte) bool {
		return c >= 'a' && c <= 'z' || c >= 'A' && c <= 'Z' || c >= '0' && c <= '9' || c >= 0x80
	}
	for i := 0; i < len(b); i++ {
		if i == 0 || !word(b[i]) || !word(b[i-1]) {
			out = append(out, i)
		}
	}
	return out
}
