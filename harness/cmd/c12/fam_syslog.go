package main

import (
	"fmt"
	"regexp"
	"sort"
	"strconv"
	"strings"
	"time"

	"github.com/ozontech/file.d/decoder"
)

// Facility / severity keywords (RFC 5424 §6.2.1 order; spelling as documented
// by the decoder's readme examples AUTH/CRIT/LOCAL4/NOTICE and its tests).
var facilityNames = []string{"KERN", "USER", "MAIL", "DAEMON", "AUTH", "SYSLOG", "LPR", "NEWS", "UUCP", "CRON", "AUTHPRIV", "FTP",
	"NTP", "SECURITY", "CONSOLE", "SOLARISCRON", "LOCAL0", "LOCAL1", "LOCAL2", "LOCAL3", "LOCAL4", "LOCAL5", "LOCAL6", "LOCAL7"}
var severityNames = []string{"EMERG", "ALERT", "CRIT", "ERROR", "WARN", "NOTICE", "INFO", "DEBUG"}

type sysCfg struct {
	label          string
	facStr, sevStr bool
	dec            decoder.Decoder
}

func newSysCfgs(t decoder.Type) []*sysCfg {
	var out []*sysCfg
	for _, c := range []struct {
		label  string
		params decoder.Params
		f, s   bool
	}{
		{"default", nil, false, false},
		{"fac=string", decoder.Params{"syslog_facility_format": "string"}, true, false},
		{"sev=string", decoder.Params{"syslog_severity_format": "string", "syslog_facility_format": "number"}, false, true},
		{"fac=string,sev=string", decoder.Params{"syslog_facility_format": "string", "syslog_severity_format": "string"}, true, true},
	} {
		d, err := decoder.New(t, c.params)
		if err != nil {
			panic("syslog decoder: " + err.Error())
		}
		out = append(out, &sysCfg{label: c.label, facStr: c.f, sevStr: c.s, dec: d})
	}
	return out
}

func (c *sysCfg) priFields(exp expectation, pri string) {
	p, _ := strconv.Atoi(pri)
	exp["priority"] = one(pri)
	if c.facStr {
		exp["facility"] = one(facilityNames[p/8])
	} else {
		exp["facility"] = one(strconv.Itoa(p / 8))
	}
	if c.sevStr {
		exp["severity"] = one(severityNames[p%8])
	} else {
		exp["severity"] = one(strconv.Itoa(p % 8))
	}
}

func genPri(r *rng) string {
	switch r.n(6) {
	case 0:
		return pick(r, []string{"0", "7", "8", "191", "190", "184"})
	default:
		return strconv.Itoa(r.n(192))
	}
}

func rowBase(row decoder.SyslogRFC3164Row) map[string]any {
	got := map[string]any{"priority": string(row.Priority), "facility": row.Facility, "severity": row.Severity}
	put := func(k string, v []byte) {
		if len(v) > 0 {
			got[k] = string(v)
		}
	}
	put("timestamp", row.Timestamp)
	put("hostname", row.Hostname)
	put("app_name", row.AppName)
	put("process_id", row.ProcID)
	put("message", row.Message)
	return got
}

// checkSyslog is the common oracle of both syslog families.
func checkSyslog(x *exec, fam, label string, line []byte, exp expectation, wellFormed bool, got map[string]any, err error, attr func(kind string) []attribution) {
	if wellFormed {
		x.count("wellformed_checked", 1)
		kind, detail := "", ""
		if err != nil {
			kind, detail = "rejected", err.Error()
		} else {
			kind, detail = compareEvent(got, exp)
		}
		if kind != "" {
			what := "well-formed " + fam + " line does not yield exactly its fields: "
			if attr == nil {
				x.violate("decoder="+fam+" well-formed-line kind="+kind, what+detail, label, line, map[string]any{"got": got}, false)
				return
			}
			for _, a := range attr(kind) {
				w := line
				d := map[string]any{"got": got, "observed_on": show(line)}
				if a.line != nil {
					w = a.line
					d = map[string]any{"observed_on": show(line), "note": "witness reduced: every other uncommon construct of the observed line was neutralised"}
				}
				sig := "decoder=" + fam + " well-formed-line kind=" + a.kind + " features=" + a.feature
				if a.feature != "-" && !strings.HasPrefix(a.feature, "interaction(") {
					// one uncommon construct alone is enough: the construct names the defect
					sig = "decoder=" + fam + " well-formed-line mishandled construct=" + a.feature
					d["kind"] = a.kind
				}
				x.violate(sig, what+detail, label, w, d, false)
			}
		}
		return
	}
	if err != nil {
		return
	}
	x.count("accepted_not_wellformed", 1)
	for k, v := range got {
		switch val := v.(type) {
		case string:
			if k == "facility" || k == "severity" {
				continue
			}
			if !pieceOf(line, val) {
				x.violate("decoder="+fam+" field-not-from-line field="+classifyKey(k), fmt.Sprintf("field %s=%q is not a piece of the input line", k, val), label, line, nil, false)
			}
			if !knownKeys[k] {
				x.violate("decoder="+fam+" undocumented-field", "event has a string field the readme does not list: "+k, label, line, nil, false)
			}
		case map[string]any:
			if !pieceOf(line, k) {
				x.violate("decoder="+fam+" field-not-from-line field=<sd-id>", fmt.Sprintf("SD-ID %q is not a piece of the input line", k), label, line, nil, false)
			}
			for pk, pv := range val {
				if s, _ := pv.(string); !pieceOf(line, pk) || !pieceOf(line, s) {
					x.violate("decoder="+fam+" field-not-from-line field=<sd-param>", fmt.Sprintf("SD param %q=%q is not a piece of the input line", pk, pv), label, line, nil, false)
				}
			}
		}
	}
}

// ================================================================ RFC 3164
//
//   <PRI>Mmm dd hh:mm:ss HOSTNAME TAG[PID]: MSG      (PID part optional)

type s3164Fam struct{ cfgs []*sysCfg }

func newS3164Fam() *s3164Fam { return &s3164Fam{cfgs: newSysCfgs(decoder.SYSLOG_RFC3164)} }

func (*s3164Fam) name() string          { return "syslog_rfc3164" }
func (*s3164Fam) begin(*exec, *rng)     {}
func (*s3164Fam) terminators() []string { return []string{"\n", ""} }
func (*s3164Fam) alphabet() string      { return "  <>[]::0123456789OctJan \n-." }
func (f *s3164Fam) labels() []string {
	var l []string
	for _, c := range f.cfgs {
		l = append(l, c.label+"/Decode", c.label+"/DecodeToJson")
	}
	return l
}

var months = []string{"Jan", "Feb", "Mar", "Apr", "May", "Jun", "Jul", "Aug", "Sep", "Oct", "Nov", "Dec"}

func (*s3164Fam) valid(r *rng) ([]byte, string) {
	day := r.between(1, 28)
	ds := fmt.Sprintf("%2d", day)
	ts := fmt.Sprintf("%s %s %02d:%02d:%02d", pick(r, months), ds, r.n(24), r.n(60), r.n(60))
	host := pick(r, []string{"mymachine.example.com", "10.0.0.1", "::1", "h", r.from(alnum+".-", r.between(1, 20))})
	tag := pick(r, []string{"myproc", "su", "sshd", "kernel", "a", r.from(alnum+"_-./", r.between(1, 24))})
	shape := "nopid"
	pid := ""
	if r.pct(55) {
		pid = "[" + pick(r, []string{r.digits(r.between(1, 6)), "x", r.from(alnum, 3)}) + "]"
		shape = "pid"
	}
	var msg string
	switch r.n(7) {
	case 0:
		msg, shape = "", shape+"+nomsg"
	case 1:
		msg, shape = " ", shape+"+space-only"
	case 2:
		msg, shape = " 'myproc' failed on /dev/pts/8", shape+"+sp"
	case 3:
		msg, shape = "nospace "+r.text(3, ":[]"), shape+"+nosp"
	case 4:
		msg, shape = "  two leading spaces [x]: y", shape+"+2sp"
	default:
		msg = " " + r.text(r.between(1, 10), " :[]<>=\"\\")
		shape += "+sp"
	}
	return []byte("<" + genPri(r) + ">" + ts + " " + host + " " + tag + pid + ":" + msg), shape
}

var s3164Re = regexp.MustCompile(`(?s)^<(0|[1-9]\d{0,2})>((Jan|Feb|Mar|Apr|May|Jun|Jul|Aug|Sep|Oct|Nov|Dec) ([ \d]\d) (\d\d):(\d\d):(\d\d)) ([^ ]+) ([A-Za-z0-9_./\-]+)(?:\[([^\[\] ]+)\])?: ?(.*)$`)

func s3164Ref(line []byte, c *sysCfg) (expectation, bool) {
	if n := len(line); n > 0 && line[n-1] == '\n' {
		line = line[:n-1]
	}
	m := s3164Re.FindSubmatch(line)
	if m == nil {
		return nil, false
	}
	pri, _ := strconv.Atoi(string(m[1]))
	day, _ := strconv.Atoi(strings.TrimSpace(string(m[4])))
	hh, _ := strconv.Atoi(string(m[5]))
	mm, _ := strconv.Atoi(string(m[6]))
	ss, _ := strconv.Atoi(string(m[7]))
	if pri > 191 || day < 1 || day > 31 || hh > 23 || mm > 59 || ss > 59 {
		return nil, false
	}
	exp := expectation{"timestamp": one(string(m[2])), "hostname": one(string(m[8])), "app_name": one(string(m[9])),
		"process_id": optional(string(m[10])), "message": optional(string(m[11]))}
	c.priFields(exp, string(m[1]))
	return exp, true
}

func (f *s3164Fam) feed(x *exec, line []byte) {
	for _, c := range f.cfgs {
		exp, wellFormed := s3164Ref(line, c)
		out := x.call(c.label+"/Decode", line, func(data []byte) (any, error) { return c.dec.Decode(data) })
		if out.decided() {
			var got map[string]any
			if out.err == nil {
				row, ok := out.val.(decoder.SyslogRFC3164Row)
				if !ok {
					x.violate("decoder=syslog_rfc3164 Decode-result-type", fmt.Sprintf("Decode returned %T", out.val), c.label+"/Decode", line, nil, false)
					continue
				}
				got = rowBase(row)
			}
			checkSyslog(x, "syslog_rfc3164", c.label+"/Decode", line, exp, wellFormed, got, out.err, nil)
		}
		x.resetRoot()
		out = x.call(c.label+"/DecodeToJson", line, func(data []byte) (any, error) { return nil, c.dec.DecodeToJson(x.root, data) })
		if out.decided() {
			var got map[string]any
			if out.err == nil {
				enc := x.encodeRoot()
				var bad string
				got, bad = decodeFlat(enc, false)
				if bad != "" {
					x.violate("decoder=syslog_rfc3164 "+bad, "decoder returned nil error but the event is not well-formed: "+bad, c.label+"/DecodeToJson", line,
						map[string]any{"encoded": show(enc)}, false)
					continue
				}
				x.sample(map[string]any{"decoder": "syslog_rfc3164", "cfg": c.label, "input": show(line), "event": string(enc)})
			}
			checkSyslog(x, "syslog_rfc3164", c.label+"/DecodeToJson", line, exp, wellFormed, got, out.err, nil)
		}
	}
}

// ================================================================ RFC 5424
//
//   <PRI>VERSION SP TIMESTAMP SP HOSTNAME SP APP-NAME SP PROCID SP MSGID SP SD [SP MSG]
//   SD = "-" / 1*( "[" SD-ID *(SP NAME "=" %d34 VALUE %d34) "]" ),  "-" is the nil value,
//   inside VALUE the characters '"', '\' and ']' are escaped with '\'; MSG may start with a BOM.

type sdParam struct{ name, raw string }
type sdElem struct {
	id     string
	params []sdParam
}

// s5424 is the parsed reference structure of a well-formed line; it can be
// rendered back, which is how the features responsible for a mismatch are
// found (each feature is neutralised in turn and the line decoded again).
type s5424 struct {
	pri, ver, ts, host, app, proc, msgid string
	nilSD                                bool
	sd                                   []sdElem
	hasMsg                               bool
	bom                                  bool
	msg                                  string
}

func (s *s5424) render() []byte {
	var sb strings.Builder
	sb.WriteString("<" + s.pri + ">" + s.ver + " " + s.ts + " " + s.host + " " + s.app + " " + s.proc + " " + s.msgid + " ")
	if s.nilSD {
		sb.WriteString("-")
	}
	for _, e := range s.sd {
		sb.WriteString("[" + e.id)
		for _, p := range e.params {
			sb.WriteString(" " + p.name + "=\"" + p.raw + "\"")
		}
		sb.WriteString("]")
	}
	if s.hasMsg {
		sb.WriteString(" ")
		if s.bom {
			sb.WriteString("\xef\xbb\xbf")
		}
		sb.WriteString(s.msg)
	}
	return []byte(sb.String())
}

func sdUnescape(raw string) string {
	var sb strings.Builder
	for i := 0; i < len(raw); i++ {
		if raw[i] == '\\' && i+1 < len(raw) && (raw[i+1] == '"' || raw[i+1] == '\\' || raw[i+1] == ']') {
			i++
		}
		sb.WriteByte(raw[i])
	}
	return sb.String()
}

var (
	s5424HeadRe = regexp.MustCompile(`(?s)^<(0|[1-9]\d{0,2})>([1-9]\d{0,2}) ([^ ]+) ([^ ]+) ([^ ]+) ([^ ]+) ([^ ]+) (.*)$`)
	s5424TsRe   = regexp.MustCompile(`^\d{4}-\d\d-\d\dT\d\d:\d\d:\d\d(\.\d{1,6})?(Z|[+-]\d\d:\d\d)$`)
)

func sdNameOK(s string) bool {
	if len(s) < 1 || len(s) > 32 {
		return false
	}
	for i := 0; i < len(s); i++ {
		c := s[i]
		if c < 33 || c > 126 || c == '=' || c == ']' || c == '"' {
			return false
		}
	}
	return true
}

// parse5424 recognises a well-formed RFC 5424 line.
func parse5424(line []byte) (*s5424, bool) {
	if n := len(line); n > 0 && line[n-1] == '\n' {
		line = line[:n-1]
	}
	m := s5424HeadRe.FindSubmatch(line)
	if m == nil {
		return nil, false
	}
	s := &s5424{pri: string(m[1]), ver: string(m[2]), ts: string(m[3]), host: string(m[4]), app: string(m[5]), proc: string(m[6]), msgid: string(m[7])}
	if p, _ := strconv.Atoi(s.pri); p > 191 {
		return nil, false
	}
	if s.ts != "-" {
		if !s5424TsRe.MatchString(s.ts) {
			return nil, false
		}
		if _, err := time.Parse(time.RFC3339Nano, s.ts); err != nil {
			return nil, false
		}
		// the offset must be a real one (time.Parse accepts up to 24:00 in some versions)
		if z := s.ts[len(s.ts)-1]; z != 'Z' {
			oh, _ := strconv.Atoi(s.ts[len(s.ts)-5 : len(s.ts)-3])
			om, _ := strconv.Atoi(s.ts[len(s.ts)-2:])
			if oh > 23 || om > 59 {
				return nil, false
			}
		}
	}
	rest := string(m[8])
	i := 0
	switch {
	case strings.HasPrefix(rest, "-"):
		s.nilSD = true
		i = 1
	case strings.HasPrefix(rest, "["):
		for i < len(rest) && rest[i] == '[' {
			i++
			j := i
			for j < len(rest) && rest[j] != ' ' && rest[j] != ']' {
				j++
			}
			e := sdElem{id: rest[i:j]}
			if !sdNameOK(e.id) {
				return nil, false
			}
			i = j
			for i < len(rest) && rest[i] == ' ' {
				i++
				j = i
				for j < len(rest) && rest[j] != '=' {
					j++
				}
				name := rest[i:j]
				if !sdNameOK(name) || j+1 >= len(rest) || rest[j+1] != '"' {
					return nil, false
				}
				j += 2
				v := j
				for {
					if j >= len(rest) {
						return nil, false
					}
					if rest[j] == '\\' && j+1 < len(rest) {
						j += 2
						continue
					}
					if rest[j] == '"' {
						break
					}
					if rest[j] == ']' {
						return nil, false // must be escaped inside a value
					}
					j++
				}
				e.params = append(e.params, sdParam{name: name, raw: rest[v:j]})
				i = j + 1
			}
			if i >= len(rest) || rest[i] != ']' {
				return nil, false
			}
			i++
			s.sd = append(s.sd, e)
		}
	default:
		return nil, false
	}
	if i == len(rest) {
		return s, true
	}
	if rest[i] != ' ' {
		return nil, false
	}
	s.hasMsg = true
	s.msg = rest[i+1:]
	if strings.HasPrefix(s.msg, "\xef\xbb\xbf") {
		s.bom = true
		s.msg = s.msg[3:]
	}
	return s, true
}

// ambiguous: cases the readme/RFC do not settle (duplicate ids or names, an
// SD-ID equal to a header field name).
func (s *s5424) ambiguous() bool {
	ids := map[string]bool{}
	for _, e := range s.sd {
		if ids[e.id] || knownKeys[e.id] {
			return true
		}
		ids[e.id] = true
		names := map[string]bool{}
		for _, p := range e.params {
			if names[p.name] {
				return true
			}
			names[p.name] = true
		}
	}
	return false
}

func nilOpt(v string) alts {
	if v == "-" {
		return alts{absent}
	}
	return alts{v}
}

func (s *s5424) expect(c *sysCfg) expectation {
	exp := expectation{"proto_version": one(s.ver), "timestamp": nilOpt(s.ts), "hostname": nilOpt(s.host), "app_name": nilOpt(s.app),
		"process_id": nilOpt(s.proc), "message_id": nilOpt(s.msgid), "message": optional(s.msg)}
	c.priFields(exp, s.pri)
	for _, e := range s.sd {
		pm := map[string]alts{}
		for _, p := range e.params {
			// the decoder's tests document the raw (still escaped) value; the
			// unescaped one is what RFC 5424 means: both accepted
			a := alts{p.raw}
			if u := sdUnescape(p.raw); u != p.raw {
				a = append(a, u)
			}
			pm[p.name] = a
		}
		if len(pm) == 0 {
			// element without parameters: documented by the tests as rejected,
			// otherwise nothing to show: any of rejected / absent / {} accepted
			continue
		}
		exp[e.id] = pm
	}
	return exp
}

func (s *s5424) hasParamless() bool {
	for _, e := range s.sd {
		if len(e.params) == 0 {
			return true
		}
	}
	return false
}

// features lists the less common constructs of the line with a function
// that neutralises each of them.
func (s *s5424) features() map[string]func(t *s5424) {
	fs := map[string]func(t *s5424){}
	if s.hasMsg && strings.HasPrefix(s.msg, " ") && !s.bom {
		fs["msg-leading-space"] = func(t *s5424) { t.msg = "x" + strings.TrimLeft(t.msg, " ") }
	}
	if s.bom {
		fs["msg-bom"] = func(t *s5424) { t.bom = false }
	}
	if s.hasMsg && s.msg == "" && !s.bom {
		fs["msg-empty-after-space"] = func(t *s5424) { t.hasMsg = false }
	}
	if len(s.sd) > 1 {
		fs["sd-multiple-elements"] = func(t *s5424) { t.sd = t.sd[:1] }
	}
	for _, e := range s.sd {
		if len(e.id) == 1 {
			fs["sd-id-one-char"] = func(t *s5424) {
				for i := range t.sd {
					if len(t.sd[i].id) == 1 {
						t.sd[i].id += "id" + strconv.Itoa(i)
					}
				}
			}
		}
		for _, p := range e.params {
			mod := func(f func(raw string) string) func(t *s5424) {
				return func(t *s5424) {
					for i := range t.sd {
						for j := range t.sd[i].params {
							t.sd[i].params[j].raw = f(t.sd[i].params[j].raw)
						}
					}
				}
			}
			if strings.Contains(p.raw, `\]`) {
				fs["sd-value-escaped-bracket"] = mod(func(raw string) string { return strings.ReplaceAll(raw, `\]`, "x") })
			}
			if strings.HasSuffix(p.raw, `\\`) {
				fs["sd-value-ends-with-escaped-backslash"] = mod(func(raw string) string {
					if strings.HasSuffix(raw, `\\`) {
						return raw + "x"
					}
					return raw
				})
			}
			if strings.Contains(p.raw, `\"`) {
				fs["sd-value-escaped-quote"] = mod(func(raw string) string { return strings.ReplaceAll(raw, `\"`, "x") })
			}
			if strings.ContainsAny(p.raw, " =[") {
				fs["sd-value-with-delimiters"] = mod(func(raw string) string {
					return strings.NewReplacer(" ", "_", "=", "_", "[", "_").Replace(raw)
				})
			}
			if p.raw == "" {
				fs["sd-value-empty"] = mod(func(raw string) string {
					if raw == "" {
						return "v"
					}
					return raw
				})
			}
		}
	}
	for name, v := range map[string]*string{"timestamp": &s.ts, "hostname": &s.host, "app_name": &s.app, "process_id": &s.proc, "message_id": &s.msgid} {
		if *v == "-" {
			n := name
			fs["nil-"+n] = func(t *s5424) {
				switch n {
				case "timestamp":
					t.ts = "2003-10-11T22:14:15.003Z"
				case "hostname":
					t.host = "h"
				case "app_name":
					t.app = "a"
				case "process_id":
					t.proc = "1"
				case "message_id":
					t.msgid = "m"
				}
			}
		}
	}
	return fs
}

func (s *s5424) clone() *s5424 {
	t := *s
	t.sd = make([]sdElem, len(s.sd))
	for i, e := range s.sd {
		t.sd[i] = sdElem{id: e.id, params: append([]sdParam(nil), e.params...)}
	}
	return &t
}

type s5424Fam struct{ cfgs []*sysCfg }

func newS5424Fam() *s5424Fam { return &s5424Fam{cfgs: newSysCfgs(decoder.SYSLOG_RFC5424)} }

func (*s5424Fam) name() string          { return "syslog_rfc5424" }
func (*s5424Fam) begin(*exec, *rng)     {}
func (*s5424Fam) terminators() []string { return []string{"\n", ""} }
func (*s5424Fam) alphabet() string      { return "  <>[]]=\"\"\\-- 0123456789TZ:.+ab\n" }
func (f *s5424Fam) labels() []string {
	var l []string
	for _, c := range f.cfgs {
		l = append(l, c.label+"/Decode", c.label+"/DecodeToJson")
	}
	return l
}

func gen5424TS(r *rng) string {
	frac := ""
	if r.pct(70) {
		frac = "." + r.digits(r.between(1, 6))
	}
	tz := "Z"
	if r.pct(35) {
		tz = fmt.Sprintf("%s%02d:%02d", pick(r, []string{"+", "-"}), r.n(15), pick(r, []int{0, 30, 45}))
	}
	return fmt.Sprintf("%04d-%02d-%02dT%02d:%02d:%02d%s%s", r.between(1970, 2099), r.between(1, 12), r.between(1, 28), r.n(24), r.n(60), r.n(60), frac, tz)
}

func (*s5424Fam) valid(r *rng) ([]byte, string) {
	orNil := func(v string, p int) string {
		if r.pct(p) {
			return "-"
		}
		return v
	}
	s := &s5424{pri: genPri(r), ver: pick(r, []string{"1", "1", "1", "2", "10", "999"})}
	s.ts = orNil(gen5424TS(r), 15)
	s.host = orNil(pick(r, []string{"mymachine.example.com", "192.0.2.1", "h", r.from(alnum+".-", r.between(1, 30))}), 15)
	s.app = orNil(pick(r, []string{"myproc", "su", "evntslog", r.from(alnum+"_-", r.between(1, 20))}), 15)
	s.proc = orNil(pick(r, []string{r.digits(r.between(1, 6)), "x1", "-1"}), 25)
	s.msgid = orNil(pick(r, []string{"ID47", "TCPIN", r.from(alnum, r.between(1, 10))}), 25)
	shape := []string{}
	// at most one uncommon construct per generated line
	exotic := r.n(12)
	if r.pct(30) {
		s.nilSD = true
		shape = append(shape, "nilsd")
	} else {
		ne := 1
		if exotic == 0 {
			ne = r.between(2, 3)
		}
		usedID := map[string]bool{}
		for k := 0; k < ne; k++ {
			id := pick(r, []string{"exampleSDID@32473", "timeQuality", "origin", "meta", "ex@1", r.from(alnum, r.between(2, 12)) + "@" + r.digits(3)})
			if exotic == 1 {
				id = r.from(lower, 1)
			}
			for usedID[id] {
				id += "x"
			}
			usedID[id] = true
			e := sdElem{id: id}
			np := r.between(1, 4)
			usedName := map[string]bool{}
			for q := 0; q < np; q++ {
				name := pick(r, []string{"iut", "eventSource", "eventID", "tzKnown", "ip", "k", r.from(alnum, r.between(1, 8))})
				for usedName[name] {
					name += "x"
				}
				usedName[name] = true
				val := pick(r, []string{"3", "Application", "1011", r.from(alnum, r.between(1, 12)), r.text(2, "")})
				val = strings.NewReplacer(`"`, "", `\`, "", "]", "").Replace(val)
				if q == 0 {
					switch exotic {
					case 2:
						val = "a" + `\]` + "b"
					case 3:
						val = "dir" + `\\`
					case 4:
						val = `My \"Application\"`
					case 5:
						val = "a b=c [d"
					case 6:
						val = ""
					case 7:
						val = `c:\\temp\\x` + "y"
					}
				}
				e.params = append(e.params, sdParam{name: name, raw: val})
			}
			s.sd = append(s.sd, e)
		}
		shape = append(shape, fmt.Sprintf("sd%d", ne))
	}
	switch r.n(6) {
	case 0:
		shape = append(shape, "nomsg")
	default:
		s.hasMsg = true
		s.msg = pick(r, []string{"An application event log", "%% It's time to make the do-nuts.", r.text(r.between(1, 10), " []=\"\\<>-")})
		s.msg = strings.TrimLeft(s.msg, " ")
		if s.msg == "" {
			s.msg = "m"
		}
		switch exotic {
		case 8:
			s.bom = true
		case 9:
			s.msg = " " + s.msg
		case 10:
			s.msg = "[not sd] - " + s.msg
		}
	}
	fs := s.features()
	names := make([]string, 0, len(fs))
	for n := range fs {
		names = append(names, n)
	}
	sort.Strings(names)
	return s.render(), strings.Join(append(shape, names...), "+")
}

// attribute finds which uncommon construct a mismatch is due to: first the
// line with every such construct neutralised, then the line with only one of
// them kept. It returns (kind, feature, reduced line) triples.
type attribution struct {
	kind, feature string
	line          []byte
}

func (f *s5424Fam) attribute(x *exec, c *sysCfg, s *s5424, toJSON bool, fullKind string) []attribution {
	fs := s.features()
	names := make([]string, 0, len(fs))
	for n := range fs {
		names = append(names, n)
	}
	sort.Strings(names)
	if len(names) == 0 {
		return []attribution{{fullKind, "-", nil}}
	}
	reduce := func(keep string) (*s5424, []byte, bool) {
		t := s.clone()
		for _, n := range names {
			if n == "sd-multiple-elements" && strings.HasPrefix(keep, "sd-") {
				continue // dropping elements could drop the construct that is kept
			}
			if n != keep {
				if g, ok := t.features()[n]; ok {
					g(t)
				}
			}
		}
		line := t.render()
		t2, ok := parse5424(line)
		if !ok || t2.ambiguous() || t2.hasParamless() {
			return nil, nil, false
		}
		return t2, line, true
	}
	if t, line, ok := reduce(""); ok {
		if k := f.mismatch(x, c, t, line, toJSON); k != "" {
			return []attribution{{k, "-", line}}
		}
	}
	var out []attribution
	for _, n := range names {
		if t, line, ok := reduce(n); ok {
			if k := f.mismatch(x, c, t, line, toJSON); k != "" {
				out = append(out, attribution{k, n, line})
			}
		}
	}
	if len(out) == 0 {
		out = append(out, attribution{fullKind, "interaction(" + strings.Join(names, ",") + ")", nil})
	}
	return out
}

// mismatch decodes line (no canary bookkeeping, no reporting) and returns the mismatch kind.
func (f *s5424Fam) mismatch(x *exec, c *sysCfg, s *s5424, line []byte, toJSON bool) (kind string) {
	defer func() {
		if v := recover(); v != nil {
			kind = "panic"
		}
	}()
	cp := append([]byte(nil), line...)
	var got map[string]any
	if toJSON {
		x.resetRoot()
		if err := c.dec.DecodeToJson(x.root, cp); err != nil {
			return "rejected"
		}
		var bad string
		got, bad = decodeFlat(x.encodeRoot(), true)
		if bad != "" {
			return bad
		}
	} else {
		v, err := c.dec.Decode(cp)
		if err != nil {
			return "rejected"
		}
		got = row5424(v.(decoder.SyslogRFC5424Row))
	}
	k, _ := compareEvent(got, s.expect(c))
	return k
}

func row5424(row decoder.SyslogRFC5424Row) map[string]any {
	got := rowBase(row.SyslogRFC3164Row)
	if len(row.ProtoVersion) > 0 {
		got["proto_version"] = string(row.ProtoVersion)
	}
	if len(row.MsgID) > 0 {
		got["message_id"] = string(row.MsgID)
	}
	for id, ps := range row.StructuredData {
		if len(ps) == 0 {
			continue
		}
		m := map[string]any{}
		for k, v := range ps {
			m[k] = string(v)
		}
		if _, dup := got[id]; !dup { // an SD-ID equal to a header key only happens on lines the reference treats as ambiguous
			got[id] = m
		}
	}
	return got
}

func (f *s5424Fam) feed(x *exec, line []byte) {
	s, wellFormed := parse5424(line)
	if wellFormed && s.ambiguous() {
		wellFormed = false
		x.count("wellformed_but_ambiguous(skipped strict)", 1)
	}
	if wellFormed && s.hasParamless() {
		// "[id]" is valid RFC 5424 but the decoder's own tests document it as
		// rejected: nothing is demanded for such lines beyond totality
		wellFormed = false
		x.count("paramless_sd_element(skipped strict: documented by tests as invalid)", 1)
	}
	for _, c := range f.cfgs {
		var exp expectation
		if wellFormed {
			exp = s.expect(c)
		}
		for _, toJSON := range []bool{false, true} {
			label := c.label + "/Decode"
			if toJSON {
				label = c.label + "/DecodeToJson"
			}
			var out outcome
			if toJSON {
				x.resetRoot()
				out = x.call(label, line, func(data []byte) (any, error) { return nil, c.dec.DecodeToJson(x.root, data) })
			} else {
				out = x.call(label, line, func(data []byte) (any, error) { return c.dec.Decode(data) })
			}
			if !out.decided() {
				continue
			}
			var got map[string]any
			if out.err == nil {
				if toJSON {
					enc := x.encodeRoot()
					var bad string
					got, bad = decodeFlat(enc, true)
					if bad == "event-duplicate-keys" && !wellFormed {
						x.count("accepted_not_wellformed_duplicate_key", 1)
						continue
					}
					if bad != "" {
						x.violate("decoder=syslog_rfc5424 "+bad, "decoder returned nil error but the event is not well-formed: "+bad, label, line,
							map[string]any{"encoded": show(enc)}, false)
						continue
					}
					x.sample(map[string]any{"decoder": "syslog_rfc5424", "cfg": c.label, "input": show(line), "event": string(enc)})
				} else {
					row, ok := out.val.(decoder.SyslogRFC5424Row)
					if !ok {
						x.violate("decoder=syslog_rfc5424 Decode-result-type", fmt.Sprintf("Decode returned %T", out.val), label, line, nil, false)
						continue
					}
					got = row5424(row)
				}
			}
			checkSyslog(x, "syslog_rfc5424", label, line, exp, wellFormed, got, out.err, func(kind string) []attribution { return f.attribute(x, c, s, toJSON, kind) })
		}
	}
}
