package main

import (
	"fmt"
	"time"

	"github.com/ozontech/file.d/decoder"
	"github.com/ozontech/file.d/pipeline"
	"github.com/ozontech/file.d/plugin/input/fake"
	"github.com/ozontech/file.d/plugin/output/devnull"
	insaneJSON "github.com/ozontech/insane-json"
	"github.com/prometheus/client_golang/prometheus"
	"go.uber.org/zap"
)

// The `pipe` workload drives the same inputs through an action-less
// Pipeline.In (fake input, devnull output) and compares with the direct
// decoder call: rejected <=> EventSeqIDError and the event back in the pool,
// accepted <=> exactly one event at the output with the same content.

type pipeCfg struct {
	label   string
	decName string
	params  decoder.Params
	fam     func() family
	pool    pipeline.PoolType
	cutoff  int
	setup   func(f family)
}

var readmeLimits = map[string]int{"level": 3, "message": 5, "ts": 10}

func pipeCfgs() []*pipeCfg {
	return []*pipeCfg{
		{label: "json", decName: "json", fam: func() family { return newJSONFam() }, pool: pipeline.PoolTypeStd},
		{label: "json-max", decName: "json", params: decoder.Params{"json_max_fields_size": map[string]any{"level": 3, "message": 5, "ts": 10}},
			fam: func() family { return newJSONFam() }, pool: pipeline.PoolTypeLowMem,
			setup: func(f family) { jf := f.(*jsonFam); jf.lim = readmeLimits }},
		{label: "raw", decName: "raw", fam: func() family { return criFam{} }, pool: pipeline.PoolTypeStd},
		{label: "raw-cutoff", decName: "raw", fam: func() family { return newS5424Fam() }, pool: pipeline.PoolTypeLowMem, cutoff: 48},
		{label: "cri", decName: "cri", fam: func() family { return criFam{} }, pool: pipeline.PoolTypeStd},
		{label: "postgres", decName: "postgres", fam: func() family { return pgFam{} }, pool: pipeline.PoolTypeLowMem},
		{label: "nginx_error", decName: "nginx_error", params: decoder.Params{"nginx_with_custom_fields": true}, fam: func() family { return newNgxFam() }, pool: pipeline.PoolTypeStd},
		{label: "protobuf", decName: "protobuf", params: decoder.Params{"proto_file": protoContent, "proto_message": "MyMessage"}, fam: func() family { return newPBFam() }, pool: pipeline.PoolTypeStd},
		{label: "syslog_rfc3164", decName: "syslog_rfc3164", params: decoder.Params{"syslog_facility_format": "string"}, fam: func() family { return newS3164Fam() }, pool: pipeline.PoolTypeLowMem},
		{label: "syslog_rfc5424", decName: "syslog_rfc5424", params: decoder.Params{"syslog_severity_format": "string"}, fam: func() family { return newS5424Fam() }, pool: pipeline.PoolTypeStd},
		{label: "csv", decName: "csv", fam: func() family { return newCSVFam() }, pool: pipeline.PoolTypeStd},
		{label: "csv-cols", decName: "csv", params: decoder.Params{"columns": []any{"a", "b", "c"}, "prefix": "p_"}, fam: func() family { return newCSVFam() }, pool: pipeline.PoolTypeLowMem},
	}
}

type pipeRig struct {
	p     *pipeline.Pipeline
	outCh chan string
	cfg   *pipeCfg
}

func newPipeRig(c *pipeCfg, n int) *pipeRig {
	return newPipeRigLim(c, fmt.Sprintf("c12_%s_%d", c.decName, n), c.cutoff, c.cutoff > 0, "cutoff")
}

// newPipeRigLim builds the pipeline of c with the given size gate settings
// (max_event_size, cut_off_event_by_limit, cut_off_event_by_limit_field).
func newPipeRigLim(c *pipeCfg, name string, maxEventSize int, cutOff bool, marker string) *pipeRig {
	settings := &pipeline.Settings{
		Decoder:             c.decName,
		DecoderParams:       c.params,
		Capacity:            8,
		MaintenanceInterval: 5 * time.Second,
		EventTimeout:        pipeline.DefaultEventTimeout,
		Antispam:            pipeline.AntispamSettings{Threshold: pipeline.DefaultAntispamThreshold},
		AvgEventSize:        256,
		MetaCacheSize:       32,
		StreamField:         "stream",
		Pool:                c.pool,
		Metric:              &pipeline.MetricSettings{HoldDuration: pipeline.DefaultMetricHoldDuration, MaxLabelValueLength: pipeline.DefaultMetricMaxLabelValueLength},
	}
	settings.MaxEventSize = maxEventSize
	settings.CutOffEventByLimit = cutOff
	if cutOff {
		settings.CutOffEventByLimitField = marker
	}
	p := pipeline.New(name, settings, prometheus.NewRegistry(), zap.NewNop())
	anyIn, _ := fake.Factory()
	p.SetInput(&pipeline.InputPluginInfo{
		PluginStaticInfo:  &pipeline.PluginStaticInfo{Type: "fake"},
		PluginRuntimeInfo: &pipeline.PluginRuntimeInfo{Plugin: anyIn.(*fake.Plugin)},
	})
	anyOut, _ := devnull.Factory()
	out := anyOut.(*devnull.Plugin)
	p.SetOutput(&pipeline.OutputPluginInfo{
		PluginStaticInfo:  &pipeline.PluginStaticInfo{Type: "devnull"},
		PluginRuntimeInfo: &pipeline.PluginRuntimeInfo{Plugin: out},
	})
	rig := &pipeRig{p: p, outCh: make(chan string, 64), cfg: c}
	out.SetOutFn(func(e *pipeline.Event) { rig.outCh <- e.Root.EncodeToString() })
	p.Start()
	return rig
}

// waitIdle waits until every event is back in the pool. The bound is a
// watchdog only: its expiry is reported as inconclusive.
func (g *pipeRig) waitIdle() bool {
	deadline := time.Now().Add(20 * time.Second)
	for i := 0; ; i++ {
		if g.p.VerifPoolInUse() == 0 {
			return true
		}
		if time.Now().After(deadline) {
			return false
		}
		if i < 200 {
			time.Sleep(20 * time.Microsecond)
		} else {
			time.Sleep(time.Millisecond)
		}
	}
}

type directResult struct {
	panicked bool
	err      error
	enc      string // encoded event
	alt      string // second accepted encoding ("" if none)
}

// direct computes what the documented decoder API makes of the line.
func direct(c *pipeCfg, dec decoder.Decoder, root *insaneJSON.Root, line []byte) (res directResult) {
	return directLim(c, dec, root, line, c.cutoff, c.cutoff > 0)
}

// directLim: the same under max_event_size / cut_off_event_by_limit as the
// pipeline readme documents them: a line longer than the limit is discarded,
// or (cut-off on) only its first max_event_size bytes are passed further.
func directLim(c *pipeCfg, dec decoder.Decoder, root *insaneJSON.Root, line []byte, maxEventSize int, cutOff bool) (res directResult) {
	defer func() {
		if v := recover(); v != nil {
			res.panicked = true
		}
	}()
	data := append([]byte(nil), line...)
	if maxEventSize > 0 && len(data) > maxEventSize {
		if !cutOff {
			res.err = errOversized
			return res
		}
		nl := data[len(data)-1] == '\n'
		data = data[:maxEventSize]
		if nl {
			data = append(data, '\n')
		}
	}
	switch c.decName {
	case "raw":
		_ = root.DecodeString("{}")
		msg := data
		if n := len(msg); n > 0 && msg[n-1] == '\n' {
			msg = msg[:n-1]
			root.AddFieldNoAlloc(root, "message").MutateToBytesCopy(root, msg)
		} else {
			// no newline: the readme only says "writes raw log into event message
			// field"; Pipeline.In drops the last byte. Both accepted.
			root.AddFieldNoAlloc(root, "message").MutateToBytesCopy(root, msg)
			res.enc = root.EncodeToString()
			_ = root.DecodeString("{}")
			if len(msg) > 0 {
				root.AddFieldNoAlloc(root, "message").MutateToBytesCopy(root, msg[:len(msg)-1])
			}
			res.alt = root.EncodeToString()
			return res
		}
	case "cri":
		row, err := decoder.DecodeCRI(data)
		if err != nil {
			res.err = err
			return res
		}
		_ = root.DecodeString("{}")
		root.AddFieldNoAlloc(root, "log").MutateToBytesCopy(root, row.Log)
		root.AddFieldNoAlloc(root, "time").MutateToBytesCopy(root, row.Time)
		root.AddFieldNoAlloc(root, "stream").MutateToBytesCopy(root, row.Stream)
	case "postgres":
		_ = root.DecodeString("{}")
		if err := decoder.DecodePostgresToJson(root, data); err != nil {
			res.err = err
			return res
		}
	case "json", "protobuf":
		if err := dec.DecodeToJson(root, data); err != nil {
			res.err = err
			return res
		}
	default:
		_ = root.DecodeString("{}")
		if err := dec.DecodeToJson(root, data); err != nil {
			res.err = err
			return res
		}
	}
	res.enc = root.EncodeToString()
	return res
}

type pipeIn struct {
	Cfg   int    `json:"cfg"`
	Start int    `json:"start"`
	Count int    `json:"count"`
	Seed  uint64 `json:"seed"`
}

func runPipeChild(in pipeIn, x *exec) (inconclusive string) {
	c := pipeCfgs()[in.Cfg]
	x.fam = "pipeline:" + c.label
	f := c.fam()
	dec, err := decoder.New(decoder.TypeFromString(c.decName), c.params)
	if err != nil {
		panic(err)
	}
	droot := insaneJSON.Spawn()
	rigN := 0
	rig := newPipeRig(c, rigN)
	defer func() { rig.p.Stop() }()
	bp := &boundPass{x: x, c: c, dec: dec, droot: droot}
	lineEnd := "\n"
	if c.decName == "protobuf" {
		lineEnd = ""
	}

	feed := func(mut string, line []byte) bool {
		x.curMut = mut
		x.inputs++
		d := direct(c, dec, droot, line)
		if d.panicked {
			// reported by the direct workload; feeding it would only kill this child
			x.count("skipped_direct_call_panics", 1)
			return true
		}
		mud := len(line) == 0 || (len(line) == 1 && line[0] == '\n')
		if !rig.waitIdle() {
			inconclusive = "watchdog: pool not idle"
			return false
		}
		var seq uint64
		out := x.call("Pipeline.In", line, func(data []byte) (any, error) {
			seq = rig.p.In(1, "c12-source", pipeline.NewOffsets(int64(x.inputs), nil), data, false, nil)
			return nil, nil
		})
		if out.panicked {
			// the pipeline is in an undefined state now: replace it
			rigN++
			rig = newPipeRig(c, rigN)
			return true
		}
		if mud || d.err != nil {
			x.count("rejected", 1)
			if seq != pipeline.EventSeqIDError {
				x.violate("pipeline decoder="+c.label+" rejected-line-entered-pipeline", "the decoder rejects the line but Pipeline.In accepted it", "Pipeline.In", line, nil, false)
				select {
				case <-rig.outCh:
				case <-time.After(5 * time.Second):
				}
				return true
			}
			if n := rig.p.VerifPoolInUse(); n != 0 {
				x.violate("pipeline decoder="+c.label+" event-not-returned-to-pool-on-decode-error",
					fmt.Sprintf("after a rejected line %d event(s) remain taken from the pool", n), "Pipeline.In", line, nil, false)
				rigN++
				rig = newPipeRig(c, rigN)
			}
			x.fp("Pipeline.In", mut, "rejected")
			return true
		}
		if seq == pipeline.EventSeqIDError {
			x.violate("pipeline decoder="+c.label+" accepted-line-dropped", "the decoder accepts the line but Pipeline.In returned EventSeqIDError", "Pipeline.In", line,
				map[string]any{"direct": d.enc}, false)
			return true
		}
		var got string
		select {
		case got = <-rig.outCh:
		case <-time.After(20 * time.Second):
			inconclusive = "watchdog: event did not reach the output"
			return false
		}
		x.count("events_out", 1)
		if _, derr := parseJSON([]byte(d.enc)); derr != nil {
			x.count("direct_event_invalid_json(reported by the direct workload)", 1)
			return true
		}
		gt, gerr := parseJSON([]byte(got))
		if gerr != nil {
			x.violate("pipeline decoder="+c.label+" output-event-not-valid-json", "event at the output is not valid JSON", "Pipeline.In", line, map[string]any{"event": got}, false)
			return true
		}
		match := false
		for _, e := range []string{d.enc, d.alt} {
			if e == "" {
				continue
			}
			et, eerr := parseJSON([]byte(e))
			if eerr != nil {
				continue
			}
			ok, _, _ := jsonEqual(et, gt, "", func(p string, a, b *jnode) (bool, bool) {
				if p == "cutoff" {
					return true, true
				}
				return false, false
			})
			// the cut-off marker is the only field Pipeline.In may add here
			if ok || (c.cutoff > 0 && equalIgnoring(et, gt, "cutoff")) {
				match = true
				break
			}
		}
		if !match {
			x.violate("pipeline decoder="+c.label+" output-differs-from-decoder-result", "event at the output of an action-less pipeline differs from what the decoder yields", "Pipeline.In", line,
				map[string]any{"event": got, "direct": d.enc, "direct_alt": d.alt}, false)
			return true
		}
		if c.cutoff > 0 && len(line) > c.cutoff {
			if n := gt.get("cutoff"); n == nil || n.kind != jTrue {
				x.violate("pipeline decoder="+c.label+" cutoff-field-missing", "cut_off_event_by_limit_field not set on a cut event", "Pipeline.In", line, map[string]any{"event": got}, false)
			}
			x.count("cutoff_events", 1)
		}
		x.fp("Pipeline.In", mut, "out")
		x.sample(map[string]any{"pipeline": c.label, "input": show(line), "event": got})
		return true
	}

	for i := in.Start; i < in.Start+in.Count; i++ {
		r := newRng(mix(in.Seed, hashStr("pipe"), uint64(in.Cfg), uint64(i)))
		x.curCase = i
		f.begin(x, r)
		if c.setup != nil {
			c.setup(f)
		}
		if x.io != nil {
			x.io.Log(map[string]any{"workload": "pipe", "cfg": c.label, "case": i})
		}
		if i%4 == 0 {
			for _, h := range commonHostile[:16] {
				if !feed("hostile", h) {
					return inconclusive
				}
			}
		}
		for v := 0; v < 3; v++ {
			body, tag := f.valid(r)
			for _, t := range f.terminators() {
				if !feed("valid:"+tag+":"+termName(t), append(append([]byte(nil), body...), t...)) {
					return inconclusive
				}
			}
			base := append(append([]byte(nil), body...), lineEnd...)
			L := len(base)
			if L == 0 {
				continue
			}
			alpha := f.alphabet()
			for k := 0; k < 14; k++ {
				p := r.n(L)
				var line []byte
				mut := ""
				switch r.n(5) {
				case 0:
					line, mut = append(line, base[:p]...), "trunc"
				case 1:
					line, mut = append(append(line, base[:p]...), base[p+1:]...), "del:"+byteClass(base[p])
				case 2:
					line, mut = append(append(append(line, base[:p+1]...), base[p]), base[p+1:]...), "dup:"+byteClass(base[p])
				case 3:
					ch := alpha[r.n(len(alpha))]
					line, mut = append(append(append(line, base[:p]...), ch), base[p:]...), "ins:"+byteClass(ch)
				default:
					ch := alpha[r.n(len(alpha))]
					line = append(line, base...)
					line[p] = ch
					mut = "sub:" + byteClass(ch)
				}
				if !feed(mut, line) {
					return inconclusive
				}
			}
		}
		// size-gate boundary matrix over a reader buffer (bound.go); own PRNG
		// stream, so the cases above do not depend on it
		if inc := bp.run(f, newRng(mix(in.Seed, hashStr("pipe-bound"), uint64(in.Cfg), uint64(i)))); inc != "" {
			return inc
		}
	}
	if !rig.waitIdle() {
		return "watchdog: pool not idle at the end"
	}
	select {
	case extra := <-rig.outCh:
		x.violate("pipeline decoder="+c.label+" unexpected-extra-event", "an event reached the output that no accepted line accounts for", "Pipeline.In", nil, map[string]any{"event": extra}, false)
	default:
	}
	return ""
}

// equalIgnoring compares two objects ignoring one top-level key of b.
func equalIgnoring(a, b *jnode, key string) bool {
	if a.kind != jObj || b.kind != jObj {
		return false
	}
	c := &jnode{kind: jObj}
	for i, k := range b.keys {
		if k != key {
			c.keys = append(c.keys, k)
			c.vals = append(c.vals, b.vals[i])
		}
	}
	ok, _, _ := jsonEqual(a, c, "", nil)
	return ok
}
