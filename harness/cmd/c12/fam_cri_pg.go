package main

import (
	"fmt"
	"regexp"

	"github.com/ozontech/file.d/decoder"
)

// ================================================================ CRI
//
// Reference (decoder/readme.md, CRI logging format): a line is
//   <RFC3339Nano time> SP (stdout|stderr) SP <tags> SP <content>
// tags start with P (partial) or F (full). The event carries time, stream and
// the content; for partial lines the terminating newline is not content.

type criFam struct{}

func (criFam) name() string          { return "cri" }
func (criFam) begin(*exec, *rng)     {}
func (criFam) terminators() []string { return []string{"\n", ""} }
func (criFam) alphabet() string      { return "  PF:stdouterZT0123456789-.+\n\"{}\\" }
func (criFam) labels() []string      { return []string{"DecodeCRI"} }

func genCRITime(r *rng) string {
	frac := ""
	if r.pct(85) {
		frac = "." + r.digits(r.between(1, 9))
	}
	tz := "Z"
	if r.pct(15) {
		tz = fmt.Sprintf("%s%02d:%02d", pick(r, []string{"+", "-"}), r.n(15), pick(r, []int{0, 30}))
	}
	return fmt.Sprintf("%04d-%02d-%02dT%02d:%02d:%02d%s%s", r.between(1970, 2099), r.between(1, 12), r.between(1, 28), r.n(24), r.n(60), r.n(60), frac, tz)
}

func (criFam) valid(r *rng) ([]byte, string) {
	stream := pick(r, []string{"stdout", "stderr"})
	tag := pick(r, []string{"F", "F", "P", "P", "F:x", "P:y"})
	var content string
	shape := "text"
	switch r.n(8) {
	case 0:
		content, shape = "", "empty"
	case 1:
		content, shape = " ", "space"
	case 2:
		content, shape = `{"level":"info","msg":"`+r.text(4, `\"`)+`"}`, "json"
	case 3:
		content, shape = "  "+r.text(6, " :[]")+"  ", "padded"
	case 4:
		content, shape = genCRITime(r)+" "+stream+" F nested", "cri-inside"
	default:
		content = r.text(r.between(1, 12), " :=[]\"\\")
	}
	return []byte(genCRITime(r) + " " + stream + " " + tag + " " + content), tag[:1] + ":" + shape
}

var (
	criLineRe = regexp.MustCompile(`(?s)^([^ ]+) (stdout|stderr) ([PF](?::[^ ]*)?) (.*)$`)
	criTimeRe = regexp.MustCompile(`^\d{4}-\d\d-\d\dT\d\d:\d\d:\d\d(\.\d+)?(Z|[+-]\d\d:\d\d)$`)
)

type criExpect struct {
	time, stream string
	partial      bool
	log          alts
}

// criRef recognises a well-formed CRI line and returns the fields it carries.
func criRef(line []byte) (criExpect, bool) {
	m := criLineRe.FindSubmatch(line)
	if m == nil || !criTimeRe.Match(m[1]) {
		return criExpect{}, false
	}
	e := criExpect{time: string(m[1]), stream: string(m[2]), partial: m[3][0] == 'P'}
	rest := string(m[4])
	switch {
	case !e.partial:
		e.log = alts{rest}
	case len(rest) > 0 && rest[len(rest)-1] == '\n':
		e.log = alts{rest[:len(rest)-1]}
	case len(rest) == 0:
		e.log = alts{""}
	default:
		// a partial line that does not end in a newline is never produced by a
		// container runtime; "remove \n from log for partial logs" may then
		// remove the last content byte. Both outcomes are accepted.
		e.log = alts{rest, rest[:len(rest)-1]}
	}
	return e, true
}

func (f criFam) feed(x *exec, line []byte) {
	exp, wellFormed := criRef(line)
	var row decoder.CRIRow
	out := x.call("DecodeCRI", line, func(data []byte) (any, error) {
		var err error
		row, err = decoder.DecodeCRI(data)
		return nil, err
	})
	if !out.decided() {
		return
	}
	checkCRIRow(x, "DecodeCRI", line, out.data, exp, wellFormed, row, out.err)
}

func checkCRIRow(x *exec, label string, line, data []byte, exp criExpect, wellFormed bool, row decoder.CRIRow, err error) {
	if wellFormed {
		x.count("wellformed_checked", 1)
		if err != nil {
			x.violate("decoder=cri well-formed-line kind=rejected", "well-formed CRI line rejected: "+err.Error(), label, line, nil, false)
			return
		}
		got := map[string]any{"time": string(row.Time), "stream": string(row.Stream), "log": string(row.Log), "partial": fmt.Sprint(row.IsPartial)}
		if kind, detail := compareEvent(got, expectation{"time": one(exp.time), "stream": one(exp.stream), "log": exp.log, "partial": one(fmt.Sprint(exp.partial))}); kind != "" {
			x.violate("decoder=cri well-formed-line kind="+kind, "well-formed CRI line does not yield exactly its fields: "+detail, label, line, map[string]any{"got": got}, false)
		}
		if len(exp.log) > 1 && string(row.Log) != exp.log[0] {
			x.count("partial_without_newline_lost_last_byte(accepted)", 1)
		}
		return
	}
	if err != nil {
		return
	}
	x.count("accepted_not_wellformed", 1)
	// whatever the scanner accepted, the fields are pieces of this line
	for k, v := range map[string][]byte{"time": row.Time, "stream": row.Stream, "log": row.Log} {
		if !isSub(line, string(v)) {
			x.violate("decoder=cri field-not-from-line field="+k, fmt.Sprintf("field %s=%q is not a piece of the input line", k, v), label, line, nil, false)
		}
	}
}

// ================================================================ postgres
//
// Reference (doc comment of DecodePostgres and decoder/readme.md):
//   <date> <time> <tz> [<pid>] => [<n-m>] client=<c>,db=<d>,user=<u> <LEVEL>:  <log>

type pgFam struct{}

func (pgFam) name() string          { return "postgres" }
func (pgFam) begin(*exec, *rng)     {}
func (pgFam) terminators() []string { return []string{"\n", ""} }
func (pgFam) alphabet() string      { return "  []=,=>-:0123456789clientdbuserLOG\n\"" }
func (pgFam) labels() []string      { return []string{"DecodePostgres", "DecodePostgresToJson"} }

func (pgFam) valid(r *rng) ([]byte, string) {
	ts := fmt.Sprintf("%04d-%02d-%02d %02d:%02d:%02d", r.between(1990, 2099), r.between(1, 12), r.between(1, 28), r.n(24), r.n(60), r.n(60))
	shape := "plain"
	if r.pct(30) {
		ts += "." + r.digits(3)
		shape = "ms"
	}
	tz := pick(r, []string{"GMT", "UTC", "MSK", "CEST", "+03"})
	client := pick(r, []string{"test_client", "[local]", "10.0.0.1(5432)", "", "::1", r.from(alnum, r.between(1, 9))})
	if client == "" {
		shape += "+empty-client"
	}
	db := pick(r, []string{"test_db", "", "postgres", r.from(alnum+"_", r.between(1, 9))})
	user := pick(r, []string{"test_user", "", "postgres", r.from(alnum+"_", r.between(1, 9))})
	level := pick(r, []string{"LOG", "ERROR", "FATAL", "STATEMENT", "DETAIL", "WARNING", "HINT"})
	msg := r.text(r.between(0, 12), " =,[]:\"\\")
	if r.pct(20) {
		msg = `listening on Unix socket "/var/run/postgresql/.s.PGSQL.5432"`
	}
	if msg == "" {
		shape += "+empty-log"
	}
	line := fmt.Sprintf("%s %s [%s] => [%s-%s] client=%s,db=%s,user=%s %s:  %s", ts, tz, r.digits(r.between(1, 7)),
		r.digits(r.between(1, 4)), r.digits(r.between(1, 2)), client, db, user, level, msg)
	return []byte(line), shape
}

var pgRe = regexp.MustCompile(`(?s)^(\d{4}-\d\d-\d\d \d\d:\d\d:\d\d(?:\.\d+)? [A-Z0-9+\-]{1,6}) \[(\d+)\] => \[(\d+-\d+)\] client=([^,= ]*),db=([^,= ]*),user=([^,= ]*) ([A-Z]+):  (.*)$`)

func pgRef(line []byte) (expectation, bool) {
	m := pgRe.FindSubmatch(line)
	if m == nil {
		return nil, false
	}
	// every field is always present in the event, also when empty (readme
	// example lists all seven)
	return expectation{
		"time": one(string(m[1])), "pid": one(string(m[2])), "pid_message_number": one(string(m[3])),
		"client": one(string(m[4])), "db": one(string(m[5])), "user": one(string(m[6])), "log": one(string(m[8])),
	}, true
}

func (f pgFam) feed(x *exec, line []byte) {
	exp, wellFormed := pgRef(line)

	var row decoder.PostgresRow
	out := x.call("DecodePostgres", line, func(data []byte) (any, error) {
		var err error
		row, err = decoder.DecodePostgres(data)
		return nil, err
	})
	if out.decided() {
		got := map[string]any{}
		if out.err == nil {
			got = map[string]any{"time": string(row.Time), "pid": string(row.PID), "pid_message_number": string(row.PIDMessageNumber),
				"client": string(row.Client), "db": string(row.DB), "user": string(row.User), "log": string(row.Log)}
		}
		f.check(x, "DecodePostgres", line, exp, wellFormed, got, out.err)
	}

	x.resetRoot()
	out = x.call("DecodePostgresToJson", line, func(data []byte) (any, error) {
		return nil, decoder.DecodePostgresToJson(x.root, data)
	})
	if out.decided() {
		var got map[string]any
		if out.err == nil {
			var bad string
			got, bad = decodeFlat(x.encodeRoot(), false)
			if bad != "" {
				x.violate("decoder=postgres "+bad, "decoder returned nil error but the event is not well-formed: "+bad, "DecodePostgresToJson", line,
					map[string]any{"encoded": show(x.encodeRoot())}, false)
				return
			}
			x.sample(map[string]any{"decoder": "postgres", "input": show(line), "event": string(x.encodeRoot())})
		}
		f.check(x, "DecodePostgresToJson", line, exp, wellFormed, got, out.err)
	}
}

func (pgFam) check(x *exec, label string, line []byte, exp expectation, wellFormed bool, got map[string]any, err error) {
	if wellFormed {
		x.count("wellformed_checked", 1)
		if err != nil {
			x.violate("decoder=postgres well-formed-line kind=rejected", "well-formed postgres line rejected: "+err.Error(), label, line, nil, false)
			return
		}
		if kind, detail := compareEvent(got, exp); kind != "" {
			x.violate("decoder=postgres well-formed-line kind="+kind, "well-formed postgres line does not yield exactly its fields: "+detail, label, line, map[string]any{"got": got}, false)
		}
		return
	}
	if err != nil {
		return
	}
	x.count("accepted_not_wellformed", 1)
	for k, v := range got {
		s, _ := v.(string)
		if !knownKeys[k] {
			x.violate("decoder=postgres undocumented-field", "event has a field the readme does not list: "+k, label, line, nil, false)
		}
		if !pieceOf(line, s) {
			x.violate("decoder=postgres field-not-from-line field="+k, fmt.Sprintf("field %s=%q is not a piece of the input line", k, s), label, line, nil, false)
		}
	}
}
