package main

import (
	"bytes"
	"fmt"
	"os"
	"runtime"
	"strings"
	"sync"
	"unicode/utf8"
)

// ---------------------------------------------------------------- PRNG

// rng is a splitmix64 generator: cheap to seed per case, deterministic.
type rng struct{ s uint64 }

func newRng(seed uint64) *rng { return &rng{s: seed*0x9E3779B97F4A7C15 + 0x1234567} }

func mix(parts ...uint64) uint64 {
	h := uint64(0xcbf29ce484222325)
	for _, p := range parts {
		h ^= p
		h *= 0x100000001b3
		h ^= h >> 29
		h *= 0xbf58476d1ce4e5b9
		h ^= h >> 32
	}
	return h
}

func hashStr(s string) uint64 {
	h := uint64(0xcbf29ce484222325)
	for i := 0; i < len(s); i++ {
		h ^= uint64(s[i])
		h *= 0x100000001b3
	}
	return h
}

func (r *rng) u64() uint64 {
	r.s += 0x9E3779B97F4A7C15
	z := r.s
	z = (z ^ (z >> 30)) * 0xBF58476D1CE4E5B9
	z = (z ^ (z >> 27)) * 0x94D049BB133111EB
	return z ^ (z >> 31)
}

// n returns a number in [0,n).
func (r *rng) n(n int) int {
	if n <= 1 {
		return 0
	}
	return int(r.u64() % uint64(n))
}

// between returns a number in [lo,hi].
func (r *rng) between(lo, hi int) int { return lo + r.n(hi-lo+1) }

// pct is true with probability p/100.
func (r *rng) pct(p int) bool { return r.n(100) < p }

func pick[T any](r *rng, xs []T) T { return xs[r.n(len(xs))] }

func (r *rng) digits(n int) string {
	b := make([]byte, n)
	for i := range b {
		b[i] = byte('0' + r.n(10))
	}
	return string(b)
}

func (r *rng) from(alpha string, n int) string {
	b := make([]byte, n)
	for i := range b {
		b[i] = alpha[r.n(len(alpha))]
	}
	return string(b)
}

const (
	alnum  = "abcdefghijklmnopqrstuvwxyzABCDEFGHIJKLMNOPQRSTUVWXYZ0123456789"
	lower  = "abcdefghijklmnopqrstuvwxyz"
	digits = "0123456789"
)

var multibyte = []string{"é", "ж", "日本", "€", "😀", "ü", "中", " ", "ñ", "𝄞", "\u00a0"}

// text produces free text of about n "units" drawn from words, punctuation
// (given in extra) and multi-byte runes.
func (r *rng) text(n int, extra string) string {
	var sb strings.Builder
	for i := 0; i < n; i++ {
		switch k := r.n(10); {
		case k < 5:
			sb.WriteString(r.from(lower, r.between(1, 7)))
		case k < 6:
			sb.WriteString(r.digits(r.between(1, 4)))
		case k < 7:
			sb.WriteString(pick(r, multibyte))
		case k < 9 && extra != "":
			sb.WriteByte(extra[r.n(len(extra))])
		default:
			sb.WriteByte(' ')
		}
	}
	return sb.String()
}

// ---------------------------------------------------------------- canary arena

// arena hands the line to the code under test as a sub-slice buf[p:p+n] of a
// larger buffer: guard bytes before the line, spare capacity after it (so a
// stray append lands in the guard instead of reallocating) and more guard
// bytes after the capacity.
type arena struct {
	buf              []byte
	p, n, capEnd     int
	guardLo, guardHi int
}

const guardLen = 192

func newArena() *arena { return &arena{buf: make([]byte, 1<<18)} }

func guardByte(i int) byte { return byte(0x80 | (i*7+3)%0x7f) }

var spareChoices = []int{0, 0, 1, 2, 7, 64, 160}

// place copies line into the arena and returns the slice to give to the code
// under test (len n, cap n+spare).
func (a *arena) place(line []byte, r *rng) []byte {
	n := len(line)
	spare := spareChoices[r.n(len(spareChoices))]
	need := guardLen + 64 + n + spare + guardLen
	if need > len(a.buf) {
		a.buf = make([]byte, need*2)
	}
	p := guardLen + r.n(64)
	a.guardLo = p - guardLen
	a.p, a.n = p, n
	a.capEnd = p + n + spare
	a.guardHi = a.capEnd + guardLen
	for i := a.guardLo; i < p; i++ {
		a.buf[i] = guardByte(i)
	}
	copy(a.buf[p:], line)
	for i := p + n; i < a.guardHi; i++ {
		a.buf[i] = guardByte(i)
	}
	return a.buf[p : p+n : a.capEnd]
}

// check reports the first byte outside the line that changed.
func (a *arena) check() (ok bool, where string) {
	for i := a.guardLo; i < a.p; i++ {
		if a.buf[i] != guardByte(i) {
			return false, fmt.Sprintf("before-line(offset -%d)", a.p-i)
		}
	}
	for i := a.p + a.n; i < a.guardHi; i++ {
		if a.buf[i] != guardByte(i) {
			if i < a.capEnd {
				return false, fmt.Sprintf("after-line-within-capacity(offset +%d)", i-(a.p+a.n))
			}
			return false, fmt.Sprintf("after-capacity(offset +%d)", i-(a.p+a.n))
		}
	}
	return true, ""
}

// ---------------------------------------------------------------- panic sites

type panicInfo struct {
	Msg      string // panic value
	RepoFunc string // innermost frame inside github.com/ozontech/file.d (harness excluded)
	RepoFile string
	RepoLine int
	SrcText  string // trimmed source text of that line
	TopFunc  string // innermost non-runtime frame
}

const repoPrefix = "github.com/ozontech/file.d/"

// capturePanic must be called from the deferred function that recovered.
func capturePanic(v any) *panicInfo {
	pi := &panicInfo{Msg: fmt.Sprint(v)}
	if e, ok := v.(error); ok {
		pi.Msg = e.Error()
	}
	pcs := make([]uintptr, 64)
	n := runtime.Callers(2, pcs)
	frames := runtime.CallersFrames(pcs[:n])
	seenPanic := false
	for {
		f, more := frames.Next()
		fn := f.Function
		if !seenPanic {
			if strings.HasPrefix(fn, "runtime.gopanic") || strings.HasPrefix(fn, "runtime.panic") || strings.HasPrefix(fn, "runtime.goPanic") || fn == "runtime.sigpanic" {
				seenPanic = true
			}
			if !more {
				break
			}
			continue
		}
		if strings.HasPrefix(fn, "runtime.") {
			if !more {
				break
			}
			continue
		}
		if pi.TopFunc == "" {
			pi.TopFunc = shortFunc(fn)
		}
		if strings.HasPrefix(fn, repoPrefix) && pi.RepoFunc == "" {
			pi.RepoFunc = shortFunc(fn)
			pi.RepoFile = f.File
			pi.RepoLine = f.Line
			pi.SrcText = sourceLine(f.File, f.Line)
			break
		}
		if !more {
			break
		}
	}
	return pi
}

func shortFunc(fn string) string {
	fn = strings.TrimPrefix(fn, repoPrefix)
	fn = strings.TrimPrefix(fn, "github.com/ozontech/")
	return fn
}

var (
	srcMu    sync.Mutex
	srcCache = map[string][]string{}
)

func sourceLine(file string, line int) string {
	srcMu.Lock()
	defer srcMu.Unlock()
	ls, ok := srcCache[file]
	if !ok {
		b, err := os.ReadFile(file)
		if err == nil {
			ls = strings.Split(string(b), "\n")
		}
		srcCache[file] = ls
	}
	if line-1 < 0 || line-1 >= len(ls) {
		return ""
	}
	return strings.Join(strings.Fields(ls[line-1]), " ")
}

// normMsg replaces numbers by N so that a message classifies by shape.
func normMsg(m string) string {
	var b strings.Builder
	prev := false
	for _, r := range m {
		if r >= '0' && r <= '9' {
			if !prev {
				b.WriteByte('N')
			}
			prev = true
			continue
		}
		prev = false
		b.WriteRune(r)
	}
	s := b.String()
	if len(s) > 120 {
		s = s[:120]
	}
	return s
}

// ---------------------------------------------------------------- misc

// fffd normalises a byte string the way a JSON encoder/decoder pair does:
// each invalid UTF-8 byte becomes U+FFFD.
func fffd(s string) string {
	if utf8.ValidString(s) {
		return s
	}
	return string([]rune(s))
}

func show(b []byte) string {
	if len(b) > 300 {
		return fmt.Sprintf("%q…(%d bytes)", b[:300], len(b))
	}
	return fmt.Sprintf("%q", b)
}

func isSub(line []byte, v string) bool { return v == "" || bytes.Contains(line, []byte(v)) }

// pieceOf: is s a contiguous piece of the line? Event strings that went
// through the JSON encoder may have invalid UTF-8 bytes replaced by U+FFFD,
// so the line normalised the same way is accepted as well.
func pieceOf(line []byte, s string) bool {
	if s == "" || bytes.Contains(line, []byte(s)) {
		return true
	}
	if strings.ContainsRune(s, utf8.RuneError) {
		return true // replacement characters: the original bytes are unknown
	}
	return strings.Contains(fffd(string(line)), s)
}

// relation describes how got differs from exp (coarse, for signatures of
// off-by-one style defects).
func relation(got, exp string) string {
	switch {
	case got == exp:
		return "equal"
	case got == "":
		return "got-empty"
	case exp != "" && strings.HasPrefix(exp, got):
		return "got-shorter-at-end"
	case exp != "" && strings.HasSuffix(exp, got):
		return "got-shorter-at-start"
	case strings.Contains(exp, got):
		return "got-shorter-both-ends"
	case exp != "" && strings.HasPrefix(got, exp):
		return "got-longer-at-end"
	case exp != "" && strings.HasSuffix(got, exp):
		return "got-longer-at-start"
	case exp != "" && strings.Contains(got, exp):
		return "got-longer-both-ends"
	}
	return "other"
}
