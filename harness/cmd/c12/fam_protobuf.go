package main

import (
	"fmt"
	"os"
	"strconv"
	"strings"

	"github.com/ozontech/file.d/decoder"
)

// ================================================================ protobuf
//
// Schema: the one of decoder/protobuf_test.go (testdata/proto/valid.proto).
// Reference: a hand-written wire encoder (protobuf encoding spec) and the
// proto3 JSON mapping (json_name keys, 64-bit integers as strings, unset
// message fields omitted, default scalars and empty lists emitted).

const protoContent = `syntax = "proto3";

package test;
option go_package = "test.v1";

message Data {
  string stringData = 1 [json_name="string_data"];
  int32 intData = 2 [json_name="int_data"];
}

message MyMessage {
  message InternalData {
    repeated string myStrings = 1 [json_name="my_strings"];
    bool isValid = 2 [json_name="is_valid"];
  }

  Data data = 1;
  InternalData internalData = 2 [json_name="internal_data"];
  uint64 version = 3;
}
`

func repoDir() string {
	if d := os.Getenv("VERIF_REPO"); d != "" {
		return d
	}
	return "/repo"
}

type pbCfg struct {
	label string
	dec   decoder.Decoder
}

type pbFam struct {
	cfgs []*pbCfg
	cur  *pbMsg // message of the last valid() (expected value travels with the bytes)
	exp  map[string]string
}

func newPBFam() *pbFam {
	f := &pbFam{exp: map[string]string{}}
	for _, c := range []struct {
		label  string
		params decoder.Params
	}{
		{"inline", decoder.Params{"proto_file": protoContent, "proto_message": "MyMessage"}},
		{"file", decoder.Params{"proto_file": repoDir() + "/testdata/proto/valid.proto", "proto_message": "MyMessage"}},
		{"imports", decoder.Params{"proto_file": "with_imports.proto", "proto_message": "MyMessage", "proto_import_paths": []any{repoDir() + "/testdata/proto"}}},
	} {
		d, err := decoder.New(decoder.PROTOBUF, c.params)
		if err != nil {
			panic("protobuf decoder " + c.label + ": " + err.Error())
		}
		f.cfgs = append(f.cfgs, &pbCfg{label: c.label, dec: d})
	}
	return f
}

func (*pbFam) name() string          { return "protobuf" }
func (*pbFam) begin(*exec, *rng)     {}
func (*pbFam) terminators() []string { return []string{""} }
func (*pbFam) alphabet() string {
	return "\x00\x01\x02\x08\x0a\x10\x12\x18\x1a\x7f\x80\xff\x0a\x12a"
}
func (f *pbFam) labels() []string {
	var l []string
	for _, c := range f.cfgs {
		l = append(l, c.label+"/Decode", c.label+"/DecodeToJson")
	}
	return l
}

type pbMsg struct {
	hasData     bool
	str         string
	i32         int32
	hasInternal bool
	strs        []string
	valid       bool
	version     uint64
}

func varint(b []byte, v uint64) []byte {
	for v >= 0x80 {
		b = append(b, byte(v)|0x80)
		v >>= 7
	}
	return append(b, byte(v))
}

func tag(b []byte, field, wt int) []byte { return varint(b, uint64(field<<3|wt)) }

func lenDelim(b []byte, field int, payload []byte) []byte {
	b = tag(b, field, 2)
	b = varint(b, uint64(len(payload)))
	return append(b, payload...)
}

func unknownField(b []byte, r *rng) []byte {
	switch r.n(4) {
	case 0:
		return varint(tag(b, 15, 0), r.u64())
	case 1:
		return lenDelim(b, 14, []byte(r.from(alnum, r.n(9))))
	case 2:
		return append(tag(b, 13, 5), 1, 2, 3, 4)
	default:
		return append(tag(b, 12, 1), 1, 2, 3, 4, 5, 6, 7, 8)
	}
}

// encode writes the message; explicit: also write default-valued scalars.
func (m *pbMsg) encode(r *rng) ([]byte, string) {
	shape := []string{}
	explicit := r.pct(30)
	unknown := r.pct(25)
	var parts [][]byte
	if m.hasData {
		var d []byte
		a := func() {
			if m.str != "" || explicit {
				d = lenDelim(d, 1, []byte(m.str))
			}
		}
		b := func() {
			if m.i32 != 0 || explicit {
				d = varint(tag(d, 2, 0), uint64(int64(m.i32))) // negative int32: sign-extended to 10 bytes
			}
		}
		if r.pct(50) {
			a()
			b()
		} else {
			b()
			a()
		}
		if unknown && r.pct(50) {
			d = unknownField(d, r)
		}
		parts = append(parts, lenDelim(nil, 1, d))
		shape = append(shape, "data")
	}
	if m.hasInternal {
		var d []byte
		boolFirst := r.pct(30)
		wb := func() {
			if m.valid || explicit {
				v := uint64(0)
				if m.valid {
					v = 1
				}
				d = varint(tag(d, 2, 0), v)
			}
		}
		if boolFirst {
			wb()
		}
		for _, s := range m.strs {
			d = lenDelim(d, 1, []byte(s))
		}
		if !boolFirst {
			wb()
		}
		parts = append(parts, lenDelim(nil, 2, d))
		shape = append(shape, fmt.Sprintf("internal%d", len(m.strs)))
	}
	if m.version != 0 || explicit {
		parts = append(parts, varint(tag(nil, 3, 0), m.version))
		shape = append(shape, "version")
	}
	if unknown {
		parts = append(parts, unknownField(nil, r))
		shape = append(shape, "unknown")
	}
	for i := len(parts) - 1; i > 0; i-- {
		j := r.n(i + 1)
		parts[i], parts[j] = parts[j], parts[i]
	}
	var out []byte
	for _, p := range parts {
		out = append(out, p...)
	}
	if len(out) == 0 {
		shape = append(shape, "empty")
	}
	if explicit {
		shape = append(shape, "explicit-defaults")
	}
	if m.i32 < 0 {
		shape = append(shape, "negative")
	}
	return out, strings.Join(shape, "+")
}

func jsonQuote(s string) string {
	g := &jgen{}
	g.rawString(s, 0)
	return string(g.sb)
}

func (m *pbMsg) expectedJSON() string {
	var parts []string
	if m.hasData {
		parts = append(parts, fmt.Sprintf(`"data":{"string_data":%s,"int_data":%d}`, jsonQuote(m.str), m.i32))
	}
	if m.hasInternal {
		qs := make([]string, len(m.strs))
		for i, s := range m.strs {
			qs[i] = jsonQuote(s)
		}
		parts = append(parts, fmt.Sprintf(`"internal_data":{"my_strings":[%s],"is_valid":%v}`, strings.Join(qs, ","), m.valid))
	}
	parts = append(parts, `"version":"`+strconv.FormatUint(m.version, 10)+`"`)
	return "{" + strings.Join(parts, ",") + "}"
}

func (f *pbFam) valid(r *rng) ([]byte, string) {
	m := &pbMsg{}
	if r.pct(80) {
		m.hasData = true
		m.str = pick(r, []string{"my_string", "", r.text(r.n(6), "\"\\<>&"), r.from(alnum, r.n(200))})
		m.i32 = pick(r, []int32{0, 1, 123, -1, -123456, 2147483647, -2147483648, int32(r.n(100000))})
	}
	if r.pct(80) {
		m.hasInternal = true
		n := r.n(4)
		for i := 0; i < n; i++ {
			m.strs = append(m.strs, pick(r, []string{"str1", "str2", "", r.text(2, "\"")}))
		}
		m.valid = r.pct(50)
	}
	m.version = pick(r, []uint64{0, 1, 10, 1 << 32, 1<<64 - 1, 9007199254740993, r.u64()})
	b, shape := m.encode(r)
	f.exp[string(b)] = m.expectedJSON()
	if len(f.exp) > 64 {
		for k := range f.exp {
			if k != string(b) {
				delete(f.exp, k)
				break
			}
		}
	}
	return b, shape
}

func (f *pbFam) feed(x *exec, line []byte) {
	expText, wellFormed := f.exp[string(line)]
	var expTree *jnode
	if wellFormed {
		expTree, _ = parseJSON([]byte(expText))
	}
	for _, c := range f.cfgs {
		var trees [2]*jnode
		for e, viaDecode := range []bool{true, false} {
			label := c.label + "/DecodeToJson"
			if viaDecode {
				label = c.label + "/Decode"
			}
			var out outcome
			if viaDecode {
				out = x.call(label, line, func(data []byte) (any, error) { return c.dec.Decode(data) })
			} else {
				// Pipeline.In does not reset the root for protobuf; make stale
				// content visible
				_ = x.root.DecodeString(`{"stale":"previous event"}`)
				out = x.call(label, line, func(data []byte) (any, error) { return nil, c.dec.DecodeToJson(x.root, data) })
			}
			if !out.decided() {
				continue
			}
			if out.err != nil {
				if wellFormed {
					x.count("wellformed_checked", 1)
					x.violate("decoder=protobuf well-formed-message kind=rejected", "well-formed protobuf message rejected: "+errClass(out.err), label, line, map[string]any{"expected": expText}, false)
				}
				continue
			}
			var enc []byte
			if viaDecode {
				b, ok := out.val.([]byte)
				if !ok {
					x.violate("decoder=protobuf Decode-result-type", fmt.Sprintf("Decode returned %T", out.val), label, line, nil, false)
					continue
				}
				enc = b
			} else {
				enc = x.encodeRoot()
			}
			tree, err := parseJSON(enc)
			if err != nil || tree.kind != jObj {
				x.violate("decoder=protobuf event-not-valid-json", "decoder returned nil error but the event is not a valid JSON object", label, line, map[string]any{"encoded": show(enc)}, false)
				continue
			}
			if tree.get("stale") != nil {
				x.violate("decoder=protobuf stale-root-content", "DecodeToJson left the previous content of the root in place", label, line, map[string]any{"encoded": show(enc)}, false)
				continue
			}
			trees[e] = tree
			if wellFormed {
				x.count("wellformed_checked", 1)
				if ok, path, reason := jsonEqual(expTree, tree, "", nil); !ok {
					x.violate("decoder=protobuf well-formed-message kind=differs:"+reason, "well-formed protobuf message does not yield exactly its fields (proto3 JSON mapping) at "+path, label, line,
						map[string]any{"expected": expText, "encoded": show(enc)}, false)
				} else if !viaDecode {
					x.sample(map[string]any{"decoder": "protobuf", "cfg": c.label, "input": show(line), "event": string(enc)})
				}
			} else {
				x.count("accepted_not_wellformed", 1)
			}
		}
		if trees[0] != nil && trees[1] != nil {
			if ok, path, reason := jsonEqual(trees[0], trees[1], "", nil); !ok {
				x.violate("decoder=protobuf Decode-vs-DecodeToJson-differ:"+reason, "Decode and DecodeToJson disagree at "+path, c.label+"/DecodeToJson", line, nil, false)
			}
		}
	}
}
