package main

import (
	"fmt"
	"sort"
	"strings"
	"sync"

	insaneJSON "github.com/ozontech/insane-json"
)

// Concurrent stress of the json decoder with several json_max_fields_size
// entries. Pipeline.In is called concurrently by the input's readers and all
// of them share p.decoder; with >= 2 entries the decoder keeps the cut
// positions in a slice shared by all callers (guarded by a mutex). Per case:
// decoders with 2, 3 and 4 entries whose fields all need cutting, 24 documents
// of very different lengths and field positions, 8 goroutines that each prefer
// another part of the documents, many rounds; every outcome (event, rejection,
// panic) is compared with the outcome of the same document decoded alone.

const (
	stressGoroutines = 8
	stressDocs       = 24
)

type stresser interface {
	stress(x *exec, r *rng)
}

type stressCfg struct {
	label  string
	limits map[string]int
	paths  []string
}

// stressDoc writes an object that contains every named path as a string
// longer than its limit, at a random position among filler members of very
// different sizes.
func stressDoc(r *rng, limits map[string]int, size int) []byte {
	g := &jgen{r: r}
	type member struct {
		key string
		pt  *pathTree
	}
	var write func(pt *pathTree, depth int)
	filler := func() {
		switch r.n(4) {
		case 0:
			g.sb = append(g.sb, pick(r, jsonNumbers)...)
		case 1:
			g.sb = append(g.sb, `{"in":[1,2,{"x":"y"}]}`...)
		default:
			g.rawString(g.content(r.n(size+1), r.n(3)), r.n(2))
		}
	}
	write = func(pt *pathTree, depth int) {
		var ms []member
		for k, kid := range pt.kids {
			ms = append(ms, member{k, kid})
		}
		sort.Slice(ms, func(a, b int) bool { return ms[a].key < ms[b].key })
		for i, n := 0, r.n(5); i < n; i++ {
			ms = append(ms, member{fmt.Sprintf("f%d_%d", depth, i), nil})
		}
		for i := len(ms) - 1; i > 0; i-- {
			j := r.n(i + 1)
			ms[i], ms[j] = ms[j], ms[i]
		}
		g.sb = append(g.sb, '{')
		for i, m := range ms {
			if i > 0 {
				g.sb = append(g.sb, ',')
			}
			g.ws()
			g.rawString(m.key, 0)
			g.sb = append(g.sb, ':')
			g.ws()
			switch {
			case m.pt == nil:
				filler()
			case m.pt.limit < 0:
				write(m.pt, depth+1)
			default:
				n := m.pt.limit + 1 + r.n(size+1)
				g.rawString(g.content(n, r.n(3)), pick(r, []int{0, 0, 1}))
			}
		}
		g.sb = append(g.sb, '}')
	}
	write(buildPathTree(limits), 0)
	if r.pct(50) {
		g.sb = append(g.sb, '\n')
	}
	return g.sb
}

func (f *jsonFam) stress(x *exec, r *rng) {
	if x.only != "" {
		return
	}
	perm := append([]string(nil), jsonPathPool...)
	for i := len(perm) - 1; i > 0; i-- {
		j := r.n(i + 1)
		perm[i], perm[j] = perm[j], perm[i]
	}
	for n := 2; n <= 4; n++ {
		limits := map[string]int{}
		for _, p := range perm[:n] {
			limits[p] = pick(r, []int{0, 1, 2, 3, 5, 8, 13})
		}
		dec := mkJSONDec(limits)
		label := fmt.Sprintf("max%d-concurrent", n)
		// documents from a few dozen bytes to ~20 kB
		docs := make([][]byte, stressDocs)
		for i := range docs {
			docs[i] = stressDoc(r, limits, pick(r, []int{0, 3, 10, 40, 150, 600, 2500, 6000}))
		}
		type entryFn func(root *insaneJSON.Root, data []byte) string
		run := func(viaDecode bool) entryFn {
			return func(root *insaneJSON.Root, data []byte) (res string) {
				defer func() {
					if v := recover(); v != nil {
						res = "panic: " + normMsg(fmt.Sprint(v))
					}
				}()
				if viaDecode {
					_ = root.DecodeString("{}")
					v, err := dec.Decode(data, root)
					if err != nil {
						return "rejected: " + errClass(err)
					}
					node, _ := v.(*insaneJSON.Node)
					if node == nil {
						return "no node"
					}
					return "ok:" + node.EncodeToString()
				}
				if err := dec.DecodeToJson(root, data); err != nil {
					return "rejected: " + errClass(err)
				}
				return "ok:" + root.EncodeToString()
			}
		}
		entries := []struct {
			name string
			fn   entryFn
		}{{"DecodeToJson", run(false)}, {"Decode", run(true)}}

		// the outcome of every document decoded alone
		ref := make([][]string, len(docs))
		seqRoot := insaneJSON.Spawn()
		cuts := 0
		for i, d := range docs {
			ref[i] = make([]string, len(entries))
			for j, e := range entries {
				ref[i][j] = e.fn(seqRoot, append([]byte(nil), d...))
				x.evals++
			}
			if strings.HasPrefix(ref[i][0], "ok:") && len(ref[i][0]) < len(d) {
				cuts++
			}
		}
		insaneJSON.Release(seqRoot)
		x.count("stress_sequential_docs_cut", int64(cuts))

		rounds := 24 // x 24 documents per goroutine (entry drawn at random)
		type bad struct {
			di, ej int
			got    string
		}
		var mu sync.Mutex
		var found []bad
		var wg sync.WaitGroup
		for g := 0; g < stressGoroutines; g++ {
			wg.Add(1)
			go func(g int) {
				defer wg.Done()
				root := insaneJSON.Spawn()
				defer insaneJSON.Release(root)
				rr := newRng(mix(uint64(g), uint64(n), uint64(len(docs[0]))))
				buf := make([]byte, 0, 1<<15)
				for k := 0; k < rounds*len(docs); k++ {
					// each goroutine mostly works on "its" three documents (different
					// sizes per goroutine) and sometimes on any other
					di := (g*3 + rr.n(3)) % len(docs)
					if rr.pct(25) {
						di = rr.n(len(docs))
					}
					ej := rr.n(len(entries))
					buf = append(buf[:0], docs[di]...)
					if got := entries[ej].fn(root, buf); got != ref[di][ej] {
						mu.Lock()
						if len(found) < 50 {
							found = append(found, bad{di, ej, got})
						}
						mu.Unlock()
					}
				}
			}(g)
		}
		wg.Wait()
		calls := int64(stressGoroutines * rounds * len(docs))
		x.evals += calls
		x.count("stress_concurrent_decodes", calls)
		x.fp(label, "stress", fmt.Sprint("entries=", n))
		for _, b := range found {
			kind := "different-event"
			switch {
			case strings.HasPrefix(b.got, "panic"):
				kind = "panic"
			case strings.HasPrefix(b.got, "rejected"):
				kind = "rejected"
			}
			x.count("stress_mismatch_"+kind, 1)
			x.violate(fmt.Sprintf("decoder=json concurrent-decode-differs-from-sequential entry=%s", entries[b.ej].name),
				fmt.Sprintf("with %d goroutines sharing one json decoder (%d json_max_fields_size entries) a document decodes differently than alone (%s)", stressGoroutines, n, kind),
				label+"/"+entries[b.ej].name, docs[b.di], map[string]any{"limits": limits, "sequential": Trunc(ref[b.di][b.ej], 500), "concurrent": Trunc(b.got, 500), "kind": kind}, false)
		}
	}
}
