// C12 — decoders are total and faithful.
//
// Runtime monitoring of the real decoders of /repo (decoder.New(...) API,
// decoder.DecodeCRI / DecodePostgres(ToJson), and Pipeline.In): generated
// well-formed lines, every single-byte truncation / deletion / duplication of
// them, delimiter-heavy random bytes; each input is handed over as a
// sub-slice of a canary-guarded buffer. Oracles: no panic / process death,
// no byte changed outside the line, nil error => event encodes to valid JSON,
// reference recognisers written from the readme / RFCs => exactly the fields,
// JSON fidelity, json_max_fields_size semantics. See NOTES.md.
package main

import (
	"encoding/json"
	"fmt"
	"os"
	"sort"
	"strings"
	"sync"
	"time"

	"verifharness/core"
)

type directIn struct {
	Family    string `json:"family"`
	Start     int    `json:"start"`
	Count     int    `json:"count"`
	Seed      uint64 `json:"seed"`
	Fine      bool   `json:"fine,omitempty"`
	Single    bool   `json:"single,omitempty"`
	Case      int    `json:"case,omitempty"`
	Cfg       string `json:"cfg,omitempty"`
	Input     []byte `json:"input,omitempty"`
	NoRecover bool   `json:"no_recover,omitempty"`
}

type childOut struct {
	Evals        int64            `json:"evals"`
	Inputs       int64            `json:"inputs"`
	Counters     map[string]int64 `json:"counters"`
	Fps          []string         `json:"fps"`
	Viols        []*viol          `json:"viols"`
	Samples      []any            `json:"samples"`
	Labels       []string         `json:"labels"`
	Inconclusive string           `json:"inconclusive,omitempty"`
}

var familyNames = []string{"json", "csv", "syslog_rfc5424", "syslog_rfc3164", "nginx_error", "cri", "postgres", "protobuf"}

func famByName(n string) family {
	switch n {
	case "json":
		return newJSONFam()
	case "csv":
		return newCSVFam()
	case "syslog_rfc5424":
		return newS5424Fam()
	case "syslog_rfc3164":
		return newS3164Fam()
	case "nginx_error":
		return newNgxFam()
	case "cri":
		return criFam{}
	case "postgres":
		return pgFam{}
	case "protobuf":
		return newPBFam()
	}
	panic("unknown family " + n)
}

func caseSeed(seed uint64, fam string, i int) uint64 { return mix(seed, hashStr(fam), uint64(i)) }

func (x *exec) result(labels []string) *childOut {
	out := &childOut{Evals: x.evals, Inputs: x.inputs, Counters: x.counters, Samples: x.samples, Labels: labels}
	for fp := range x.fps {
		out.Fps = append(out.Fps, fp)
	}
	for _, v := range x.viols {
		out.Viols = append(out.Viols, v)
	}
	return out
}

func directChild(raw json.RawMessage, io *core.ChildIO) (any, error) {
	var in directIn
	if err := json.Unmarshal(raw, &in); err != nil {
		return nil, err
	}
	x := newExec(in.Family, in.Seed)
	x.io = io
	f := famByName(in.Family)
	if in.Single {
		x.only, x.noRecover, x.fine = in.Cfg, in.NoRecover, true
		x.curCase = in.Case
		f.begin(x, newRng(caseSeed(in.Seed, in.Family, in.Case)))
		x.curMut = "single"
		f.feed(x, in.Input)
		return x.result(f.labels()), nil
	}
	x.fine = in.Fine
	for i := in.Start; i < in.Start+in.Count; i++ {
		io.Log(map[string]any{"workload": "direct", "family": in.Family, "case": i})
		runCase(x, f, caseSeed(in.Seed, in.Family, i), i)
	}
	return x.result(f.labels()), nil
}

func pipeChild(raw json.RawMessage, io *core.ChildIO) (any, error) {
	var in pipeIn
	if err := json.Unmarshal(raw, &in); err != nil {
		return nil, err
	}
	x := newExec("pipeline", in.Seed)
	x.io = io
	inc := runPipeChild(in, x)
	out := x.result([]string{"Pipeline.In"})
	out.Inconclusive = inc
	return out, nil
}

// ---------------------------------------------------------------- parent

type merger struct {
	mu      sync.Mutex
	c       *core.Ctx
	viols   map[string]*viol
	labels  map[string][]string
	samples map[string]int
}

func (m *merger) add(fam string, out *childOut) {
	m.mu.Lock()
	defer m.mu.Unlock()
	m.c.Eval(int(out.Evals))
	m.c.Count("inputs", out.Inputs)
	for k, v := range out.Counters {
		m.c.Count(k, v)
	}
	for _, fp := range out.Fps {
		m.c.Nontrivial(fp)
	}
	if m.samples[fam] < 1 {
		for _, s := range out.Samples {
			if m.samples[fam] < 1 {
				m.c.Sample(s)
				m.samples[fam]++
			}
		}
	}
	if len(out.Labels) > 0 {
		m.labels[fam] = out.Labels
	}
	for _, v := range out.Viols {
		if old := m.viols[v.Sig]; old != nil {
			n := old.Count + v.Count
			if len(v.Input) < len(old.Input) || (len(v.Input) == len(old.Input) && string(v.Input) < string(old.Input)) {
				m.viols[v.Sig] = v
			}
			m.viols[v.Sig].Count = n
		} else {
			m.viols[v.Sig] = v
		}
	}
}

var childEnv = []string{"LOG_LEVEL=fatal"}

func parseOut(res *core.ChildResult) *childOut {
	var out childOut
	if err := json.Unmarshal(res.Out, &out); err != nil {
		return nil
	}
	return &out
}

// runDirect runs cases [start,start+count) of a family; a child that dies
// (unrecoverable crash) is attributed through its command log, the case is
// re-run alone with per-call logging to pinpoint and confirm the input, and
// the remaining cases continue in a new child.
func runDirect(c *core.Ctx, m *merger, fam string, start, count int, seed uint64) {
	for count > 0 {
		res := core.RunChild("direct", directIn{Family: fam, Start: start, Count: count, Seed: seed}, core.ChildOpt{Timeout: 20 * time.Minute, Env: childEnv})
		if res.TimedOut {
			c.Inconclusive("watchdog: direct child " + fam)
			return
		}
		if res.Completed {
			if out := parseOut(res); out != nil {
				m.add(fam, out)
			} else {
				c.Inconclusive("unreadable child output " + fam)
			}
			return
		}
		// crashed
		var last struct {
			Case *int `json:"case"`
		}
		_ = json.Unmarshal(res.LastLog(), &last)
		if last.Case == nil {
			c.Inconclusive("child died before the first case: " + core.Trunc(res.Stderr, 300))
			return
		}
		idx := *last.Case
		c.Count("child_crashes", 1)
		fine := core.RunChild("direct", directIn{Family: fam, Start: idx, Count: 1, Seed: seed, Fine: true}, core.ChildOpt{Timeout: 20 * time.Minute, Env: childEnv})
		if fine.Crashed() {
			var call struct {
				Cfg   string `json:"cfg"`
				Input []byte `json:"input"`
				Q     string `json:"q"`
			}
			_ = json.Unmarshal(fine.LastLog(), &call)
			msg, site := core.PanicSite(fine.Stderr)
			sig := fmt.Sprintf("decoder=%s process-death msg=`%s` site=%s", fam, core.NormalizeMsg(msg), stripLine(site))
			c.Violation(sig, "the process died inside a decoder call (not recoverable): "+msg,
				map[string]any{"family": fam, "cfg": call.Cfg, "input_base64": call.Input, "input_quoted": call.Q, "case": idx, "seed": seed,
					"exit": fine.ExitCode, "signal": fine.Signal, "stderr_tail": core.Trunc(tail(fine.Stderr, 1500), 1500)})
		} else if fine.TimedOut {
			c.Inconclusive("watchdog: pinpoint child " + fam)
		} else {
			c.Inconclusive("child crash not reproduced on the single case: " + core.Trunc(tail(res.Stderr, 300), 300))
			if out := parseOut(fine); out != nil {
				m.add(fam, out)
			}
		}
		// cases before idx of the dead child are lost with its counters: redo them
		if idx > start {
			runDirect(c, m, fam, start, idx-start, seed)
		}
		count -= idx + 1 - start
		start = idx + 1
	}
}

func stripLine(site string) string {
	if i := strings.LastIndexByte(site, ':'); i > 0 {
		return site[:i]
	}
	return site
}

func tail(s string, n int) string {
	if len(s) > n {
		return s[len(s)-n:]
	}
	return s
}

func runPipe(c *core.Ctx, m *merger, cfg, start, count int, seed uint64) {
	label := pipeCfgs()[cfg].label
	res := core.RunChild("pipe", pipeIn{Cfg: cfg, Start: start, Count: count, Seed: seed}, core.ChildOpt{Timeout: 20 * time.Minute, Env: childEnv})
	switch {
	case res.TimedOut:
		c.Inconclusive("watchdog: pipe child " + label)
	case res.Completed:
		out := parseOut(res)
		if out == nil {
			c.Inconclusive("unreadable child output pipe " + label)
			return
		}
		if out.Inconclusive != "" {
			c.Inconclusive(out.Inconclusive)
		}
		m.add("pipeline:"+label, out)
	default:
		msg, site := core.PanicSite(res.Stderr)
		c.Count("child_crashes", 1)
		// re-run once to confirm that the death is deterministic
		again := core.RunChild("pipe", pipeIn{Cfg: cfg, Start: start, Count: count, Seed: seed}, core.ChildOpt{Timeout: 20 * time.Minute, Env: childEnv})
		if again.Crashed() {
			msg2, site2 := core.PanicSite(again.Stderr)
			if core.NormalizeMsg(msg2) == core.NormalizeMsg(msg) && stripLine(site2) == stripLine(site) {
				c.Violation(fmt.Sprintf("pipeline decoder=%s process-death msg=`%s` site=%s", label, core.NormalizeMsg(msg), stripLine(site)),
					"the process died while Pipeline.In handled a line the direct decoder call survives: "+msg,
					map[string]any{"cfg": label, "last_log": res.LastLog(), "seed": seed, "stderr_tail": core.Trunc(tail(res.Stderr, 1500), 1500)})
				return
			}
		}
		c.Inconclusive("pipe child crash not reproduced: " + core.Trunc(tail(res.Stderr, 300), 300))
	}
}

func run(c *core.Ctx) {
	c.SetRule("per decoder family (json, csv, syslog_rfc5424, syslog_rfc3164, nginx_error, cri, postgres, protobuf; raw via Pipeline.In) a case = 3 grammar-generated " +
		"well-formed lines with every terminator + every truncation / single-byte deletion / duplication of the first one + suffixes, 48 substitutions and 48 insertions " +
		"from a delimiter-heavy alphabet, glued/repeated chunks, 32 random byte strings and (every 8th case) a fixed hostile corpus; every input goes to every parameter set " +
		"and both Decode and DecodeToJson through a canary-guarded sub-slice; one evaluation = one decoder call; a fingerprint = family|params/entry|how the input was " +
		"derived (mutation kind + class of the touched byte, or shape of the valid line)|outcome (ok / error class / panic / cut class); results-stay-valid: every well-formed line and every 4th " +
		"other input is decoded once more per entry point with its own buffer and root, the last 5 results per entry stay alive and are re-encoded after every later decode; " +
		"per case 4 goroutines share the decoder instances over up to 40 of these lines; pipeline size gate: per pipeline case one well-formed line (LF / no LF) and one damaged copy, " +
		"handed to the real Pipeline.In as a sub-slice of a reader buffer (previous record, two following records, canaries; capacity to the end of the buffer or 0/1/2/7 bytes) " +
		"under max_event_size in {0, small, len-2 … len+2} x cut_off_event_by_limit off/on (one pipeline each); every byte outside the record is compared after In returned and after the event was finalized")
	c.Assume("the reference recognisers (regular expressions / small parsers written from decoder/readme.md, RFC 3164, RFC 5424, RFC 4180, RFC 8259, the CRI log format and the protobuf wire/JSON specs) define 'well-formed'; lines they do not recognise are only required to be handled totally")
	c.Assume("a recovered panic in a directly called decoder function is a process crash in production (Pipeline.In has no recover); the first witness of every panic signature is confirmed by a child that does not recover")
	c.Assume("a row returned by Decode may alias the caller's line (the caller keeps that buffer untouched while it uses the row); an event filled by DecodeToJson must not (the line buffer is overwritten right after the call)")
	c.Assume("invalid_line_mode=fatal exiting the process is documented behaviour and is never provoked")
	c.Assume("watchdog expiries are inconclusive, never violations")

	seed := uint64(c.Seed)
	m := &merger{c: c, viols: map[string]*viol{}, labels: map[string][]string{}, samples: map[string]int{}}

	casesPer := map[string]int{"json": c.N(96, 1800), "csv": c.N(128, 2400), "syslog_rfc5424": c.N(96, 1800), "syslog_rfc3164": c.N(96, 1800),
		"nginx_error": c.N(96, 1800), "cri": c.N(128, 2400), "postgres": c.N(128, 2400), "protobuf": c.N(96, 1800)}
	chunk := c.N(8, 50)
	pipeCases := c.N(12, 200)
	pipeChunk := c.N(6, 40)

	type task func()
	var tasks []task
	for _, fam := range familyNames {
		fam := fam
		for s := 0; s < casesPer[fam]; s += chunk {
			s := s
			n := chunk
			if s+n > casesPer[fam] {
				n = casesPer[fam] - s
			}
			tasks = append(tasks, func() { runDirect(c, m, fam, s, n, seed) })
		}
	}
	for i := range pipeCfgs() {
		i := i
		for s := 0; s < pipeCases; s += pipeChunk {
			s := s
			n := pipeChunk
			if s+n > pipeCases {
				n = pipeCases - s
			}
			tasks = append(tasks, func() { runPipe(c, m, i, s, n, seed) })
		}
	}
	workers := 16
	if w := os.Getenv("VERIF_WORKERS"); w != "" {
		fmt.Sscanf(w, "%d", &workers)
	}
	core.ParallelFor(len(tasks), workers, func(i int) { tasks[i]() })

	// ---- violations: confirm panics as real process deaths, then report
	sigs := make([]string, 0, len(m.viols))
	for s := range m.viols {
		sigs = append(sigs, s)
	}
	sort.Strings(sigs)
	counts := map[string]int{}
	for _, s := range sigs {
		v := m.viols[s]
		counts[s] = v.Count
		witness := map[string]any{"family": v.Family, "cfg": v.Cfg, "input_quoted": v.InputQ, "input_base64": v.Input, "case": v.Case, "seed": seed,
			"occurrences": v.Count, "detail": v.Detail}
		if v.Panic && !strings.HasPrefix(v.Family, "pipeline") {
			res := core.RunChild("direct", directIn{Family: v.Family, Seed: seed, Single: true, Case: v.Case, Cfg: v.Cfg, Input: v.Input, NoRecover: true},
				core.ChildOpt{Timeout: 5 * time.Minute, Env: childEnv})
			msg, site := core.PanicSite(res.Stderr)
			if !res.Crashed() || msg == "" {
				c.Inconclusive("recovered panic not reproduced as process death: " + s)
				continue
			}
			c.Count("panics_confirmed_as_process_death", 1)
			witness["confirmed_process_death"] = map[string]any{"exit": res.ExitCode, "panic": msg, "site": site}
		}
		c.Violation(s, v.What, witness)
	}
	if path := os.Getenv("VERIF_C12_DUMP"); path != "" { // debugging aid: every violation with its witness
		all := make([]*viol, 0, len(sigs))
		for _, s := range sigs {
			all = append(all, m.viols[s])
		}
		if b, err := json.MarshalIndent(all, "", " "); err == nil {
			_ = os.WriteFile(path, b, 0o644)
		}
	}
	c.Extra("violation_occurrences", counts)
	c.Extra("parameter_sets_and_entry_points", m.labels)

	// ---- a run that did not observe the expected behaviour classes decides nothing
	for _, fam := range familyNames {
		for _, k := range []string{"ok", "err"} {
			if c.Counter(fam+"."+k) == 0 {
				c.Fatal("family %s: outcome %q never observed", fam, k)
			}
		}
		for _, k := range []string{"retained_results", "retained_results_still_equal_when_dropped", "concurrent_decodes"} {
			if c.Counter(fam+"."+k) == 0 {
				c.Fatal("family %s: results-stay-valid clause observed nothing (%s)", fam, k)
			}
		}
		if fam == "json" {
			for _, k := range []string{"stress_concurrent_decodes", "stress_sequential_docs_cut", "fidelity_checked", "object_fidelity_ok", "max_fields_cut_observed", "input_invalid_json"} {
				if c.Counter("json."+k) == 0 {
					c.Fatal("family json: %s never observed", k)
				}
			}
		} else if c.Counter(fam+".wellformed_checked") == 0 {
			c.Fatal("family %s: no well-formed line was checked against the reference", fam)
		}
	}
	for _, pc := range pipeCfgs() {
		if c.Counter("pipeline:"+pc.label+".events_out") == 0 {
			c.Fatal("pipeline %s: no event reached the output", pc.label)
		}
		if c.Counter("pipeline:"+pc.label+".rejected") == 0 {
			c.Fatal("pipeline %s: no rejected line observed", pc.label)
		}
		// size-gate boundary pass: every cell of the matrix must have been driven
		for _, k := range []string{"bound_pipelines", "bound_in_calls", "bound_buffer_checks"} {
			if c.Counter("pipeline:"+pc.label+"."+k) == 0 {
				c.Fatal("pipeline %s: boundary pass observed nothing (%s)", pc.label, k)
			}
		}
		for _, rel := range boundRels {
			for _, cut := range []bool{false, true} {
				for _, nl := range []bool{false, true} {
					if c.Counter("pipeline:"+pc.label+"."+boundCell(rel, cut, nl)) == 0 {
						c.Fatal("pipeline %s: boundary cell never driven: %s", pc.label, boundCell(rel, cut, nl))
					}
				}
			}
		}
	}
}

func main() {
	core.RegisterChild("direct", directChild)
	core.RegisterChild("pipe", pipeChild)
	core.Main("C12", "exploration", run)
}
