package main

import (
	"errors"
	"fmt"
	"math/big"
	"strings"
	"unicode/utf16"
	"unicode/utf8"
)

// A small strict RFC 8259 parser used as the reference for everything the
// check says about JSON: validity of encoded events, semantic equality,
// raw spans of string values (for json_max_fields_size).

type jkind int

const (
	jNull jkind = iota
	jTrue
	jFalse
	jNum
	jStr
	jArr
	jObj
)

type jnode struct {
	kind       jkind
	start, end int    // span of the value in the source
	str        string // jStr: unescaped value (raw bytes kept, lone surrogates -> U+FFFD); jNum: literal
	escaped    bool   // jStr: raw text contains a backslash
	lone       bool   // jStr: contains a lone surrogate escape (meaning not settled by RFC 8259); jObj: some key does
	keys       []string
	vals       []*jnode
}

type jparser struct {
	b     []byte
	i     int
	depth int
}

var errJSON = errors.New("invalid json")

func jerr(what string, at int) error { return fmt.Errorf("%w: %s at %d", errJSON, what, at) }

func parseJSON(b []byte) (*jnode, error) {
	p := &jparser{b: b}
	p.ws()
	n, err := p.value()
	if err != nil {
		return nil, err
	}
	p.ws()
	if p.i != len(b) {
		return nil, jerr("trailing data", p.i)
	}
	return n, nil
}

func (p *jparser) ws() {
	for p.i < len(p.b) {
		switch p.b[p.i] {
		case ' ', '\t', '\n', '\r':
			p.i++
		default:
			return
		}
	}
}

func (p *jparser) value() (*jnode, error) {
	if p.i >= len(p.b) {
		return nil, jerr("unexpected end", p.i)
	}
	switch c := p.b[p.i]; {
	case c == '{':
		return p.object()
	case c == '[':
		return p.array()
	case c == '"':
		return p.str()
	case c == 't':
		return p.lit("true", jTrue)
	case c == 'f':
		return p.lit("false", jFalse)
	case c == 'n':
		return p.lit("null", jNull)
	case c == '-' || (c >= '0' && c <= '9'):
		return p.num()
	}
	return nil, jerr("unexpected character", p.i)
}

func (p *jparser) lit(s string, k jkind) (*jnode, error) {
	if len(p.b)-p.i < len(s) || string(p.b[p.i:p.i+len(s)]) != s {
		return nil, jerr("bad literal", p.i)
	}
	n := &jnode{kind: k, start: p.i, end: p.i + len(s)}
	p.i += len(s)
	return n, nil
}

func (p *jparser) num() (*jnode, error) {
	s := p.i
	b := p.b
	if p.i < len(b) && b[p.i] == '-' {
		p.i++
	}
	if p.i >= len(b) {
		return nil, jerr("bad number", p.i)
	}
	if b[p.i] == '0' {
		p.i++
	} else if b[p.i] >= '1' && b[p.i] <= '9' {
		for p.i < len(b) && b[p.i] >= '0' && b[p.i] <= '9' {
			p.i++
		}
	} else {
		return nil, jerr("bad number", p.i)
	}
	if p.i < len(b) && b[p.i] == '.' {
		p.i++
		d := p.i
		for p.i < len(b) && b[p.i] >= '0' && b[p.i] <= '9' {
			p.i++
		}
		if d == p.i {
			return nil, jerr("bad fraction", p.i)
		}
	}
	if p.i < len(b) && (b[p.i] == 'e' || b[p.i] == 'E') {
		p.i++
		if p.i < len(b) && (b[p.i] == '+' || b[p.i] == '-') {
			p.i++
		}
		d := p.i
		for p.i < len(b) && b[p.i] >= '0' && b[p.i] <= '9' {
			p.i++
		}
		if d == p.i {
			return nil, jerr("bad exponent", p.i)
		}
	}
	return &jnode{kind: jNum, start: s, end: p.i, str: string(b[s:p.i])}, nil
}

func hexv(c byte) int {
	switch {
	case c >= '0' && c <= '9':
		return int(c - '0')
	case c >= 'a' && c <= 'f':
		return int(c-'a') + 10
	case c >= 'A' && c <= 'F':
		return int(c-'A') + 10
	}
	return -1
}

func (p *jparser) hex4(at int) (rune, bool) {
	if at+4 > len(p.b) {
		return 0, false
	}
	v := 0
	for k := 0; k < 4; k++ {
		h := hexv(p.b[at+k])
		if h < 0 {
			return 0, false
		}
		v = v<<4 | h
	}
	return rune(v), true
}

func (p *jparser) str() (*jnode, error) {
	s := p.i
	b := p.b
	p.i++ // opening quote
	var sb []byte
	esc, lone := false, false
	for {
		if p.i >= len(b) {
			return nil, jerr("unterminated string", p.i)
		}
		c := b[p.i]
		switch {
		case c == '"':
			p.i++
			return &jnode{kind: jStr, start: s, end: p.i, str: string(sb), escaped: esc, lone: lone}, nil
		case c < 0x20:
			return nil, jerr("control character in string", p.i)
		case c == '\\':
			esc = true
			if p.i+1 >= len(b) {
				return nil, jerr("bad escape", p.i)
			}
			e := b[p.i+1]
			p.i += 2
			switch e {
			case '"', '\\', '/':
				sb = append(sb, e)
			case 'b':
				sb = append(sb, '\b')
			case 'f':
				sb = append(sb, '\f')
			case 'n':
				sb = append(sb, '\n')
			case 'r':
				sb = append(sb, '\r')
			case 't':
				sb = append(sb, '\t')
			case 'u':
				r, ok := p.hex4(p.i)
				if !ok {
					return nil, jerr("bad unicode escape", p.i)
				}
				p.i += 4
				if utf16.IsSurrogate(r) {
					if p.i+6 <= len(b) && b[p.i] == '\\' && b[p.i+1] == 'u' {
						if r2, ok2 := p.hex4(p.i + 2); ok2 {
							if d := utf16.DecodeRune(r, r2); d != utf8.RuneError {
								p.i += 6
								sb = utf8.AppendRune(sb, d)
								continue
							}
						}
					}
					r = utf8.RuneError
					lone = true
				}
				sb = utf8.AppendRune(sb, r)
			default:
				return nil, jerr("bad escape", p.i-1)
			}
		default:
			sb = append(sb, c)
			p.i++
		}
	}
}

func (p *jparser) array() (*jnode, error) {
	n := &jnode{kind: jArr, start: p.i}
	p.i++
	p.depth++
	defer func() { p.depth-- }()
	if p.depth > 100000 {
		return nil, jerr("too deep", p.i)
	}
	p.ws()
	if p.i < len(p.b) && p.b[p.i] == ']' {
		p.i++
		n.end = p.i
		return n, nil
	}
	for {
		p.ws()
		v, err := p.value()
		if err != nil {
			return nil, err
		}
		n.vals = append(n.vals, v)
		p.ws()
		if p.i >= len(p.b) {
			return nil, jerr("unterminated array", p.i)
		}
		if p.b[p.i] == ',' {
			p.i++
			continue
		}
		if p.b[p.i] == ']' {
			p.i++
			n.end = p.i
			return n, nil
		}
		return nil, jerr("expected , or ]", p.i)
	}
}

func (p *jparser) object() (*jnode, error) {
	n := &jnode{kind: jObj, start: p.i}
	p.i++
	p.depth++
	defer func() { p.depth-- }()
	if p.depth > 100000 {
		return nil, jerr("too deep", p.i)
	}
	p.ws()
	if p.i < len(p.b) && p.b[p.i] == '}' {
		p.i++
		n.end = p.i
		return n, nil
	}
	for {
		p.ws()
		if p.i >= len(p.b) || p.b[p.i] != '"' {
			return nil, jerr("expected key", p.i)
		}
		k, err := p.str()
		if err != nil {
			return nil, err
		}
		p.ws()
		if p.i >= len(p.b) || p.b[p.i] != ':' {
			return nil, jerr("expected :", p.i)
		}
		p.i++
		p.ws()
		v, err := p.value()
		if err != nil {
			return nil, err
		}
		n.keys = append(n.keys, k.str)
		n.vals = append(n.vals, v)
		if k.lone {
			n.lone = true
		}
		p.ws()
		if p.i >= len(p.b) {
			return nil, jerr("unterminated object", p.i)
		}
		if p.b[p.i] == ',' {
			p.i++
			continue
		}
		if p.b[p.i] == '}' {
			p.i++
			n.end = p.i
			return n, nil
		}
		return nil, jerr("expected , or }", p.i)
	}
}

// get returns the member of an object (last duplicate wins), or nil.
func (n *jnode) get(key string) *jnode {
	if n == nil || n.kind != jObj {
		return nil
	}
	for i := len(n.keys) - 1; i >= 0; i-- {
		if n.keys[i] == key {
			return n.vals[i]
		}
	}
	return nil
}

// getFirst returns the first member with that key, or nil.
func (n *jnode) getFirst(key string) *jnode {
	if n == nil || n.kind != jObj {
		return nil
	}
	for i, k := range n.keys {
		if k == key {
			return n.vals[i]
		}
	}
	return nil
}

func (n *jnode) hasDupKeys() bool {
	if n == nil {
		return false
	}
	if n.kind == jObj {
		seen := make(map[string]struct{}, len(n.keys))
		for _, k := range n.keys {
			if _, ok := seen[k]; ok {
				return true
			}
			seen[k] = struct{}{}
		}
	}
	for _, v := range n.vals {
		if v.hasDupKeys() {
			return true
		}
	}
	return false
}

func numEqual(a, b string) bool {
	if a == b {
		return true
	}
	if len(a) > 40 || len(b) > 40 {
		return false
	}
	// keep exponents small so that Rat stays cheap
	for _, s := range []string{a, b} {
		if i := strings.IndexAny(s, "eE"); i >= 0 && len(s)-i > 5 {
			return false
		}
	}
	ra, ok1 := new(big.Rat).SetString(a)
	rb, ok2 := new(big.Rat).SetString(b)
	return ok1 && ok2 && ra.Cmp(rb) == 0
}

// jsonEqual compares two documents semantically (objects as maps with
// last-duplicate-wins, numbers numerically, strings with invalid UTF-8
// normalised). override, if not nil, is consulted for every pair first; it
// returns (handled, ok). The result is (equal, path, reason).
func jsonEqual(a, b *jnode, path string, override func(path string, a, b *jnode) (bool, bool)) (bool, string, string) {
	if override != nil {
		if handled, ok := override(path, a, b); handled {
			if !ok {
				return false, path, "named-field"
			}
			return true, "", ""
		}
	}
	if a == nil || b == nil {
		if a == b {
			return true, "", ""
		}
		return false, path, "missing"
	}
	if a.kind != b.kind {
		return false, path, "value-kind"
	}
	switch a.kind {
	case jNum:
		if !numEqual(a.str, b.str) {
			return false, path, "number"
		}
	case jStr:
		if a.str != b.str && fffd(a.str) != fffd(b.str) && !a.lone && !b.lone {
			return false, path, "string"
		}
	case jArr:
		if len(a.vals) != len(b.vals) {
			return false, path, "array-length"
		}
		for i := range a.vals {
			if ok, p, r := jsonEqual(a.vals[i], b.vals[i], fmt.Sprintf("%s[%d]", path, i), override); !ok {
				return false, p, r
			}
		}
	case jObj:
		// keys with invalid UTF-8 are compared the way a JSON encoder/decoder
		// pair sees them (each invalid byte is U+FFFD)
		ma := make(map[string]*jnode, len(a.keys))
		for i, k := range a.keys {
			ma[fffd(k)] = a.vals[i]
		}
		mb := make(map[string]*jnode, len(b.keys))
		for i, k := range b.keys {
			mb[fffd(k)] = b.vals[i]
		}
		for i, k := range a.keys {
			k = fffd(k)
			va := a.vals[i]
			if ma[k] != va {
				continue // an earlier duplicate
			}
			sub := k
			if path != "" {
				sub = path + "." + k
			}
			vb, ok := mb[k]
			if !ok && (a.lone || b.lone) {
				continue
			}
			if !ok {
				if override != nil {
					if handled, _ := override(sub, va, nil); handled {
						return false, sub, "named-field"
					}
				}
				return false, sub, "missing-key"
			}
			if ok, p, r := jsonEqual(va, vb, sub, override); !ok {
				return false, p, r
			}
		}
		for _, k := range b.keys {
			k = fffd(k)
			if _, ok := ma[k]; !ok && !a.lone && !b.lone {
				sub := k
				if path != "" {
					sub = path + "." + k
				}
				return false, sub, "unexpected-key"
			}
		}
	}
	return true, "", ""
}

// toAny converts a parsed document to map[string]any / []any / string /
// bool / nil (numbers as their literal prefixed with '#').
func (n *jnode) toAny() any {
	switch n.kind {
	case jNull:
		return nil
	case jTrue:
		return true
	case jFalse:
		return false
	case jNum:
		return "#" + n.str
	case jStr:
		return n.str
	case jArr:
		out := make([]any, 0, len(n.vals))
		for _, v := range n.vals {
			out = append(out, v.toAny())
		}
		return out
	default:
		out := make(map[string]any, len(n.keys))
		for i, k := range n.keys {
			out[k] = n.vals[i].toAny()
		}
		return out
	}
}
