package main

import (
	"bytes"
	"fmt"
	"regexp"
	"strings"
	"unicode"

	"github.com/ozontech/file.d/decoder"
)

// ================================================================ nginx_error
//
// Reference (decoder/readme.md):
//   YYYY/MM/DD HH:MM:SS [level] pid#tid: [*cid ]message
// and, with nginx_with_custom_fields, the message is
//   text{, key: value}   (key: letters; value bare or in double quotes)
// The event may contain time, level, pid, tid, cid, message (+ custom keys).

type ngxCfg struct {
	label  string
	custom bool
	dec    decoder.Decoder
}

type ngxFam struct{ cfgs []*ngxCfg }

func newNgxFam() *ngxFam {
	f := &ngxFam{}
	for _, c := range []struct {
		label  string
		params decoder.Params
		custom bool
	}{
		{"default", nil, false},
		{"custom=false", decoder.Params{"nginx_with_custom_fields": false}, false},
		{"custom=true", decoder.Params{"nginx_with_custom_fields": true}, true},
	} {
		d, err := decoder.New(decoder.NGINX_ERROR, c.params)
		if err != nil {
			panic("nginx decoder: " + err.Error())
		}
		f.cfgs = append(f.cfgs, &ngxCfg{label: c.label, custom: c.custom, dec: d})
	}
	return f
}

func (*ngxFam) name() string          { return "nginx_error" }
func (*ngxFam) begin(*exec, *rng)     {}
func (*ngxFam) terminators() []string { return []string{"\n", ""} }
func (*ngxFam) alphabet() string      { return "  []#:*,, \"/0123456789abc:\n" }
func (f *ngxFam) labels() []string {
	var l []string
	for _, c := range f.cfgs {
		l = append(l, c.label+"/Decode", c.label+"/DecodeToJson")
	}
	return l
}

func (*ngxFam) valid(r *rng) ([]byte, string) {
	var sb strings.Builder
	fmt.Fprintf(&sb, "%04d/%02d/%02d %02d:%02d:%02d [%s] %s#%s:", r.between(2000, 2099), r.between(1, 12), r.between(1, 28), r.n(24), r.n(60), r.n(60),
		pick(r, []string{"debug", "info", "notice", "warn", "error", "crit", "alert", "emerg"}), r.digits(r.between(1, 8)), r.digits(r.between(1, 8)))
	shape := "nocid"
	sb.WriteByte(' ')
	if r.pct(70) {
		sb.WriteString("*" + r.digits(r.between(1, 10)) + " ")
		shape = "cid"
	}
	// text: never starts with '*', its last ", "-segment never looks like "letters:"
	text := pick(r, []string{"lua udp socket read timed out", "signal process started", "upstream timed out (110: Operation timed out), while connecting to upstream",
		"open() \"/usr/share/nginx/html/favicon.ico\" failed (2: No such file or directory)", "x"})
	if r.pct(50) {
		text = "m" + r.text(r.between(1, 8), " ():/.-_") + "."
	}
	sb.WriteString(text)
	if r.pct(65) {
		shape += "+fields"
		keys := []string{"client", "server", "request", "upstream", "host", "referrer", "ключ"}
		for _, k := range keys {
			if !r.pct(55) {
				continue
			}
			var v string
			switch r.n(5) {
			case 0:
				v = ""
			case 1:
				v = fmt.Sprintf("%d.%d.%d.%d", r.n(256), r.n(256), r.n(256), r.n(256))
			case 2:
				v = `"` + pick(r, []string{"GET", "POST"}) + " /" + r.from(alnum+"/?=&", r.between(0, 12)) + ` HTTP/1.1"`
			case 3:
				v = `"http://` + r.from(lower, r.between(1, 8)) + ":" + r.digits(2) + "/" + r.from(lower, r.between(0, 6)) + `"`
			default:
				v = `"` + r.text(r.between(0, 4), ".:-") + `"`
			}
			if strings.Contains(v, ", ") {
				v = strings.ReplaceAll(v, ", ", ",")
			}
			sb.WriteString(", " + k + ": " + v)
		}
	} else if r.pct(30) {
		sb.WriteString(", context: ngx.timer")
		shape += "+context"
	}
	return []byte(sb.String()), shape
}

var (
	ngxRe      = regexp.MustCompile(`(?s)^(\d{4}/\d\d/\d\d \d\d:\d\d:\d\d) \[([a-z]+)\] (\d+)#(\d+): (?:\*(\d+) )?(.+)$`)
	ngxFieldRe = regexp.MustCompile(`(?s)^(\pL+): (?:"([^"]*)"|([^"]*))$`)
)

func lettersOnly(s string) bool {
	for _, c := range s {
		if !unicode.IsLetter(c) {
			return false
		}
	}
	return true
}

// ngxRef returns the expected event of a well-formed line.
func ngxRef(line []byte, custom bool) (expectation, bool) {
	if n := len(line); n > 0 && line[n-1] == '\n' {
		line = line[:n-1]
	}
	m := ngxRe.FindSubmatch(line)
	if m == nil {
		return nil, false
	}
	exp := expectation{"time": one(string(m[1])), "level": one(string(m[2])), "pid": one(string(m[3])), "tid": one(string(m[4])),
		"cid": optional(string(m[5])), "message": optional(string(m[6]))}
	msg := string(m[6])
	if len(m[5]) == 0 && strings.HasPrefix(msg, "*") {
		return nil, false // "*..." right after the colon is a connection id or not: ambiguous
	}
	if !custom || msg == "" {
		return exp, true
	}
	parts := strings.Split(msg, ", ")
	k := len(parts)
	for k > 1 {
		seg := parts[k-1]
		i := strings.IndexByte(seg, ':')
		if i < 0 || !lettersOnly(seg[:i]) {
			break // clearly not a "key: value" segment: the text ends here
		}
		fm := ngxFieldRe.FindStringSubmatch(seg)
		if fm == nil {
			return nil, false // looks like a field but not in a documented form: ambiguous
		}
		key := fm[1]
		if _, dup := exp[key]; dup {
			return nil, false
		}
		val := fm[3]
		if strings.HasPrefix(seg[i+2:], `"`) {
			val = fm[2]
		}
		exp[key] = one(val)
		k--
	}
	if k == 1 {
		// is the first segment itself field-like? then text/field is ambiguous
		if i := strings.IndexByte(parts[0], ':'); i >= 0 && lettersOnly(parts[0][:i]) && len(parts) > 1 {
			return nil, false
		}
	}
	exp["message"] = optional(strings.Join(parts[:k], ", "))
	return exp, true
}

func (f *ngxFam) feed(x *exec, line []byte) {
	for _, c := range f.cfgs {
		exp, wellFormed := ngxRef(line, c.custom)

		out := x.call(c.label+"/Decode", line, func(data []byte) (any, error) { return c.dec.Decode(data) })
		if out.decided() {
			var got map[string]any
			if out.err == nil {
				row, ok := out.val.(decoder.NginxErrorRow)
				if !ok {
					x.violate("decoder=nginx_error Decode-result-type", fmt.Sprintf("Decode returned %T", out.val), c.label+"/Decode", line, nil, false)
					continue
				}
				got = map[string]any{"time": string(row.Time), "level": string(row.Level), "pid": string(row.PID), "tid": string(row.TID)}
				if len(row.CID) > 0 {
					got["cid"] = string(row.CID)
				}
				if len(row.Message) > 0 {
					got["message"] = string(row.Message)
				}
				for k, v := range row.CustomFields {
					if _, dup := got[k]; dup {
						got[k+"(custom)"] = string(v)
					} else {
						got[k] = string(v)
					}
				}
			}
			f.check(x, c, c.label+"/Decode", line, exp, wellFormed, got, out.err)
		}

		x.resetRoot()
		out = x.call(c.label+"/DecodeToJson", line, func(data []byte) (any, error) { return nil, c.dec.DecodeToJson(x.root, data) })
		if out.decided() {
			var got map[string]any
			if out.err == nil {
				enc := x.encodeRoot()
				var bad string
				got, bad = decodeFlat(enc, false)
				if bad == "event-duplicate-keys" && !wellFormed {
					// a custom key equal to a base key on a line the reference does not
					// recognise: the readme does not say what happens
					x.count("accepted_not_wellformed_duplicate_key", 1)
					continue
				}
				if bad != "" {
					x.violate("decoder=nginx_error "+bad, "decoder returned nil error but the event is not well-formed: "+bad, c.label+"/DecodeToJson", line,
						map[string]any{"encoded": show(enc)}, false)
					continue
				}
				x.sample(map[string]any{"decoder": "nginx_error", "cfg": c.label, "input": show(line), "event": string(enc)})
			}
			f.check(x, c, c.label+"/DecodeToJson", line, exp, wellFormed, got, out.err)
		}
	}
}

func (*ngxFam) check(x *exec, c *ngxCfg, label string, line []byte, exp expectation, wellFormed bool, got map[string]any, err error) {
	if wellFormed {
		x.count("wellformed_checked", 1)
		if err != nil {
			x.violate("decoder=nginx_error well-formed-line kind=rejected", "well-formed nginx error line rejected: "+err.Error(), label, line, nil, false)
			return
		}
		if kind, detail := compareEvent(got, exp); kind != "" {
			x.violate("decoder=nginx_error well-formed-line kind="+kind, "well-formed nginx error line does not yield exactly its fields: "+detail, label, line, map[string]any{"got": got}, false)
		}
		return
	}
	if err != nil {
		return
	}
	x.count("accepted_not_wellformed", 1)
	for k, v := range got {
		s, _ := v.(string)
		if !knownKeys[k] && !(c.custom && lettersOnly(strings.TrimSuffix(k, "(custom)"))) {
			x.violate("decoder=nginx_error undocumented-field", "event has a field the readme does not allow: "+k, label, line, nil, false)
		}
		src := line
		if k == "pid" || k == "tid" {
			src = bytes.ReplaceAll(line, []byte("#"), nil) // the scanner skips every '#'
		}
		if !pieceOf(src, s) {
			x.violate("decoder=nginx_error field-not-from-line field="+classifyKey(k), fmt.Sprintf("field %s=%q is not a piece of the input line", k, s), label, line, nil, false)
		}
	}
}
