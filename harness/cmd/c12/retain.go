package main

import (
	"fmt"
	"sort"
	"strings"
	"sync"

	"github.com/ozontech/file.d/decoder"
	insaneJSON "github.com/ozontech/insane-json"
)

// "Results stay valid": what a decoder returned (a row from Decode, a root
// filled by DecodeToJson) must not change when the same decoder instance
// decodes other lines later (rows / event fields that alias a pooled or
// re-used internal buffer), and an event must not depend on the caller's line
// buffer after the call returned (the input plugin re-uses its read buffer).
//
// Every family lists its entry points as `entry` values whose run function
// decodes and returns a snapshot function: the canonical encoding of the live
// result. The sequential pass keeps the last retainK results per entry
// alive (each with its own input buffer and its own root), records the
// encoding right after decoding and re-encodes all of them after every later
// decode of that entry; the concurrent pass lets several goroutines share the
// decoder instances (as concurrent Pipeline.In calls share p.decoder) and
// compares with the sequential outcome of the same line.

const retainK = 5

type entry struct {
	label    string
	usesRoot bool
	// run decodes data (root is reset by run itself where Pipeline.In does) and
	// returns the snapshot function of the live result.
	run func(root *insaneJSON.Root, data []byte) (func() string, error)
}

type retained struct {
	snap  func() string
	want  string
	line  []byte
	ar    *arena
	root  *insaneJSON.Root
	age   int
	noted bool
}

type retainState struct {
	rings     map[string][]*retained
	freeAr    []*arena
	freeRoots []*insaneJSON.Root
}

func (x *exec) rs() *retainState {
	if x.retain == nil {
		x.retain = &retainState{rings: map[string][]*retained{}}
	}
	return x.retain
}

func (s *retainState) getArena() *arena {
	if n := len(s.freeAr); n > 0 {
		a := s.freeAr[0] // FIFO: the buffer that rested longest
		s.freeAr = s.freeAr[1:]
		return a
	}
	return &arena{buf: make([]byte, 1<<13)}
}

func (s *retainState) getRoot() *insaneJSON.Root {
	if n := len(s.freeRoots); n > 0 {
		r := s.freeRoots[0]
		s.freeRoots = s.freeRoots[1:]
		return r
	}
	return insaneJSON.Spawn()
}

func entryName(label string) string {
	if i := strings.LastIndexByte(label, '/'); i >= 0 {
		return label[i+1:]
	}
	return label
}

func safeSnap(f func() string) (s string, panicked bool) {
	defer func() {
		if v := recover(); v != nil {
			s, panicked = fmt.Sprint("panic while reading the result: ", v), true
		}
	}()
	return f(), false
}

// verify re-encodes one retained result.
func (x *exec) verifyRetained(e *entry, r *retained, newer []byte, when string) {
	if r.noted {
		return
	}
	got, _ := safeSnap(r.snap)
	if got != r.want {
		r.noted = true
		x.violate(fmt.Sprintf("decoder=%s result-changed-after-later-decode entry=%s", x.fam, entryName(e.label)),
			fmt.Sprintf("the result of decoding one line changed after the same decoder instance decoded %d other line(s) (%s)", r.age, when),
			e.label, r.line, map[string]any{"right_after_decoding": Trunc(r.want, 600), "later": Trunc(got, 600), "later_line": show(newer), "age": r.age}, false)
		return
	}
	if ok, where := r.ar.check(); !ok {
		r.noted = true
		x.violate(fmt.Sprintf("decoder=%s earlier-input-buffer-written-by-later-decode entry=%s", x.fam, entryName(e.label)),
			"bytes around the buffer of an earlier line changed while later lines were decoded: "+where, e.label, r.line, map[string]any{"later_line": show(newer)}, false)
	}
}

func Trunc(s string, n int) string {
	if len(s) > n {
		return s[:n] + "…"
	}
	return s
}

// retainPass decodes line through every entry, keeps the results and checks
// the older ones.
func (x *exec) retainPass(entries []entry, line []byte) {
	s := x.rs()
	for i := range entries {
		e := &entries[i]
		if x.only != "" && x.only != e.label {
			continue
		}
		ar := s.getArena()
		data := ar.place(line, x.r)
		var root *insaneJSON.Root
		if e.usesRoot {
			root = s.getRoot()
		}
		var snap func() string
		var err error
		panicked := false
		func() {
			defer func() {
				if v := recover(); v != nil {
					panicked = true // reported by the oracle pass
				}
			}()
			snap, err = e.run(root, data)
		}()
		x.evals++
		x.count("retain_decodes", 1)
		ring := s.rings[e.label]
		for _, r := range ring {
			r.age++
			x.verifyRetained(e, r, line, "checked right after a later decode")
		}
		if panicked || err != nil || snap == nil {
			s.freeAr = append(s.freeAr, ar)
			if root != nil {
				s.freeRoots = append(s.freeRoots, root)
			}
			continue
		}
		want, bad := safeSnap(snap)
		if bad {
			s.freeAr = append(s.freeAr, ar)
			if root != nil {
				s.freeRoots = append(s.freeRoots, root)
			}
			continue
		}
		keep := &retained{snap: snap, want: want, line: append([]byte(nil), line...), ar: ar, root: root}
		if e.usesRoot {
			// an event must not depend on the caller's buffer once the call
			// returned: the reader re-uses it for the next line
			for k := range data {
				data[k] = 'Z' - byte(k%7)
			}
			keep.line = append([]byte(nil), line...)
		}
		ring = append(ring, keep)
		x.count("retained_results", 1)
		if len(ring) > retainK {
			old := ring[0]
			ring = ring[1:]
			x.verifyRetained(e, old, line, "checked when dropped")
			if !old.noted {
				x.count("retained_results_still_equal_when_dropped", 1)
			}
			s.freeAr = append(s.freeAr, old.ar)
			if old.root != nil {
				s.freeRoots = append(s.freeRoots, old.root)
			}
		}
		s.rings[e.label] = ring
		x.fp("retain", e.label, x.curMut)
	}
}

// ---------------------------------------------------------------- concurrent pass

const (
	concGoroutines = 4
	concRounds     = 2
)

type concMismatch struct {
	sig, what, label string
	line             []byte
	detail           map[string]any
}

// concPass: several goroutines share the decoder instances of the entries and
// decode the same lines in different orders with private buffers and roots;
// every outcome must equal the sequential outcome of that line, right after
// decoding and again after later decodes.
func (x *exec) concPass(entries []entry, lines [][]byte) {
	if len(lines) == 0 || x.only != "" {
		return
	}
	one := func(e *entry, root *insaneJSON.Root, line []byte) (snap func() string, res string) {
		defer func() {
			if v := recover(); v != nil {
				snap, res = nil, "panic"
			}
		}()
		data := append(make([]byte, 0, len(line)+16), line...)
		sn, err := e.run(root, data)
		if err != nil {
			return nil, "err"
		}
		if e.usesRoot {
			for k := range data {
				data[k] = 'Q'
			}
		}
		s, bad := safeSnap(sn)
		if bad {
			return nil, "panic"
		}
		return sn, "ok:" + canonIf(e, s)
	}
	// sequential reference
	ref := make([][]string, len(lines))
	seqRoot := insaneJSON.Spawn()
	for i, l := range lines {
		ref[i] = make([]string, len(entries))
		for j := range entries {
			_, ref[i][j] = one(&entries[j], seqRoot, l)
		}
	}
	var mu sync.Mutex
	var found []concMismatch
	var calls int64
	var wg sync.WaitGroup
	for g := 0; g < concGoroutines; g++ {
		wg.Add(1)
		go func(g int) {
			defer wg.Done()
			roots := make([][]*insaneJSON.Root, len(entries))
			for j := range roots {
				if entries[j].usesRoot {
					roots[j] = []*insaneJSON.Root{insaneJSON.Spawn(), insaneJSON.Spawn(), insaneJSON.Spawn()}
				}
			}
			type kept struct {
				snap func() string
				want string
				li   int
				ri   int // index of the root the result lives in
			}
			last := make([][]kept, len(entries))
			n := int64(0)
			for round := 0; round < concRounds; round++ {
				for k := range lines {
					li := (k + g*len(lines)/concGoroutines + round) % len(lines)
					for j := range entries {
						e := &entries[j]
						var root *insaneJSON.Root
						ri := 0
						if e.usesRoot {
							// a root that holds none of the (at most two) results kept below
							for ri = 0; ri < 3; ri++ {
								used := false
								for _, o := range last[j] {
									if o.ri == ri {
										used = true
									}
								}
								if !used {
									break
								}
							}
							root = roots[j][ri]
						}
						n++
						snap, res := one(e, root, lines[li])
						if res != ref[li][j] && ref[li][j] != "panic" { // a panic that only happens concurrently counts
							mu.Lock()
							found = append(found, concMismatch{
								sig:   fmt.Sprintf("decoder=%s concurrent-decode-differs-from-sequential entry=%s", x.fam, entryName(e.label)),
								what:  "with several goroutines sharing the decoder instance a line decodes differently than alone",
								label: e.label, line: lines[li], detail: map[string]any{"sequential": Trunc(ref[li][j], 500), "concurrent": Trunc(res, 500)}})
							mu.Unlock()
						}
						// older results of this goroutine must still read the same
						for _, o := range last[j] {
							if s, _ := safeSnap(o.snap); canonIf(e, s) != o.want {
								mu.Lock()
								found = append(found, concMismatch{
									sig:   fmt.Sprintf("decoder=%s result-changed-after-later-decode entry=%s", x.fam, entryName(e.label)),
									what:  "the result of decoding one line changed while other lines were decoded (decoder instance shared by several goroutines)",
									label: e.label, line: lines[o.li], detail: map[string]any{"right_after_decoding": Trunc(o.want, 500), "later": Trunc(s, 500), "concurrent": true}})
								mu.Unlock()
							}
						}
						if snap != nil {
							last[j] = append(last[j], kept{snap, strings.TrimPrefix(res, "ok:"), li, ri})
							if len(last[j]) > 2 {
								last[j] = last[j][1:]
							}
						}
					}
				}
			}
			mu.Lock()
			calls += n
			mu.Unlock()
		}(g)
	}
	wg.Wait()
	x.evals += calls
	x.count("concurrent_decodes", calls)
	for _, m := range found {
		x.violate(m.sig, m.what, m.label, m.line, m.detail, false)
	}
}

// canonIf: events are compared across calls in a canonical form (keys
// sorted), because decoders fill roots in map iteration order.
func canonIf(e *entry, s string) string {
	if !e.usesRoot {
		return s
	}
	n, err := parseJSON([]byte(s))
	if err != nil {
		return s
	}
	var sb strings.Builder
	canonWrite(&sb, n)
	return sb.String()
}

func canonWrite(sb *strings.Builder, n *jnode) {
	switch n.kind {
	case jNull:
		sb.WriteString("null")
	case jTrue:
		sb.WriteString("true")
	case jFalse:
		sb.WriteString("false")
	case jNum:
		sb.WriteString(n.str)
	case jStr:
		fmt.Fprintf(sb, "%q", n.str)
	case jArr:
		sb.WriteByte('[')
		for i, v := range n.vals {
			if i > 0 {
				sb.WriteByte(',')
			}
			canonWrite(sb, v)
		}
		sb.WriteByte(']')
	case jObj:
		idx := make([]int, len(n.keys))
		for i := range idx {
			idx[i] = i
		}
		sort.SliceStable(idx, func(a, b int) bool { return n.keys[idx[a]] < n.keys[idx[b]] })
		sb.WriteByte('{')
		for k, i := range idx {
			if k > 0 {
				sb.WriteByte(',')
			}
			fmt.Fprintf(sb, "%q:", n.keys[i])
			canonWrite(sb, n.vals[i])
		}
		sb.WriteByte('}')
	}
}

// ---------------------------------------------------------------- snapshots of rows

func snapFields(parts ...[]byte) string {
	var sb strings.Builder
	for _, p := range parts {
		sb.Write(p)
		sb.WriteByte(0x1f)
	}
	return sb.String()
}

func snapBytesMap(sb *strings.Builder, m map[string][]byte) {
	keys := make([]string, 0, len(m))
	for k := range m {
		keys = append(keys, k)
	}
	sort.Strings(keys)
	for _, k := range keys {
		sb.WriteString(k)
		sb.WriteByte('=')
		sb.Write(m[k])
		sb.WriteByte(0x1f)
	}
}

func snap3164(row decoder.SyslogRFC3164Row) string {
	return snapFields(row.Priority, []byte(row.Facility), []byte(row.Severity), row.Timestamp, row.Hostname, row.AppName, row.ProcID, row.Message)
}

func snap5424(row decoder.SyslogRFC5424Row) string {
	var sb strings.Builder
	sb.WriteString(snap3164(row.SyslogRFC3164Row))
	sb.WriteString(snapFields(row.ProtoVersion, row.MsgID))
	ids := make([]string, 0, len(row.StructuredData))
	for id := range row.StructuredData {
		ids = append(ids, id)
	}
	sort.Strings(ids)
	for _, id := range ids {
		sb.WriteString("[" + id + "]")
		snapBytesMap(&sb, row.StructuredData[id])
	}
	return sb.String()
}

// rootEntry builds the entry of a DecodeToJson-style call.
func rootEntry(label string, reset bool, f func(root *insaneJSON.Root, data []byte) error) entry {
	return entry{label: label, usesRoot: true, run: func(root *insaneJSON.Root, data []byte) (func() string, error) {
		if reset {
			_ = root.DecodeString("{}")
		}
		if err := f(root, data); err != nil {
			return nil, err
		}
		return func() string { return root.EncodeToString() }, nil
	}}
}

// ---------------------------------------------------------------- entries of the families

func (criFam) entries() []entry {
	return []entry{{label: "DecodeCRI", run: func(_ *insaneJSON.Root, data []byte) (func() string, error) {
		row, err := decoder.DecodeCRI(data)
		if err != nil {
			return nil, err
		}
		return func() string { return snapFields(row.Time, row.Stream, row.Log) + fmt.Sprint(row.IsPartial) }, nil
	}}}
}

func (pgFam) entries() []entry {
	return []entry{
		{label: "DecodePostgres", run: func(_ *insaneJSON.Root, data []byte) (func() string, error) {
			row, err := decoder.DecodePostgres(data)
			if err != nil {
				return nil, err
			}
			return func() string {
				return snapFields(row.Time, row.PID, row.PIDMessageNumber, row.Client, row.DB, row.User, row.Log)
			}, nil
		}},
		rootEntry("DecodePostgresToJson", true, decoder.DecodePostgresToJson),
	}
}

func (f *ngxFam) entries() []entry {
	var out []entry
	for _, c := range f.cfgs {
		c := c
		out = append(out, entry{label: c.label + "/Decode", run: func(_ *insaneJSON.Root, data []byte) (func() string, error) {
			v, err := c.dec.Decode(data)
			if err != nil {
				return nil, err
			}
			row := v.(decoder.NginxErrorRow)
			return func() string {
				var sb strings.Builder
				sb.WriteString(snapFields(row.Time, row.Level, row.PID, row.TID, row.CID, row.Message))
				snapBytesMap(&sb, row.CustomFields)
				return sb.String()
			}, nil
		}}, rootEntry(c.label+"/DecodeToJson", true, c.dec.DecodeToJson))
	}
	return out
}

func sysEntries(cfgs []*sysCfg, rfc5424 bool) []entry {
	var out []entry
	for _, c := range cfgs {
		c := c
		out = append(out, entry{label: c.label + "/Decode", run: func(_ *insaneJSON.Root, data []byte) (func() string, error) {
			v, err := c.dec.Decode(data)
			if err != nil {
				return nil, err
			}
			if rfc5424 {
				row := v.(decoder.SyslogRFC5424Row)
				return func() string { return snap5424(row) }, nil
			}
			row := v.(decoder.SyslogRFC3164Row)
			return func() string { return snap3164(row) }, nil
		}}, rootEntry(c.label+"/DecodeToJson", true, c.dec.DecodeToJson))
	}
	return out
}

func (f *s3164Fam) entries() []entry { return sysEntries(f.cfgs, false) }
func (f *s5424Fam) entries() []entry { return sysEntries(f.cfgs, true) }

func (f *csvFam) entries() []entry {
	var out []entry
	for _, c := range f.cfgs {
		c := c
		out = append(out, entry{label: c.label + "/Decode", run: func(_ *insaneJSON.Root, data []byte) (func() string, error) {
			v, err := c.dec.Decode(data)
			if err != nil {
				return nil, err
			}
			row := v.(decoder.CSVRow)
			return func() string { return strings.Join(row, "\x1f") + "\x1e" + fmt.Sprint(len(row)) }, nil
		}}, rootEntry(c.label+"/DecodeToJson", true, func(root *insaneJSON.Root, data []byte) error {
			if c.mode == "fatal" {
				// never provoke the documented process exit: look at the field
				// count first (on a private copy)
				v, err := c.dec.Decode(append([]byte(nil), data...))
				if err != nil {
					return err
				}
				if len(v.(decoder.CSVRow)) != len(c.cols) {
					return fmt.Errorf("skipped: fatal mode")
				}
			}
			return c.dec.DecodeToJson(root, data)
		}))
	}
	return out
}

func (f *jsonFam) entries() []entry {
	var out []entry
	for _, c := range f.cfgs {
		c := c
		out = append(out, rootEntry(c.label+"/DecodeToJson", false, c.dec.DecodeToJson),
			entry{label: c.label + "/Decode", usesRoot: true, run: func(root *insaneJSON.Root, data []byte) (func() string, error) {
				_ = root.DecodeString("{}")
				v, err := c.dec.Decode(data, root)
				if err != nil {
					return nil, err
				}
				node, ok := v.(*insaneJSON.Node)
				if !ok || node == nil {
					return nil, fmt.Errorf("unexpected result type")
				}
				return func() string { return node.EncodeToString() }, nil
			}})
	}
	return out
}

func (f *pbFam) entries() []entry {
	var out []entry
	for _, c := range f.cfgs {
		c := c
		out = append(out, entry{label: c.label + "/Decode", run: func(_ *insaneJSON.Root, data []byte) (func() string, error) {
			v, err := c.dec.Decode(data)
			if err != nil {
				return nil, err
			}
			b, ok := v.([]byte)
			if !ok {
				return nil, fmt.Errorf("unexpected result type")
			}
			// protojson output is deliberately unstable in its white space but one
			// returned slice must keep reading the same
			return func() string { return string(b) }, nil
		}}, rootEntry(c.label+"/DecodeToJson", false, c.dec.DecodeToJson))
	}
	return out
}
