package main

import (
	"fmt"
	"sort"
	"strings"

	insaneJSON "github.com/ozontech/insane-json"

	"verifharness/core"
)

// viol is one refuting observation made inside a child.
type viol struct {
	Sig    string         `json:"sig"`
	What   string         `json:"what"`
	Family string         `json:"family"`
	Cfg    string         `json:"cfg"`   // config/entry label (enough to re-run the single call)
	Input  []byte         `json:"input"` // the line (base64 in JSON)
	InputQ string         `json:"input_quoted"`
	Detail map[string]any `json:"detail,omitempty"`
	Count  int            `json:"count"`
	Panic  bool           `json:"panic"` // recovered panic: parent confirms process death
	Case   int            `json:"case"`
}

// exec is the per-child state: canary arena, one long-lived insane-json
// root (re-used for every input like a pooled pipeline event), counters.
type exec struct {
	fam       string
	ar        *arena
	r         *rng
	root      *insaneJSON.Root
	evals     int64
	inputs    int64
	counters  map[string]int64
	fps       map[string]struct{}
	viols     map[string]*viol
	samples   []any
	only      string
	noRecover bool
	fine      bool
	io        *core.ChildIO
	curCase   int
	curMut    string // how the current input was derived (fingerprint part)
	encBuf    []byte
	retain    *retainState
}

func newExec(fam string, seed uint64) *exec {
	return &exec{
		fam: fam, ar: newArena(), r: newRng(mix(seed, 0xA11CE)), root: insaneJSON.Spawn(),
		counters: map[string]int64{}, fps: map[string]struct{}{}, viols: map[string]*viol{},
	}
}

func (x *exec) count(name string, n int64) { x.counters[x.fam+"."+name] += n }

func (x *exec) fp(parts ...string) {
	if len(x.fps) < 200000 {
		x.fps[x.fam+"|"+strings.Join(parts, "|")] = struct{}{}
	}
}

func (x *exec) sample(v any) {
	if len(x.samples) < 3 {
		x.samples = append(x.samples, v)
	}
}

func (x *exec) violate(sig, what, cfg string, line []byte, detail map[string]any, isPanic bool) {
	if v := x.viols[sig]; v != nil {
		v.Count++
		// keep the shortest witness
		if len(line) < len(v.Input) {
			v.Input = append([]byte(nil), line...)
			v.InputQ = show(line)
			v.What, v.Cfg, v.Detail, v.Case = what, cfg, detail, x.curCase
		}
		return
	}
	if len(x.viols) >= 400 {
		x.count("violations_dropped_too_many_signatures", 1)
		return
	}
	x.viols[sig] = &viol{Sig: sig, What: what, Family: x.fam, Cfg: cfg, Input: append([]byte(nil), line...),
		InputQ: show(line), Detail: detail, Count: 1, Panic: isPanic, Case: x.curCase}
}

func errClass(err error) string {
	if err == nil {
		return "ok"
	}
	s := err.Error()
	if i := strings.Index(s, " near `"); i >= 0 {
		s = s[:i]
	}
	if i := strings.IndexByte(s, '\n'); i >= 0 {
		s = s[:i]
	}
	s = normMsg(s)
	if len(s) > 70 {
		s = s[:70]
	}
	return "err:" + s
}

type outcome struct {
	val      any
	err      error
	panicked bool
	skipped  bool
	data     []byte // the slice that was handed to the code under test
}

func (o outcome) decided() bool { return !o.skipped && !o.panicked }

// call runs one decoder invocation on a canary-protected copy of line.
func (x *exec) call(label string, line []byte, f func(data []byte) (any, error)) (out outcome) {
	if x.only != "" && x.only != label {
		out.skipped = true
		return out
	}
	data := x.ar.place(line, x.r)
	out.data = data
	if x.fine && x.io != nil {
		x.io.Log(map[string]any{"case": x.curCase, "cfg": label, "input": line, "q": show(line)})
	}
	x.evals++
	func() {
		if !x.noRecover {
			defer func() {
				if v := recover(); v != nil {
					pi := capturePanic(v)
					out.panicked = true
					x.reportPanic(label, line, pi)
				}
			}()
		}
		out.val, out.err = f(data)
	}()
	if ok, where := x.ar.check(); !ok {
		cls := where
		if i := strings.IndexByte(cls, '('); i >= 0 {
			cls = cls[:i]
		}
		x.violate(fmt.Sprintf("decoder=%s buffer-write-outside-line where=%s", x.fam, cls),
			"bytes of the caller's buffer outside the line were altered: "+where, label, line,
			map[string]any{"where": where, "line_len": len(line), "cap": cap(data)}, false)
	}
	switch {
	case out.panicked:
		x.count("panic", 1)
		x.fp(label, x.curMut, "panic")
	case out.err != nil:
		x.count("err", 1)
		x.fp(label, x.curMut, errClass(out.err))
	default:
		x.count("ok", 1)
		x.fp(label, x.curMut, "ok")
	}
	return out
}

func (x *exec) reportPanic(label string, line []byte, pi *panicInfo) {
	site := pi.RepoFunc
	if site == "" {
		site = "?"
	}
	sig := fmt.Sprintf("decoder=%s panic=`%s` at=%s src=`%s`", x.fam, normMsg(pi.Msg), site, pi.SrcText)
	if pi.TopFunc != "" && pi.TopFunc != pi.RepoFunc {
		sig += " via=" + pi.TopFunc
	}
	x.violate(sig, fmt.Sprintf("decoder panicked (kills the collector): %s at %s (%s:%d)", pi.Msg, site, pi.RepoFile, pi.RepoLine),
		label, line, map[string]any{"panic": pi.Msg, "func": pi.RepoFunc, "file": pi.RepoFile, "line": pi.RepoLine, "src": pi.SrcText, "top": pi.TopFunc}, true)
}

// resetRoot prepares the shared root the way Pipeline.In does for the
// non-JSON decoders.
func (x *exec) resetRoot() { _ = x.root.DecodeString("{}") }

func (x *exec) encodeRoot() []byte {
	x.encBuf = x.root.Encode(x.encBuf[:0])
	return x.encBuf
}

// ---------------------------------------------------------------- expectations

// alts is the list of accepted values of one output field; absent means the
// key may be (or must be, if it is the only alternative) missing.
type alts []string

const absent = "\x00<absent>"

func one(v string) alts { return alts{v} }

// optional: an empty value is omitted from the event ("may contain any of
// the following fields").
func optional(v string) alts {
	if v == "" {
		return alts{absent}
	}
	return alts{v}
}

func (a alts) has(v string) bool {
	for _, s := range a {
		if s == v || (s != absent && v != absent && fffd(s) == fffd(v)) {
			return true
		}
	}
	return false
}

// expectation of a flat event: key -> alts, or key -> map[string]alts for
// one level of nesting (RFC5424 structured data).
type expectation map[string]any

// compareEvent checks a decoded flat event (values: string or
// map[string]any of strings) against an expectation. It returns "" or a
// mismatch kind "field:<name>:<how>" plus detail.
func compareEvent(got map[string]any, exp expectation) (kind string, detail string) {
	keys := make([]string, 0, len(exp))
	for k := range exp {
		keys = append(keys, k)
	}
	sort.Strings(keys)
	for _, k := range keys {
		switch e := exp[k].(type) {
		case alts:
			g, ok := got[k]
			if !ok {
				if e.has(absent) {
					continue
				}
				return "field:" + classifyKey(k) + ":missing", fmt.Sprintf("field %q: expected %q", k, []string(e))
			}
			gs, isStr := g.(string)
			if !isStr {
				return "field:" + classifyKey(k) + ":not-a-string", fmt.Sprintf("field %q: got %v", k, g)
			}
			if !e.has(gs) {
				first := e[0]
				if first == absent {
					return "field:" + classifyKey(k) + ":unexpected", fmt.Sprintf("field %q: got %q, expected no such field", k, gs)
				}
				return "field:" + classifyKey(k) + ":differs:" + relation(gs, fffd(first)), fmt.Sprintf("field %q: got %q, expected one of %q", k, gs, []string(e))
			}
		case map[string]alts:
			g, ok := got[k]
			if !ok {
				allOptional := true
				for _, a := range e {
					if !a.has(absent) {
						allOptional = false
					}
				}
				if allOptional {
					continue
				}
				return "structured-data", fmt.Sprintf("element %q missing", k)
			}
			gm, isMap := g.(map[string]any)
			if !isMap {
				return "structured-data", fmt.Sprintf("element %q: got %v", k, g)
			}
			pk := make([]string, 0, len(e))
			for p := range e {
				pk = append(pk, p)
			}
			sort.Strings(pk)
			for _, p := range pk {
				a := e[p]
				gv, ok := gm[p]
				if !ok {
					if a.has(absent) {
						continue
					}
					return "structured-data", fmt.Sprintf("element %q param %q missing, expected %q", k, p, []string(a))
				}
				gs, isStr := gv.(string)
				if !isStr || !a.has(gs) {
					return "structured-data", fmt.Sprintf("element %q param %q: got %q expected one of %q", k, p, gv, []string(a))
				}
			}
			for p := range gm {
				if _, ok := e[p]; !ok {
					return "structured-data", fmt.Sprintf("element %q has unexpected param %q", k, p)
				}
			}
		}
	}
	for k := range got {
		if _, ok := exp[k]; !ok {
			return "field:" + classifyKey(k) + ":unexpected", fmt.Sprintf("unexpected key %q = %v", k, got[k])
		}
	}
	return "", ""
}

var knownKeys = map[string]bool{}

func init() {
	for _, k := range []string{"time", "level", "pid", "tid", "cid", "message", "priority", "facility", "severity", "timestamp",
		"hostname", "app_name", "process_id", "proto_version", "message_id", "log", "stream", "pid_message_number", "client", "db", "user"} {
		knownKeys[k] = true
	}
}

func classifyKey(k string) string {
	if knownKeys[k] {
		return k
	}
	return "<other>"
}

// decodeFlat parses an encoded event with the reference parser and checks
// that it is a well-formed flat event: an object without duplicate keys whose
// values are strings (or, if nested is allowed, objects of strings).
func decodeFlat(enc []byte, nested bool) (map[string]any, string) {
	n, err := parseJSON(enc)
	if err != nil {
		return nil, "event-not-valid-json"
	}
	if n.kind != jObj {
		return nil, "event-not-an-object"
	}
	if n.hasDupKeys() {
		return nil, "event-duplicate-keys"
	}
	out := make(map[string]any, len(n.keys))
	for i, k := range n.keys {
		v := n.vals[i]
		switch v.kind {
		case jStr:
			out[k] = v.str
		case jObj:
			if !nested {
				return nil, "event-value-not-a-string"
			}
			m := make(map[string]any, len(v.keys))
			for j, pk := range v.keys {
				if v.vals[j].kind != jStr {
					return nil, "event-value-not-a-string"
				}
				m[pk] = v.vals[j].str
			}
			out[k] = m
		default:
			return nil, "event-value-not-a-string"
		}
	}
	return out, ""
}
