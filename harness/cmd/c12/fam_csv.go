package main

import (
	"fmt"
	"strconv"
	"strings"

	"github.com/ozontech/file.d/decoder"
)

// ================================================================ CSV
//
// Reference (decoder/readme.md + RFC 4180): one record per line, fields
// separated by a one-byte delimiter; a field is either bare (no quote, no
// delimiter) or enclosed in double quotes with "" for a literal quote; the
// line ends with LF, CRLF or nothing. Keys: columns[i], else prefix+i.
// invalid_line_mode: default -> error if #fields != #columns; continue ->
// every field kept; fatal -> process exit (documented, never provoked here).

type csvCfg struct {
	label  string
	delim  byte
	cols   []string
	prefix string
	mode   string
	dec    decoder.Decoder
	csvDec *decoder.CSVDecoder
}

type csvFam struct {
	cfgs  []*csvCfg
	delim byte // delimiter used by the generator in this case
}

func newCSVFam() *csvFam {
	f := &csvFam{delim: ','}
	for _, c := range []*csvCfg{
		{label: "default", delim: ','},
		{label: "cols3", delim: ',', cols: []string{"a", "b", "c"}},
		{label: "cols3-continue", delim: ',', cols: []string{"level", "message", "ts"}, mode: "continue", prefix: "p_"},
		{label: "space-prefix", delim: ' ', prefix: "csv_"},
		{label: "tab", delim: '\t'},
		{label: "semi-cols4-fatal", delim: ';', cols: []string{"w", "x", "y", "z"}, mode: "fatal"},
	} {
		p := decoder.Params{}
		if c.delim != ',' {
			p["delimiter"] = string([]byte{c.delim})
		}
		if c.cols != nil {
			cols := make([]any, len(c.cols))
			for i, s := range c.cols {
				cols[i] = s
			}
			p["columns"] = cols
		}
		if c.prefix != "" {
			p["prefix"] = c.prefix
		}
		if c.mode != "" {
			p["invalid_line_mode"] = c.mode
		}
		d, err := decoder.New(decoder.CSV, p)
		if err != nil {
			panic("csv decoder: " + err.Error())
		}
		c.dec = d
		c.csvDec, _ = d.(*decoder.CSVDecoder)
		f.cfgs = append(f.cfgs, c)
	}
	return f
}

func (*csvFam) name() string { return "csv" }
func (f *csvFam) begin(x *exec, r *rng) {
	f.delim = pick(r, []byte{',', ',', ',', ' ', '\t', ';'})
}
func (*csvFam) terminators() []string { return []string{"\n", "", "\r\n"} }
func (f *csvFam) alphabet() string {
	return "\"\"\"" + strings.Repeat(string([]byte{f.delim}), 3) + ",ab \r\n\n"
}
func (f *csvFam) labels() []string {
	var l []string
	for _, c := range f.cfgs {
		l = append(l, c.label+"/Decode", c.label+"/DecodeToJson")
	}
	return l
}

func (f *csvFam) valid(r *rng) ([]byte, string) {
	n := pick(r, []int{1, 2, 3, 3, 3, 4, 4, 5, 6})
	d := string([]byte{f.delim})
	var parts []string
	shape := map[string]bool{}
	clean := func(s string) string {
		return strings.NewReplacer(d, "", `"`, "", "\r", "", "\n", "").Replace(s)
	}
	for i := 0; i < n; i++ {
		switch r.n(9) {
		case 0:
			parts = append(parts, "")
			shape["empty"] = true
		case 1:
			parts = append(parts, `""`)
			shape["quoted-empty"] = true
		case 2:
			parts = append(parts, `"`+clean(r.text(2, ""))+d+d+clean(r.text(1, ""))+`"`)
			shape["quoted-delim"] = true
		case 3:
			parts = append(parts, `"`+clean(r.text(1, ""))+`""`+clean(r.text(1, ""))+`""""`+`"`)
			shape["quoted-quote"] = true
		case 4:
			parts = append(parts, `"`+clean(r.text(3, " .:"))+`"`)
			shape["quoted"] = true
		case 5:
			parts = append(parts, " "+clean(r.text(2, ""))+" ")
			shape["bare-padded"] = true
		default:
			parts = append(parts, clean(r.text(r.between(1, 4), ".:-_/")))
			shape["bare"] = true
		}
	}
	var tags []string
	for _, k := range []string{"bare", "bare-padded", "empty", "quoted", "quoted-delim", "quoted-empty", "quoted-quote"} {
		if shape[k] {
			tags = append(tags, k)
		}
	}
	line := strings.Join(parts, d)
	if line == "" {
		line = "x"
	}
	return []byte(line), fmt.Sprintf("d%s:n%d:%s", byteClass(f.delim), n, strings.Join(tags, "+"))
}

// csvRef is the reference record parser; lastBare reports whether the last
// field was a bare one.
func csvRef(line []byte, delim byte) (fields []string, lastBare bool, ok bool) {
	c := line
	switch {
	case len(c) >= 2 && c[len(c)-2] == '\r' && c[len(c)-1] == '\n':
		c = c[:len(c)-2]
	case len(c) >= 1 && c[len(c)-1] == '\n':
		c = c[:len(c)-1]
	}
	if len(c) == 0 {
		return nil, false, false // an empty record: nothing documented
	}
	i := 0
	for {
		lastBare = false
		if i < len(c) && c[i] == '"' {
			i++
			var sb []byte
			for {
				if i >= len(c) {
					return nil, false, false // unterminated quoted field
				}
				if c[i] == '"' {
					if i+1 < len(c) && c[i+1] == '"' {
						sb = append(sb, '"')
						i += 2
						continue
					}
					i++
					break
				}
				if c[i] == '\n' {
					return nil, false, false // a record is one line
				}
				sb = append(sb, c[i])
				i++
			}
			if i < len(c) && c[i] != delim {
				return nil, false, false
			}
			fields = append(fields, string(sb))
		} else {
			j := i
			for j < len(c) && c[j] != delim {
				if c[j] == '"' || c[j] == '\n' {
					return nil, false, false
				}
				j++
			}
			fields = append(fields, string(c[i:j]))
			i = j
			lastBare = true
		}
		if i >= len(c) {
			return fields, lastBare, true
		}
		i++ // the delimiter
		if i >= len(c) {
			return append(fields, ""), true, true // trailing delimiter: one more empty field
		}
	}
}

func (c *csvCfg) keyName(i int) string {
	if i < len(c.cols) {
		return c.cols[i]
	}
	return c.prefix + strconv.Itoa(i)
}

func (f *csvFam) feed(x *exec, line []byte) {
	for _, c := range f.cfgs {
		fields, lastBare, wellFormed := csvRef(line, c.delim)
		fieldAlts := func(i int) alts {
			a := alts{fields[i]}
			if i == len(fields)-1 && lastBare {
				// the readme does not say whether blanks around the last bare field
				// (next to the line terminator) belong to it: both accepted
				if t := strings.TrimSpace(fields[i]); t != fields[i] {
					a = append(a, t)
				}
			}
			return a
		}

		// ---- Decode
		label := c.label + "/Decode"
		out := x.call(label, line, func(data []byte) (any, error) { return c.dec.Decode(data) })
		rowLen := -1
		if out.decided() {
			var got map[string]any
			if out.err == nil {
				row, ok := out.val.(decoder.CSVRow)
				if !ok {
					x.violate("decoder=csv Decode-result-type", fmt.Sprintf("Decode returned %T", out.val), label, line, nil, false)
					continue
				}
				rowLen = len(row)
				got = map[string]any{}
				for i, v := range row {
					got["#"+strconv.Itoa(i)] = v
				}
			}
			if wellFormed {
				x.count("wellformed_checked", 1)
				if out.err != nil {
					x.violate("decoder=csv well-formed-line kind=rejected", "well-formed CSV line rejected: "+out.err.Error(), label, line, map[string]any{"expected": fields}, false)
				} else {
					exp := expectation{}
					for i := range fields {
						exp["#"+strconv.Itoa(i)] = fieldAlts(i)
					}
					if kind, detail := compareEvent(got, exp); kind != "" {
						x.violate("decoder=csv well-formed-line kind="+csvKind(kind, len(fields)), "well-formed CSV line does not yield exactly its fields: "+detail, label, line,
							map[string]any{"got": got, "expected": fields}, false)
					}
					if lastBare && got["#"+strconv.Itoa(len(fields)-1)] != fields[len(fields)-1] {
						x.count("last_bare_field_trimmed(accepted)", 1)
					}
				}
			} else if out.err == nil {
				x.count("accepted_not_wellformed", 1)
				for k, v := range got {
					if s := v.(string); !strings.Contains(s, `"`) && !pieceOf(line, s) {
						x.violate("decoder=csv field-not-from-line", fmt.Sprintf("field %s=%q is not a piece of the input line", k, s), label, line, nil, false)
					}
				}
			}
		}

		// ---- DecodeToJson
		label = c.label + "/DecodeToJson"
		if c.mode == "fatal" {
			// "fatal - falls with non-zero exit code" is documented; it is not a crash
			// in the sense of the property, so the call is made only when the
			// field count matches (or Decode fails before the count is looked at).
			if out.panicked || (out.err == nil && rowLen != len(c.cols)) {
				if !out.panicked {
					x.count("fatal_mode_exit_documented(not provoked)", 1)
				}
				continue
			}
		}
		x.resetRoot()
		out = x.call(label, line, func(data []byte) (any, error) { return nil, c.dec.DecodeToJson(x.root, data) })
		if !out.decided() {
			continue
		}
		var got map[string]any
		if out.err == nil {
			enc := x.encodeRoot()
			var bad string
			got, bad = decodeFlat(enc, false)
			if bad != "" {
				x.violate("decoder=csv "+bad, "decoder returned nil error but the event is not well-formed: "+bad, label, line, map[string]any{"encoded": show(enc)}, false)
				continue
			}
			x.sample(map[string]any{"decoder": "csv", "cfg": c.label, "input": show(line), "event": string(enc)})
		}
		if !wellFormed {
			if out.err == nil {
				x.count("accepted_not_wellformed", 1)
			}
			continue
		}
		x.count("wellformed_checked", 1)
		countMismatch := len(c.cols) != 0 && len(fields) != len(c.cols)
		if countMismatch && c.mode == "" {
			if out.err == nil {
				x.violate("decoder=csv invalid_line_mode=default field-count-mismatch-accepted",
					fmt.Sprintf("%d fields for %d columns must be an error in mode default", len(fields), len(c.cols)), label, line, map[string]any{"got": got}, false)
			} else {
				x.count("count_mismatch_rejected", 1)
			}
			continue
		}
		if out.err != nil {
			x.violate("decoder=csv well-formed-line kind=rejected", "well-formed CSV line rejected: "+out.err.Error(), label, line, map[string]any{"expected": fields}, false)
			continue
		}
		exp := expectation{}
		for i := range fields {
			exp[c.keyName(i)] = fieldAlts(i)
		}
		if kind, detail := compareEvent(got, exp); kind != "" {
			x.violate("decoder=csv well-formed-line kind="+csvKind(kind, len(fields)), "well-formed CSV line does not yield exactly its fields under the documented key names: "+detail, label, line,
				map[string]any{"got": got, "expected": fields, "cfg": c.label}, false)
		}
		if countMismatch {
			x.count("count_mismatch_continue", 1)
		}
	}
}

// csvKind makes the mismatch kind independent of the concrete key.
func csvKind(kind string, nFields int) string {
	parts := strings.Split(kind, ":")
	if len(parts) >= 3 && parts[0] == "field" {
		parts[1] = "<column>"
	}
	return strings.Join(parts, ":")
}
