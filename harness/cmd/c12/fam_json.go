package main

import (
	"fmt"
	"sort"
	"strings"
	"unicode/utf8"

	"github.com/ozontech/file.d/decoder"
	insaneJSON "github.com/ozontech/insane-json"
)

// ================================================================ json
//
// Reference (decoder/readme.md + property text):
//  * a valid JSON object passes through decode and re-encode semantically
//    unchanged;
//  * json_max_fields_size {path: limit}: "the fields will be cut to the
//    specified limit. It works only with string values. If the field doesn't
//    exist or isn't a string, it will be skipped"; the result is always
//    valid JSON and no other field changes;
//  * anything else is either rejected or yields an event that encodes to
//    valid JSON.

type jsonCfg struct {
	label  string
	limits map[string]int
	dec    decoder.Decoder
}

type jsonFam struct {
	cfgs  []*jsonCfg
	paths []string // union of all named paths of this case (for the generator)
	lim   map[string]int
}

func newJSONFam() *jsonFam { return &jsonFam{} }

func (*jsonFam) name() string          { return "json" }
func (*jsonFam) terminators() []string { return []string{"\n", ""} }
func (*jsonFam) alphabet() string      { return "{}[]\"\"\\\\::,,-+.eE0123456789tfnu \t\n\x01a" }
func (f *jsonFam) labels() []string {
	return []string{"plain/DecodeToJson", "plain/Decode", "max1/DecodeToJson", "max1/Decode", "maxN/DecodeToJson", "maxN/Decode", "readme/DecodeToJson", "readme/Decode"}
}

var jsonPathPool = []string{"message", "level", "ts", "stream", "msg", "k8s.pod", "k8s.labels.app", "a.b.c", "err", "x_1"}
var jsonLimits = []int{0, 1, 2, 3, 3, 4, 5, 5, 7, 8, 10, 16, 31}

func mkJSONDec(limits map[string]int) decoder.Decoder {
	var p decoder.Params
	if limits != nil {
		m := map[string]any{}
		for k, v := range limits {
			m[k] = v
		}
		p = decoder.Params{"json_max_fields_size": m}
	}
	d, err := decoder.New(decoder.JSON, p)
	if err != nil {
		panic("json decoder: " + err.Error())
	}
	return d
}

func (f *jsonFam) begin(x *exec, r *rng) {
	// the plain and the readme decoders live for the whole child; the
	// max-size decoders are rebuilt per case with fresh paths/limits
	if len(f.cfgs) == 0 {
		f.cfgs = []*jsonCfg{
			{label: "plain", dec: mkJSONDec(nil)},
			nil, nil,
			{label: "readme", limits: map[string]int{"level": 3, "message": 5, "ts": 10}},
		}
		f.cfgs[3].dec = mkJSONDec(f.cfgs[3].limits)
	}
	perm := append([]string(nil), jsonPathPool...)
	for i := len(perm) - 1; i > 0; i-- {
		j := r.n(i + 1)
		perm[i], perm[j] = perm[j], perm[i]
	}
	one := map[string]int{perm[0]: pick(r, jsonLimits)}
	many := map[string]int{}
	for _, p := range perm[1 : 1+r.between(2, 4)] {
		many[p] = pick(r, jsonLimits)
	}
	f.cfgs[1] = &jsonCfg{label: "max1", limits: one, dec: mkJSONDec(one)}
	f.cfgs[2] = &jsonCfg{label: "maxN", limits: many, dec: mkJSONDec(many)}
	f.lim = map[string]int{}
	for _, c := range f.cfgs {
		for p, l := range c.limits {
			if _, ok := f.lim[p]; !ok || r.pct(50) {
				f.lim[p] = l
			}
		}
	}
	f.paths = f.paths[:0]
	for p := range f.lim {
		f.paths = append(f.paths, p)
	}
	sort.Strings(f.paths)
}

// ---------------------------------------------------------------- generator

type jgen struct {
	r  *rng
	sb []byte
}

func (g *jgen) ws() {
	switch g.r.n(12) {
	case 0:
		g.sb = append(g.sb, ' ')
	case 1:
		g.sb = append(g.sb, ' ', ' ')
	case 2:
		g.sb = append(g.sb, '\t')
	case 3:
		g.sb = append(g.sb, '\r')
	}
}

// rawString writes content as a JSON string choosing escapes at random
// (style 0: as few as possible, 1: many).
func (g *jgen) rawString(content string, style int) {
	g.sb = append(g.sb, '"')
	for _, c := range content {
		esc := style == 1 && g.r.pct(35)
		switch {
		case c == '"':
			g.sb = append(g.sb, '\\', '"')
		case c == '\\':
			g.sb = append(g.sb, '\\', '\\')
		case c == '\n':
			g.sb = append(g.sb, '\\', 'n')
		case c == '\t':
			g.sb = append(g.sb, '\\', 't')
		case c == '\r':
			g.sb = append(g.sb, '\\', 'r')
		case c == '\b':
			g.sb = append(g.sb, '\\', 'b')
		case c == '\f':
			g.sb = append(g.sb, '\\', 'f')
		case c < 0x20:
			g.sb = append(g.sb, fmt.Sprintf("\\u%04x", c)...)
		case c == '/' && esc:
			g.sb = append(g.sb, '\\', '/')
		case esc && c < 0x10000:
			if g.r.pct(50) {
				g.sb = append(g.sb, fmt.Sprintf("\\u%04X", c)...)
			} else {
				g.sb = append(g.sb, fmt.Sprintf("\\u%04x", c)...)
			}
		case esc:
			c -= 0x10000
			g.sb = append(g.sb, fmt.Sprintf("\\u%04x\\u%04x", 0xd800+(c>>10), 0xdc00+(c&0x3ff))...)
		default:
			g.sb = utf8.AppendRune(g.sb, c)
		}
	}
	g.sb = append(g.sb, '"')
}

var jsonNumbers = []string{"0", "-0", "1", "-1", "42", "3.14", "-2.5e10", "1E+2", "1e-7", "123456789012345678901234567890", "0.000001", "1.0", "100", "2e0", "-0.0", "9007199254740993", "1.7976931348623157e308"}

func (g *jgen) content(n int, flavor int) string {
	var sb strings.Builder
	for sb.Len() < n {
		switch flavor {
		case 0:
			sb.WriteString(g.r.from(alnum+" .-_:", 1))
		case 1:
			if g.r.pct(40) {
				sb.WriteString(pick(g.r, multibyte))
			} else {
				sb.WriteString(g.r.from(lower, 1))
			}
		default:
			switch g.r.n(6) {
			case 0:
				sb.WriteByte('"')
			case 1:
				sb.WriteByte('\\')
			case 2:
				sb.WriteString(pick(g.r, []string{"\n", "\t", "\r", "\b", "\x01", "/"}))
			case 3:
				sb.WriteString(pick(g.r, multibyte))
			default:
				sb.WriteString(g.r.from(lower, 1))
			}
		}
	}
	return sb.String()
}

func (g *jgen) scalarOrNested(depth int) {
	r := g.r
	switch k := r.n(14); {
	case k < 4:
		g.rawString(g.content(r.n(12), r.n(3)), r.n(2))
	case k < 6:
		g.sb = append(g.sb, pick(r, jsonNumbers)...)
	case k < 7:
		g.sb = append(g.sb, pick(r, []string{"true", "false", "null"})...)
	case k < 8:
		g.sb = append(g.sb, pick(r, []string{`""`, `{}`, `[]`, `[{}]`, `{"":""}`})...)
	case k < 10 && depth < 4:
		g.sb = append(g.sb, '[')
		n := r.n(4)
		for i := 0; i < n; i++ {
			if i > 0 {
				g.sb = append(g.sb, ',')
			}
			g.ws()
			g.scalarOrNested(depth + 1)
			g.ws()
		}
		g.sb = append(g.sb, ']')
	case k < 12 && depth < 4:
		g.object(nil, "", depth+1, nil)
	case k == 12 && depth < 2 && r.pct(12):
		// deep nesting
		d := r.between(20, 400)
		open, cl := `{"d":`, "}"
		if r.pct(50) {
			open, cl = "[", "]"
		}
		g.sb = append(g.sb, strings.Repeat(open, d)...)
		g.sb = append(g.sb, '1')
		g.sb = append(g.sb, strings.Repeat(cl, d)...)
	case k == 13 && r.pct(5):
		g.rawString(g.content(r.between(3000, 20000), 1), 0)
	default:
		g.rawString(g.content(r.n(6), 0), 0)
	}
}

// tree of named paths
type pathTree struct {
	kids  map[string]*pathTree
	limit int // -1: inner node
}

func buildPathTree(lim map[string]int) *pathTree {
	root := &pathTree{kids: map[string]*pathTree{}, limit: -1}
	for p, l := range lim {
		cur := root
		for _, k := range strings.Split(p, ".") {
			nx := cur.kids[k]
			if nx == nil {
				nx = &pathTree{kids: map[string]*pathTree{}, limit: -1}
				cur.kids[k] = nx
			}
			cur = nx
		}
		cur.limit = l
	}
	return root
}

// object writes an object that contains the named paths of pt (most of the
// time) among random other members with unique keys.
func (g *jgen) object(pt *pathTree, _ string, depth int, _ any) {
	r := g.r
	type member struct {
		key string
		pt  *pathTree
	}
	var members []member
	used := map[string]bool{}
	if pt != nil {
		keys := make([]string, 0, len(pt.kids))
		for k := range pt.kids {
			keys = append(keys, k)
		}
		sort.Strings(keys)
		for _, k := range keys {
			used[k] = true
			if r.pct(88) {
				members = append(members, member{k, pt.kids[k]})
			}
		}
	}
	extra := r.n(5)
	if depth > 2 {
		extra = r.n(3)
	}
	for i := 0; i < extra; i++ {
		var k string
		switch r.n(8) {
		case 0:
			k = ""
		case 1:
			k = g.content(r.between(1, 5), 2)
		case 2:
			k = g.content(r.between(1, 4), 1)
		default:
			k = r.from(lower+"_", r.between(1, 8))
		}
		for used[k] {
			k += "_"
		}
		used[k] = true
		members = append(members, member{k, nil})
	}
	for i := len(members) - 1; i > 0; i-- {
		j := r.n(i + 1)
		members[i], members[j] = members[j], members[i]
	}
	g.sb = append(g.sb, '{')
	for i, m := range members {
		if i > 0 {
			g.sb = append(g.sb, ',')
		}
		g.ws()
		if m.pt != nil {
			g.rawString(m.key, 0) // named keys are always written plainly
		} else {
			g.rawString(m.key, r.n(2))
		}
		g.ws()
		g.sb = append(g.sb, ':')
		g.ws()
		switch {
		case m.pt == nil:
			g.scalarOrNested(depth)
		case m.pt.limit < 0:
			if r.pct(92) {
				g.object(m.pt, "", depth+1, nil)
			} else {
				g.sb = append(g.sb, pick(r, []string{`"flat"`, "7", "null", "[]"})...)
			}
		default:
			L := m.pt.limit
			switch k := r.n(20); {
			case k < 15:
				n := pick(r, []int{0, L - 1, L, L + 1, L + 2, L + 5, 2*L + 3, L + 40})
				if n < 0 {
					n = 0
				}
				flavor := r.n(3)
				g.rawString(g.content(n, flavor), pick(r, []int{0, 0, 1}))
			case k < 17:
				g.sb = append(g.sb, pick(r, jsonNumbers)...)
			case k < 18:
				g.sb = append(g.sb, `{"nested":"object value longer than any limit"}`...)
			case k < 19:
				g.sb = append(g.sb, `["array","of","strings"]`...)
			default:
				g.sb = append(g.sb, "null"...)
			}
		}
		g.ws()
	}
	g.sb = append(g.sb, '}')
}

const readmeDoc = `{"level":"error","message":"error occurred","ts":"2023-10-30T13:35:33.638720813Z","stream":"stderr"}`

func (f *jsonFam) valid(r *rng) ([]byte, string) {
	if r.pct(6) {
		return []byte(readmeDoc), "readme"
	}
	g := &jgen{r: r}
	g.ws()
	g.object(buildPathTree(f.lim), "", 0, nil)
	g.ws()
	shape := "obj"
	if len(g.sb) > 2000 {
		shape = "obj-large"
	}
	return g.sb, shape
}

// ---------------------------------------------------------------- oracle

func resolvePath(doc *jnode, path string, first bool) *jnode {
	cur := doc
	for _, k := range strings.Split(path, ".") {
		if cur == nil || cur.kind != jObj {
			return nil
		}
		if first {
			cur = cur.getFirst(k)
		} else {
			cur = cur.get(k)
		}
	}
	return cur
}

// cutSpec is the reference for one named string field: every reading of
// "the fields will be cut to the specified limit" that the readme allows. The
// limit may count bytes of the value, characters of the value or bytes of the
// JSON text of the value; the cut value is the longest prefix that fits
// without splitting an indivisible unit (an escape sequence, a character), or
// the exact byte prefix.
type cutSpec struct {
	v       string
	limit   int
	units   []string // unescaped text of each unit
	rawLens []int    // length of each unit in the JSON text
	over    bool     // over the limit under at least one reading
	within  bool     // within the limit under at least one reading
}

func newCutSpec(v, raw string, limit int) *cutSpec {
	c := &cutSpec{v: v, limit: limit}
	for i := 0; i < len(raw); {
		n := 1
		switch {
		case raw[i] == '\\' && i+1 < len(raw) && raw[i+1] == 'u':
			n = 6
			// a surrogate pair is one character
			if i+12 <= len(raw) && raw[i+6] == '\\' && raw[i+7] == 'u' {
				if u, err := parseJSON([]byte(`"` + raw[i:i+12] + `"`)); err == nil && utf8.RuneCountInString(u.str) == 1 && u.str != "\uFFFD" {
					n = 12
				}
			}
		case raw[i] == '\\':
			n = 2
		case raw[i] >= 0x80:
			_, n = utf8.DecodeRuneInString(raw[i:])
		}
		if i+n > len(raw) {
			n = len(raw) - i
		}
		u, err := parseJSON([]byte(`"` + raw[i:i+n] + `"`))
		if err != nil {
			// cannot happen for a string the reference parser accepted
			c.units, c.rawLens = []string{v}, []int{len(raw)}
			break
		}
		c.units = append(c.units, u.str)
		c.rawLens = append(c.rawLens, n)
		i += n
	}
	b, r, w := c.measures(len(c.units))
	c.over = b > limit || r > limit || w > limit
	c.within = b <= limit || r <= limit || w <= limit
	return c
}

// measures of the prefix made of the first k units: bytes, characters, raw bytes.
func (c *cutSpec) measures(k int) (b, r, w int) {
	for i := 0; i < k; i++ {
		b += len(c.units[i])
		r += utf8.RuneCountInString(c.units[i])
		w += c.rawLens[i]
	}
	return
}

func (c *cutSpec) ok(w string) bool {
	if w == c.v || fffd(w) == fffd(c.v) {
		return c.within
	}
	if len(c.v) > c.limit && fffd(w) == fffd(c.v[:c.limit]) {
		return true // exact byte prefix (may split a character)
	}
	prefix := ""
	for k := 0; k < len(c.units); k++ {
		if fffd(prefix) == fffd(w) {
			b, r, rw := c.measures(k)
			b2, r2, rw2 := c.measures(k + 1)
			L := c.limit
			return (b <= L && L < b2) || (r <= L && L < r2) || (rw <= L && L < rw2)
		}
		prefix += c.units[k]
	}
	return false
}

func (c *cutSpec) describe() string {
	return fmt.Sprintf("value %q, limit %d", c.v, c.limit)
}

func valueClass(raw string) string {
	switch {
	case strings.Contains(raw, `\`):
		return "escaped"
	case !isASCII(raw):
		return "multibyte"
	}
	return "ascii"
}

func isASCII(s string) bool {
	for i := 0; i < len(s); i++ {
		if s[i] >= 0x80 {
			return false
		}
	}
	return true
}

// classifyInvalid names the kind of token that makes an encoded event
// invalid JSON (the reference parser's first complaint).
func classifyInvalid(enc []byte, err error) string {
	msg := err.Error()
	at := 0
	if i := strings.LastIndex(msg, " at "); i >= 0 {
		fmt.Sscanf(msg[i+4:], "%d", &at)
	}
	numberish := func(p int) bool {
		return p >= 0 && p < len(enc) && strings.IndexByte("+-.eE0123456789", enc[p]) >= 0
	}
	switch {
	case strings.Contains(msg, "bad number"), strings.Contains(msg, "bad fraction"), strings.Contains(msg, "bad exponent"):
		return "number"
	case strings.Contains(msg, "control character"):
		return "string-with-raw-control-character"
	case strings.Contains(msg, "bad escape"), strings.Contains(msg, "bad unicode escape"):
		return "string-with-invalid-escape"
	case (strings.Contains(msg, "unexpected character") || strings.Contains(msg, "expected ,") || strings.Contains(msg, "trailing data")) && numberish(at):
		return "number"
	}
	if at >= 0 && at < len(enc) && enc[at] < 0x20 {
		return "control-character-between-tokens"
	}
	if i := strings.Index(msg, ": "); i >= 0 {
		msg = msg[i+2:]
	}
	if i := strings.LastIndex(msg, " at "); i >= 0 {
		msg = msg[:i]
	}
	return "other(" + msg + ")"
}

func (f *jsonFam) feed(x *exec, line []byte) {
	inTree, inErr := parseJSON(line)
	valid := inErr == nil
	isObj := valid && inTree.kind == jObj
	dup := valid && inTree.hasDupKeys()
	if valid {
		x.count("input_valid_json", 1)
	} else {
		x.count("input_invalid_json", 1)
	}

	for _, c := range f.cfgs {
		// what the limits mean for this input
		var named map[*jnode]*cutSpec
		cutClass := "none"
		mustCut := false
		if c.limits != nil && isObj {
			named = map[*jnode]*cutSpec{}
			paths := make([]string, 0, len(c.limits))
			for p := range c.limits {
				paths = append(paths, p)
			}
			sort.Strings(paths)
			for _, p := range paths {
				// with duplicate keys (only then do the two differ) the member a path
				// names is not documented: both count for the classification
				for _, first := range []bool{false, true} {
					n := resolvePath(inTree, p, first)
					if n == nil || n.kind != jStr {
						continue
					}
					if _, seen := named[n]; seen {
						continue
					}
					raw := string(line[n.start+1 : n.end-1])
					spec := newCutSpec(n.str, raw, c.limits[p])
					named[n] = spec
					if spec.over {
						cl := valueClass(raw)
						if cutClass == "none" || cl == "escaped" || (cl == "multibyte" && cutClass == "ascii") {
							cutClass = cl
						}
					}
					if !spec.within && !dup {
						mustCut = true
					}
				}
			}
		}

		for _, viaDecode := range []bool{false, true} {
			label := c.label + "/DecodeToJson"
			if viaDecode {
				label = c.label + "/Decode"
			}
			var node *insaneJSON.Node
			var out outcome
			if viaDecode {
				x.resetRoot()
				out = x.call(label, line, func(data []byte) (any, error) {
					v, err := c.dec.Decode(data, x.root)
					if err == nil {
						node, _ = v.(*insaneJSON.Node)
					}
					return v, err
				})
			} else {
				out = x.call(label, line, func(data []byte) (any, error) { return nil, c.dec.DecodeToJson(x.root, data) })
			}
			if !out.decided() {
				continue
			}
			what := "plain"
			if c.limits != nil {
				what = "json_max_fields_size"
			}
			if out.err != nil {
				if isObj && !dup {
					x.violate(fmt.Sprintf("decoder=json %s valid-object-rejected cut-value=%s", what, cutClass),
						"a valid JSON object was rejected: "+errClass(out.err), label, line, map[string]any{"limits": c.limits}, false)
				} else if valid {
					x.count("valid_non_object_or_dup_rejected", 1)
				}
				continue
			}
			var enc []byte
			if viaDecode {
				if node == nil {
					x.violate("decoder=json Decode-result-type", fmt.Sprintf("Decode returned %T", out.val), label, line, nil, false)
					continue
				}
				x.encBuf = node.Encode(x.encBuf[:0])
				enc = x.encBuf
			} else {
				enc = x.encodeRoot()
			}
			outTree, outErr := parseJSON(enc)
			if outErr != nil {
				if valid {
					x.violate(fmt.Sprintf("decoder=json %s valid-json event-not-valid-json cut-value=%s", what, cutClass),
						"valid JSON went in, the decoded event does not encode to valid JSON", label, line,
						map[string]any{"limits": c.limits, "encoded": show(enc), "parse_error": outErr.Error()}, false)
				} else {
					x.count("malformed_accepted", 1)
					x.violate("decoder=json accepts-malformed-json event-not-valid-json token="+classifyInvalid(enc, outErr),
						"malformed JSON was accepted (nil error) and the event does not encode to valid JSON", label, line,
						map[string]any{"encoded": show(enc), "parse_error": outErr.Error()}, false)
				}
				continue
			}
			if !valid {
				x.count("malformed_accepted_event_valid", 1)
				continue
			}
			if dup && c.limits != nil {
				// duplicate keys: which member a path names is not documented
				x.count("max_fields_duplicate_keys(only validity checked)", 1)
				continue
			}
			// valid in, valid out: semantic comparison
			x.count("fidelity_checked", 1)
			cutSeen := false
			ok, path, reason := jsonEqual(inTree, outTree, "", func(p string, a, b *jnode) (bool, bool) {
				acc, isNamed := named[a]
				if !isNamed {
					return false, false
				}
				if b == nil || b.kind != jStr || !acc.ok(b.str) {
					return true, false
				}
				if b.str != a.str {
					cutSeen = true
				}
				return true, true
			})
			if !ok {
				if named != nil && strings.HasPrefix(reason, "named") {
					n := findNamed(inTree, outTree, named)
					x.violate(fmt.Sprintf("decoder=json json_max_fields_size named-field-not-cut-to-limit cut-value=%s", cutClass),
						"a named string field is not the documented prefix of its value ("+n.how+"): "+n.detail, label, line,
						map[string]any{"limits": c.limits, "encoded": show(enc), "how": n.how}, false)
				} else {
					x.violate(fmt.Sprintf("decoder=json %s valid-json-not-preserved what=%s cut-value=%s", what, reason, cutClass),
						"valid JSON does not pass through decode and re-encode semantically unchanged at "+path, label, line,
						map[string]any{"limits": c.limits, "encoded": show(enc)}, false)
				}
				continue
			}
			if cutSeen {
				x.count("max_fields_cut_observed", 1)
				x.fp(label, "cut", cutClass)
				x.sample(map[string]any{"decoder": "json", "limits": c.limits, "input": show(line), "event": show(enc)})
			} else if mustCut {
				// cannot happen: mustCut means v itself is not accepted
				x.violate("decoder=json json_max_fields_size internal-oracle-error", "mustCut without cut", label, line, nil, false)
			}
			if c.limits == nil && isObj {
				x.count("object_fidelity_ok", 1)
			}
		}
	}
}

type namedMismatch struct{ how, detail string }

func findNamed(in, out *jnode, named map[*jnode]*cutSpec) namedMismatch {
	var res namedMismatch
	var walk func(a, b *jnode)
	walk = func(a, b *jnode) {
		if res.how != "" || a == nil {
			return
		}
		if acc, ok := named[a]; ok {
			switch {
			case b == nil:
				res = namedMismatch{"missing", "field disappeared"}
			case b.kind != jStr:
				res = namedMismatch{"not-a-string", "field is no longer a string"}
			case !acc.ok(b.str):
				how := "not-a-prefix"
				switch {
				case b.str == a.str:
					how = "not-cut"
				case strings.HasPrefix(a.str, b.str):
					how = "prefix-of-wrong-length"
				}
				res = namedMismatch{how, fmt.Sprintf("%s became %q", acc.describe(), b.str)}
			}
			return
		}
		if a.kind == jObj && b != nil && b.kind == jObj {
			for i, k := range a.keys {
				walk(a.vals[i], b.get(k))
			}
		}
	}
	walk(in, out)
	if res.how == "" {
		res = namedMismatch{"unknown", ""}
	}
	return res
}
