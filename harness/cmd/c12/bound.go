package main

import (
	"errors"
	"fmt"
	"time"

	"github.com/ozontech/file.d/decoder"
	"github.com/ozontech/file.d/pipeline"
	insaneJSON "github.com/ozontech/insane-json"
)

// Size-gate boundary pass of the `pipe` workload (added after a seeded
// regression: `length < max_event_size` instead of `<=` in
// Pipeline.checkInputBytes made `append(bytes[:max], '\n')` write one byte
// past a line of exactly max_event_size bytes, i.e. over the first byte of
// the next record in the reader's buffer; the ordinary pipe pass has one
// cut-off pipeline with a fixed limit and random lengths, so the cell
// "length == limit, trailing LF, spare capacity" was practically never hit).
//
// The real Pipeline.In is driven the way the file input drives it: the record
// is a sub-slice of a reader buffer
//
//	[canary][previous record][ record ][next record][another record][canary]
//
// with capacity reaching to the end of the buffer (or 0/1/2/7 bytes of it),
// under every relation between the record length and max_event_size
// (0, small, len-2 … len+2) x cut_off_event_by_limit off/on x with/without
// trailing LF, one real pipeline per (limit, cut-off) pair. After In returned
// and once more after the event was finalized (back in the pool) every byte of
// the buffer outside the record must be what it was. Bytes inside the record
// are not judged (the property speaks of bytes outside the line; the unchanged
// cut-off code writes a LF at index max_event_size of an oversized line).
// The outcome oracles of the pipe pass (oracle 9) are applied as well, with
// the documented meaning of the two settings.

const boundMarker = "c12_cut"

var errOversized = errors.New("c12: longer than max_event_size and cut_off_event_by_limit is off (documented: discarded)")

var boundSpares = []int{0, 1, 2, 7}

// readerBuf is the caller's buffer of one In call.
type readerBuf struct {
	buf, snap    []byte
	p, n, capEnd int
}

// place lays out canary|prev|line|next...|canary and returns the record as
// buf[p:p+n:p+n+spare]; spare < 0 means "up to the end of the buffer".
func (b *readerBuf) place(prev, line []byte, next [][]byte, spare int) []byte {
	total := guardLen + len(prev) + len(line) + guardLen
	for _, nx := range next {
		total += len(nx)
	}
	if cap(b.buf) < total {
		b.buf = make([]byte, total*2)
		b.snap = make([]byte, total*2)
	}
	b.buf, b.snap = b.buf[:total], b.snap[:total]
	for i := 0; i < guardLen; i++ {
		b.buf[i] = guardByte(i)
	}
	at := guardLen
	at += copy(b.buf[at:], prev)
	b.p, b.n = at, len(line)
	at += copy(b.buf[at:], line)
	for _, nx := range next {
		at += copy(b.buf[at:], nx)
	}
	for i := at; i < total; i++ {
		b.buf[i] = guardByte(i)
	}
	copy(b.snap, b.buf)
	b.capEnd = total
	if spare >= 0 && b.p+b.n+spare < total {
		b.capEnd = b.p + b.n + spare
	}
	return b.buf[b.p : b.p+b.n : b.capEnd]
}

// outside reports the first byte outside the record that differs from the
// snapshot; inside counts the changed bytes of the record itself.
func (b *readerBuf) outside() (ok bool, where, detail string) {
	for i := range b.buf {
		if i >= b.p && i < b.p+b.n {
			continue
		}
		if b.buf[i] != b.snap[i] {
			switch {
			case i < b.p:
				return false, "before-line", fmt.Sprintf("offset -%d (byte %d of the buffer): %#02x -> %#02x", b.p-i, i, b.snap[i], b.buf[i])
			case i < b.capEnd:
				return false, "after-line-within-capacity", fmt.Sprintf("offset +%d after the line (byte %d of the following data): %#02x -> %#02x", i-(b.p+b.n), i-(b.p+b.n), b.snap[i], b.buf[i])
			}
			return false, "after-capacity", fmt.Sprintf("offset +%d after the line: %#02x -> %#02x", i-(b.p+b.n), b.snap[i], b.buf[i])
		}
	}
	return true, "", ""
}

func (b *readerBuf) inside() (changed int) {
	for i := b.p; i < b.p+b.n; i++ {
		if b.buf[i] != b.snap[i] {
			changed++
		}
	}
	return changed
}

// sizeRel names the relation of max_event_size to the record length.
func sizeRel(m, n int) string {
	switch {
	case m == 0:
		return "0"
	case m == n:
		return "len"
	case m == n-1:
		return "len-1"
	case m == n+1:
		return "len+1"
	case m < n:
		return "below-len"
	}
	return "above-len"
}

var boundRels = []string{"0", "below-len", "len-1", "len", "len+1"}

func yesNo(b bool) string {
	if b {
		return "yes"
	}
	return "no"
}

func boundCell(rel string, cut, nl bool) string {
	return fmt.Sprintf("bound_cell[max_event_size=%s cut_off=%v newline=%s]", rel, cut, yesNo(nl))
}

type boundPass struct {
	x     *exec
	c     *pipeCfg
	dec   decoder.Decoder
	droot *insaneJSON.Root
	rb    readerBuf
	rigN  int
}

// run does the boundary matrix for one case. r is a stream of its own.
func (bp *boundPass) run(f family, r *rng) (inconclusive string) {
	x, c := bp.x, bp.c
	var body []byte
	tag := ""
	for try := 0; try < 8; try++ {
		b, t := f.valid(r)
		if len(b) >= 4 && len(b) < 8192 {
			body, tag = append([]byte(nil), b...), t
			break
		}
	}
	if body == nil {
		x.count("bound_case_skipped_no_line_of_4_to_8191_bytes", 1)
		return ""
	}
	nb, _ := f.valid(r)
	neighbour := append(append([]byte(nil), nb...), '\n')
	next := [][]byte{neighbour, []byte("{\"m\":\"the next record\"}\n")}

	type variant struct {
		mut  string
		line []byte
	}
	vars := []variant{
		{"bound:valid:" + tag + ":lf", append(append([]byte(nil), body...), '\n')},
		{"bound:valid:" + tag + ":none", body},
	}
	// one damaged line of the same length class (mostly the rejection path)
	{
		p := r.n(len(body))
		alpha := f.alphabet()
		m := append([]byte(nil), body...)
		m[p] = alpha[r.n(len(alpha))]
		vars = append(vars, variant{"bound:sub:" + byteClass(m[p]) + ":lf", append(m, '\n')})
	}

	L := len(body)
	small := 1 + r.n(L-2) // 1 … L-2
	seen := map[int]bool{}
	k := 0
	for _, m := range []int{0, small, L - 1, L, L + 1, L + 2} {
		if seen[m] {
			continue
		}
		seen[m] = true
		for _, cut := range []bool{false, true} {
			bp.rigN++
			rig := newPipeRigLim(c, fmt.Sprintf("c12b_%s_%d", c.decName, bp.rigN), m, cut, boundMarker)
			x.count("bound_pipelines", 1)
			for _, v := range vars {
				for _, spare := range []int{-1, boundSpares[k%len(boundSpares)]} {
					k++
					var inc string
					rig, inc = bp.feed(rig, m, cut, v.mut, neighbour, v.line, next, spare)
					if inc != "" {
						rig.p.Stop()
						return inc
					}
				}
			}
			if !rig.waitIdle() {
				rig.p.Stop()
				return "watchdog: pool not idle (boundary pass)"
			}
			select {
			case extra := <-rig.outCh:
				x.violate("pipeline decoder="+c.label+" unexpected-extra-event", "an event reached the output that no accepted line accounts for", "Pipeline.In", nil,
					map[string]any{"event": extra, "max_event_size": m, "cut_off_event_by_limit": cut}, false)
			default:
			}
			rig.p.Stop()
		}
	}
	return ""
}

// feed hands one record to In and applies the buffer oracle and the outcome
// oracles. It returns the rig to go on with (a new one after a panic).
func (bp *boundPass) feed(rig *pipeRig, m int, cut bool, mut string, prev, line []byte, next [][]byte, spare int) (*pipeRig, string) {
	x, c := bp.x, bp.c
	x.curMut = mut
	x.inputs++
	nl := len(line) > 0 && line[len(line)-1] == '\n'
	rel := sizeRel(m, len(line))
	cfg := fmt.Sprintf("Pipeline.In max_event_size=%d(%s) cut_off_event_by_limit=%v", m, rel, cut)
	settings := map[string]any{"max_event_size": m, "max_event_size_vs_line_length": rel, "line_len": len(line), "cut_off_event_by_limit": cut,
		"trailing_newline": nl, "spare_capacity_handed_over": spare, "pool": string(c.pool)}
	with := func(extra map[string]any) map[string]any {
		out := map[string]any{}
		for k, v := range settings {
			out[k] = v
		}
		for k, v := range extra {
			out[k] = v
		}
		return out
	}

	d := directLim(c, bp.dec, bp.droot, line, m, cut)
	if d.panicked {
		x.count("skipped_direct_call_panics", 1)
		return rig, ""
	}
	mud := len(line) == 0 || (len(line) == 1 && line[0] == '\n')
	expectCut := m > 0 && len(line) > m && cut
	if !rig.waitIdle() {
		return rig, "watchdog: pool not idle (boundary pass)"
	}

	data := bp.rb.place(prev, line, next, spare)
	if spare < 0 {
		settings["spare_capacity_handed_over"] = cap(data) - len(data)
	}
	var seq uint64
	panicked := false
	x.evals++
	func() {
		defer func() {
			if v := recover(); v != nil {
				panicked = true
				x.reportPanic(cfg, line, capturePanic(v))
			}
		}()
		seq = rig.p.In(1, "c12-source", pipeline.NewOffsets(int64(x.inputs), nil), data, false, nil)
	}()
	x.count(boundCell(rel, cut, nl), 1)
	x.count("bound_in_calls", 1)

	bufferOracle := func(when string) bool {
		x.count("bound_buffer_checks", 1)
		ok, where, detail := bp.rb.outside()
		if ok {
			return true
		}
		sig := fmt.Sprintf("pipeline decoder=%s buffer-write-outside-line where=%s max_event_size=%s cut_off_event_by_limit=%v trailing-newline=%s",
			c.label, where, rel, cut, yesNo(nl))
		if when != "after-In-returned" {
			sig += " when=" + when
		}
		after := bp.rb.buf[bp.rb.p+bp.rb.n:]
		if len(after) > 48 {
			after = after[:48]
		}
		wasAfter := bp.rb.snap[bp.rb.p+bp.rb.n:]
		if len(wasAfter) > 48 {
			wasAfter = wasAfter[:48]
		}
		x.violate(sig, "Pipeline.In altered bytes of the caller's buffer outside the line (the record was a sub-slice of a reader buffer, other records behind it): "+detail,
			cfg, line, with(map[string]any{"where": detail, "when": when, "bytes_after_line_before": show(wasAfter), "bytes_after_line_now": show(after)}), false)
		return false
	}
	intact := bufferOracle("after-In-returned")
	if n := bp.rb.inside(); n > 0 {
		x.count("bound_bytes_changed_inside_the_line(not judged)", int64(n))
	}
	if panicked {
		x.count("panic", 1)
		x.fp("Pipeline.In/bound", mut, rel, fmt.Sprint(cut), "panic")
		rig.p.Stop()
		bp.rigN++
		return newPipeRigLim(c, fmt.Sprintf("c12b_%s_%d", c.decName, bp.rigN), m, cut, boundMarker), ""
	}
	// the event is finalized when it is back in the pool: look at the buffer again
	finalized := func() bool {
		if !rig.waitIdle() {
			return false
		}
		if intact {
			bufferOracle("after-event-finalized")
		}
		return true
	}

	if mud || d.err != nil {
		x.count("rejected", 1)
		if seq != pipeline.EventSeqIDError {
			x.violate("pipeline decoder="+c.label+" rejected-line-entered-pipeline", "the line must be rejected (decoder error, empty, or oversized without cut-off) but Pipeline.In accepted it", cfg, line,
				with(map[string]any{"expected": fmt.Sprint(d.err)}), false)
			select {
			case <-rig.outCh:
			case <-time.After(5 * time.Second):
			}
			return rig, ""
		}
		if n := rig.p.VerifPoolInUse(); n != 0 {
			x.violate("pipeline decoder="+c.label+" event-not-returned-to-pool-on-decode-error",
				fmt.Sprintf("after a rejected line %d event(s) remain taken from the pool", n), cfg, line, with(nil), false)
			rig.p.Stop()
			bp.rigN++
			rig = newPipeRigLim(c, fmt.Sprintf("c12b_%s_%d", c.decName, bp.rigN), m, cut, boundMarker)
		}
		x.fp("Pipeline.In/bound", mut, rel, fmt.Sprint(cut), "rejected")
		return rig, ""
	}
	if seq == pipeline.EventSeqIDError {
		x.violate("pipeline decoder="+c.label+" accepted-line-dropped", "the line fits the limit (or is to be cut) and the decoder accepts it, but Pipeline.In returned EventSeqIDError", cfg, line,
			with(map[string]any{"direct": d.enc}), false)
		return rig, ""
	}
	var got string
	select {
	case got = <-rig.outCh:
	case <-time.After(20 * time.Second):
		return rig, "watchdog: event did not reach the output (boundary pass)"
	}
	x.count("events_out", 1)
	if !finalized() {
		return rig, "watchdog: pool not idle (boundary pass)"
	}
	if _, derr := parseJSON([]byte(d.enc)); derr != nil {
		x.count("direct_event_invalid_json(reported by the direct workload)", 1)
		return rig, ""
	}
	gt, gerr := parseJSON([]byte(got))
	if gerr != nil {
		x.violate("pipeline decoder="+c.label+" output-event-not-valid-json", "event at the output is not valid JSON", cfg, line, with(map[string]any{"event": got}), false)
		return rig, ""
	}
	match := false
	for _, e := range []string{d.enc, d.alt} {
		if e == "" {
			continue
		}
		et, eerr := parseJSON([]byte(e))
		if eerr != nil {
			continue
		}
		// the cut-off marker is the only field Pipeline.In may add here
		if ok, _, _ := jsonEqual(et, gt, "", nil); ok || equalIgnoring(et, gt, boundMarker) {
			match = true
			break
		}
	}
	if !match {
		x.violate("pipeline decoder="+c.label+" output-differs-from-decoder-result", "event at the output of an action-less pipeline differs from what the decoder yields for the line (cut to max_event_size where documented)", cfg, line,
			with(map[string]any{"event": got, "direct": d.enc, "direct_alt": d.alt}), false)
		return rig, ""
	}
	if expectCut {
		if n := gt.get(boundMarker); n == nil || n.kind != jTrue {
			x.violate("pipeline decoder="+c.label+" cutoff-field-missing", "cut_off_event_by_limit_field not set on a cut event", cfg, line, with(map[string]any{"event": got}), false)
		}
		x.count("cutoff_events", 1)
	}
	x.fp("Pipeline.In/bound", mut, rel, fmt.Sprint(cut), "out")
	return rig, ""
}
