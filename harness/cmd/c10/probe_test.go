package main

import (
	"context"
	"fmt"
	"testing"
	"time"

	"github.com/twmb/franz-go/pkg/kgo"
)

type pobs struct{}

func (pobs) served(topic string, partition int32, b *fBatch, fo int64) {
	fmt.Println("served", topic, partition, b.First, b.last(), "fo", fo)
}
func (pobs) committed(c commitObs) { fmt.Println("committed", c) }

func TestProbe(t *testing.T) {
	b, err := newFakeBroker(pobs{})
	if err != nil {
		t.Fatal(err)
	}
	defer b.close()
	mk := func(base int64) *fPartition {
		p := &fPartition{logStart: base}
		off := base
		for i := 0; i < 3; i++ {
			fb := &fBatch{First: off, Epoch: int32(5 + i)}
			for j := 0; j < 3; j++ {
				fb.Recs = append(fb.Recs, fRec{Delta: int32(j * 2), Value: []byte(fmt.Sprintf(`{"id":"%d"}`, off+int64(j*2)))})
			}
			off = fb.last() + 3
			p.batches = append(p.batches, fb)
		}
		return p
	}
	b.addTopic("t1", []*fPartition{mk(0), mk(1 << 40)})
	b.release("t1", 0, -1)
	b.release("t1", 1, 1)
	cl, err := kgo.NewClient(kgo.SeedBrokers(b.addr()), kgo.ConsumerGroup("g"), kgo.ConsumeTopics("t1"), kgo.AutoCommitMarks(),
		kgo.AutoCommitInterval(100*time.Millisecond), kgo.ConsumeResetOffset(kgo.NewOffset().AtStart()), kgo.FetchMaxWait(250*time.Millisecond),
		kgo.OnPartitionsAssigned(func(_ context.Context, _ *kgo.Client, m map[string][]int32) { fmt.Println("assigned", m) }),
		kgo.BlockRebalanceOnPoll())
	if err != nil {
		t.Fatal(err)
	}
	ctx, cancel := context.WithTimeout(context.Background(), 5*time.Second)
	defer cancel()
	if err := cl.Ping(ctx); err != nil {
		t.Fatal(err)
	}
	n := 0
	go func() { time.Sleep(700 * time.Millisecond); b.release("t1", 1, -1) }()
	for n < 18 {
		f := cl.PollRecords(ctx, 100)
		if ctx.Err() != nil {
			t.Fatal("timeout", n)
		}
		for _, e := range f.Errors() {
			fmt.Println("ERR", e)
		}
		f.EachRecord(func(r *kgo.Record) {
			n++
			fmt.Println("rec", r.Topic, r.Partition, r.Offset, r.LeaderEpoch, string(r.Value))
			cl.MarkCommitOffsets(map[string]map[int32]kgo.EpochOffset{r.Topic: {r.Partition: {Epoch: r.LeaderEpoch, Offset: r.Offset + 1}}})
		})
		cl.AllowRebalance()
		fmt.Println("marked", cl.MarkedOffsets(), "committed", cl.CommittedOffsets())
	}
	time.Sleep(300 * time.Millisecond)
	fmt.Println("marked", cl.MarkedOffsets(), "committed", cl.CommittedOffsets())
	cl.Close()
	fmt.Println(b.stats(), b.committedOffsets())
}
