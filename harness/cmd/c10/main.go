// C10 — the kafka input never acknowledges (marks for commit) a record that
// is not finished. The real plugin (Start, NewClient, consumer group, poll
// loop, partition consumers, Commit, Stop) runs against a loopback broker;
// the monitor sits at the plugin boundary (In, Commit), in a script action,
// in a Batcher-based output and in the broker, reads
// kgo.Client.MarkedOffsets() after every Commit and judges every marked /
// committed offset with the reference model in model.go.
package main

import (
	"encoding/json"
	"fmt"
	"os"
	"runtime"
	"sort"
	"strings"
	"sync"
	"time"

	"verifharness/core"
)

func main() {
	core.RegisterChild("case", func(raw json.RawMessage, io *core.ChildIO) (any, error) {
		var cs Case
		if err := json.Unmarshal(raw, &cs); err != nil {
			return nil, err
		}
		return runCase(&cs, io), nil
	})
	core.Main("C10", "exploration", run)
}

func run(c *core.Ctx) {
	c.SetRule("cases run the real kafka input plugin in a real pipeline (2*GOMAXPROCS processors, spread mode as the plugin asks) against a loopback Kafka broker, one child process per case under -race. " +
		"grid: topic lists of 1..4 distinct topics and lists that repeat a name ([a,a], [a,a,b], [a,b,a,c], ...) x every topic x partitions {0,1,255,65535} x offsets {0,1,2^16-1,2^16,2^16+1,2^31-1,2^31,2^31+1,2^47-1} x epochs {0,1,65534,65535}, one record in flight (there the marked head after each Commit must be exactly that record's offset+1 and epoch), through the real partition consumers (complete enumeration); " +
		"inject: seeded concurrent hand-made fetches with extreme partitions/offsets/epochs; sched: seeded logs (1-4 topics x 1-4 partitions, 40% of the topics lists repeat a name with a distinct topic after the repetition, offset gaps, epoch bumps, empty/unparsable/oversize values, resumed-from-commit partitions) served by the broker through the real poll loop, script action delays/discards, batch size 1-8 x workers 1-4 x send delays, 2-16 processors; " +
		"edge cases: epochs 65535/65534/1/0 on fresh partitions 0/1/255 (broker-fed, 256-partition topic) and 65535 (injected) at offsets 0.., 2^31+-1, ..2^47-1; split: 30% of sched cases, a third of inject cases and the split-edge cases run the chain [real split action, script] with records that carry an array of child objects, Topics[0]/0 empty or only at high offsets in the split-edge cases; every Commit call is attributed to a handed record by the id in its payload, a Commit for anything else (split child, unknown event) is a violation; stop-early: the input plugin is stopped (Plugin.Stop commits the marked offsets) while slow events are in flight; directed: an earlier record is held in the action (d-spread) or in the output's send (d-output) until a later record of the partition has been committed / acknowledged. " +
		"Every marked head read after every Commit/In and every OffsetCommit received by the broker is judged (P1 packing, P2 frontier). distinct = configuration class x observed phenomena (completion inversions, refused records, resumed partitions, classes of frontier passes); non-trivial = at least one mark judged")
	c.Assume("plan A of DESIGN §C10: Plugin.Start/NewClient/Ping/consumer group/PollRecords/auto-commit/Stop run unmodified against a loopback broker written from the Kafka protocol docs with franz-go's kmsg codec (single member, no rebalance, Fetch v6, no transactions); the franz-go client itself is trusted (forward-only marks ordered by (epoch, offset), auto-commit sends the marked heads)")
	c.Assume("grid/inject cases feed hand-made kgo fetches to a second splitConsume built by the accessor plugin/input/kafka/verif_c10.go from the plugin's own fields (real Assigned + pconsumer.consume); the marks still go to the plugin's real client and from there to the broker")
	c.Assume("acknowledged = the output's send function returned for the batch; deliberately dropped = Pipeline.In returned 0 (empty value, unparsable JSON, over max_event_size without cut-off) or the script action returned ActionDiscard (recorded before returning)")
	c.Assume("Commit calls are serialized by the monitor while it reads MarkedOffsets (attribution of each head change to one Commit); this does not change the order in which records finish")

	var cases []Case
	nSched := c.N(44, 640)
	nInject := c.N(6, 64)
	nDirected := c.N(3, 12)
	orders := c.N(1, 2)
	for k := 1; k <= 4; k++ {
		for o := 0; o < orders; o++ {
			cases = append(cases, gridCase(k, o))
		}
	}
	// the grid again with topics lists that name a topic twice ([a,a], [a,a,b], [a,b,a,c], ...)
	for o := 0; o < orders; o++ {
		cases = append(cases, gridRepeatCase(1, []int{0, 0}, o), gridRepeatCase(2, []int{0, 0, 1}, o), gridRepeatCase(3, []int{0, 1, 0, 2}, o))
		if c.Thorough() {
			cases = append(cases, gridRepeatCase(3, []int{0, 0, 1, 1, 2}, o), gridRepeatCase(4, []int{0, 1, 2, 2, 3}, o))
		}
	}
	for i := 0; i < nDirected; i++ {
		cases = append(cases, directedCase("d-spread", i, c.SubSeed("d-spread", i)))
		cases = append(cases, directedCase("d-output", i, c.SubSeed("d-output", i)))
	}
	for i := 0; i < nInject; i++ {
		cases = append(cases, injectCase(i, c.SubSeed("inject", i)))
	}
	for i := 0; i < nSched; i++ {
		cases = append(cases, schedCase(i, c.SubSeed("sched", i)))
	}
	for i := 0; i < c.N(5, 48); i++ {
		cases = append(cases, stopEarlyCase(i, c.SubSeed("stop-early", i)))
	}
	// edges of the property's ranges on fresh partitions (first marks are always visible):
	// leader epochs 65535 / 65534 / 1 / 0 x offsets 0.., 2^31+-1, ..2^47-1 x partitions 0, 1, 255 (broker-fed) and 65535 (injected)
	for rep := 0; rep < c.N(1, 4); rep++ {
		for k := 0; k < 4; k++ {
			cases = append(cases, schedEdgeCase(k, c.SubSeed("sched-edge", rep*4+k)))
		}
		for plan := 1; plan <= 4; plan++ {
			cases = append(cases, injectEdgeCase(plan, c.SubSeed("inject-edge", rep*4+plan)))
		}
		// the real split action with nothing (or only high offsets) on Topics[0]/0
		for k := 0; k < 2; k++ {
			cases = append(cases, splitEdgeCase(k, c.SubSeed("split-edge", rep*2+k)))
		}
	}
	seenName := map[string]int{}
	for i := range cases { // names are unique (replay selects by name)
		seenName[cases[i].Name]++
		if n := seenName[cases[i].Name]; n > 1 {
			cases[i].Name = fmt.Sprintf("%s-r%d", cases[i].Name, n)
		}
	}
	if p := c.ReplayArg(); p != "" {
		// re-run only the case named in the witness, with a trace
		if name := replayCaseName(p); name != "" {
			var only []Case
			for _, cs := range cases {
				if cs.Name == name {
					cs.Trace = true
					only = append(only, cs)
				}
			}
			if len(only) > 0 {
				cases = only
			}
		}
	}

	if only := os.Getenv("C10_ONLY"); only != "" { // debugging aid: run the named cases only and print their results
		var sel []Case
		for _, cs := range cases {
			if strings.Contains(cs.Name, only) {
				cs.Trace = os.Getenv("C10_TRACE") != ""
				sel = append(sel, cs)
			}
		}
		for i := range sel {
			res := core.RunChild("case", &sel[i], core.ChildOpt{Timeout: 6 * time.Minute, GOMAXPROCS: sel[i].Procs, Env: []string{"LOG_LEVEL=fatal"}})
			if d := os.Getenv("C10_DUMP"); d != "" {
				_ = os.WriteFile(d+"/"+sel[i].Name+".json", res.Out, 0o644)
			}
			fmt.Printf("== %s completed=%v timedout=%v\n%s\nstderr tail:\n%s\n", sel[i].Name, res.Completed, res.TimedOut, core.Trunc(string(res.Out), 6000), core.Trunc(res.Stderr, 3000))
		}
		c.Fatal("C10_ONLY debugging run")
		return
	}
	// heavier cases first; total thread demand is kept near the core count
	sort.SliceStable(cases, func(i, j int) bool { return cases[i].Procs > cases[j].Procs })
	budget := runtime.NumCPU() + 4
	if budget < 6 {
		budget = 6
	}
	var mu sync.Mutex
	cond := sync.NewCond(&mu)
	used := 0
	var wg sync.WaitGroup
	kindSeen := map[string]map[string]int64{}
	for i := range cases {
		cs := cases[i]
		cost := cs.Procs + 1
		mu.Lock()
		for used > 0 && used+cost > budget {
			cond.Wait()
		}
		used += cost
		mu.Unlock()
		wg.Add(1)
		go func() {
			defer wg.Done()
			defer func() { mu.Lock(); used -= cost; cond.Broadcast(); mu.Unlock() }()
			r := runOne(c, &cs)
			if r == nil {
				return
			}
			mu.Lock()
			if kindSeen[cs.Kind] == nil {
				kindSeen[cs.Kind] = map[string]int64{}
			}
			for k, v := range r.Stats {
				kindSeen[cs.Kind][k] += v
			}
			for _, f := range r.Flags {
				kindSeen[cs.Kind]["flag:"+f]++
			}
			mu.Unlock()
		}()
	}
	wg.Wait()
	if c.ReplayArg() != "" {
		return
	}

	// a run that did not observe what it is about decides nothing
	need := func(kind, stat, why string) {
		if kindSeen[kind][stat] == 0 {
			c.Fatal("%s cases never observed %s (%s)", kind, stat, why)
		}
	}
	for _, k := range []string{"grid", "inject", "sched"} {
		need(k, "marks_exact", "a Commit after which the partition's marked offset is that record's offset+1")
		need(k, "p1_ok_mark", "a marked head that is offset+1/epoch of a handed record")
		need(k, "p1_ok_broker", "an OffsetCommit received by the broker that is offset+1/epoch of a handed record")
	}
	for _, k := range []string{"grid", "inject", "sched"} {
		need(k, "heads_judged_with_a_repeated_topic_in_the_topics_list", "marks judged in a case whose topics list names a topic more than once")
	}
	for _, k := range []string{"grid", "inject", "sched"} {
		need(k, "marks_exact_epoch_65535", "a mark carrying leader epoch 65535 exactly")
		need(k, "marks_exact_epoch_65534", "a mark carrying leader epoch 65534 exactly")
		need(k, "marks_exact_epoch_0", "a mark carrying leader epoch 0")
		need(k, "marks_exact_epoch_1", "a mark carrying leader epoch 1")
	}
	for _, k := range []string{"inject", "sched"} {
		need(k, "commit_calls_event_kind_split-parent", "Commit of a record that went through the real split action")
		need(k, "split_children_acked", "children of the split action acknowledged by the output")
	}
	need("grid", "final_broker_commit_equals_head", "the final committed offsets at the broker equal to the last marked heads")
	need("sched", "final_broker_commit_equals_head", "the final committed offsets at the broker equal to the last marked heads")
	need("sched", "completion_inversions", "a record finishing before an earlier record of its partition")
	need("sched", "in_refused_bad", "an unparsable value refused by Pipeline.In")
	need("sched", "in_refused_big", "an oversize value refused by Pipeline.In")
	need("sched", "handed_empty_values", "an empty / null value")
	need("sched", "partitions_resumed_from_commit", "a partition resumed from a previous session's commit")
	need("sched", "p2_ok_mark", "a marked head with nothing unfinished below it")
	need("stop-early", "in_flight_at_input_stop", "events in flight when the input plugin was stopped")
	need("stop-early", "p1_ok_broker", "offsets committed by Plugin.Stop")
	if kindSeen["d-spread"]["flag:arrived:UseSpread"] > 0 {
		need("d-spread", "flag:directed:later-record-done-while-earlier-held", "the directed schedule: a later record committed while an earlier one is held in the action")
	} else {
		// without spread mode a partition is one stream: nothing can overtake the held record
		c.Count("d-spread_unreachable_plugin_did_not_ask_for_spread", 1)
	}
	if kindSeen["d-output"]["flag:arrived:UseSpread"] > 0 {
		need("d-output", "flag:directed:later-record-done-while-earlier-held", "the directed schedule: a later record acknowledged while an earlier one is held in the output's send")
	}
	if g := kindSeen["grid"]; g["marks_exact"] != g["commit_calls"] {
		c.Count("grid_commits_without_exact_mark", g["commit_calls"]-g["marks_exact"])
	}
}

func replayCaseName(path string) string {
	b, err := readFile(path)
	if err != nil {
		return ""
	}
	var w struct {
		Witness struct {
			Case string `json:"case"`
		} `json:"witness"`
	}
	_ = json.Unmarshal(b, &w)
	return w.Witness.Case
}

func runOne(c *core.Ctx, cs *Case) *Result {
	opt := core.ChildOpt{Timeout: 3 * time.Minute, GOMAXPROCS: cs.Procs, Env: []string{"LOG_LEVEL=fatal"}}
	res := core.RunChild("case", cs, opt)
	c.Eval(1)
	c.Count("cases_"+cs.Kind, 1)
	for _, rr := range res.RaceReports {
		c.Count("race_reports", 1)
		c.Extra("race:"+core.RaceKey(rr), core.Trunc(rr, 1500))
	}
	if res.TimedOut {
		c.Inconclusive("watchdog:" + cs.Kind)
		c.Extra("watchdog_"+cs.Name, map[string]any{"spec": cs, "last_log": string(res.LastLog()), "goroutines_tail": core.Trunc(res.Stderr, 30000)})
		return nil
	}
	if res.Crashed() {
		// confirm by running the same case alone once more
		again := core.RunChild("case", cs, opt)
		msg, fn := core.PanicFunc(res.Stderr)
		if again.Crashed() {
			msg2, fn2 := core.PanicFunc(again.Stderr)
			if fn2 == fn || msg2 == msg {
				c.Violation(fmt.Sprintf("C10:crash:%s@%s", core.NormalizeMsg(msg), fn),
					"the process running the kafka input died", map[string]any{"case": cs.Name, "spec": cs, "stderr": core.Trunc(res.Stderr, 3000)})
				return nil
			}
		}
		c.Inconclusive("unconfirmed-crash:" + cs.Kind)
		c.Extra("unconfirmed_crash_"+cs.Name, core.Trunc(res.Stderr, 2000))
		return nil
	}
	var r Result
	if err := json.Unmarshal(res.Out, &r); err != nil {
		c.Fatal("cannot decode the result of %s: %v", cs.Name, err)
		return nil
	}
	if r.HarnessError != "" {
		c.Fatal("case %s: %s", cs.Name, r.HarnessError)
		return nil
	}
	for _, f := range r.Flags {
		if strings.HasPrefix(f, "harness:") {
			c.Fatal("case %s: monitor inconsistency %q (not a C10 verdict; the workload did not behave as the generator assumes)", cs.Name, f)
		}
	}
	for _, v := range r.Viols {
		w := map[string]any{"case": cs.Name, "observation": v.Witness, "spec": cs, "times_in_case": r.ViolCount[v.Sig]}
		if len(r.Trace) > 0 {
			w["trace"] = r.Trace
		}
		c.Violation(v.Sig, v.What, w)
	}
	if r.Inconclusive != "" {
		c.Inconclusive(cs.Kind + ": " + r.Inconclusive)
		c.Extra("inconclusive_"+cs.Name, map[string]any{"why": r.Inconclusive, "stages": r.Dump, "stats": r.Stats, "stderr": core.Trunc(res.Stderr, 6000)})
	}
	if len(r.Notes) > 0 {
		c.Extra("notes_"+cs.Name, r.Notes)
	}
	for k, v := range r.Stats {
		switch k {
		case "processors":
			c.Count(fmt.Sprintf("cases_with_%02d_processors", v), 1)
		default:
			c.Count(k, v)
		}
	}
	for _, f := range r.Flags {
		c.Count("cases_flag_"+f, 1)
	}
	if r.Stats["heads_checked_mark"] > 0 {
		c.Nontrivial(fingerprint(cs, &r))
	}
	if r.Sample != nil && (cs.Kind != "sched" || strings.HasSuffix(cs.Name, "-0") || strings.HasSuffix(cs.Name, "-1")) {
		c.Sample(r.Sample)
	}
	if c.ReplayArg() != "" {
		fmt.Printf("replayed %s: violations=%v flags=%v\n", cs.Name, r.ViolCount, r.Flags)
		for _, l := range r.Trace {
			fmt.Println("  ", l)
		}
	}
	return &r
}

func readFile(p string) ([]byte, error) { return os.ReadFile(p) }
