package main

func main() {}
