package main

// A small single-node loopback Kafka broker, written from the Kafka protocol
// documentation with franz-go's kmsg codec. It exists only so that the real
// kafka input plugin (Plugin.Start -> kafka.NewClient -> Ping, consumer group
// join, PollRecords, auto-commit of marked offsets, Plugin.Stop) runs
// unmodified and so that the offsets file.d asks Kafka to commit can be seen
// from the outside (OffsetCommit requests).
//
// Supported: ApiVersions, Metadata, FindCoordinator, JoinGroup, SyncGroup,
// Heartbeat, LeaveGroup, OffsetFetch, OffsetCommit, ListOffsets, Fetch
// (record batches v2, long poll). One consumer group member at a time; no
// rebalances, no transactions, no fetch sessions (Fetch <= v6).

import (
	"encoding/binary"
	"hash/crc32"
	"io"
	"net"
	"sort"
	"strconv"
	"sync"
	"time"

	"github.com/twmb/franz-go/pkg/kbin"
	"github.com/twmb/franz-go/pkg/kmsg"
)

type fRec struct {
	Delta int32
	Value []byte // nil = tombstone (null value)
	Key   []byte
}

type fBatch struct {
	First int64
	Epoch int32
	Recs  []fRec
	enc   []byte
}

func (b *fBatch) last() int64 { return b.First + int64(b.Recs[len(b.Recs)-1].Delta) }

type fPartition struct {
	batches  []*fBatch // ascending offsets
	visible  int       // number of batches a consumer may see (high watermark)
	logStart int64
}

func (p *fPartition) hw() int64 {
	if p.visible == 0 {
		return p.logStart
	}
	return p.batches[p.visible-1].last() + 1
}

type commitObs struct {
	Topic     string
	Partition int32
	Offset    int64
	Epoch     int32
}

type brokerObserver interface {
	// served is called (under the broker lock) when a batch is put into a
	// Fetch response; fetchOffset is the offset the client asked for (records
	// below it are ignored by the client).
	served(topic string, partition int32, b *fBatch, fetchOffset int64)
	// committed is called for every partition of every OffsetCommit request.
	committed(c commitObs)
}

type fakeBroker struct {
	ln   net.Listener
	host string
	port int32

	mu       sync.Mutex
	wake     chan struct{} // closed and replaced whenever data becomes visible / broker closes
	topics   map[string][]*fPartition
	order    []string
	commits  map[string]map[int32]commitObs // group offsets (pre-seeded = "previous session")
	gen      int32
	member   string
	assign   map[string][]byte
	override func(topics []string) map[string][]int32 // optional: assignment chosen by "another leader"
	closed   bool
	conns    map[net.Conn]struct{}
	obs      brokerObserver

	maxBatchesPerFetch int
	stat               map[string]int64
	fetched            map[string]bool
}

func newFakeBroker(obs brokerObserver) (*fakeBroker, error) {
	ln, err := net.Listen("tcp4", "127.0.0.1:0")
	if err != nil {
		return nil, err
	}
	h, p, _ := net.SplitHostPort(ln.Addr().String())
	pn, _ := strconv.Atoi(p)
	b := &fakeBroker{
		ln: ln, host: h, port: int32(pn), wake: make(chan struct{}),
		topics: map[string][]*fPartition{}, commits: map[string]map[int32]commitObs{},
		assign: map[string][]byte{}, conns: map[net.Conn]struct{}{}, obs: obs,
		maxBatchesPerFetch: 4, stat: map[string]int64{}, fetched: map[string]bool{},
	}
	go b.acceptLoop()
	return b, nil
}

func (b *fakeBroker) addr() string { return net.JoinHostPort(b.host, strconv.Itoa(int(b.port))) }

func (b *fakeBroker) addTopic(name string, parts []*fPartition) {
	b.mu.Lock()
	b.topics[name] = parts
	b.order = append(b.order, name)
	b.mu.Unlock()
}

// release makes n more batches of a partition visible (n<0: all).
func (b *fakeBroker) release(topic string, part int, n int) {
	b.mu.Lock()
	p := b.topics[topic][part]
	if n < 0 || p.visible+n > len(p.batches) {
		p.visible = len(p.batches)
	} else {
		p.visible += n
	}
	close(b.wake)
	b.wake = make(chan struct{})
	b.mu.Unlock()
}

func (b *fakeBroker) seedCommit(c commitObs) {
	b.mu.Lock()
	if b.commits[c.Topic] == nil {
		b.commits[c.Topic] = map[int32]commitObs{}
	}
	b.commits[c.Topic][c.Partition] = c
	b.mu.Unlock()
}

func (b *fakeBroker) committedOffsets() []commitObs {
	b.mu.Lock()
	defer b.mu.Unlock()
	var out []commitObs
	for _, m := range b.commits {
		for _, c := range m {
			out = append(out, c)
		}
	}
	sort.Slice(out, func(i, j int) bool {
		if out[i].Topic != out[j].Topic {
			return out[i].Topic < out[j].Topic
		}
		return out[i].Partition < out[j].Partition
	})
	return out
}

func (b *fakeBroker) stats() map[string]int64 {
	b.mu.Lock()
	defer b.mu.Unlock()
	out := map[string]int64{}
	for k, v := range b.stat {
		out[k] = v
	}
	return out
}

func (b *fakeBroker) close() {
	b.mu.Lock()
	if b.closed {
		b.mu.Unlock()
		return
	}
	b.closed = true
	close(b.wake)
	b.wake = make(chan struct{})
	for c := range b.conns {
		_ = c.Close()
	}
	b.mu.Unlock()
	_ = b.ln.Close()
}

func (b *fakeBroker) acceptLoop() {
	for {
		c, err := b.ln.Accept()
		if err != nil {
			return
		}
		b.mu.Lock()
		if b.closed {
			b.mu.Unlock()
			_ = c.Close()
			return
		}
		b.conns[c] = struct{}{}
		b.mu.Unlock()
		go b.serve(c)
	}
}

// ---- record batch encoding (message format v2) ----

var crc32c = crc32.MakeTable(crc32.Castagnoli)

func encodeBatch(fb *fBatch) []byte {
	var recs []byte
	for _, r := range fb.Recs {
		var body []byte
		body = append(body, 0)                       // attributes
		body = kbin.AppendVarlong(body, 0)           // timestamp delta
		body = kbin.AppendVarint(body, r.Delta)      // offset delta
		body = kbin.AppendVarintBytes(body, r.Key)   // key (nil => -1)
		body = kbin.AppendVarintBytes(body, r.Value) // value (nil => -1)
		body = kbin.AppendVarint(body, 0)            // headers
		recs = kbin.AppendVarint(recs, int32(len(body)))
		recs = append(recs, body...)
	}
	rb := kmsg.RecordBatch{
		FirstOffset:          fb.First,
		PartitionLeaderEpoch: fb.Epoch,
		Magic:                2,
		Attributes:           0,
		LastOffsetDelta:      fb.Recs[len(fb.Recs)-1].Delta,
		FirstTimestamp:       1_700_000_000_000,
		MaxTimestamp:         1_700_000_000_000,
		ProducerID:           -1,
		ProducerEpoch:        -1,
		FirstSequence:        -1,
		NumRecords:           int32(len(fb.Recs)),
		Records:              recs,
	}
	raw := rb.AppendTo(nil)
	// layout: firstOffset(8) length(4) leaderEpoch(4) magic(1) crc(4) attributes...
	binary.BigEndian.PutUint32(raw[8:], uint32(len(raw)-12))
	binary.BigEndian.PutUint32(raw[17:], crc32.Checksum(raw[21:], crc32c))
	return raw
}

// ---- connection handling ----

var supported = map[int16]int16{ // key -> max version (min 0)
	18: 3, // ApiVersions
	3:  6, // Metadata
	10: 2, // FindCoordinator
	11: 3, // JoinGroup
	14: 2, // SyncGroup
	12: 2, // Heartbeat
	13: 2, // LeaveGroup
	9:  5, // OffsetFetch
	8:  7, // OffsetCommit
	2:  3, // ListOffsets
	1:  6, // Fetch
}

func (b *fakeBroker) serve(c net.Conn) {
	defer func() {
		_ = c.Close()
		b.mu.Lock()
		delete(b.conns, c)
		b.mu.Unlock()
	}()
	var wmu sync.Mutex
	write := func(corr int32, flexHeader bool, body []byte) {
		buf := make([]byte, 0, len(body)+16)
		buf = append(buf, 0, 0, 0, 0)
		buf = kbin.AppendInt32(buf, corr)
		if flexHeader {
			buf = append(buf, 0)
		}
		buf = append(buf, body...)
		binary.BigEndian.PutUint32(buf, uint32(len(buf)-4))
		wmu.Lock()
		_, _ = c.Write(buf)
		wmu.Unlock()
	}
	sizeBuf := make([]byte, 4)
	for {
		if _, err := io.ReadFull(c, sizeBuf); err != nil {
			return
		}
		n := binary.BigEndian.Uint32(sizeBuf)
		if n > 64<<20 {
			return
		}
		raw := make([]byte, n)
		if _, err := io.ReadFull(c, raw); err != nil {
			return
		}
		r := kbin.Reader{Src: raw}
		key := r.Int16()
		version := r.Int16()
		corr := r.Int32()
		_ = r.NullableString()
		req := kmsg.RequestForKey(key)
		maxV, ok := supported[key]
		if req == nil || !ok {
			return // unknown request: drop the connection
		}
		if version > maxV {
			if key == 18 {
				resp := kmsg.NewPtrApiVersionsResponse()
				resp.Version = 0
				resp.ErrorCode = 35
				resp.ApiKeys = apiKeys()
				write(corr, false, resp.AppendTo(nil))
				continue
			}
			return
		}
		req.SetVersion(version)
		if req.IsFlexible() {
			kmsg.SkipTags(&r)
		}
		if err := req.ReadFrom(r.Src); err != nil {
			return
		}
		b.mu.Lock()
		b.stat["req_"+kmsg.NameForKey(key)]++
		b.mu.Unlock()
		flex := req.IsFlexible() && key != 18
		// Fetch long-polls: handle it off the read loop so that other requests
		// pipelined on the connection are still answered (kgo uses separate
		// connections for fetches, but do not rely on it).
		if key == 1 {
			go func(req *kmsg.FetchRequest) {
				resp := b.handleFetch(req)
				if resp != nil {
					write(corr, flex, resp.AppendTo(nil))
				}
			}(req.(*kmsg.FetchRequest))
			continue
		}
		resp := b.handle(req)
		if resp == nil {
			return
		}
		write(corr, flex, resp.AppendTo(nil))
	}
}

func apiKeys() []kmsg.ApiVersionsResponseApiKey {
	var keys []int
	for k := range supported {
		keys = append(keys, int(k))
	}
	sort.Ints(keys)
	var out []kmsg.ApiVersionsResponseApiKey
	for _, k := range keys {
		a := kmsg.NewApiVersionsResponseApiKey()
		a.ApiKey = int16(k)
		a.MinVersion = 0
		a.MaxVersion = supported[int16(k)]
		out = append(out, a)
	}
	return out
}

func sp(s string) *string { return &s }

func (b *fakeBroker) handle(kreq kmsg.Request) kmsg.Response {
	switch req := kreq.(type) {
	case *kmsg.ApiVersionsRequest:
		resp := req.ResponseKind().(*kmsg.ApiVersionsResponse)
		resp.ApiKeys = apiKeys()
		return resp

	case *kmsg.MetadataRequest:
		resp := req.ResponseKind().(*kmsg.MetadataResponse)
		br := kmsg.NewMetadataResponseBroker()
		br.NodeID, br.Host, br.Port = 1, b.host, b.port
		resp.Brokers = append(resp.Brokers, br)
		resp.ClusterID = sp("verif-c10")
		resp.ControllerID = 1
		b.mu.Lock()
		var names []string
		if req.Topics == nil {
			names = append(names, b.order...)
		} else {
			for _, t := range req.Topics {
				if t.Topic != nil {
					names = append(names, *t.Topic)
				}
			}
		}
		for _, name := range names {
			t := kmsg.NewMetadataResponseTopic()
			t.Topic = sp(name)
			parts, ok := b.topics[name]
			if !ok {
				t.ErrorCode = 3 // UNKNOWN_TOPIC_OR_PARTITION
			}
			for i := range parts {
				p := kmsg.NewMetadataResponseTopicPartition()
				p.Partition = int32(i)
				p.Leader = 1
				p.Replicas = []int32{1}
				p.ISR = []int32{1}
				t.Partitions = append(t.Partitions, p)
			}
			resp.Topics = append(resp.Topics, t)
		}
		b.mu.Unlock()
		return resp

	case *kmsg.FindCoordinatorRequest:
		resp := req.ResponseKind().(*kmsg.FindCoordinatorResponse)
		resp.NodeID, resp.Host, resp.Port = 1, b.host, b.port
		return resp

	case *kmsg.JoinGroupRequest:
		resp := req.ResponseKind().(*kmsg.JoinGroupResponse)
		if len(req.Protocols) == 0 {
			resp.ErrorCode = 23 // INCONSISTENT_GROUP_PROTOCOL
			return resp
		}
		b.mu.Lock()
		b.gen++
		if req.MemberID != "" {
			b.member = req.MemberID
		} else {
			b.member = "verif-member-" + strconv.Itoa(int(b.gen))
		}
		resp.Generation = b.gen
		resp.Protocol = sp(req.Protocols[0].Name)
		resp.LeaderID = b.member
		resp.MemberID = b.member
		m := kmsg.NewJoinGroupResponseMember()
		m.MemberID = b.member
		m.ProtocolMetadata = req.Protocols[0].Metadata
		resp.Members = append(resp.Members, m)
		b.mu.Unlock()
		return resp

	case *kmsg.SyncGroupRequest:
		resp := req.ResponseKind().(*kmsg.SyncGroupResponse)
		b.mu.Lock()
		if req.Generation != b.gen || req.MemberID != b.member {
			resp.ErrorCode = 22 // ILLEGAL_GENERATION
			b.mu.Unlock()
			return resp
		}
		for _, a := range req.GroupAssignment {
			b.assign[a.MemberID] = a.MemberAssignment
		}
		resp.MemberAssignment = b.assign[req.MemberID]
		if b.override != nil {
			// the assignment is what the group leader computed; model a group
			// whose leader handed this member only some partitions
			var cur kmsg.ConsumerMemberAssignment
			var topics []string
			if err := cur.ReadFrom(resp.MemberAssignment); err == nil {
				for _, t := range cur.Topics {
					topics = append(topics, t.Topic)
				}
			}
			want := b.override(topics)
			na := kmsg.NewConsumerMemberAssignment()
			var ts []string
			for t := range want {
				ts = append(ts, t)
			}
			sort.Strings(ts)
			for _, t := range ts {
				at := kmsg.NewConsumerMemberAssignmentTopic()
				at.Topic = t
				at.Partitions = want[t]
				na.Topics = append(na.Topics, at)
			}
			resp.MemberAssignment = na.AppendTo(nil)
		}
		b.mu.Unlock()
		return resp

	case *kmsg.HeartbeatRequest:
		resp := req.ResponseKind().(*kmsg.HeartbeatResponse)
		b.mu.Lock()
		if req.Generation != b.gen || req.MemberID != b.member {
			resp.ErrorCode = 22
		}
		b.mu.Unlock()
		return resp

	case *kmsg.LeaveGroupRequest:
		resp := req.ResponseKind().(*kmsg.LeaveGroupResponse)
		b.mu.Lock()
		b.member = ""
		b.mu.Unlock()
		return resp

	case *kmsg.OffsetFetchRequest:
		resp := req.ResponseKind().(*kmsg.OffsetFetchResponse)
		b.mu.Lock()
		type tpl struct {
			t  string
			ps []int32
		}
		var want []tpl
		if req.Topics == nil {
			for t, m := range b.commits {
				var ps []int32
				for p := range m {
					ps = append(ps, p)
				}
				want = append(want, tpl{t, ps})
			}
		} else {
			for _, t := range req.Topics {
				want = append(want, tpl{t.Topic, t.Partitions})
			}
		}
		for _, w := range want {
			rt := kmsg.NewOffsetFetchResponseTopic()
			rt.Topic = w.t
			for _, p := range w.ps {
				rp := kmsg.NewOffsetFetchResponseTopicPartition()
				rp.Partition = p
				rp.Offset = -1
				rp.LeaderEpoch = -1
				if c, ok := b.commits[w.t][p]; ok {
					rp.Offset = c.Offset
					rp.LeaderEpoch = c.Epoch
					rp.Metadata = sp("")
				}
				rt.Partitions = append(rt.Partitions, rp)
			}
			resp.Topics = append(resp.Topics, rt)
		}
		b.mu.Unlock()
		return resp

	case *kmsg.OffsetCommitRequest:
		resp := req.ResponseKind().(*kmsg.OffsetCommitResponse)
		b.mu.Lock()
		stale := req.Generation != b.gen || req.MemberID != b.member
		for _, t := range req.Topics {
			rt := kmsg.NewOffsetCommitResponseTopic()
			rt.Topic = t.Topic
			for _, p := range t.Partitions {
				rp := kmsg.NewOffsetCommitResponseTopicPartition()
				rp.Partition = p.Partition
				if stale {
					rp.ErrorCode = 22
				} else {
					c := commitObs{Topic: t.Topic, Partition: p.Partition, Offset: p.Offset, Epoch: p.LeaderEpoch}
					if b.commits[t.Topic] == nil {
						b.commits[t.Topic] = map[int32]commitObs{}
					}
					b.commits[t.Topic][p.Partition] = c
					b.stat["commit_partitions"]++
					if b.obs != nil {
						b.obs.committed(c)
					}
				}
				rt.Partitions = append(rt.Partitions, rp)
			}
			resp.Topics = append(resp.Topics, rt)
		}
		b.mu.Unlock()
		return resp

	case *kmsg.ListOffsetsRequest:
		resp := req.ResponseKind().(*kmsg.ListOffsetsResponse)
		b.mu.Lock()
		for _, t := range req.Topics {
			rt := kmsg.NewListOffsetsResponseTopic()
			rt.Topic = t.Topic
			parts := b.topics[t.Topic]
			for _, p := range t.Partitions {
				rp := kmsg.NewListOffsetsResponseTopicPartition()
				rp.Partition = p.Partition
				rp.Timestamp = -1
				if int(p.Partition) >= len(parts) || p.Partition < 0 {
					rp.ErrorCode = 3
				} else {
					fp := parts[p.Partition]
					switch p.Timestamp {
					case -2: // earliest
						rp.Offset = fp.logStart
					default: // latest (-1) and anything else
						rp.Offset = fp.hw()
					}
					if req.Version == 0 {
						rp.OldStyleOffsets = []int64{rp.Offset}
					}
				}
				rt.Partitions = append(rt.Partitions, rp)
			}
			resp.Topics = append(resp.Topics, rt)
		}
		b.mu.Unlock()
		return resp
	}
	return nil
}

func (b *fakeBroker) handleFetch(req *kmsg.FetchRequest) kmsg.Response {
	deadline := time.Now().Add(time.Duration(req.MaxWaitMillis) * time.Millisecond)
	for {
		resp := req.ResponseKind().(*kmsg.FetchResponse)
		got := false
		b.mu.Lock()
		if b.closed {
			b.mu.Unlock()
			return nil
		}
		wake := b.wake
		for _, t := range req.Topics {
			rt := kmsg.NewFetchResponseTopic()
			rt.Topic = t.Topic
			parts := b.topics[t.Topic]
			for _, p := range t.Partitions {
				rp := kmsg.NewFetchResponseTopicPartition()
				rp.Partition = p.Partition
				if int(p.Partition) >= len(parts) || p.Partition < 0 {
					rp.ErrorCode = 3
					rt.Partitions = append(rt.Partitions, rp)
					got = true
					continue
				}
				if fk := t.Topic + "/" + strconv.Itoa(int(p.Partition)); !b.fetched[fk] {
					b.fetched[fk] = true
					b.stat["partitions_fetched"]++
				}
				fp := parts[p.Partition]
				hw := fp.hw()
				rp.HighWatermark = hw
				rp.LastStableOffset = hw
				rp.LogStartOffset = fp.logStart
				if p.FetchOffset < fp.logStart || p.FetchOffset > hw {
					rp.ErrorCode = 1 // OFFSET_OUT_OF_RANGE
					rt.Partitions = append(rt.Partitions, rp)
					got = true
					continue
				}
				// first visible batch whose last offset is >= the fetch offset
				i := sort.Search(fp.visible, func(i int) bool { return fp.batches[i].last() >= p.FetchOffset })
				nb, size := 0, 0
				for ; i < fp.visible && nb < b.maxBatchesPerFetch; i++ {
					fb := fp.batches[i]
					if fb.enc == nil {
						fb.enc = encodeBatch(fb)
					}
					if nb > 0 && size+len(fb.enc) > int(p.PartitionMaxBytes) {
						break
					}
					rp.RecordBatches = append(rp.RecordBatches, fb.enc...)
					size += len(fb.enc)
					nb++
					if b.obs != nil {
						b.obs.served(t.Topic, p.Partition, fb, p.FetchOffset)
					}
					b.stat["batches_served"]++
				}
				if nb > 0 {
					got = true
				}
				rt.Partitions = append(rt.Partitions, rp)
			}
			resp.Topics = append(resp.Topics, rt)
		}
		if got {
			b.stat["fetch_with_data"]++
		}
		b.mu.Unlock()
		wait := time.Until(deadline)
		if got || wait <= 0 {
			return resp
		}
		// Nothing visible: long poll. Note: a response built above without
		// data recorded nothing as served.
		tm := time.NewTimer(wait)
		select {
		case <-wake:
		case <-tm.C:
		}
		tm.Stop()
	}
}
