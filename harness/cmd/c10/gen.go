package main

import (
	"fmt"
	"math/rand"
	"sort"
)

// ---------------- packing grid (inject mode, one record in flight) ----------------

var (
	gridPartitions = []int32{0, 1, 255, 65535}
	gridOffsets    = []int64{0, 1, 1<<16 - 1, 1 << 16, 1<<16 + 1, 1<<31 - 1, 1 << 31, 1<<31 + 1, 1<<47 - 1}
	gridEpochs     = []int32{0, 1, 65534, 65535}
)

func newPart(topic string, part int32) *partState {
	return &partState{key: partKey{topic, part}, byNext: map[int64][]*recState{}}
}

// gridPlan enumerates topic index x partition x offset x epoch completely.
// Marked heads only move forward in (epoch, offset) order, so the points are
// visited in that order; within a point the partitions are visited forward
// and backward alternately, so that a mark landing on a wrong partition
// arrives there before that partition's own record of the point was handed.
func gridPlan(cs *Case) (map[partKey]*partState, []*recState, [][]*recState) {
	parts := map[partKey]*partState{}
	var all []*recState
	var plan [][]*recState
	type tp struct {
		ti int
		p  int32
	}
	var tps []tp
	for ti := range cs.Topics {
		for _, p := range gridPartitions {
			tps = append(tps, tp{ti, p})
			parts[partKey{cs.Topics[ti].Name, p}] = newPart(cs.Topics[ti].Name, p)
		}
	}
	k := cs.GridPartOrder
	for _, ep := range gridEpochs {
		for _, off := range gridOffsets {
			order := append([]tp(nil), tps...)
			if k%2 == 1 {
				for i, j := 0, len(order)-1; i < j; i, j = i+1, j-1 {
					order[i], order[j] = order[j], order[i]
				}
			}
			k++
			for n, x := range order {
				name := cs.Topics[x.ti].Name
				r := &recState{Topic: name, TopicIdx: x.ti, Part: x.p, Off: off, Epoch: ep, Kind: "ok", Op: "pass"}
				if (n+k)%3 == 0 {
					r.Op = "discard"
				}
				r.ID = fmt.Sprintf("%s/%d/%d/e%d", name, x.p, off, ep)
				r.Value = []byte(fmt.Sprintf(`{"id":"%s","op":"%s","us":0}`, r.ID, r.Op))
				st := parts[partKey{name, x.p}]
				st.recs = append(st.recs, r)
				st.index(r)
				all = append(all, r)
				plan = append(plan, []*recState{r})
			}
		}
	}
	// the same offsets recur with every epoch: the records of a partition are
	// in visiting order, not in offset order
	for _, st := range parts {
		st.start = -1
		st.unsorted = true
	}
	return parts, all, plan
}

// ---------------- inject mode, concurrent ----------------

var (
	injectPartitions = []int32{0, 1, 2, 255, 256, 4095, 32767, 32768, 65534, 65535}
	injectBases      = []int64{0, 1<<16 - 6, 1<<31 - 7, 1<<32 - 5, 1<<40 + 3, 1<<47 - 1}
	injectEpochs     = []int32{0, 1, 250, 65530, 65534, 65535}
)

var edgeEpochs = []int32{65535, 65534, 1, 0}

// injectEdgePlan: every topic of the case gets one of the epochs
// {65535, 65534, 1, 0}; each of the partitions {0, 1, 255, 65535} gets a short
// run of records on one edge offset range (plan 1: 0..3, plan 2: 2^31-2..2^31+2,
// plan 3: 2^47-5..2^47-1; plan 4: as plan 1 but without partition 0 and with
// split records). All partitions are fresh, so every first mark is visible.
func injectEdgePlan(cs *Case) (map[partKey]*partState, []*recState, [][]*recState) {
	rng := rand.New(rand.NewSource(cs.Seed))
	parts := map[partKey]*partState{}
	var all []*recState
	var plan [][]*recState
	partitions := []int32{0, 1, 255, 65535}
	var offs []int64
	switch cs.EdgePlan {
	case 2:
		offs = []int64{1<<31 - 2, 1<<31 - 1, 1 << 31, 1<<31 + 1, 1<<31 + 2}
	case 3:
		offs = []int64{1<<47 - 5, 1<<47 - 4, 1<<47 - 3, 1<<47 - 2, 1<<47 - 1}
	case 4:
		partitions = []int32{1, 255, 65535}
		offs = []int64{0, 1, 2, 3, 4, 5}
	default:
		offs = []int64{0, 1, 2, 3}
	}
	for ti, t := range cs.Topics {
		epoch0 := edgeEpochs[ti%len(edgeEpochs)]
		for _, part := range partitions {
			st := newPart(t.Name, part)
			st.start = offs[0]
			epoch := epoch0
			var cur []*recState
			for i, off := range offs {
				if epoch0 == 65534 && i == len(offs)-2 {
					epoch = 65535 // a new leader inside the run
					if len(cur) > 0 {
						plan = append(plan, cur)
						cur = nil
					}
				}
				r := &recState{Topic: t.Name, TopicIdx: ti, Part: part, Off: off, Epoch: epoch, Kind: "ok", Op: "pass"}
				r.ID = recID(t.Name, part, off)
				if i == 1 && cs.EdgePlan != 4 {
					r.Op = "discard"
				}
				makeValue(rng, cs, r)
				st.recs = append(st.recs, r)
				st.index(r)
				all = append(all, r)
				cur = append(cur, r)
				if len(cur) == 2 {
					plan = append(plan, cur)
					cur = nil
				}
			}
			if len(cur) > 0 {
				plan = append(plan, cur)
			}
			parts[st.key] = st
		}
	}
	return parts, all, plan
}

func injectPlan(cs *Case) (map[partKey]*partState, []*recState, [][]*recState) {
	if cs.EdgePlan > 0 {
		return injectEdgePlan(cs)
	}
	rng := rand.New(rand.NewSource(cs.Seed))
	parts := map[partKey]*partState{}
	var all []*recState
	var plan [][]*recState
	for ti, t := range cs.Topics {
		nparts := 1 + rng.Intn(4)
		perm := rng.Perm(len(injectPartitions))[:nparts]
		for _, pi := range perm {
			part := injectPartitions[pi]
			st := newPart(t.Name, part)
			n := 12 + rng.Intn(40)
			base := injectBases[rng.Intn(len(injectBases))]
			if base == 1<<47-1 {
				base -= int64(n) * 3 // end exactly at 2^47-1 at most
			}
			epoch := injectEpochs[rng.Intn(len(injectEpochs))]
			off := base
			st.start = base
			var cur []*recState
			groupLeft := 1 + rng.Intn(5)
			for i := 0; i < n; i++ {
				if i > 0 && rng.Intn(100) < 25 {
					off += int64(1 + rng.Intn(2))
				}
				if off > 1<<47-1 {
					break
				}
				r := &recState{Topic: t.Name, TopicIdx: ti, Part: part, Off: off, Epoch: epoch, Kind: "ok", Op: "pass"}
				r.ID = recID(t.Name, part, off)
				x := rng.Intn(100)
				switch {
				case x < cs.MudPct:
					r.Kind = "mud"
				case x < cs.MudPct+cs.BadPct:
					r.Kind = "bad"
				default:
					if rng.Intn(100) < cs.DiscardPct {
						r.Op = "discard"
					}
					if rng.Intn(100) < cs.SleepPct && cs.SleepMaxUs > 0 {
						r.SleepUs = 1 + rng.Intn(cs.SleepMaxUs)
					}
				}
				makeValue(rng, cs, r)
				st.recs = append(st.recs, r)
				st.index(r)
				all = append(all, r)
				cur = append(cur, r)
				groupLeft--
				off++
				if groupLeft == 0 {
					plan = append(plan, cur)
					cur = nil
					groupLeft = 1 + rng.Intn(5)
					if rng.Intn(100) < 20 && epoch < 65535 {
						epoch++ // a new leader: later fetches carry the next epoch
					}
				}
			}
			if len(cur) > 0 {
				plan = append(plan, cur)
			}
			parts[st.key] = st
		}
	}
	return parts, all, plan
}

// ---------------- directed logs ----------------

// directedLogs: one topic, one partition: warm-up records, then one record
// that is held (in the action for d-spread, in the output's send for
// d-output), then later records, each in a batch of its own.
func directedLogs(cs *Case) (map[partKey]*partState, []*recState) {
	rng := rand.New(rand.NewSource(cs.Seed))
	t := cs.Topics[0]
	ps := t.Parts[0]
	st := newPart(t.Name, 0)
	st.start = ps.Base
	var all []*recState
	off := ps.Base
	add := func(r *recState, fb *fBatch) {
		r.Topic, r.Part, r.Off, r.Epoch, r.Kind = t.Name, 0, off, fb.Epoch, "ok"
		r.ID = recID(t.Name, 0, off)
		makeValue(rng, cs, r)
		fb.Recs = append(fb.Recs, fRec{Delta: int32(off - fb.First), Value: r.Value})
		st.recs = append(st.recs, r)
		st.index(r)
		all = append(all, r)
		off++
	}
	warm := ps.Records
	for n := 0; n < warm; {
		fb := &fBatch{First: off, Epoch: ps.Epoch0}
		for j := 0; j < 8 && n < warm; j++ {
			add(&recState{Op: "pass"}, fb)
			n++
		}
		st.batches = append(st.batches, fb)
	}
	off += 2 // a gap, as after compaction
	fb := &fBatch{First: off, Epoch: ps.Epoch0 + 1}
	if cs.Kind == "d-spread" {
		add(&recState{Op: "gate:HOLD"}, fb)
	} else {
		add(&recState{Op: "pass", OutGate: "HOLD"}, fb)
	}
	st.batches = append(st.batches, fb)
	later := 6 * cs.Procs * 2
	for i := 0; i < later; i++ {
		fb := &fBatch{First: off, Epoch: ps.Epoch0 + 1}
		op := "pass"
		if i%5 == 4 {
			op = "discard"
		}
		add(&recState{Op: op}, fb)
		st.batches = append(st.batches, fb)
	}
	return map[partKey]*partState{st.key: st}, all
}

// ---------------- case lists ----------------

func topicNames(n int, rng *rand.Rand) []TopicSpec {
	pool := []string{"logs", "logs-2", "audit.events", "t", "metrics_raw", "A"}
	perm := rng.Perm(len(pool))
	var out []TopicSpec
	for i := 0; i < n; i++ {
		out = append(out, TopicSpec{Name: pool[perm[i]]})
	}
	return out
}

// topics lists that name a topic more than once, as index patterns over the
// distinct topics of a case; every pattern with two or more distinct topics
// has a distinct topic after the repetition
var repeatPatterns = map[int][][]int{
	1: {{0, 0}, {0, 0, 0}},
	2: {{0, 0, 1}, {0, 0, 0, 1}, {0, 1, 0}, {0, 1, 1}},
	3: {{0, 0, 1, 2}, {0, 1, 0, 2}, {0, 1, 1, 2}, {0, 0, 1, 1, 2}},
	4: {{0, 1, 0, 2, 3}, {0, 0, 1, 2, 3}, {0, 1, 2, 2, 3}, {0, 0, 1, 0, 2, 3}},
}

func repeatedList(topics []TopicSpec, pattern []int) []string {
	var out []string
	for _, i := range pattern {
		out = append(out, topics[i].Name)
	}
	return out
}

// maybeRepeat gives some cases a topics list with repeated names (own random
// stream: the rest of the case does not depend on it).
func maybeRepeat(cs *Case, seed int64, pct int) {
	rng := rand.New(rand.NewSource(seed ^ 0x7091c5))
	if rng.Intn(100) >= pct {
		return
	}
	ps := repeatPatterns[len(cs.Topics)]
	if len(ps) == 0 {
		return
	}
	cs.TopicList = repeatedList(cs.Topics, ps[rng.Intn(len(ps))])
}

var schedBases = []int64{0, 0, 0, 1, 65530, 1<<31 - 40, 1<<31 - 2, 1<<32 + 5, 1<<47 - 2000}

func pickI(rng *rand.Rand, xs ...int) int { return xs[rng.Intn(len(xs))] }

func schedCase(i int, seed int64) Case {
	rng := rand.New(rand.NewSource(seed))
	cs := Case{Name: fmt.Sprintf("sched-%d", i), Kind: "sched", Seed: seed}
	cs.Procs = pickI(rng, 1, 1, 2, 2, 3, 4, 6, 8)
	cs.Topics = topicNames(1+rng.Intn(4), rng)
	sameBase := rng.Intn(3) == 0
	for ti := range cs.Topics {
		np := 1 + rng.Intn(4)
		for p := 0; p < np; p++ {
			ps := PartSpec{
				Base:      schedBases[rng.Intn(len(schedBases))],
				Records:   20 + rng.Intn(100),
				GapPct:    pickI(rng, 0, 0, 10, 30),
				BatchMax:  pickI(rng, 1, 3, 6, 12),
				Epoch0:    int32(pickI(rng, 0, 0, 1, 7, 254, 300, 65533, 65534, 65535)),
				EpochBump: pickI(rng, 0, 5, 20),
				EpochStep: int32(pickI(rng, 1, 1, 3)),
			}
			if sameBase {
				ps.Base = 0
			}
			if rng.Intn(5) == 0 {
				ps.SeedCommit = 1 + rng.Intn(3)
			}
			cs.Topics[ti].Parts = append(cs.Topics[ti].Parts, ps)
		}
	}
	cs.MudPct = pickI(rng, 0, 0, 2, 5)
	cs.BadPct = pickI(rng, 0, 0, 2, 5)
	if rng.Intn(4) == 0 {
		cs.MaxEventSize = 400
		cs.BigPct = 3
	}
	cs.DiscardPct = pickI(rng, 0, 5, 20, 50)
	cs.SleepPct = pickI(rng, 0, 10, 30)
	cs.SleepMaxUs = pickI(rng, 200, 1000, 3000)
	cs.PadMax = pickI(rng, 0, 20, 200)
	cs.Out = OutSpec{Count: 1 + rng.Intn(8), Workers: 1 + rng.Intn(4), FlushMs: pickI(rng, 5, 20, 60)}
	for k := 0; k < 5; k++ {
		cs.Out.DelayUs = append(cs.Out.DelayUs, pickI(rng, 0, 0, 300, 1500, 4000))
	}
	cs.Capacity = pickI(rng, 16, 64, 256)
	cs.Offset = []string{"oldest", "newest"}[rng.Intn(2)]
	cs.Balancer = []string{"round-robin", "round-robin", "range", "sticky", "cooperative-sticky"}[rng.Intn(5)]
	cs.ChannelBuf = pickI(rng, 1, 7, 64, 256)
	cs.MaxConsumers = pickI(rng, 1, 2, 5)
	cs.Meta = rng.Intn(3) == 0
	cs.AutoCommitMs = pickI(rng, 100, 100, 250)
	cs.FetchBatches = pickI(rng, 1, 2, 4, 16)
	cs.ReleaseWaves = pickI(rng, 1, 2, 4)
	cs.WaveMs = pickI(rng, 0, 20, 120)
	maybeRepeat(&cs, seed, 40)
	if srng := rand.New(rand.NewSource(seed ^ 0x5b117)); srng.Intn(100) < 30 {
		cs.SplitPct = pickI(srng, 15, 40, 70) // chain [split, script]
	}
	return cs
}

// schedEdgeCase: broker-fed records with leader epoch edgeEpochs[k] on edge
// offsets: topic 0 has 256 partitions of which 0 (offsets 0..), 1 (around
// 2^31) and 255 (ending at 2^47-1) carry records and are assigned; topic 1
// partition 0 ends at 2^47-1, partition 1 starts at 0.
func schedEdgeCase(k int, seed int64) Case {
	cs := schedCase(1000+k, seed)
	cs.Name = fmt.Sprintf("sched-edge-epoch%d", edgeEpochs[k%len(edgeEpochs)])
	e := edgeEpochs[k%len(edgeEpochs)]
	mk := func(base int64) PartSpec {
		ps := PartSpec{Base: base, Records: 8, BatchMax: 3, Epoch0: e, EpochStep: 1}
		if e == 65534 {
			ps.EpochBump = 40
		}
		return ps
	}
	rng := rand.New(rand.NewSource(seed))
	cs.Topics = topicNames(2, rng)
	cs.TopicList = nil
	big := make([]PartSpec, 256)
	big[0], big[1], big[255] = mk(0), mk(1<<31-2), mk(1<<47-8)
	cs.Topics[0].Parts = big
	cs.Topics[1].Parts = []PartSpec{mk(1<<47 - 8), mk(0)}
	cs.MudPct, cs.BadPct, cs.BigPct, cs.MaxEventSize = 0, 0, 0, 0
	cs.DiscardPct, cs.SplitPct = 10, 0
	cs.Balancer, cs.Offset = "round-robin", "oldest"
	cs.ReleaseWaves, cs.WaveMs = 1, 0
	return cs
}

// splitEdgeCase: the real split action in the chain, records on topics and
// partitions other than Topics[0]/0; variant 0: partition 0 of the first topic
// has no records and is not assigned, variant 1: it only has high offsets.
func splitEdgeCase(k int, seed int64) Case {
	cs := schedCase(2000+k, seed)
	cs.Name = fmt.Sprintf("split-edge-%d", k)
	rng := rand.New(rand.NewSource(seed))
	cs.Topics = topicNames(2, rng)
	cs.TopicList = nil
	mk := func(base int64, n int, e int32) PartSpec {
		return PartSpec{Base: base, Records: n, BatchMax: 4, Epoch0: e, EpochStep: 1, GapPct: 10}
	}
	if k%2 == 0 {
		cs.Topics[0].Parts = []PartSpec{{}, mk(0, 40, 0), mk(5, 30, 2)}
	} else {
		cs.Topics[0].Parts = []PartSpec{mk(1<<40, 25, 3), mk(0, 40, 0)}
	}
	cs.Topics[1].Parts = []PartSpec{mk(0, 40, 1), mk(100, 30, 0)}
	cs.MudPct, cs.BadPct, cs.BigPct, cs.MaxEventSize = 0, 2, 0, 0
	cs.SplitPct = 50
	cs.Balancer, cs.Offset = "round-robin", "oldest"
	return cs
}

func injectEdgeCase(plan int, seed int64) Case {
	cs := injectCase(1000+plan, seed)
	cs.Name = fmt.Sprintf("inject-edge-plan%d", plan)
	rng := rand.New(rand.NewSource(seed))
	cs.Topics = topicNames(4, rng)
	cs.TopicList = nil
	cs.EdgePlan = plan
	cs.MudPct, cs.BadPct = 0, 0
	if plan == 4 {
		cs.SplitPct = 60
	}
	return cs
}

// stopEarlyCase: a sched case with slow events whose input is stopped while
// many events are in flight.
func stopEarlyCase(i int, seed int64) Case {
	cs := schedCase(i, seed)
	rng := rand.New(rand.NewSource(seed ^ 0x5709))
	cs.Name = fmt.Sprintf("stop-early-%d", i)
	cs.Kind = "stop-early"
	cs.SleepPct, cs.SleepMaxUs = 60, 8000
	cs.Capacity = 2048
	cs.Offset = "oldest"
	cs.ReleaseWaves, cs.WaveMs = 1, 0
	cs.StopAtPct = pickI(rng, 30, 50, 80)
	cs.MaxEventSize, cs.BigPct = 0, 0
	for ti := range cs.Topics {
		for pi := range cs.Topics[ti].Parts {
			cs.Topics[ti].Parts[pi].SeedCommit = 0
		}
	}
	return cs
}

func injectCase(i int, seed int64) Case {
	rng := rand.New(rand.NewSource(seed))
	cs := Case{Name: fmt.Sprintf("inject-%d", i), Kind: "inject", Seed: seed}
	cs.Procs = pickI(rng, 1, 2, 4, 8)
	cs.Topics = topicNames(1+rng.Intn(4), rng)
	cs.MudPct, cs.BadPct = pickI(rng, 0, 3), pickI(rng, 0, 3)
	cs.DiscardPct = pickI(rng, 0, 10, 40)
	cs.SleepPct, cs.SleepMaxUs = pickI(rng, 0, 20), 1500
	cs.PadMax = 30
	cs.Out = OutSpec{Count: 1 + rng.Intn(6), Workers: 1 + rng.Intn(3), FlushMs: pickI(rng, 5, 30), DelayUs: []int{0, pickI(rng, 0, 800), 0}}
	cs.Capacity = pickI(rng, 32, 128)
	cs.Offset, cs.Balancer = "newest", "round-robin"
	cs.ChannelBuf, cs.MaxConsumers = 256, pickI(rng, 1, 5)
	cs.AutoCommitMs = 100
	cs.Meta = rng.Intn(2) == 0
	if i%2 == 0 { // every other inject case names a topic more than once
		maybeRepeat(&cs, seed, 100)
	}
	if i%3 == 1 {
		cs.SplitPct = 40 // chain [split, script]
	}
	return cs
}

func gridCase(k, order int) Case {
	rng := rand.New(rand.NewSource(int64(k)))
	cs := Case{Name: fmt.Sprintf("grid-%dtopics-order%d", k, order), Kind: "grid", Seed: int64(k), Procs: 2}
	cs.Topics = topicNames(k, rng)
	cs.Out = OutSpec{Count: 1, Workers: 1, FlushMs: 5}
	cs.Capacity = 32
	cs.Offset, cs.Balancer = "newest", "round-robin"
	cs.ChannelBuf, cs.MaxConsumers = 256, 5
	cs.AutoCommitMs = 100
	cs.GridPartOrder = order
	return cs
}

// gridRepeatCase: the packing grid with a topics list that repeats a name.
func gridRepeatCase(k int, pattern []int, order int) Case {
	cs := gridCase(k, order)
	cs.TopicList = repeatedList(cs.Topics, pattern)
	cs.Name = fmt.Sprintf("grid-repeat-%v-order%d", pattern, order)
	return cs
}

func directedCase(kind string, i int, seed int64) Case {
	rng := rand.New(rand.NewSource(seed))
	cs := Case{Name: fmt.Sprintf("%s-%d", kind, i), Kind: kind, Seed: seed}
	cs.Procs = pickI(rng, 1, 2, 4)
	cs.Topics = []TopicSpec{{Name: "directed", Parts: []PartSpec{{Base: schedBases[rng.Intn(len(schedBases))], Records: 96, Epoch0: int32(pickI(rng, 0, 3, 700))}}}}
	cs.Out = OutSpec{Count: 1, Workers: 2, FlushMs: 5}
	cs.Capacity = 32
	cs.Offset, cs.Balancer = "oldest", "round-robin"
	cs.ChannelBuf, cs.MaxConsumers = 256, 5
	cs.AutoCommitMs = 100
	cs.FetchBatches = 16
	return cs
}

// fingerprint of what a case exercised (configuration class x observed phenomena)
func fingerprint(cs *Case, r *Result) string {
	nparts := 0
	for _, t := range cs.Topics {
		nparts += len(t.Parts)
	}
	bucket := func(n int64) string {
		switch {
		case n == 0:
			return "0"
		case n < 10:
			return "1+"
		case n < 100:
			return "10+"
		}
		return "100+"
	}
	var phen []string
	for _, f := range r.Flags {
		phen = append(phen, f)
	}
	for _, k := range []string{"completion_inversions", "in_refused_bad", "in_refused_big", "handed_empty_values", "partitions_resumed_from_commit", "p2_passed_unfinished_mark", "p2_passed_unfinished_broker", "marks_already_ahead"} {
		phen = append(phen, k+"="+bucket(r.Stats[k]))
	}
	sort.Strings(phen)
	return fmt.Sprintf("%s|list=%v|procs=%d|topics=%d|parts=%d|out=%d/%d|off=%s|bal=%s|%v", cs.Kind, listShape(cs), cs.Procs*2, len(cs.Topics), nparts, cs.Out.Count, cs.Out.Workers, cs.Offset, cs.Balancer, phen)
}

// listShape is the topics list with names replaced by first-occurrence numbers ("0,0,1").
func listShape(cs *Case) string {
	ids := map[string]int{}
	out := ""
	for i, t := range cs.configTopics() {
		if _, ok := ids[t]; !ok {
			ids[t] = len(ids)
		}
		if i > 0 {
			out += ","
		}
		out += fmt.Sprint(ids[t])
	}
	return out
}
