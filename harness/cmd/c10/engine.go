package main

// The child workload: one case = one loopback broker + one real pipeline
// with the real kafka input plugin (wrapped at the plugin boundary), a script
// action and a monitoring output built on the real Batcher.

import (
	"bytes"
	"context"
	"encoding/json"
	"fmt"
	"regexp"
	"sort"
	"strings"
	"sync"
	"sync/atomic"
	"time"

	"github.com/bitly/go-simplejson"
	"github.com/ozontech/file.d/decoder"
	"github.com/ozontech/file.d/fd"
	"github.com/ozontech/file.d/pipeline"
	"github.com/ozontech/file.d/pipeline/metadata"
	_ "github.com/ozontech/file.d/plugin/action/split"
	kafkain "github.com/ozontech/file.d/plugin/input/kafka"
	"github.com/prometheus/client_golang/prometheus"
	"github.com/twmb/franz-go/pkg/kgo"
	"go.uber.org/zap"

	"verifharness/core"
)

type Result struct {
	Name         string           `json:"name"`
	Kind         string           `json:"kind"`
	Viols        []Viol           `json:"viols"`
	ViolCount    map[string]int   `json:"viol_count"`
	Stats        map[string]int64 `json:"stats"`
	Flags        []string         `json:"flags"`
	Inconclusive string           `json:"inconclusive,omitempty"`
	HarnessError string           `json:"harness_error,omitempty"`
	Sample       any              `json:"sample,omitempty"`
	Trace        []string         `json:"trace,omitempty"`
	Dump         string           `json:"dump,omitempty"`
	Notes        []string         `json:"notes,omitempty"`
}

// ---------------- monitor: observation points ----------------

var idRe = regexp.MustCompile(`"id":"([^"]+)"`)

func (m *monitor) recOfValue(data []byte) *recState {
	if r := m.byValue[string(data)]; r != nil {
		return r
	}
	if mm := idRe.FindSubmatch(data); mm != nil {
		return m.byID[string(mm[1])]
	}
	return nil
}

func (m *monitor) onServed(r *recState) {
	if !r.served {
		r.served = true
		r.tServed = m.tick()
		m.stat["records_handed"]++
		if r.Kind == "mud" {
			m.stat["handed_empty_values"]++
			m.markFinished(r)
		}
	} else {
		m.stat["records_handed_again"]++
	}
}

// brokerObserver
func (m *monitor) served(topic string, part int32, b *fBatch, fetchOffset int64) {
	m.mu.Lock()
	defer m.mu.Unlock()
	st := m.parts[partKey{topic, part}]
	if st == nil {
		return
	}
	m.tracef("fetch %s/%d from offset %d: batch %d..%d epoch %d", topic, part, fetchOffset, b.First, b.last(), b.Epoch)
	for _, fr := range b.Recs {
		off := b.First + int64(fr.Delta)
		if off < fetchOffset {
			continue
		}
		for _, r := range st.byNext[off+1] {
			m.onServed(r)
		}
	}
}

func (m *monitor) committed(c commitObs) {
	m.mu.Lock()
	defer m.mu.Unlock()
	k := partKey{c.Topic, c.Partition}
	h := head{c.Epoch, c.Offset}
	m.stat["broker_commit_partitions"]++
	if sh, ok := m.seeded[k]; ok && sh == h {
		// the client re-committing what the previous session had committed
		// says nothing about this session's records
		m.stat["broker_recommit_of_previous_sessions_offset"]++
		return
	}
	if old, ok := m.bcommits[k]; ok && old == h {
		return
	}
	if old, ok := m.bcommits[k]; ok && (h.Epoch < old.Epoch || h.Epoch == old.Epoch && h.Off < old.Off) {
		m.stat["broker_commit_moved_backwards"]++
	}
	m.bcommits[k] = h
	m.histf(k, "broker commit %s", h)
	m.stat["broker_commit_changes"]++
	m.tracef("broker commit %s/%d %s", c.Topic, c.Partition, h)
	m.checkHead("broker", k, h, nil)
}

func (m *monitor) onInCall(data []byte) *recState {
	m.mu.Lock()
	defer m.mu.Unlock()
	m.tick()
	m.stat["in_calls"]++
	if len(data) == 0 || (len(data) == 1 && data[0] == '\n') {
		m.stat["in_calls_empty"]++
		return nil
	}
	r := m.recOfValue(data)
	if r == nil {
		m.flags["harness:in-with-unknown-bytes"] = true
		return nil
	}
	if r.inCalled {
		m.stat["in_calls_repeated"]++
	}
	r.inCalled = true
	if !r.served {
		m.flags["harness:in-before-handed"] = true
	}
	return r
}

func (m *monitor) onInRet(r *recState, seq uint64) {
	m.mu.Lock()
	defer m.mu.Unlock()
	m.tick()
	if r == nil {
		if seq != 0 {
			m.flags["harness:empty-value-accepted"] = true
		}
		return
	}
	r.inReturned = true
	if seq == 0 {
		r.inDropped = true
		m.stat["in_refused_"+r.Kind]++
		if r.Kind == "ok" {
			m.flags["harness:valid-record-refused-by-In"] = true
		}
		m.markFinished(r)
	} else {
		m.stat["in_accepted"]++
		if r.Kind != "ok" {
			m.flags["harness:"+r.Kind+"-record-accepted-by-In"] = true
		}
	}
}

// split children carry the id "<record id>#k"
func (m *monitor) parentOf(id string) (*recState, bool) {
	if i := strings.LastIndexByte(id, '#'); i > 0 {
		if r := m.byID[id[:i]]; r != nil && r.Kids > 0 {
			return r, true
		}
	}
	return nil, false
}

func (m *monitor) onAct(id, decision string) {
	m.mu.Lock()
	defer m.mu.Unlock()
	m.tick()
	r := m.byID[id]
	if r == nil {
		if _, ok := m.parentOf(id); ok {
			m.stat["split_child_action_"+decision]++
			return
		}
		m.flags["harness:action-saw-unknown-id"] = true
		return
	}
	if r.Kids > 0 {
		m.flags["harness:split-parent-reached-the-script-action"] = true
	}
	r.act = decision
	m.stat["action_"+decision]++
	if decision == "discard" {
		m.markFinished(r)
	}
}

func (m *monitor) onOut(id string) {
	m.mu.Lock()
	defer m.mu.Unlock()
	m.tick()
	r := m.byID[id]
	if r == nil {
		if pr, ok := m.parentOf(id); ok {
			pr.kidsOut++
			m.stat["split_children_to_output"]++
			return
		}
		m.flags["harness:output-saw-unknown-id"] = true
		return
	}
	m.outSeq++
	r.outIdx = m.outSeq
	if r.Kids > 0 && r.kidsAcked >= r.kidsOut {
		m.ackRecord(r) // every child was discarded or is already sent
	}
}

func (m *monitor) ackRecord(r *recState) {
	if r.acked {
		m.stat["events_acked_again"]++ // a record delivered twice by the client
		return
	}
	r.acked = true
	m.stat["events_acked"]++
	m.markFinished(r)
}

// onAck: the output's send returned for a batch holding these events
// (children of split records included). A split record is acknowledged when
// its parent has reached the output (after its children) and all its
// children handed to the output have been sent.
func (m *monitor) onAck(ids []string) {
	m.mu.Lock()
	defer m.mu.Unlock()
	m.tick()
	m.stat["batches_acked"]++
	for _, id := range ids {
		if r := m.byID[id]; r != nil {
			if r.Kids > 0 {
				// the parent of split children is never sent itself (the
				// Batcher skips it, a batch of parents only is not sent at all)
				r.parentAck = true
				m.stat["split_parents_seen_in_a_sent_batch"]++
				continue
			}
			m.ackRecord(r)
		} else if pr, ok := m.parentOf(id); ok {
			pr.kidsAcked++
			m.stat["split_children_acked"]++
			// the parent reaches the output after all its children: from then on the number of children is final
			if pr.outIdx > 0 && pr.kidsAcked >= pr.kidsOut && !pr.acked {
				m.ackRecord(pr)
			}
		}
	}
}

type commitInfo struct {
	ID       string
	Kind     string // regular | split-parent | split-child
	SourceID uint64
	Offset   int64
}

func (m *monitor) onCommit(ci commitInfo, cur map[partKey]head) {
	m.mu.Lock()
	defer m.mu.Unlock()
	m.tick()
	m.stat["commit_calls"]++
	m.stat["commit_calls_event_kind_"+ci.Kind]++
	r := m.byID[ci.ID]
	if r == nil || !r.served || ci.Kind == "split-child" {
		// Plugin.Commit turns whatever it is given into a mark: an event that
		// is not a record handed to file.d can only produce a mark that
		// belongs to no consumed record (kgo may swallow it if the partition's
		// head is already higher, so the call itself is the observation)
		what := "unknown-event"
		if _, ok := m.parentOf(ci.ID); ok || ci.Kind == "split-child" {
			what = "split-child"
		} else if r != nil {
			what = "record-not-handed"
		}
		m.stat["commit_calls_for_"+what]++
		m.violation("C10:commit:input-commit-called-for-an-event-that-is-not-a-handed-record:"+what,
			fmt.Sprintf("Plugin.Commit was called for event %q (kind %s, SourceID %d, Offset %d) which is not a record handed to file.d; the kafka input marks Topics[%d] partition %d offset %d for it", ci.ID, ci.Kind, ci.SourceID, ci.Offset, ci.SourceID>>16, ci.SourceID&0xFFFF, (ci.Offset>>16)+1),
			map[string]any{"event_id": ci.ID, "event_kind": ci.Kind, "source_id": ci.SourceID, "event_offset": ci.Offset})
		m.observeHeads(cur, nil)
		return
	}
	r.commits++
	if r.commits > 1 {
		m.stat["commit_calls_repeated"]++
	} else {
		m.stat["records_committed"]++
	}
	kind := r.Kind
	if r.Kids > 0 {
		kind = "split-record"
	}
	m.stat["commit_calls_record_kind_"+kind]++
	if !r.finished() {
		m.stat["commit_of_unfinished_record"]++
	}
	m.tracef("commit %s", ci.ID)
	m.observeHeads(cur, r)
}

func (m *monitor) onObserve(cur map[partKey]head) {
	m.mu.Lock()
	defer m.mu.Unlock()
	m.observeHeads(cur, nil)
}

func (m *monitor) statOf(k string) int64 {
	m.mu.Lock()
	defer m.mu.Unlock()
	return m.stat[k]
}

// gates
func (m *monitor) gate(name string) chan struct{} {
	m.mu.Lock()
	defer m.mu.Unlock()
	g := m.waitGates[name]
	if g == nil {
		g = make(chan struct{})
		m.waitGates[name] = g
	}
	return g
}

func (m *monitor) arrive(name string) {
	m.mu.Lock()
	m.flags["arrived:"+name] = true
	m.mu.Unlock()
}

func (m *monitor) flag(name string) bool {
	m.mu.Lock()
	defer m.mu.Unlock()
	return m.flags[name]
}

// readHeads reads what the real client would send with its next automatic
// commit: the marked head of every partition. MarkedOffsets leaves out
// partitions whose head equals the last committed offset; for those the
// head is that committed offset provided the broker really saw it being
// committed in this session (otherwise it is the state fetched at assignment,
// not a mark).
func (m *monitor) readHeads(cl *kgo.Client) map[partKey]head {
	out := map[partKey]head{}
	marked := cl.MarkedOffsets()
	for t, ps := range marked {
		for p, eo := range ps {
			out[partKey{t, p}] = head{eo.Epoch, eo.Offset}
		}
	}
	if marked != nil {
		atomic.AddInt64(&markedNonNil, 1)
	}
	comm := cl.CommittedOffsets()
	m.mu.Lock()
	for t, ps := range comm {
		for p, eo := range ps {
			k := partKey{t, p}
			if _, ok := out[k]; ok {
				continue
			}
			h := head{eo.Epoch, eo.Offset}
			if bc, ok := m.bcommits[k]; ok && bc == h {
				out[k] = h
			}
		}
	}
	m.mu.Unlock()
	return out
}

var markedNonNil int64

// ---------------- the wrapped input ----------------

type monInput struct {
	mon      *monitor
	real     *kafkain.Plugin
	commitMu sync.Mutex
	started  atomic.Bool
	stopped  atomic.Bool
}

type monController struct {
	inner pipeline.InputPluginController
	in    *monInput
}

func (c *monController) In(sourceID pipeline.SourceID, sourceName string, offsets pipeline.Offsets, data []byte, isNew bool, meta metadata.MetaData) uint64 {
	r := c.in.mon.onInCall(data)
	seq := c.inner.In(sourceID, sourceName, offsets, data, isNew, meta)
	c.in.mon.onInRet(r, seq)
	c.in.observe()
	return seq
}
func (c *monController) UseSpread()                    { c.in.mon.arrive("UseSpread"); c.inner.UseSpread() }
func (c *monController) DisableStreams()               { c.in.mon.arrive("DisableStreams"); c.inner.DisableStreams() }
func (c *monController) SuggestDecoder(t decoder.Type) { c.inner.SuggestDecoder(t) }
func (c *monController) IncReadOps()                   { c.inner.IncReadOps() }
func (c *monController) IncMaxEventSizeExceeded(lvs ...string) {
	c.inner.IncMaxEventSizeExceeded(lvs...)
}

func (i *monInput) observe() {
	if !i.started.Load() {
		return
	}
	i.commitMu.Lock()
	cur := i.mon.readHeads(i.real.VerifClient())
	i.mon.onObserve(cur)
	i.commitMu.Unlock()
}

func (i *monInput) Start(cfg pipeline.AnyConfig, params *pipeline.InputPluginParams) {
	w := *params
	w.Controller = &monController{inner: params.Controller, in: i}
	i.real.Start(cfg, &w)
	i.started.Store(true)
}
func (i *monInput) Stop() {
	if i.stopped.CompareAndSwap(false, true) {
		i.mon.arrive("input-stopped")
		i.real.Stop()
	}
}
func (i *monInput) Commit(e *pipeline.Event) {
	id := eventID(e)
	ci := commitInfo{ID: id, Kind: "regular", SourceID: uint64(e.SourceID), Offset: e.Offset}
	switch {
	case e.IsChildKind():
		ci.Kind = "split-child"
	case e.IsChildParentKind():
		ci.Kind = "split-parent"
	}
	i.commitMu.Lock()
	i.real.Commit(e)
	cur := i.mon.readHeads(i.real.VerifClient())
	back0 := i.mon.statOf("head_moved_backwards")
	i.mon.onCommit(ci, cur)
	if i.mon.cs.Trace && i.mon.statOf("head_moved_backwards") != back0 {
		cl := i.real.VerifClient()
		i.mon.mu.Lock()
		i.mon.tracef("BACKWARDS after commit of %s (sourceID %d offset %d): marked=%v committed=%v uncommitted=%v", id, e.SourceID, e.Offset, cl.MarkedOffsets(), cl.CommittedOffsets(), cl.UncommittedOffsets())
		i.mon.mu.Unlock()
	}
	i.commitMu.Unlock()
}
func (i *monInput) PassEvent(e *pipeline.Event) bool { return i.real.PassEvent(e) }

func eventID(e *pipeline.Event) string {
	if e == nil || e.Root == nil {
		return "<nil-root>"
	}
	if n := e.Root.Dig("id"); n != nil {
		return strings.Clone(n.AsString())
	}
	return "<no-id>"
}

// ---------------- script action ----------------

var curMon *monitor

type scriptConfig struct{}

type scriptAction struct{ mon *monitor }

func init() {
	fd.DefaultPluginRegistry.RegisterAction(&pipeline.PluginStaticInfo{Type: "c10_script", Factory: func() (pipeline.AnyPlugin, pipeline.AnyConfig) {
		return &scriptAction{mon: curMon}, &scriptConfig{}
	}})
}

func (s *scriptAction) Start(pipeline.AnyConfig, *pipeline.ActionPluginParams) { s.mon = curMon }
func (s *scriptAction) Stop()                                                  {}
func (s *scriptAction) Do(e *pipeline.Event) pipeline.ActionResult {
	if e.IsTimeoutKind() || e.Root == nil {
		return pipeline.ActionDiscard
	}
	id := eventID(e)
	op := "pass"
	if n := e.Root.Dig("op"); n != nil {
		op = strings.Clone(n.AsString())
	}
	if n := e.Root.Dig("us"); n != nil {
		if us := n.AsInt(); us > 0 {
			time.Sleep(time.Duration(us) * time.Microsecond)
		}
	}
	if strings.HasPrefix(op, "gate:") {
		name := strings.TrimPrefix(op, "gate:")
		g := s.mon.gate(name)
		s.mon.arrive(name)
		<-g
		op = "pass"
	}
	if op == "discard" {
		s.mon.onAct(id, "discard") // recorded before returning: the processor commits right after
		return pipeline.ActionDiscard
	}
	s.mon.onAct(id, "pass")
	return pipeline.ActionPass
}

// ---------------- monitoring output ----------------

type monOutput struct {
	mon    *monitor
	spec   OutSpec
	outMu  sync.Mutex
	b      *pipeline.Batcher
	cancel context.CancelFunc
	seq    atomic.Int64
}

func (o *monOutput) Start(_ pipeline.AnyConfig, params *pipeline.OutputPluginParams) {
	ctx, cancel := context.WithCancel(context.Background())
	o.cancel = cancel
	o.b = pipeline.NewBatcher(pipeline.BatcherOptions{
		PipelineName: params.PipelineName, OutputType: "c10_out", Controller: params.Controller,
		Workers: o.spec.Workers, BatchSizeCount: o.spec.Count,
		FlushTimeout: time.Duration(o.spec.FlushMs) * time.Millisecond, MetricCtl: params.MetricCtl,
		OutFn: o.send,
	})
	o.b.Start(ctx)
}

func (o *monOutput) send(_ *pipeline.WorkerData, b *pipeline.Batch) {
	var ids []string
	var gates []string
	b.ForEach(func(e *pipeline.Event) {
		if n := e.Root.Dig("og"); n != nil {
			gates = append(gates, strings.Clone(n.AsString()))
		}
	})
	// all events of the batch, split parents included (ForEach leaves them out)
	for _, e := range pipeline.VerifBatchEvents(b) {
		ids = append(ids, eventID(e))
	}
	n := o.seq.Add(1)
	if l := len(o.spec.DelayUs); l > 0 {
		if d := o.spec.DelayUs[int(n)%l]; d > 0 {
			time.Sleep(time.Duration(d) * time.Microsecond)
		}
	}
	for _, name := range gates {
		g := o.mon.gate(name)
		o.mon.arrive(name)
		<-g
	}
	o.mon.onAck(ids) // the send is acknowledged; the batcher commits after this returns
}

func (o *monOutput) Out(e *pipeline.Event) {
	id := eventID(e)
	// Out calls are serialized together with Batcher.Add so that the recorded
	// order is the order in which the batcher received the events
	o.outMu.Lock()
	o.mon.onOut(id)
	o.b.Add(e)
	o.outMu.Unlock()
}

func (o *monOutput) Stop() { o.b.Stop(); o.cancel() }

// ---------------- engine ----------------

type engine struct {
	cs     *Case
	mon    *monitor
	broker *fakeBroker
	p      *pipeline.Pipeline
	in     *monInput
	all    []*recState
	res    *Result
}

func kafkaConfigJSON(cs *Case, addr string) []byte {
	topics := cs.configTopics()
	m := map[string]any{
		"brokers":                  []string{addr},
		"topics":                   topics,
		"consumer_group":           "verif-c10",
		"offset":                   cs.Offset,
		"balancer":                 cs.Balancer,
		"channel_buffer_size":      cs.ChannelBuf,
		"max_concurrent_consumers": cs.MaxConsumers,
		"auto_commit_interval":     fmt.Sprintf("%dms", cs.AutoCommitMs),
		"consumer_max_wait_time":   "100ms",
		"heartbeat_interval":       "1s",
		"session_timeout":          "30s",
	}
	if cs.Meta {
		m["meta"] = map[string]string{"k_topic": "{{ .topic }}", "k_partition": "{{ .partition }}", "k_offset": "{{ .offset }}"}
	}
	b, _ := json.Marshal(m)
	return b
}

func (e *engine) setup() error {
	cs := e.cs
	curMon = e.mon
	br, err := newFakeBroker(e.mon)
	if err != nil {
		return err
	}
	e.broker = br
	br.maxBatchesPerFetch = max(1, cs.FetchBatches)

	settings := &pipeline.Settings{
		Decoder: "json", Capacity: cs.Capacity, AvgEventSize: 256, MetaCacheSize: 32,
		MaintenanceInterval: 5 * time.Second, EventTimeout: 60 * time.Second,
		Antispam:    pipeline.AntispamSettings{Threshold: -1, MaintenanceInterval: 5 * time.Second},
		StreamField: "stream", Pool: pipeline.PoolTypeStd,
		MaxEventSize: cs.MaxEventSize,
		Metric:       &pipeline.MetricSettings{HoldDuration: pipeline.DefaultMetricHoldDuration},
	}
	// warnings of the pipeline / the kafka client go to the child's stderr
	// (kept by the parent for undecided cases)
	zc := zap.NewProductionConfig()
	zc.Level = zap.NewAtomicLevelAt(zap.WarnLevel)
	if cs.Trace {
		zc.Level = zap.NewAtomicLevelAt(zap.InfoLevel)
	}
	zc.Sampling = nil
	lg, err := zc.Build()
	if err != nil {
		lg = zap.NewNop()
	}
	p := pipeline.New("c10", settings, prometheus.NewRegistry(), lg)
	e.p = p

	info, err := fd.DefaultPluginRegistry.Get(pipeline.PluginKindInput, "kafka")
	if err != nil {
		return err
	}
	conf, err := pipeline.GetConfig(info, kafkaConfigJSON(cs, br.addr()), map[string]int{"capacity": cs.Capacity, "gomaxprocs": cs.Procs})
	if err != nil {
		return fmt.Errorf("kafka config: %w", err)
	}
	plug, _ := info.Factory()
	e.in = &monInput{mon: e.mon, real: plug.(*kafkain.Plugin)}
	infoCopy := *info
	infoCopy.Config = conf
	p.SetInput(&pipeline.InputPluginInfo{
		PluginStaticInfo:  &infoCopy,
		PluginRuntimeInfo: &pipeline.PluginRuntimeInfo{Plugin: e.in},
	})
	chain := `[{"type":"c10_script"}]`
	if cs.SplitPct > 0 {
		chain = `[{"type":"split","field":"items"},{"type":"c10_script"}]` // the real split action
	}
	sj, _ := simplejson.NewJson([]byte(chain))
	if err := fd.SetupActions(p, fd.DefaultPluginRegistry, sj, map[string]int{"capacity": cs.Capacity, "gomaxprocs": cs.Procs}); err != nil {
		return err
	}
	p.SetOutput(&pipeline.OutputPluginInfo{
		PluginStaticInfo:  &pipeline.PluginStaticInfo{Type: "c10_out"},
		PluginRuntimeInfo: &pipeline.PluginRuntimeInfo{Plugin: &monOutput{mon: e.mon, spec: cs.Out}},
	})
	return nil
}

// progress-based wait: cond is polled; the wait gives up (inconclusive) when
// the monitor's logical clock has not moved for `idle`.
func (e *engine) waitFor(what string, idle time.Duration, cond func() bool) bool {
	last := int64(-1)
	lastChange := time.Now()
	hard := time.Now().Add(100 * time.Second)
	for {
		if cond() {
			return true
		}
		e.mon.mu.Lock()
		c := e.mon.clock
		e.mon.mu.Unlock()
		if c != last {
			last, lastChange = c, time.Now()
		}
		if time.Since(lastChange) > idle || time.Now().After(hard) {
			if e.res.Inconclusive == "" {
				e.res.Inconclusive = "no progress while waiting for: " + what
			}
			return false
		}
		time.Sleep(2 * time.Millisecond)
	}
}

// done: every record the consumer can be handed has been handed and is
// finished, and every accepted record has been committed to the input.
func (e *engine) allDone() bool {
	m := e.mon
	m.mu.Lock()
	defer m.mu.Unlock()
	if m.stat["events_acked"] != m.stat["records_committed"] {
		return false // an acknowledged event has not been committed to the input yet
	}
	for _, st := range m.parts {
		for i := st.lo; i < len(st.recs); i++ {
			r := st.recs[i]
			if r.Off < st.start {
				continue
			}
			if !r.served || !r.finished() {
				return false
			}
		}
	}
	return true
}

func (e *engine) recDone(r *recState) bool {
	e.mon.mu.Lock()
	defer e.mon.mu.Unlock()
	return r.finished() && (!r.acked || r.commits > 0)
}

func (e *engine) stagesDump() string {
	m := e.mon
	m.mu.Lock()
	defer m.mu.Unlock()
	cnt := map[string]int{}
	for _, r := range e.all {
		cnt[r.stage()]++
	}
	out := fmt.Sprint(cnt)
	for k, st := range m.parts {
		missing, first := 0, int64(-1)
		for _, r := range st.recs {
			if r.Off >= st.start && !r.served {
				if missing == 0 {
					first = r.Off
				}
				missing++
			}
		}
		if missing > 0 {
			out += fmt.Sprintf(" [%s/%d start=%d never handed: %d records from offset %d]", k.Topic, k.Part, st.start, missing, first)
		}
	}
	return out
}

func (e *engine) finish() {
	m := e.mon
	if e.in.stopped.Load() {
		e.p.Stop()
		e.broker.close()
		return
	}
	// let the auto-committer send what is marked (interval = AutoCommitMs),
	// then stop: Plugin.Stop commits the marked offsets synchronously.
	settleUntil := time.Now().Add(time.Duration(3*e.cs.AutoCommitMs+50) * time.Millisecond)
	for time.Now().Before(settleUntil) {
		e.in.observe()
		m.mu.Lock()
		same := len(m.heads) > 0
		for k, h := range m.heads {
			if m.bcommits[k] != h {
				same = false
			}
		}
		m.mu.Unlock()
		if same {
			m.mu.Lock()
			m.stat["autocommit_caught_up"]++
			m.mu.Unlock()
			break
		}
		time.Sleep(5 * time.Millisecond)
	}
	stopped := make(chan struct{})
	go func() { e.p.Stop(); close(stopped) }()
	select {
	case <-stopped:
	case <-time.After(30 * time.Second):
		m.mu.Lock()
		m.stat["stop_hung"]++
		m.mu.Unlock()
	}
	// after Stop the broker holds the final committed offsets
	m.mu.Lock()
	for k, h := range m.heads {
		if m.bcommits[k] == h {
			m.stat["final_broker_commit_equals_head"]++
		} else {
			m.stat["final_broker_commit_differs"]++
			bc, seen := m.bcommits[k]
			e.res.Notes = append(e.res.Notes, fmt.Sprintf("after Stop: %s/%d last marked head %s, last commit at the broker %s (seen=%v); history: %s", k.Topic, k.Part, h, bc, seen, strings.Join(m.hist[k], " | ")))
		}
	}
	m.mu.Unlock()
	e.broker.close()
}

func (e *engine) collect() {
	m := e.mon
	bstats := e.broker.stats()
	m.mu.Lock()
	defer m.mu.Unlock()
	e.res.Viols = m.viols
	e.res.ViolCount = m.violSeen
	e.res.Stats = m.stat
	for f := range m.flags {
		e.res.Flags = append(e.res.Flags, f)
	}
	sort.Strings(e.res.Flags)
	e.res.Trace = m.trace
	for k, v := range bstats {
		m.stat["broker_"+k] = v
	}
	m.stat["marked_offsets_non_nil_reads"] = atomic.LoadInt64(&markedNonNil)
	m.stat["processors"] = int64(e.p.VerifProcCount())
	if e.cs.hasRepeatedTopics() {
		m.stat["cases_with_a_repeated_topic_in_the_topics_list"]++
		m.stat["heads_judged_with_a_repeated_topic_in_the_topics_list"] += m.stat["heads_checked_mark"]
	}
	if len(e.all) > 0 {
		var heads []string
		for k, h := range m.heads {
			heads = append(heads, fmt.Sprintf("%s/%d=%s", k.Topic, k.Part, h))
		}
		sort.Strings(heads)
		if len(heads) > 6 {
			heads = heads[:6]
		}
		e.res.Sample = map[string]any{"case": e.cs.Name, "first_record": string(bytes.TrimSpace(e.all[0].Value)), "final_heads": heads, "records": len(e.all)}
	}
}

// ---- broker-fed cases ----

func (e *engine) addTopicsFromParts() {
	for _, t := range e.cs.Topics {
		var ps []*fPartition
		for pi := range t.Parts {
			st := e.mon.parts[partKey{t.Name, int32(pi)}]
			fp := &fPartition{logStart: t.Parts[pi].Base}
			if st != nil {
				fp.batches = st.batches
				if st.start != t.Parts[pi].Base {
					// a previous session committed here
					var ep int32
					for _, b := range st.batches {
						if b.First < st.start {
							ep = b.Epoch
							fp.visible++ // what the previous session consumed is in the log already
						}
					}
					c := commitObs{Topic: t.Name, Partition: int32(pi), Offset: st.start, Epoch: ep}
					e.broker.seedCommit(c)
					e.mon.seeded[st.key] = head{ep, st.start}
					e.mon.stat["partitions_resumed_from_commit"]++
				}
			}
			ps = append(ps, fp)
		}
		e.broker.addTopic(t.Name, ps)
	}
	// partitions without records exist at the broker but are not assigned to
	// this group member (as if another member owned them): the group leader's
	// assignment is replaced by "the partitions that have records"
	sparse := false
	for _, t := range e.cs.Topics {
		for _, p := range t.Parts {
			if p.Records == 0 {
				sparse = true
			}
		}
	}
	if sparse {
		want := map[string][]int32{}
		for k := range e.mon.parts {
			want[k.Topic] = append(want[k.Topic], k.Part)
		}
		for t := range want {
			sort.Slice(want[t], func(i, j int) bool { return want[t][i] < want[t][j] })
		}
		e.broker.override = func([]string) map[string][]int32 { return want }
	}
}

func (e *engine) waitFetching() bool {
	return e.waitFor("first fetch of every partition", 45*time.Second, func() bool {
		return e.broker.stats()["partitions_fetched"] >= int64(len(e.mon.parts))
	})
}

func (e *engine) runSched() {
	cs := e.cs
	e.addTopicsFromParts()
	waves := max(1, cs.ReleaseWaves)
	releaseWave := func(w int) {
		for k, st := range e.mon.parts {
			n := len(st.batches)
			from, to := n*w/waves, n*(w+1)/waves
			if to > from {
				e.broker.release(k.Topic, int(k.Part), to-from)
			}
		}
	}
	first := 0
	if cs.Offset == "oldest" {
		releaseWave(0) // visible before the consumer exists: read from the start
		first = 1
	}
	e.p.Start()
	if !e.waitFetching() {
		return
	}
	for w := first; w < waves; w++ {
		releaseWave(w)
		if cs.WaveMs > 0 {
			time.Sleep(time.Duration(cs.WaveMs) * time.Millisecond)
		}
	}
	if cs.Kind == "stop-early" {
		// the input is stopped (as Pipeline.Stop does) while events are in
		// flight: Plugin.Stop commits what is marked at that moment
		total := len(e.all)
		e.waitFor("part of the records handed", 25*time.Second, func() bool {
			e.mon.mu.Lock()
			defer e.mon.mu.Unlock()
			return e.mon.stat["records_handed"]*100 >= int64(total)*int64(cs.StopAtPct)
		})
		e.mon.mu.Lock()
		inflight := e.mon.stat["in_accepted"] - e.mon.stat["events_acked"] - e.mon.stat["action_discard"]
		e.mon.stat["in_flight_at_input_stop"] += inflight
		e.mon.mu.Unlock()
		e.in.Stop()
		// drain: everything that was handed finishes
		if !e.waitFor("handed records finished", 25*time.Second, func() bool {
			m := e.mon
			m.mu.Lock()
			defer m.mu.Unlock()
			if m.stat["events_acked"] != m.stat["records_committed"] {
				return false
			}
			for _, r := range e.all {
				if r.inCalled && !r.finished() {
					return false
				}
			}
			return true
		}) {
			e.res.Dump = e.stagesDump()
		}
		return
	}
	if !e.waitFor("all records finished and committed", 25*time.Second, e.allDone) {
		e.res.Dump = e.stagesDump()
	}
}

// ---- directed: a later record finishes while an earlier one is held ----

func (e *engine) runDirected() {
	cs := e.cs
	e.addTopicsFromParts()
	e.p.Start()
	if !e.waitFetching() {
		return
	}
	st := e.mon.parts[partKey{cs.Topics[0].Name, 0}]
	// phase 1: warm-up batches (everything before the held record)
	held := -1
	for i, r := range st.recs {
		if strings.HasPrefix(r.Op, "gate:") || r.OutGate != "" {
			held = i
			break
		}
	}
	if held < 0 {
		e.res.HarnessError = "directed case without a held record"
		return
	}
	bi := 0
	for ; bi < len(st.batches) && st.batches[bi].last() < st.recs[held].Off; bi++ {
	}
	e.broker.release(st.key.Topic, 0, bi)
	if !e.waitFor("warm-up finished", 20*time.Second, func() bool {
		for _, r := range st.recs[:held] {
			if !e.recDone(r) {
				return false
			}
		}
		return true
	}) {
		return
	}
	// phase 2: the held record
	e.broker.release(st.key.Topic, 0, 1)
	if !e.waitFor("held record reached its gate", 20*time.Second, func() bool { return e.mon.flag("arrived:HOLD") }) {
		return
	}
	// phase 3: later records, one batch at a time, until one of them is
	// finished and committed while the held one is still held
	reached := false
	for b := bi + 1; b < len(st.batches) && !reached; b++ {
		e.broker.release(st.key.Topic, 0, 1)
		for t0 := time.Now(); !reached && time.Since(t0) < 250*time.Millisecond; time.Sleep(time.Millisecond) {
			e.mon.mu.Lock()
			for _, r := range st.recs[held+1:] {
				if r.commits > 0 || (e.cs.Kind == "d-output" && r.acked) {
					reached = true
				}
			}
			e.mon.mu.Unlock()
		}
	}
	if reached {
		if e.cs.Kind == "d-output" {
			time.Sleep(30 * time.Millisecond) // give a wrongly early commit the time to show up
		}
		e.mon.mu.Lock()
		e.mon.flags["directed:later-record-done-while-earlier-held"] = true
		if h, ok := e.mon.heads[st.key]; ok && h.Off > st.recs[held].Off && !st.recs[held].finished() {
			e.mon.stat["directed_marked_head_is_past_the_held_record"]++
			e.res.Notes = append(e.res.Notes, fmt.Sprintf("record offset %d of %s/0 is held (%s); marked head is %s", st.recs[held].Off, st.key.Topic, st.recs[held].stage(), h))
		} else {
			e.mon.stat["directed_marked_head_not_past_the_held_record"]++
		}
		// the batcher commits in the order it received the events: nothing
		// that reached the output after the held record may be committed yet
		if e.cs.Kind == "d-output" {
			for _, r := range st.recs[held+1:] {
				if r.acked && r.commits == 0 {
					e.mon.stat["acked_but_commit_waits_for_earlier_batch"]++
				}
			}
		}
		e.mon.mu.Unlock()
	}
	close(e.mon.gate("HOLD"))
	e.broker.release(st.key.Topic, 0, -1)
	if !e.waitFor("all records finished and committed", 25*time.Second, e.allDone) {
		e.res.Dump = e.stagesDump()
	}
}

// ---- inject mode: hand-made fetches through the real partition consumers ----

func (e *engine) runInject(sequential bool, plan [][]*recState) {
	cs := e.cs
	// the broker knows the topics (one empty partition each) so that the
	// plugin's own client joins its group normally
	for _, t := range cs.Topics {
		e.broker.addTopic(t.Name, []*fPartition{{}})
	}
	e.p.Start()
	f := e.in.real.VerifNewFeeder()
	assigned := map[string][]int32{}
	for k := range e.mon.parts {
		assigned[k.Topic] = append(assigned[k.Topic], k.Part)
	}
	f.Assigned(assigned)
	feed := func(rs []*recState) bool {
		ftp := kgo.FetchTopicPartition{Topic: rs[0].Topic}
		ftp.Partition = rs[0].Part
		e.mon.mu.Lock()
		for _, r := range rs {
			ftp.Records = append(ftp.Records, &kgo.Record{Topic: r.Topic, Partition: r.Part, Offset: r.Off, LeaderEpoch: r.Epoch, Value: r.Value})
			e.mon.onServed(r)
		}
		e.mon.mu.Unlock()
		return f.Feed(ftp)
	}
	if sequential {
		for _, rs := range plan {
			if !feed(rs) {
				e.res.HarnessError = "no partition consumer for a fed partition"
				return
			}
			last := rs[len(rs)-1]
			if !e.waitFor("record "+last.ID, 20*time.Second, func() bool {
				for _, r := range rs {
					if !e.recDone(r) {
						return false
					}
				}
				return true
			}) {
				return
			}
		}
	} else {
		// one feeder goroutine per partition (as the poll loop would do it, in offset order)
		byPart := map[partKey][][]*recState{}
		for _, rs := range plan {
			k := partKey{rs[0].Topic, rs[0].Part}
			byPart[k] = append(byPart[k], rs)
		}
		// the poll loop is a single goroutine: feed round-robin from one
		order := make([]partKey, 0, len(byPart))
		for k := range byPart {
			order = append(order, k)
		}
		sort.Slice(order, func(i, j int) bool {
			if order[i].Topic != order[j].Topic {
				return order[i].Topic < order[j].Topic
			}
			return order[i].Part < order[j].Part
		})
		for more := true; more; {
			more = false
			for _, k := range order {
				if len(byPart[k]) == 0 {
					continue
				}
				more = true
				if !feed(byPart[k][0]) {
					e.res.HarnessError = "no partition consumer for a fed partition"
					return
				}
				byPart[k] = byPart[k][1:]
			}
		}
	}
	if !e.waitFor("all records finished and committed", 25*time.Second, e.allDone) {
		e.res.Dump = e.stagesDump()
	}
}

// runCase is the child entry point.
func runCase(cs *Case, io *core.ChildIO) *Result {
	res := &Result{Name: cs.Name, Kind: cs.Kind}
	var parts map[partKey]*partState
	var all []*recState
	var plan [][]*recState
	switch cs.Kind {
	case "grid":
		parts, all, plan = gridPlan(cs)
	case "inject":
		parts, all, plan = injectPlan(cs)
	case "d-spread", "d-output":
		parts, all = directedLogs(cs)
	default:
		parts, all = generate(cs)
	}
	e := &engine{cs: cs, mon: newMonitor(cs, parts, all), all: all, res: res}
	io.Log(map[string]any{"cmd": "case", "name": cs.Name, "kind": cs.Kind, "seed": cs.Seed})
	if err := e.setup(); err != nil {
		res.HarnessError = err.Error()
		return res
	}
	switch cs.Kind {
	case "grid":
		e.runInject(true, plan)
	case "inject":
		e.runInject(false, plan)
	case "d-spread", "d-output":
		e.runDirected()
	default:
		e.runSched()
	}
	e.finish()
	e.collect()
	return res
}
