package main

// Case specification, workload generation and the reference monitor (oracle)
// of C10. The oracle is written from the property text only:
//
//   P1 (packing)  every offset file.d marks / commits for (topic, partition)
//                 is offset+1 of a record of exactly that topic and partition
//                 that was handed to file.d, together with that record's
//                 leader epoch;
//   P2 (frontier) it never passes a handed record of that partition that is
//                 neither acknowledged by the output nor deliberately dropped.
//
// "Handed" = put into a Fetch response by the broker (or fed to the real
// partition consumer in inject mode). "Acknowledged" = the output's send
// function returned for the batch containing the event. "Deliberately
// dropped" = Pipeline.In refused the record (empty value, unparsable JSON,
// over max_event_size) or the script action decided to discard it.

import (
	"fmt"
	"hash/fnv"
	"math/rand"
	"sort"
	"strings"
	"sync"
)

// ---------------- case ----------------

type PartSpec struct {
	Base       int64 // log start offset
	Records    int
	GapPct     int   // chance of an offset gap (compaction) before a record
	BatchMax   int   // records per batch 1..BatchMax
	Epoch0     int32 // first leader epoch
	EpochBump  int   // percent chance per batch of a leader epoch bump
	EpochStep  int32
	SeedCommit int // 0: none; k>0: a previous session committed up to the k-th batch (consumer starts there)
}

type TopicSpec struct {
	Name  string
	Parts []PartSpec
}

type OutSpec struct {
	Count   int
	Workers int
	FlushMs int
	DelayUs []int // per batch seq (mod len)
}

type Case struct {
	Name   string
	Kind   string // sched | stop-early | grid | inject | d-spread | d-output
	Seed   int64
	Procs  int // GOMAXPROCS of the child; the pipeline runs 2*Procs processors
	Topics []TopicSpec
	// TopicList is the `topics` list given to the plugin when it is not just
	// the names of Topics in order: it may name a topic more than once (the
	// property quantifies over all topics lists). Records exist once per name.
	TopicList []string
	// what is put on the topics
	MudPct, BadPct, BigPct int // empty values / unparsable JSON / over max_event_size
	DiscardPct             int // script action discards
	SleepPct, SleepMaxUs   int // script action sleeps before deciding
	PadMax                 int
	Out                    OutSpec
	Capacity               int
	// kafka input configuration
	Offset        string // oldest | newest
	Balancer      string
	ChannelBuf    int
	MaxConsumers  int
	Meta          bool
	AutoCommitMs  int
	FetchBatches  int // broker: batches per partition per fetch response
	ReleaseWaves  int // sched: the logs become visible in this many waves
	WaveMs        int
	MaxEventSize  int
	SplitPct      int // >0: the action chain is [split(field=items), script] and this share of the records carries an array of child objects
	EdgePlan      int // inject: 1..3 = deterministic edge plan (partitions {0,1,255,65535} x epochs {65535,65534,1,0} x one edge offset range)
	StopAtPct     int // stop-early: the input is stopped when this share of the records has been handed
	GridPartOrder int // grid: 0 forward, 1 reverse start
	Trace         bool
}

// configTopics is the plugin's `topics` setting of the case.
func (cs *Case) configTopics() []string {
	if len(cs.TopicList) > 0 {
		return cs.TopicList
	}
	var out []string
	for _, t := range cs.Topics {
		out = append(out, t.Name)
	}
	return out
}

func (cs *Case) hasRepeatedTopics() bool {
	seen := map[string]bool{}
	for _, t := range cs.configTopics() {
		if seen[t] {
			return true
		}
		seen[t] = true
	}
	return false
}

// ---------------- records ----------------

type recState struct {
	ID       string
	Topic    string
	TopicIdx int
	Part     int32
	Off      int64
	Epoch    int32
	Kind     string // ok | mud | bad | big
	Op       string // pass | discard | gate:<name>
	SleepUs  int
	OutGate  string // the output's send of the batch holding this record waits for this gate
	Kids     int    // >0: the value carries an array of this many objects for the split action (ids "<ID>#k")
	Value    []byte

	// observed
	served     bool
	inCalled   bool
	inReturned bool
	inDropped  bool
	act        string // "", pass, discard
	outIdx     int64  // order of Out calls (0 = none)
	acked      bool
	parentAck  bool // split record: the batch holding the parent event was sent
	kidsOut    int  // split record: children handed to the output
	kidsAcked  int  // split record: children whose batch was sent
	commits    int
	tFinished  int64
	tServed    int64
}

func (r *recState) finished() bool {
	return r.Kind == "mud" || r.inDropped || r.act == "discard" || r.acked
}

func (r *recState) stage() string {
	switch {
	case r.finished():
		return "finished"
	case !r.served:
		return "not-handed"
	case !r.inCalled:
		return "fetched-not-yet-in"
	case r.outIdx > 0:
		return "in-output"
	case r.act == "pass":
		return "after-action"
	default:
		return "in-processor"
	}
}

type partKey struct {
	Topic string
	Part  int32
}

type head struct {
	Epoch int32
	Off   int64
}

func (h head) String() string { return fmt.Sprintf("(epoch %d, offset %d)", h.Epoch, h.Off) }

type partState struct {
	key      partKey
	recs     []*recState           // ascending offsets
	byNext   map[int64][]*recState // offset+1 -> records with that offset (one, except in the packing grid: one per epoch)
	unsorted bool                  // recs are not in ascending offset order (packing grid)
	lo       int                   // all records before lo are finished or will never be handed
	start    int64                 // first offset the consumer may be handed
	batches  []*fBatch
}

func (st *partState) index(r *recState) { st.byNext[r.Off+1] = append(st.byNext[r.Off+1], r) }

// explain finds the handed record that a head is one past (same epoch); why
// is non-empty if there is none.
func (st *partState) explain(h head) (b *recState, why string) {
	cands := st.byNext[h.Off]
	if len(cands) == 0 {
		return nil, "offset-is-not-one-past-a-consumed-record"
	}
	anyServed := false
	for _, c := range cands {
		if c.served {
			anyServed = true
			if c.Epoch == h.Epoch {
				return c, ""
			}
		}
	}
	if !anyServed {
		return nil, "record-not-yet-handed"
	}
	return nil, "epoch-is-not-the-records-epoch"
}

// ---------------- generation ----------------

func recID(topic string, part int32, off int64) string {
	return fmt.Sprintf("%s/%d/%d", topic, part, off)
}

func makeValue(rng *rand.Rand, cs *Case, r *recState) {
	pad := ""
	if cs.PadMax > 0 {
		pad = strings.Repeat("x", rng.Intn(cs.PadMax+1))
	}
	switch r.Kind {
	case "mud":
		switch rng.Intn(3) {
		case 0:
			r.Value = nil // tombstone
		case 1:
			r.Value = []byte{}
		default:
			r.Value = []byte("\n")
		}
	case "bad":
		r.Value = []byte(fmt.Sprintf(`{"id":"%s","op":"pass", broken`, r.ID))
	case "big":
		r.Value = []byte(fmt.Sprintf(`{"id":"%s","op":"pass","pad":"%s"}`, r.ID, strings.Repeat("B", cs.MaxEventSize+8)))
	default:
		og := ""
		if r.OutGate != "" {
			og = fmt.Sprintf(`"og":"%s",`, r.OutGate)
		}
		items := ""
		if cs.SplitPct > 0 && r.OutGate == "" && !strings.HasPrefix(r.Op, "gate:") && int(hashRoll(cs.Seed, r.ID)%100) < cs.SplitPct {
			// a record for the split action: the parent never reaches the script action
			h := hashRoll(cs.Seed^0x51, r.ID)
			r.Kids = 1 + int(h%4)
			r.Op, r.SleepUs = "pass", 0
			var kids []string
			for k := 0; k < r.Kids; k++ {
				op, us := "pass", 0
				hk := hashRoll(cs.Seed^int64(k+7), r.ID)
				if hk%5 == 0 {
					op = "discard"
				}
				if hk%3 == 0 && cs.SleepMaxUs > 0 {
					us = 1 + int(hk>>8)%cs.SleepMaxUs
				}
				kids = append(kids, fmt.Sprintf(`{"id":"%s#%d","op":"%s","us":%d}`, r.ID, k, op, us))
			}
			items = `,"items":[` + strings.Join(kids, ",") + `]`
			if cs.MaxEventSize > 0 && len(items)+len(pad)+len(r.ID)+64 > cs.MaxEventSize {
				items, r.Kids = "", 0 // would be refused as oversize: keep it a plain record
			}
		}
		r.Value = []byte(fmt.Sprintf(`{"id":"%s","op":"%s",%s"us":%d,"pad":"%s"%s}`, r.ID, r.Op, og, r.SleepUs, pad, items))
	}
}

func hashRoll(seed int64, id string) uint64 {
	h := fnv.New64a()
	fmt.Fprintf(h, "%d|%s", seed, id)
	return h.Sum64() >> 3
}

// generate builds the logs of a broker-fed case.
func generate(cs *Case) (map[partKey]*partState, []*recState) {
	rng := rand.New(rand.NewSource(cs.Seed))
	parts := map[partKey]*partState{}
	var all []*recState
	for ti, t := range cs.Topics {
		for pi, ps := range t.Parts {
			if ps.Records == 0 {
				continue // an empty partition that this member is not assigned (see addTopicsFromParts)
			}
			st := &partState{key: partKey{t.Name, int32(pi)}, byNext: map[int64][]*recState{}, start: ps.Base}
			off := ps.Base
			epoch := ps.Epoch0
			n := 0
			for n < ps.Records {
				bn := 1 + rng.Intn(max(1, ps.BatchMax))
				if bn > ps.Records-n {
					bn = ps.Records - n
				}
				if len(st.batches) > 0 && rng.Intn(100) < ps.EpochBump {
					epoch += 1 + rng.Int31n(max(1, ps.EpochStep))
					if epoch > 65535 {
						epoch = 65535
					}
				}
				if rng.Intn(100) < ps.GapPct {
					off += 1 + int64(rng.Intn(5)) // whole batch compacted away
				}
				fb := &fBatch{First: off, Epoch: epoch}
				for j := 0; j < bn; j++ {
					if j > 0 && rng.Intn(100) < ps.GapPct {
						off += 1 + int64(rng.Intn(3))
					}
					r := &recState{Topic: t.Name, TopicIdx: ti, Part: int32(pi), Off: off, Epoch: epoch, Kind: "ok", Op: "pass"}
					r.ID = recID(t.Name, r.Part, off)
					x := rng.Intn(100)
					switch {
					case x < cs.MudPct:
						r.Kind = "mud"
					case x < cs.MudPct+cs.BadPct:
						r.Kind = "bad"
					case x < cs.MudPct+cs.BadPct+cs.BigPct && cs.MaxEventSize > 0:
						r.Kind = "big"
					default:
						if rng.Intn(100) < cs.DiscardPct {
							r.Op = "discard"
						}
						if rng.Intn(100) < cs.SleepPct && cs.SleepMaxUs > 0 {
							r.SleepUs = 1 + rng.Intn(cs.SleepMaxUs)
						}
					}
					makeValue(rng, cs, r)
					fb.Recs = append(fb.Recs, fRec{Delta: int32(off - fb.First), Value: r.Value})
					st.recs = append(st.recs, r)
					st.index(r)
					all = append(all, r)
					off++
					n++
				}
				st.batches = append(st.batches, fb)
			}
			if ps.SeedCommit > 0 && ps.SeedCommit < len(st.batches) {
				// a previous session consumed the first batches and committed
				// one past the last record it finished
				st.start = st.batches[ps.SeedCommit-1].last() + 1
			}
			parts[st.key] = st
		}
	}
	return parts, all
}

// ---------------- monitor ----------------

type Viol struct {
	Sig     string `json:"sig"`
	What    string `json:"what"`
	Witness any    `json:"witness"`
}

type monitor struct {
	mu      sync.Mutex
	clock   int64
	cs      *Case
	parts   map[partKey]*partState
	byID    map[string]*recState
	byValue map[string]*recState
	topics  map[string]int

	outSeq    int64
	heads     map[partKey]head // last observed marked heads
	bcommits  map[partKey]head // last commit seen by the broker in this session
	seeded    map[partKey]head // commits of the "previous session"
	viols     []Viol
	violSeen  map[string]int
	stat      map[string]int64
	flags     map[string]bool
	trace     []string
	waitGates map[string]chan struct{}
	hist      map[partKey][]string // last observations per partition (diagnostics)
}

func (m *monitor) histf(k partKey, format string, a ...any) {
	if m.hist == nil {
		m.hist = map[partKey][]string{}
	}
	h := append(m.hist[k], fmt.Sprintf("%d ", m.clock)+fmt.Sprintf(format, a...))
	if len(h) > 14 {
		h = h[len(h)-14:]
	}
	m.hist[k] = h
}

func newMonitor(cs *Case, parts map[partKey]*partState, all []*recState) *monitor {
	m := &monitor{cs: cs, parts: parts, byID: map[string]*recState{}, byValue: map[string]*recState{},
		topics: map[string]int{}, heads: map[partKey]head{}, bcommits: map[partKey]head{}, seeded: map[partKey]head{},
		violSeen: map[string]int{}, stat: map[string]int64{}, flags: map[string]bool{}, waitGates: map[string]chan struct{}{}}
	for i, t := range cs.Topics {
		m.topics[t.Name] = i
	}
	for _, r := range all {
		m.byID[r.ID] = r
		if len(r.Value) > 1 {
			m.byValue[string(r.Value)] = r
		}
	}
	return m
}

func (m *monitor) tick() int64 { m.clock++; return m.clock }

func (m *monitor) tracef(format string, a ...any) {
	if m.cs.Trace && len(m.trace) < 4000 {
		m.trace = append(m.trace, fmt.Sprintf("%d ", m.clock)+fmt.Sprintf(format, a...))
	}
}

func (m *monitor) violation(sig, what string, w any) {
	m.violSeen[sig]++
	if m.violSeen[sig] <= 1 && len(m.viols) < 12 {
		m.viols = append(m.viols, Viol{Sig: sig, What: what, Witness: w})
	}
}

func (m *monitor) markFinished(r *recState) {
	if r.tFinished == 0 {
		r.tFinished = m.tick()
		// completion inversion: an earlier handed record of the partition is still unfinished
		st := m.parts[partKey{r.Topic, r.Part}]
		if st != nil {
			if a := m.lowestUnfinished(st, r.Off, r); a != nil {
				m.stat["completion_inversions"]++
			}
		}
	}
}

// lowestUnfinished returns the handed, unfinished record of the partition
// with the lowest offset < below (nil if none). In a partition whose records
// are not in offset order (grid cases: the same offsets recur with every
// epoch, which no broker does) "earlier" is the visiting order: only records
// handed no later than upto (the record the mark is one past) count - a
// record of the next grid point that has been handed while the asynchronous
// broker commit of the previous point's mark was still on its way is not
// passed by that mark.
func (m *monitor) lowestUnfinished(st *partState, below int64, upto *recState) *recState {
	for st.lo < len(st.recs) {
		r := st.recs[st.lo]
		if r.finished() || r.Off < st.start {
			st.lo++
			continue
		}
		break
	}
	for i := st.lo; i < len(st.recs); i++ {
		r := st.recs[i]
		if r.Off >= below {
			if st.unsorted {
				continue
			}
			return nil
		}
		if r.served && !r.finished() {
			return r
		}
		if st.unsorted && upto != nil && r == upto {
			break
		}
	}
	return nil
}

const (
	// the one structural defect of the unchanged tree (FINDINGS.md)
	sigSpread = "C10:frontier:mark-passes-unfinished-earlier-record:later-record-of-the-partition-finished-first(spread-over-processors)"
	// not reachable on the unchanged tree (discarded events are never committed to the input)
	sigDiscard = "C10:frontier:mark-of-a-discarded-record-passes-earlier-record-waiting-in-the-output"
)

// checkHead evaluates P1 and P2 for one observed head. where = "mark" (client
// marked offsets) or "broker" (OffsetCommit request). committed is the record
// whose Commit call was just observed (nil at other observation points).
func (m *monitor) checkHead(where string, k partKey, h head, committed *recState) {
	m.stat["heads_checked_"+where]++
	st := m.parts[k]
	var b *recState
	// ---- P1: packing ----
	bad := ""
	if st == nil {
		if _, ok := m.topics[k.Topic]; !ok {
			bad = "unknown-topic"
		} else {
			bad = "partition-never-consumed"
		}
	} else {
		b, bad = st.explain(h)
	}
	if bad != "" {
		rel := "n/a"
		if committed != nil {
			rel = relation(k, h, committed)
		}
		sig := fmt.Sprintf("C10:packing:%s:%s:vs-committed-record=%s", bad, where, rel)
		w := map[string]any{"where": where, "topic": k.Topic, "partition": k.Part, "marked_offset": h.Off, "marked_epoch": h.Epoch}
		if committed != nil {
			w["committed_record"] = map[string]any{"topic": committed.Topic, "topic_index": committed.TopicIdx, "partition": committed.Part, "offset": committed.Off, "epoch": committed.Epoch}
		}
		m.violation(sig, fmt.Sprintf("%s offset %s for %s/%d is not offset+1/epoch of a record of that partition handed to file.d", where, h, k.Topic, k.Part), w)
		return
	}
	m.stat["p1_ok_"+where]++
	// ---- P2: frontier ----
	a := m.lowestUnfinished(st, h.Off, b)
	if a == nil {
		m.stat["p2_ok_"+where]++
		return
	}
	m.stat["p2_passed_unfinished_"+where]++
	sig := ""
	switch {
	case a == b:
		sig = "C10:frontier:marked-record-itself-not-finished:" + a.stage()
	case !b.finished():
		sig = "C10:frontier:marked-record-not-finished:" + b.stage() + ":earlier-record:" + a.stage()
	default:
		bHow := "acked"
		if !b.acked {
			bHow = "dropped"
		}
		switch a.stage() {
		case "in-processor", "after-action":
			sig = sigSpread
			m.flags["spread:"+bHow+"-passes-"+a.stage()] = true
		case "in-output":
			switch {
			case bHow == "dropped":
				sig = sigDiscard
				m.flags["discard-passes-in-output"] = true
			case b.outIdx > a.outIdx:
				sig = "C10:frontier:later-batch-committed-before-earlier-batch-that-reached-the-output-first"
			default:
				sig = sigSpread
				m.flags["spread:acked-passes-in-output"] = true
			}
		default:
			sig = "C10:frontier:mark-passes-record:" + a.stage()
		}
	}
	m.violation(sig, fmt.Sprintf("%s offset %s for %s/%d passes record offset %d which is %s (a restart from this offset would never redeliver it)", where, h, k.Topic, k.Part, a.Off, a.stage()),
		map[string]any{"where": where, "topic": k.Topic, "partition": k.Part, "marked_offset": h.Off, "marked_epoch": h.Epoch,
			"marked_is_one_past": map[string]any{"offset": b.Off, "finished_by": finishedBy(b), "out_order": b.outIdx},
			"unfinished_record":  map[string]any{"offset": a.Off, "stage": a.stage(), "out_order": a.outIdx, "id": a.ID},
			"processors":         m.cs.Procs * 2, "batch": m.cs.Out})
}

func epochClass(e int32) string {
	switch {
	case e == 65535:
		return "65535"
	case e == 65534:
		return "65534"
	case e <= 1:
		return fmt.Sprint(e)
	}
	return "other"
}

func finishedBy(r *recState) string {
	switch {
	case r.Kind == "mud":
		return "empty value (never enters the pipeline)"
	case r.inDropped:
		return "refused by Pipeline.In"
	case r.act == "discard":
		return "discarded by the action"
	case r.acked:
		return "acknowledged by the output"
	}
	return "not finished"
}

func relation(k partKey, h head, c *recState) string {
	var s []string
	switch {
	case k.Topic != c.Topic:
		s = append(s, "other-topic")
	case k.Part != c.Part:
		s = append(s, "other-partition")
	default:
		s = append(s, "own-partition")
	}
	switch d := h.Off - c.Off; {
	case d == 1:
		s = append(s, "offset+1")
	case d == 0:
		s = append(s, "offset+0")
	case d == 2:
		s = append(s, "offset+2")
	default:
		s = append(s, "offset-other")
	}
	if h.Epoch == c.Epoch {
		s = append(s, "epoch-same")
	} else {
		s = append(s, "epoch-differs")
	}
	return strings.Join(s, ",")
}

// observeHeads is called with the heads read from the real client right after
// an observation point. Only changed heads are judged again.
func (m *monitor) observeHeads(cur map[partKey]head, committed *recState) {
	keys := make([]partKey, 0, len(cur))
	for k := range cur {
		keys = append(keys, k)
	}
	sort.Slice(keys, func(i, j int) bool {
		if keys[i].Topic != keys[j].Topic {
			return keys[i].Topic < keys[j].Topic
		}
		return keys[i].Part < keys[j].Part
	})
	for _, k := range keys {
		h := cur[k]
		old, had := m.heads[k]
		if had && old == h {
			continue
		}
		if had && (h.Epoch < old.Epoch || h.Epoch == old.Epoch && h.Off < old.Off) {
			m.stat["head_moved_backwards"]++
		}
		m.heads[k] = h
		cid := "-"
		if committed != nil {
			cid = committed.ID
		}
		m.histf(k, "head %s after commit of %s", h, cid)
		m.stat["head_changes"]++
		if committed == nil {
			m.stat["head_changes_outside_commit"]++
		}
		m.tracef("head %s/%d -> %s", k.Topic, k.Part, h)
		m.checkHead("mark", k, h, committed)
	}
	if committed != nil {
		k := partKey{committed.Topic, committed.Part}
		want := head{committed.Epoch, committed.Off + 1}
		h, ok := cur[k]
		if ok && h == want {
			m.stat[fmt.Sprintf("marks_exact_epoch_%s", epochClass(want.Epoch))]++
		}
		if m.cs.Kind == "grid" && (!ok || h != want) {
			// one record in flight, visited in ascending (epoch, offset) order:
			// the only mark that Commit can have made is exactly this record's
			rel := "no-mark-for-the-partition"
			if ok {
				rel = relation(k, h, committed)
			}
			m.violation("C10:packing:grid:mark-after-commit-is-not-exactly-the-records-offset+1-and-epoch:observed="+rel+":epoch-class="+epochClass(want.Epoch),
				fmt.Sprintf("after Commit of the only record in flight (%s/%d offset %d epoch %d) the marked head of its partition is %v (present=%v), expected exactly %s", committed.Topic, committed.Part, committed.Off, committed.Epoch, h, ok, want),
				map[string]any{"topic": committed.Topic, "partition": committed.Part, "offset": committed.Off, "epoch": committed.Epoch, "observed_present": ok, "observed_offset": h.Off, "observed_epoch": h.Epoch})
		}
		switch {
		case ok && h == want:
			m.stat["marks_exact"]++
		case ok && (h.Epoch > want.Epoch || h.Epoch == want.Epoch && h.Off > want.Off):
			m.stat["marks_already_ahead"]++
		default:
			m.stat["mark_behind_commit"]++
		}
	}
}
