package main

// Order-preserving JSON tree used by the reference model and by the oracle
// that reads the real plugins' output. Written from RFC 8259, independent of
// insane-json: objects keep their key order, scalars keep their raw bytes.

import (
	"encoding/json"
	"errors"
	"fmt"
	"strings"
	"unicode/utf8"
)

const (
	kObj    = 'o'
	kArr    = 'a'
	kScalar = 's'
)

type node struct {
	kind byte
	raw  string   // scalar: the exact token bytes
	keys []string // object: decoded key strings, in document order
	rk   []string // object: raw key tokens incl. quotes (generator only; may be nil)
	vals []*node  // object values / array elements
}

func scalar(raw string) *node { return &node{kind: kScalar, raw: raw} }

func (n *node) indexOf(key string) int {
	for i, k := range n.keys {
		if k == key {
			return i
		}
	}
	return -1
}

// tokenClass classifies a scalar token: string / number / true / false / null.
func tokenClass(raw string) string {
	if raw == "" {
		return "empty"
	}
	switch raw[0] {
	case '"':
		return "string"
	case 't':
		return "true"
	case 'f':
		return "false"
	case 'n':
		return "null"
	}
	return "number"
}

func (n *node) typeName() string {
	switch n.kind {
	case kObj:
		return "object"
	case kArr:
		return "array"
	}
	return tokenClass(n.raw)
}

// quoteJSON renders s as a minimally escaped JSON string.
func quoteJSON(s string) string {
	var b strings.Builder
	b.WriteByte('"')
	for i := 0; i < len(s); i++ {
		c := s[i]
		switch {
		case c == '"':
			b.WriteString(`\"`)
		case c == '\\':
			b.WriteString(`\\`)
		case c == '\n':
			b.WriteString(`\n`)
		case c == '\t':
			b.WriteString(`\t`)
		case c == '\r':
			b.WriteString(`\r`)
		case c < 0x20:
			fmt.Fprintf(&b, `\u%04x`, c)
		default:
			b.WriteByte(c)
		}
	}
	b.WriteByte('"')
	return b.String()
}

// render writes the tree as compact JSON (raw keys are used when present).
func (n *node) render(b *strings.Builder, ws func() string) {
	w := func() {
		if ws != nil {
			b.WriteString(ws())
		}
	}
	switch n.kind {
	case kScalar:
		b.WriteString(n.raw)
	case kArr:
		b.WriteByte('[')
		for i, v := range n.vals {
			if i > 0 {
				b.WriteByte(',')
			}
			w()
			v.render(b, ws)
			w()
		}
		if len(n.vals) == 0 {
			w()
		}
		b.WriteByte(']')
	case kObj:
		b.WriteByte('{')
		for i, v := range n.vals {
			if i > 0 {
				b.WriteByte(',')
			}
			w()
			if n.rk != nil && n.rk[i] != "" {
				b.WriteString(n.rk[i])
			} else {
				b.WriteString(quoteJSON(n.keys[i]))
			}
			w()
			b.WriteByte(':')
			w()
			v.render(b, ws)
			w()
		}
		if len(n.vals) == 0 {
			w()
		}
		b.WriteByte('}')
	}
}

func (n *node) String() string {
	var b strings.Builder
	n.render(&b, nil)
	return b.String()
}

// ---------------------------------------------------------------- parser

type parser struct {
	s string
	i int
}

var errJSON = errors.New("invalid json")

func parseJSON(s string) (*node, error) {
	p := &parser{s: s}
	p.ws()
	n, err := p.value(0)
	if err != nil {
		return nil, err
	}
	p.ws()
	if p.i != len(p.s) {
		return nil, fmt.Errorf("%w: trailing bytes at %d", errJSON, p.i)
	}
	return n, nil
}

func (p *parser) ws() {
	for p.i < len(p.s) {
		switch p.s[p.i] {
		case ' ', '\t', '\n', '\r':
			p.i++
		default:
			return
		}
	}
}

func (p *parser) value(depth int) (*node, error) {
	if depth > 200 {
		return nil, fmt.Errorf("%w: too deep", errJSON)
	}
	if p.i >= len(p.s) {
		return nil, fmt.Errorf("%w: unexpected end", errJSON)
	}
	switch c := p.s[p.i]; {
	case c == '{':
		p.i++
		n := &node{kind: kObj}
		p.ws()
		if p.i < len(p.s) && p.s[p.i] == '}' {
			p.i++
			return n, nil
		}
		for {
			p.ws()
			tok, err := p.stringToken()
			if err != nil {
				return nil, err
			}
			key, err := decodeStringToken(tok)
			if err != nil {
				return nil, err
			}
			p.ws()
			if p.i >= len(p.s) || p.s[p.i] != ':' {
				return nil, fmt.Errorf("%w: expected ':' at %d", errJSON, p.i)
			}
			p.i++
			p.ws()
			v, err := p.value(depth + 1)
			if err != nil {
				return nil, err
			}
			n.keys = append(n.keys, key)
			n.rk = append(n.rk, tok)
			n.vals = append(n.vals, v)
			p.ws()
			if p.i >= len(p.s) {
				return nil, fmt.Errorf("%w: unexpected end in object", errJSON)
			}
			if p.s[p.i] == ',' {
				p.i++
				continue
			}
			if p.s[p.i] == '}' {
				p.i++
				return n, nil
			}
			return nil, fmt.Errorf("%w: expected ',' or '}' at %d", errJSON, p.i)
		}
	case c == '[':
		p.i++
		n := &node{kind: kArr}
		p.ws()
		if p.i < len(p.s) && p.s[p.i] == ']' {
			p.i++
			return n, nil
		}
		for {
			p.ws()
			v, err := p.value(depth + 1)
			if err != nil {
				return nil, err
			}
			n.vals = append(n.vals, v)
			p.ws()
			if p.i >= len(p.s) {
				return nil, fmt.Errorf("%w: unexpected end in array", errJSON)
			}
			if p.s[p.i] == ',' {
				p.i++
				continue
			}
			if p.s[p.i] == ']' {
				p.i++
				return n, nil
			}
			return nil, fmt.Errorf("%w: expected ',' or ']' at %d", errJSON, p.i)
		}
	case c == '"':
		tok, err := p.stringToken()
		if err != nil {
			return nil, err
		}
		if _, err := decodeStringToken(tok); err != nil {
			return nil, err
		}
		return scalar(tok), nil
	default:
		st := p.i
		for p.i < len(p.s) {
			switch p.s[p.i] {
			case ',', '}', ']', ' ', '\t', '\n', '\r':
				goto done
			}
			p.i++
		}
	done:
		tok := p.s[st:p.i]
		switch tok {
		case "true", "false", "null":
			return scalar(tok), nil
		}
		if !validNumber(tok) {
			return nil, fmt.Errorf("%w: bad token %q at %d", errJSON, tok, st)
		}
		return scalar(tok), nil
	}
}

func (p *parser) stringToken() (string, error) {
	if p.i >= len(p.s) || p.s[p.i] != '"' {
		return "", fmt.Errorf("%w: expected string at %d", errJSON, p.i)
	}
	st := p.i
	p.i++
	for p.i < len(p.s) {
		switch c := p.s[p.i]; {
		case c == '\\':
			p.i += 2
		case c == '"':
			p.i++
			return p.s[st:p.i], nil
		case c < 0x20:
			return "", fmt.Errorf("%w: control byte in string at %d", errJSON, p.i)
		default:
			p.i++
		}
	}
	return "", fmt.Errorf("%w: unterminated string", errJSON)
}

// decodeStringToken decodes a JSON string token (with quotes).
func decodeStringToken(tok string) (string, error) {
	inner := tok[1 : len(tok)-1]
	if !strings.Contains(inner, `\`) {
		if !utf8.ValidString(inner) {
			return "", fmt.Errorf("%w: invalid utf-8 in string", errJSON)
		}
		return inner, nil
	}
	var s string
	if err := json.Unmarshal([]byte(tok), &s); err != nil {
		return "", fmt.Errorf("%w: %v", errJSON, err)
	}
	return s, nil
}

func validNumber(t string) bool {
	i := 0
	n := len(t)
	if i < n && t[i] == '-' {
		i++
	}
	if i >= n {
		return false
	}
	if t[i] == '0' {
		i++
	} else if t[i] >= '1' && t[i] <= '9' {
		for i < n && t[i] >= '0' && t[i] <= '9' {
			i++
		}
	} else {
		return false
	}
	if i < n && t[i] == '.' {
		i++
		st := i
		for i < n && t[i] >= '0' && t[i] <= '9' {
			i++
		}
		if i == st {
			return false
		}
	}
	if i < n && (t[i] == 'e' || t[i] == 'E') {
		i++
		if i < n && (t[i] == '+' || t[i] == '-') {
			i++
		}
		st := i
		for i < n && t[i] >= '0' && t[i] <= '9' {
			i++
		}
		if i == st {
			return false
		}
	}
	return i == n
}

// strictEqual: same structure, same key order (decoded keys), same raw scalars.
func strictEqual(a, b *node) bool {
	if a.kind != b.kind {
		return false
	}
	switch a.kind {
	case kScalar:
		return a.raw == b.raw
	case kObj:
		if len(a.keys) != len(b.keys) {
			return false
		}
		for i := range a.keys {
			if a.keys[i] != b.keys[i] {
				return false
			}
		}
	}
	if len(a.vals) != len(b.vals) {
		return false
	}
	for i := range a.vals {
		if !strictEqual(a.vals[i], b.vals[i]) {
			return false
		}
	}
	return true
}
