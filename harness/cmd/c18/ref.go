package main

// Reference model, written from the property text and the plugins' READMEs:
//
//   remove_fields: delete exactly the values addressed by the paths.
//   keep_fields:   keep exactly the addressed values plus the objects on the
//                  way to them; everything else goes (the root object stays).
//   A path addresses a value iff every component but the last names a field
//   of an *object* and the last names a field of that object. Paths that do
//   not exist or cross a non-object address nothing.
//
// Both functions work on sets of addressed nodes of the *original* event, so
// "a path plus its descendant == the path alone" and "duplicates change
// nothing" hold by construction; order, types and raw bytes of survivors are
// whatever the input had.

import "strings"

type pathOutcome struct {
	depth   int    // len(path)
	kind    string // hit-scalar hit-object hit-array absent-root absent-mid absent-leaf cross-array cross-array-numeric cross-scalar
	reached int    // how many components matched
	dotted  bool   // some matched component contains '.'
	wide    bool   // the addressed value lives in an object with > 16 fields
	escaped bool   // some matched key is spelled with a non-minimal JSON escape in the event
}

// resolve walks path from root through objects only.
func resolve(root *node, path []string) (target *node, way []*node, out pathOutcome) {
	out.depth = len(path)
	cur := root
	for i, k := range path {
		if cur.kind != kObj {
			switch {
			case cur.kind == kArr && isDecimal(k):
				out.kind = "cross-array-numeric"
			case cur.kind == kArr:
				out.kind = "cross-array"
			default:
				out.kind = "cross-scalar"
			}
			return nil, nil, out
		}
		idx := cur.indexOf(k)
		if idx < 0 {
			switch {
			case i == 0:
				out.kind = "absent-root"
			case i == len(path)-1:
				out.kind = "absent-leaf"
			default:
				out.kind = "absent-mid"
			}
			return nil, nil, out
		}
		out.reached = i + 1
		if strings.Contains(k, ".") {
			out.dotted = true
		}
		if cur.rk != nil && cur.rk[idx] != "" {
			out.escaped = true
		}
		way = append(way, cur)
		if i == len(path)-1 {
			out.wide = len(cur.keys) > 16
		}
		cur = cur.vals[idx]
	}
	switch cur.kind {
	case kObj:
		out.kind = "hit-object"
	case kArr:
		out.kind = "hit-array"
	default:
		out.kind = "hit-scalar"
	}
	return cur, way, out
}

func isDecimal(s string) bool {
	if s == "" {
		return false
	}
	for i := 0; i < len(s); i++ {
		if s[i] < '0' || s[i] > '9' {
			return false
		}
	}
	return true
}

// refRemove returns a copy of root without the addressed values.
func refRemove(root *node, paths [][]string) (*node, []pathOutcome) {
	gone := map[*node]bool{}
	outs := make([]pathOutcome, 0, len(paths))
	for _, p := range paths {
		t, _, o := resolve(root, p)
		if t != nil {
			gone[t] = true
		}
		outs = append(outs, o)
	}
	var cp func(n *node) *node
	cp = func(n *node) *node {
		switch n.kind {
		case kScalar:
			return n
		case kArr:
			r := &node{kind: kArr}
			for _, v := range n.vals {
				r.vals = append(r.vals, cp(v)) // array elements are never addressed
			}
			return r
		}
		r := &node{kind: kObj}
		for i, v := range n.vals {
			if gone[v] {
				continue
			}
			r.keys = append(r.keys, n.keys[i])
			r.vals = append(r.vals, cp(v))
		}
		return r
	}
	return cp(root), outs
}

// refKeep returns the projection of root on the addressed values.
func refKeep(root *node, paths [][]string) (*node, []pathOutcome) {
	kept := map[*node]bool{}
	onWay := map[*node]bool{root: true}
	outs := make([]pathOutcome, 0, len(paths))
	for _, p := range paths {
		t, way, o := resolve(root, p)
		if t != nil {
			kept[t] = true
			for _, w := range way {
				onWay[w] = true
			}
		}
		outs = append(outs, o)
	}
	var proj func(n *node) *node
	proj = func(n *node) *node {
		r := &node{kind: kObj}
		for i, v := range n.vals {
			switch {
			case kept[v]:
				r.keys = append(r.keys, n.keys[i])
				r.vals = append(r.vals, v) // whole value, untouched
			case onWay[v]:
				r.keys = append(r.keys, n.keys[i])
				r.vals = append(r.vals, proj(v))
			}
		}
		return r
	}
	return proj(root), outs
}

// refNormalise is the documented effect of cfg.ParseNestedFields: drop
// duplicates and every path that has another listed path as a proper prefix.
func refNormalise(paths [][]string) [][]string {
	var out [][]string
	for i, p := range paths {
		drop := false
		for j, q := range paths {
			if i == j {
				continue
			}
			if len(q) < len(p) && pathHasPrefix(p, q) {
				drop = true
				break
			}
			if len(q) == len(p) && j < i && pathHasPrefix(p, q) {
				drop = true // duplicate, keep the first
				break
			}
		}
		if !drop {
			out = append(out, p)
		}
	}
	return out
}

func pathHasPrefix(p, prefix []string) bool {
	if len(prefix) > len(p) {
		return false
	}
	for i := range prefix {
		if p[i] != prefix[i] {
			return false
		}
	}
	return true
}

// renderSelector is the documented escaping: dots inside a name are written
// `\.`, names are joined with '.'.
func renderSelector(path []string) string {
	parts := make([]string, len(path))
	for i, k := range path {
		parts[i] = strings.ReplaceAll(k, ".", `\.`)
	}
	return strings.Join(parts, ".")
}

// expressible reports whether a key can be written in a selector with the
// documented escaping: not empty, no backslash right before a dot or at the
// end (it would read as an escape of the following separator).
func expressible(k string) bool {
	if k == "" || strings.HasSuffix(k, `\`) || strings.Contains(k, `\.`) {
		return false
	}
	return true
}
