package main

// History clause: the event that reaches keep_fields / remove_fields is NOT
// freshly decoded. Earlier real actions of the same pipeline and/or a
// harness-side mutator action have added, deleted, renamed and re-typed fields
// (top level and nested) before, so the insane-json tree carries state that a
// fresh decode never has (cached node indexes, dirty counters, field maps of
// wide objects, restored object ends, nodes moved between objects).
//
//	[history actions ...] -> c18_record -> plugin under test -> output hook
//
// c18_record encodes the event right before the plugin under test; that JSON
// is the reference input: the output must equal the reference selection
// (ref.go) applied to it - the same oracle (judge) as everywhere else.

import (
	"fmt"
	"math/rand"
	"sort"
	"strconv"
	"strings"
	"sync"

	"github.com/ozontech/file.d/fd"
	"github.com/ozontech/file.d/pipeline"
	_ "github.com/ozontech/file.d/plugin/action/add_host"
	_ "github.com/ozontech/file.d/plugin/action/flatten"
	_ "github.com/ozontech/file.d/plugin/action/json_decode"
	_ "github.com/ozontech/file.d/plugin/action/json_encode"
	_ "github.com/ozontech/file.d/plugin/action/modify"
	_ "github.com/ozontech/file.d/plugin/action/move"
	_ "github.com/ozontech/file.d/plugin/action/rename"
	_ "github.com/ozontech/file.d/plugin/action/set_time"
	insaneJSON "github.com/ozontech/insane-json"
)

// ---------------------------------------------------------------- harness-side actions

// mutOp is one direct mutation of the event tree through the public
// insane-json API. Every op digs its target freshly (the way the real action
// plugins do), so the harness itself never relies on a stale node.
type mutOp struct {
	Op   string   `json:"op"`             // del touch mut add rename addelem
	Path []string `json:"path"`           // del/touch/mut: the node; add/rename/addelem: the container
	Name string   `json:"name,omitempty"` // add/rename: field name
	New  string   `json:"new,omitempty"`  // rename: new field name
	Kind string   `json:"kind,omitempty"` // int float str esc bool null obj arr json
	Val  string   `json:"val,omitempty"`
}

type histHooks struct {
	scripts map[int][][]mutOp // slot -> per event (offset) script
	mu      sync.Mutex
	rec     map[int64]string // offset -> JSON of the event right before the plugin under test
}

var histHookReg sync.Map // pipeline name -> *histHooks

type recordPlugin struct{ hh *histHooks }
type recordConfig struct{}

func (p *recordPlugin) Start(_ pipeline.AnyConfig, params *pipeline.ActionPluginParams) {
	if v, ok := histHookReg.Load(params.PipelineName); ok {
		p.hh = v.(*histHooks)
	}
}
func (p *recordPlugin) Stop() {}
func (p *recordPlugin) Do(e *pipeline.Event) pipeline.ActionResult {
	if p.hh != nil {
		s := strings.Clone(safeEncode(e.Root)) // read-only walk over the tree
		p.hh.mu.Lock()
		p.hh.rec[e.Offset] = s
		p.hh.mu.Unlock()
	}
	return pipeline.ActionPass
}

type mutatePlugin struct {
	hh   *histHooks
	slot int
}
type mutateConfig struct {
	Slot int `json:"slot"`
}

func (p *mutatePlugin) Start(c pipeline.AnyConfig, params *pipeline.ActionPluginParams) {
	p.slot = c.(*mutateConfig).Slot
	if v, ok := histHookReg.Load(params.PipelineName); ok {
		p.hh = v.(*histHooks)
	}
}
func (p *mutatePlugin) Stop() {}
func (p *mutatePlugin) Do(e *pipeline.Event) pipeline.ActionResult {
	if p.hh == nil {
		return pipeline.ActionPass
	}
	per := p.hh.scripts[p.slot]
	if e.Offset < 0 || int(e.Offset) >= len(per) {
		return pipeline.ActionPass
	}
	for i := range per[e.Offset] {
		applyMut(e.Root, &per[e.Offset][i])
	}
	return pipeline.ActionPass
}

func init() {
	fd.DefaultPluginRegistry.RegisterAction(&pipeline.PluginStaticInfo{Type: "c18_record", Factory: func() (pipeline.AnyPlugin, pipeline.AnyConfig) {
		return &recordPlugin{}, &recordConfig{}
	}})
	fd.DefaultPluginRegistry.RegisterAction(&pipeline.PluginStaticInfo{Type: "c18_mutate", Factory: func() (pipeline.AnyPlugin, pipeline.AnyConfig) {
		return &mutatePlugin{}, &mutateConfig{}
	}})
}

func setKind(root *insaneJSON.Root, n *insaneJSON.Node, kind, val string) {
	if n == nil {
		return
	}
	switch kind {
	case "int":
		v, _ := strconv.Atoi(val)
		n.MutateToInt(v)
	case "float":
		v, _ := strconv.ParseFloat(val, 64)
		n.MutateToFloat(v)
	case "str":
		n.MutateToString(val)
	case "esc":
		// val is a complete JSON string token. insane-json unescapes such a node IN PLACE when somebody
		// reads it, so it must own writable memory (a Go string literal lives in read-only data).
		n.MutateToEscapedString(string(append([]byte(nil), val...)))
	case "bool":
		n.MutateToBool(val == "true")
	case "null":
		n.MutateToNull()
	case "obj":
		n.MutateToObject()
	case "arr":
		n.MutateToArray()
	case "json":
		n.MutateToJSON(root, val)
	}
}

func applyMut(root *insaneJSON.Root, op *mutOp) {
	switch op.Op {
	case "del":
		root.Dig(op.Path...).Suicide()
	case "touch":
		if n := root.Dig(op.Path...); n != nil && !n.IsObject() && !n.IsArray() {
			_ = n.AsString() // what any action reading the field does
		}
	case "mut":
		if len(op.Path) > 0 {
			setKind(root, root.Dig(op.Path...), op.Kind, op.Val)
		}
	case "add":
		if c := root.Dig(op.Path...); c.IsObject() {
			setKind(root, c.AddFieldNoAlloc(root, op.Name), op.Kind, op.Val)
		}
	case "rename":
		if c := root.Dig(op.Path...); c.IsObject() && c.Dig(op.New) == nil {
			c.DigField(op.Name).MutateToField(op.New)
		}
	case "addelem":
		if c := root.Dig(op.Path...); c.IsArray() {
			setKind(root, c.AddElementNoAlloc(root), op.Kind, op.Val)
		}
	}
}

// ---------------------------------------------------------------- model of the mutations (only used to pick live targets)

func modelAt(root *node, path []string) *node {
	cur := root
	for _, k := range path {
		switch cur.kind {
		case kObj:
			i := cur.indexOf(k)
			if i < 0 {
				return nil
			}
			cur = cur.vals[i]
		case kArr:
			i, err := strconv.Atoi(k)
			if err != nil || i < 0 || i >= len(cur.vals) {
				return nil
			}
			cur = cur.vals[i]
		default:
			return nil
		}
	}
	return cur
}

func kindNode(kind, val string) *node {
	switch kind {
	case "int", "float":
		return scalar(val)
	case "str":
		return scalar(quoteJSON(val))
	case "esc":
		return scalar(val)
	case "bool":
		if val == "true" {
			return scalar("true")
		}
		return scalar("false")
	case "obj":
		return &node{kind: kObj}
	case "arr":
		return &node{kind: kArr}
	case "json":
		if n, err := parseJSON(val); err == nil {
			return n
		}
	}
	return scalar("null")
}

func modelApply(root *node, op *mutOp) {
	switch op.Op {
	case "del":
		if len(op.Path) == 0 {
			return
		}
		c := modelAt(root, op.Path[:len(op.Path)-1])
		if c == nil {
			return
		}
		last := op.Path[len(op.Path)-1]
		switch c.kind {
		case kObj:
			if i := c.indexOf(last); i >= 0 {
				c.keys = append(c.keys[:i:i], c.keys[i+1:]...)
				c.vals = append(c.vals[:i:i], c.vals[i+1:]...)
			}
		case kArr:
			if i, err := strconv.Atoi(last); err == nil && i >= 0 && i < len(c.vals) {
				c.vals = append(c.vals[:i:i], c.vals[i+1:]...)
			}
		}
	case "mut":
		if n := modelAt(root, op.Path); n != nil && len(op.Path) > 0 {
			*n = *kindNode(op.Kind, op.Val)
		}
	case "add":
		if c := modelAt(root, op.Path); c != nil && c.kind == kObj {
			if i := c.indexOf(op.Name); i >= 0 {
				c.vals[i] = kindNode(op.Kind, op.Val)
			} else {
				c.keys = append(c.keys, op.Name)
				c.vals = append(c.vals, kindNode(op.Kind, op.Val))
			}
		}
	case "rename":
		if c := modelAt(root, op.Path); c != nil && c.kind == kObj && c.indexOf(op.New) < 0 {
			if i := c.indexOf(op.Name); i >= 0 {
				c.keys[i] = op.New
			}
		}
	case "addelem":
		if c := modelAt(root, op.Path); c != nil && c.kind == kArr {
			c.vals = append(c.vals, kindNode(op.Kind, op.Val))
		}
	}
}

func cloneTree(n *node) *node {
	c := &node{kind: n.kind, raw: n.raw}
	if n.keys != nil {
		c.keys = append([]string(nil), n.keys...)
	}
	for _, v := range n.vals {
		c.vals = append(c.vals, cloneTree(v))
	}
	return c
}

type located struct {
	path []string
	n    *node
}

// containers lists the objects and arrays of the model with their Dig paths
// (array positions as decimal components), root first.
func containers(root *node) (objs, arrs []located) {
	var walk func(n *node, path []string, depth int)
	walk = func(n *node, path []string, depth int) {
		switch n.kind {
		case kObj:
			objs = append(objs, located{clonePath(path), n})
			if depth < 5 {
				for i, v := range n.vals {
					walk(v, append(path, n.keys[i]), depth+1)
				}
			}
		case kArr:
			arrs = append(arrs, located{clonePath(path), n})
			if depth < 5 {
				for i, v := range n.vals {
					walk(v, append(path, strconv.Itoa(i)), depth+1)
				}
			}
		}
	}
	walk(root, nil, 0)
	return
}

func hasDupKeys(n *node) bool {
	if n.kind == kObj {
		seen := make(map[string]struct{}, len(n.keys))
		for _, k := range n.keys {
			if _, d := seen[k]; d {
				return true
			}
			seen[k] = struct{}{}
		}
	}
	for _, v := range n.vals {
		if hasDupKeys(v) {
			return true
		}
	}
	return false
}

// minimalRK clears the raw key tokens that are the minimal spelling, so that
// pathOutcome.escaped means the same on parsed trees as on generated ones.
func minimalRK(n *node) {
	if n.kind == kObj {
		for i, k := range n.keys {
			if i < len(n.rk) && n.rk[i] == quoteJSON(k) {
				n.rk[i] = ""
			}
		}
	}
	for _, v := range n.vals {
		minimalRK(v)
	}
}

// ---------------------------------------------------------------- generators

type histConfig struct {
	*config
	clause   string           // "history" (random) or "sweep"
	label    string           // sweep: what this pipeline sweeps
	pre      []map[string]any // action chain in front of the recorder
	preKinds []string
	scripts  map[int][][]mutOp
	only     string   // sweep: the one plugin under test
	evLabel  []string // sweep: parameters of each event
	evKJ     [][2]int // sweep: (k, j) of each event
}

func (g *gen) mutKind(vocab []string) (kind, val string) {
	switch x := g.r.Intn(100); {
	case x < 18:
		return "int", strconv.Itoa(g.r.Intn(2000) - 1000)
	case x < 24:
		return "float", []string{"1.5", "-0.25", "1000000", "0.001"}[g.r.Intn(4)]
	case x < 42:
		return "str", []string{"v", "", "with \"quote\"", "a.b", "日本語", "tab\t", "back\\slash", strings.Repeat("y", 200)}[g.r.Intn(8)]
	case x < 48:
		return "esc", []string{`"ea"`, `"sl\/ash"`, `"q\"t"`, `""`}[g.r.Intn(4)]
	case x < 56:
		return "bool", []string{"true", "false"}[g.r.Intn(2)]
	case x < 62:
		return "null", ""
	case x < 74:
		return "obj", ""
	case x < 80:
		return "arr", ""
	default:
		var b strings.Builder
		o := g.object(vocab, 2, 3+g.r.Intn(2), false)
		if g.r.Intn(3) == 0 {
			o = g.array(vocab, 2, 4)
		}
		o.render(&b, nil)
		return "json", b.String()
	}
}

func (g *gen) fieldName(vocab []string, paths [][]string, fresh *int) string {
	switch x := g.r.Intn(100); {
	case x < 55:
		return g.pick(vocab)
	case x < 80 && len(paths) > 0:
		p := paths[g.r.Intn(len(paths))]
		return p[g.r.Intn(len(p))]
	}
	*fresh++
	return fmt.Sprintf("n%d", *fresh)
}

// script builds the direct mutations for one event against a model of it.
//
// noScalar: Dig paths that a json_decode step reads. A value whose text is a
// JSON *scalar* there makes json_decode run insane-json's additional decode on
// a scalar, which can leave the root's node pool exactly full; the next action
// that adds a field then panics inside insane-json (FINDINGS.md, side finding
// S1 - not a matter of this property). The history avoids putting scalars there.
func (g *gen) script(model *node, vocab []string, paths [][]string, noScalar [][]string) []mutOp {
	n := 1 + g.r.Intn(8)
	if g.r.Intn(10) == 0 {
		n = 10 + g.r.Intn(16)
	}
	var ops []mutOp
	fresh := 0
	emit := func(op mutOp) {
		if op.Op == "add" || op.Op == "mut" {
			target := op.Path
			if op.Op == "add" {
				target = append(clonePath(op.Path), op.Name)
			}
			for _, ns := range noScalar {
				if len(ns) == len(target) && pathHasPrefix(target, ns) && op.Kind != "obj" && op.Kind != "arr" && op.Kind != "json" {
					op.Kind, op.Val = "obj", ""
				}
			}
		}
		modelApply(model, &op)
		ops = append(ops, op)
	}
	for len(ops) < n {
		objs, arrs := containers(model)
		var nonEmpty, nested []located
		for _, o := range objs {
			if len(o.n.keys) > 0 {
				nonEmpty = append(nonEmpty, o)
				if len(o.path) > 0 {
					nested = append(nested, o)
				}
			}
		}
		pickObj := func(from []located) located {
			if len(from) > 1 && g.r.Intn(3) != 0 {
				return from[1+g.r.Intn(len(from)-1)] // prefer nested ones
			}
			return from[g.r.Intn(len(from))]
		}
		switch x := g.r.Intn(100); {
		case x < 20 && len(nested) > 0:
			// burst: k fields inside a nested object, then some fields of its parent
			o := nested[g.r.Intn(len(nested))]
			k := 1 + g.r.Intn(4)
			names := append([]string(nil), o.n.keys...) // emit changes the model under us
			for _, i := range g.r.Perm(len(names)) {
				if k == 0 {
					break
				}
				emit(mutOp{Op: "del", Path: append(clonePath(o.path), names[i])})
				k--
			}
			if par := modelAt(model, o.path[:len(o.path)-1]); par != nil && par.kind == kObj {
				j := g.r.Intn(4)
				self := o.path[len(o.path)-1]
				names = append([]string(nil), par.keys...)
				for _, i := range g.r.Perm(len(names)) {
					if j == 0 {
						break
					}
					if names[i] != self {
						emit(mutOp{Op: "del", Path: append(clonePath(o.path[:len(o.path)-1]), names[i])})
						j--
					}
				}
			}
		case x < 42 && len(nonEmpty) > 0:
			o := pickObj(nonEmpty)
			emit(mutOp{Op: "del", Path: append(clonePath(o.path), o.n.keys[g.r.Intn(len(o.n.keys))])})
		case x < 68:
			o := pickObj(objs)
			kind, val := g.mutKind(vocab)
			emit(mutOp{Op: "add", Path: o.path, Name: g.fieldName(vocab, paths, &fresh), Kind: kind, Val: val})
		case x < 78 && len(nonEmpty) > 0:
			o := pickObj(nonEmpty)
			kind, val := g.mutKind(vocab)
			emit(mutOp{Op: "mut", Path: append(clonePath(o.path), o.n.keys[g.r.Intn(len(o.n.keys))]), Kind: kind, Val: val})
		case x < 86 && len(nonEmpty) > 0:
			o := pickObj(nonEmpty)
			emit(mutOp{Op: "touch", Path: append(clonePath(o.path), o.n.keys[g.r.Intn(len(o.n.keys))])})
		case x < 94 && len(nonEmpty) > 0:
			o := pickObj(nonEmpty)
			nn := g.fieldName(vocab, paths, &fresh)
			if o.n.indexOf(nn) < 0 {
				emit(mutOp{Op: "rename", Path: o.path, Name: o.n.keys[g.r.Intn(len(o.n.keys))], New: nn})
			}
		case len(arrs) > 0:
			a := arrs[g.r.Intn(len(arrs))]
			if len(a.n.vals) > 0 && g.r.Intn(2) == 0 {
				emit(mutOp{Op: "del", Path: append(clonePath(a.path), strconv.Itoa(g.r.Intn(len(a.n.vals))))})
			} else {
				kind, val := g.mutKind(vocab)
				emit(mutOp{Op: "addelem", Path: a.path, Kind: kind, Val: val})
			}
		default:
			o := pickObj(objs)
			kind, val := g.mutKind(vocab)
			emit(mutOp{Op: "add", Path: o.path, Name: g.fieldName(vocab, paths, &fresh), Kind: kind, Val: val})
		}
	}
	return ops
}

func (g *gen) somePaths(pool [][]string, lo, hi int) [][]string {
	n := lo + g.r.Intn(hi-lo+1)
	var out [][]string
	for _, i := range g.r.Perm(len(pool)) {
		if len(out) == n {
			break
		}
		out = append(out, pool[i])
	}
	return out
}

func renderAll(paths [][]string) []string {
	out := make([]string, len(paths))
	for i, p := range paths {
		out[i] = renderSelector(p)
	}
	return out
}

// genHistConfig: a configuration of the sequential kind (vocabulary, selector
// set, events with the paths planted) plus a random history of 1-4 steps.
func genHistConfig(seed int64, idx, nEvents int, thorough bool) *histConfig {
	g := &gen{r: rand.New(rand.NewSource(seed))}
	c := &config{Idx: idx}
	c.vocab = g.vocab()
	c.paths, c.overlap, c.duplicate = g.pathSet(c.vocab, false)
	for _, p := range c.paths {
		c.Selectors = append(c.Selectors, renderSelector(p))
	}
	hc := &histConfig{config: c, clause: "history", scripts: map[int][][]mutOp{}}

	// paths the history works on: relatives of the configured paths and random ones
	var pool [][]string
	for _, p := range c.paths {
		switch g.r.Intn(5) {
		case 0, 1: // inside an addressed value
			q := clonePath(p)
			for k := 1 + g.r.Intn(2); k > 0 && len(q) < 6; k-- {
				q = append(q, g.pathKey(c.vocab))
			}
			pool = append(pool, q)
		case 2:
			pool = append(pool, clonePath(p))
		case 3: // sibling
			q := clonePath(p)
			q[len(q)-1] = g.pathKey(c.vocab)
			pool = append(pool, q)
		case 4: // ancestor, or something inside an ancestor
			q := clonePath(p[:1+g.r.Intn(len(p))])
			if g.r.Intn(2) == 0 {
				q[len(q)-1] = g.pathKey(c.vocab)
			}
			pool = append(pool, q)
		}
	}
	for n := 2 + g.r.Intn(3); n > 0; n-- {
		p := g.randomPath(c.vocab)
		if len(p) == 1 || g.r.Intn(2) == 0 {
			p = append(p, g.pathKey(c.vocab)) // nested more often than not
		}
		pool = append(pool, p)
	}
	// inside-object bursts: several fields of one nested object (k deletions inside X)
	base := pool[g.r.Intn(len(pool))]
	for n := 1 + g.r.Intn(4); n > 0; n-- {
		q := clonePath(base)
		q[len(q)-1] = g.pathKey(c.vocab)
		if len(q) == 1 {
			q = append([]string{g.pathKey(c.vocab)}, q...)
		}
		pool = append(pool, q)
	}

	var plainVocab []string
	for _, k := range c.vocab {
		if expressible(k) {
			plainVocab = append(plainVocab, k)
		}
	}
	var jsonFields [][]string // json_decode sources: events get a JSON string planted there
	steps := 1 + g.r.Intn(4)
	slot := 0
	for s := 0; s < steps; s++ {
		switch x := g.r.Intn(100); {
		case x < 24:
			hc.pre = append(hc.pre, map[string]any{"type": "remove_fields", "fields": renderAll(g.somePaths(pool, 1, 5))})
			hc.preKinds = append(hc.preKinds, "remove_fields")
		case x < 36:
			// keep most of the top level, drop 1-3 names entirely, keep only parts of 1-2 others
			var fields []string
			drop := map[string]bool{}
			for n := 1 + g.r.Intn(3); n > 0; n-- {
				drop[g.pick(plainVocab)] = true
			}
			for _, k := range plainVocab {
				if !drop[k] {
					fields = append(fields, renderSelector([]string{k}))
				}
			}
			for i := 0; i < 8; i++ {
				fields = append(fields, fmt.Sprintf("f%d", i))
			}
			for k := range drop {
				if g.r.Intn(2) == 0 {
					for n := 1 + g.r.Intn(2); n > 0; n-- {
						fields = append(fields, renderSelector([]string{k, g.pathKey(c.vocab)}))
					}
				}
			}
			for _, p := range g.somePaths(pool, 0, 2) {
				fields = append(fields, renderSelector(p))
			}
			sort.Strings(fields) // map iteration above
			hc.pre = append(hc.pre, map[string]any{"type": "keep_fields", "fields": fields})
			hc.preKinds = append(hc.preKinds, "keep_fields")
		case x < 64:
			hc.pre = append(hc.pre, map[string]any{"type": "c18_mutate", "slot": slot})
			hc.preKinds = append(hc.preKinds, "mutate")
			hc.scripts[slot] = nil // filled per event below
			slot++
		case x < 73:
			m := map[string]any{"type": "rename"}
			for _, p := range g.somePaths(pool, 1, 3) {
				nn := g.pick(plainVocab)
				if g.r.Intn(3) == 0 {
					nn = fmt.Sprintf("rn%d", g.r.Intn(4))
				}
				m[renderSelector(p)] = nn
			}
			if g.r.Intn(2) == 0 {
				m["override"] = "true"
			}
			hc.pre = append(hc.pre, m)
			hc.preKinds = append(hc.preKinds, "rename")
		case x < 79:
			p := g.randomPath(c.vocab)
			if len(p) > 3 {
				p = p[:3]
			}
			val := "c18"
			if g.r.Intn(2) == 0 {
				val = "v-${" + g.pick(plainKeys) + "}"
			}
			hc.pre = append(hc.pre, map[string]any{"type": "modify", renderSelector(p): val})
			hc.preKinds = append(hc.preKinds, "modify")
		case x < 82:
			hc.pre = append(hc.pre, map[string]any{"type": "set_time", "field": g.pick(c.vocab), "format": []string{"unixtime", "rfc3339nano"}[g.r.Intn(2)], "override": g.r.Intn(2) == 0})
			hc.preKinds = append(hc.preKinds, "set_time")
		case x < 84:
			hc.pre = append(hc.pre, map[string]any{"type": "add_host", "field": g.pick(c.vocab)})
			hc.preKinds = append(hc.preKinds, "add_host")
		case x < 89:
			p := []string{g.pathKey(c.vocab)}
			if g.r.Intn(3) == 0 {
				p = append(p, g.pathKey(c.vocab))
			}
			jsonFields = append(jsonFields, p)
			hc.pre = append(hc.pre, map[string]any{"type": "json_decode", "field": renderSelector(p), "prefix": []string{"", "", "p_"}[g.r.Intn(3)]})
			hc.preKinds = append(hc.preKinds, "json_decode")
		case x < 94:
			p := pool[g.r.Intn(len(pool))]
			if len(p) > 1 && g.r.Intn(2) == 0 {
				p = p[:len(p)-1]
			}
			hc.pre = append(hc.pre, map[string]any{"type": "flatten", "field": renderSelector(p), "prefix": []string{"", "fl_"}[g.r.Intn(2)]})
			hc.preKinds = append(hc.preKinds, "flatten")
		case x < 98:
			// target is a fresh top-level name: never inside a moved value (no cycles)
			hc.pre = append(hc.pre, map[string]any{"type": "move", "mode": "allow", "fields": renderAll(g.somePaths(pool, 1, 3)), "target": fmt.Sprintf("mv%d", g.r.Intn(3))})
			hc.preKinds = append(hc.preKinds, "move")
		default:
			hc.pre = append(hc.pre, map[string]any{"type": "json_encode", "field": renderSelector(pool[g.r.Intn(len(pool))])})
			hc.preKinds = append(hc.preKinds, "json_encode")
		}
	}

	// events: the configured paths AND the history's paths are planted
	plantCfg := &config{vocab: c.vocab, paths: append(append([][]string{}, c.paths...), pool...)}
	for i := 0; i < nEvents; i++ {
		ev := g.event(plantCfg, i)
		if len(jsonFields) > 0 {
			// json_decode sources: an object as JSON text (70 %), or whatever is there unless it is a
			// scalar - a scalar becomes text that is no JSON at all (see noScalar above)
			all := g.r.Intn(10) < 7
			changed := false
			for _, jf := range jsonFields {
				cur := modelAt(ev.tree, jf)
				switch {
				case all:
					var b strings.Builder
					g.object(c.vocab, 1, 3, false).render(&b, nil)
					g.plantValue(ev.tree, jf, scalar(quoteJSON(b.String())))
					changed = true
				case cur != nil && cur.kind == kScalar:
					g.plantValue(ev.tree, jf, scalar(`"not json"`))
					changed = true
				}
			}
			if changed {
				var b strings.Builder
				ev.tree.render(&b, nil)
				ev.bytes, ev.wsOn = b.String(), false
			}
		}
		c.events = append(c.events, ev)
		for s := 0; s < slot; s++ {
			hc.scripts[s] = append(hc.scripts[s], g.script(cloneTree(ev.tree), c.vocab, plantCfg.paths, jsonFields))
		}
	}
	return hc
}

// plantValue puts v at path, creating objects on the way (replacing whatever is there).
func (g *gen) plantValue(root *node, path []string, v *node) {
	cur := root
	for i, k := range path {
		idx := cur.indexOf(k)
		if i == len(path)-1 {
			if idx >= 0 {
				cur.vals[idx] = v
			} else {
				g.insert(cur, k, v)
			}
			if cur.rk != nil {
				cur.rk = nil
			}
			return
		}
		if idx >= 0 && cur.vals[idx].kind == kObj {
			cur = cur.vals[idx]
			continue
		}
		next := &node{kind: kObj}
		if idx >= 0 {
			cur.vals[idx] = next
		} else {
			g.insert(cur, k, next)
		}
		cur.rk = nil
		cur = next
	}
}

// ---------------------------------------------------------------- systematic sweep

// The sweep fixes the shape and walks the counts: inside a parent object P (the
// root, root.w1 or root.w1.w2) sits a nested object X="meta". History deletes k
// fields (t0..) inside X and p fields (z0, z1) of P itself; the plugin under
// test must then drop X after dropping j unwanted siblings (u0..) that precede
// it; kept fields (keepA..C) and further unwanted ones (v0) sit before/after X
// in rotating arrangements, X keeps 0-2 own fields (r0, r1), P is sometimes
// wider than insane-json's 16-field map threshold (g0..g16, all kept).
var (
	sweepHist  = []string{"remove_fields", "keep_fields", "mutate", "remove_fields_twice", "rename"}
	sweepUnder = []string{"keep:drop-X", "keep:part-of-X", "remove:X-last", "remove:X-first"}
)

const sweepConfigs = 3 * 5 * 4

func sweepPrefix(d int) []string { return [][]string{nil, {"w1"}, {"w1", "w2"}}[d] }

func genSweepConfig(seed int64, idx int, thorough bool) *histConfig {
	d, h, t := idx%3, (idx/3)%5, (idx/15)%4
	r := rand.New(rand.NewSource(seed))
	pre := sweepPrefix(d)
	at := func(names ...string) string { return renderSelector(append(clonePath(pre), names...)) }
	pa := func(names ...string) []string { return append(clonePath(pre), names...) }

	c := &config{Idx: idx}
	hc := &histConfig{config: c, clause: "sweep", scripts: map[int][][]mutOp{},
		label: fmt.Sprintf("P=root.%s history=%s under-test=%s", strings.Join(pre, "."), sweepHist[h], sweepUnder[t])}

	// plugin under test
	keeps := [][]string{pa("keepA"), pa("keepB"), pa("keepC")}
	for i := 0; i <= 16; i++ {
		keeps = append(keeps, pa(fmt.Sprintf("g%d", i)))
	}
	switch t {
	case 0:
		hc.only, c.paths = "keep_fields", keeps
	case 1:
		hc.only, c.paths = "keep_fields", append(keeps, pa("meta", "r0"))
	case 2:
		hc.only = "remove_fields"
		for i := 0; i < 5; i++ {
			c.paths = append(c.paths, pa(fmt.Sprintf("u%d", i)))
		}
		c.paths = append(c.paths, pa("v0"), pa("meta"))
	case 3:
		hc.only = "remove_fields"
		c.paths = append(c.paths, pa("meta"), pa("v0"))
		for i := 4; i >= 0; i-- {
			c.paths = append(c.paths, pa(fmt.Sprintf("u%d", i)))
		}
	}
	c.Selectors = renderAll(c.paths)

	// history
	switch sweepHist[h] {
	case "remove_fields":
		hc.pre = []map[string]any{{"type": "remove_fields", "fields": []string{at("meta", "t0"), at("meta", "t1"), at("meta", "t2"), at("meta", "t3"), at("z0"), at("z1")}}}
	case "remove_fields_twice":
		hc.pre = []map[string]any{
			{"type": "remove_fields", "fields": []string{at("meta", "t0"), at("meta", "t2"), at("z1")}},
			{"type": "remove_fields", "fields": []string{at("z0"), at("meta", "t3"), at("meta", "t1")}}}
	case "keep_fields":
		f := []string{"other", "tail", "w1.in", "w1.in2", at("meta", "r0"), at("meta", "r1"), at("v0")}
		if d == 0 {
			f = f[4:]
		} else if d == 1 {
			f = append(f[:2:2], f[4:]...)
		}
		for i := 0; i < 5; i++ {
			f = append(f, at(fmt.Sprintf("u%d", i)))
		}
		f = append(f, renderAll(keeps)...)
		hc.pre = []map[string]any{{"type": "keep_fields", "fields": f}}
	case "rename":
		hc.pre = []map[string]any{{"type": "rename", "override": "true",
			at("meta", "t0"): "mv0", at("meta", "t1"): "mv1", at("meta", "t2"): "mv2", at("meta", "t3"): "mv3", at("z0"): "mvz0", at("z1"): "mvz1"}}
	case "mutate":
		hc.pre = []map[string]any{{"type": "c18_mutate", "slot": 0}}
	}
	hc.preKinds = []string{"sweep:" + sweepHist[h]}

	sc := func(i int) *node { return scalar([]string{`1`, `"s"`, `true`, `null`, `-2.5`, `"日本"`}[i%6]) }
	n := 0
	for k := 0; k <= 4; k++ {
		for j := 0; j <= 4; j++ {
			for kb := 0; kb <= 2; kb++ {
				for after := 0; after < 4; after++ {
					for p := 0; p <= 2; p++ {
						survs := []int{n % 3}
						wides := []bool{n%4 == 0}
						if thorough {
							survs, wides = []int{0, 1, 2}, []bool{false, true}
						}
						for _, surv := range survs {
							for _, wide := range wides {
								variant := n + r.Intn(6)
								n++
								// X
								x := &node{kind: kObj}
								var ts, rs []string
								for i := 0; i < k; i++ {
									ts = append(ts, fmt.Sprintf("t%d", i))
								}
								for i := 0; i < surv; i++ {
									rs = append(rs, fmt.Sprintf("r%d", i))
								}
								var xk []string
								switch variant % 3 {
								case 0:
									xk = append(append(xk, ts...), rs...)
								case 1:
									xk = append(append(xk, rs...), ts...)
								default:
									for i := 0; i < len(ts) || i < len(rs); i++ {
										if i < len(rs) {
											xk = append(xk, rs[i])
										}
										if i < len(ts) {
											xk = append(xk, ts[i])
										}
									}
								}
								for i, kx := range xk {
									x.keys = append(x.keys, kx)
									v := sc(variant + i)
									if (variant+i)%5 == 0 {
										v = &node{kind: kObj, keys: []string{"q"}, vals: []*node{sc(i)}}
									}
									x.vals = append(x.vals, v)
								}
								// P
								P := &node{kind: kObj}
								add := func(kx string, v *node) { P.keys = append(P.keys, kx); P.vals = append(P.vals, v) }
								zfront := 0
								switch (variant / 3) % 3 {
								case 0:
									zfront = p
								case 1:
									zfront = 0
								default:
									zfront = (p + 1) / 2
								}
								for i := 0; i < zfront; i++ {
									add(fmt.Sprintf("z%d", i), sc(i))
								}
								var us, ks []string
								for i := 0; i < j; i++ {
									us = append(us, fmt.Sprintf("u%d", i))
								}
								for i := 0; i < kb; i++ {
									ks = append(ks, []string{"keepA", "keepB"}[i])
								}
								var before []string
								switch (variant / 9) % 3 {
								case 0:
									before = append(append(before, ks...), us...)
								case 1:
									before = append(append(before, us...), ks...)
								default:
									for i := 0; i < len(us) || i < len(ks); i++ {
										if i < len(us) {
											before = append(before, us[i])
										}
										if i < len(ks) {
											before = append(before, ks[i])
										}
									}
								}
								for i, kx := range before {
									v := sc(variant + i)
									if strings.HasPrefix(kx, "u") && (variant+i)%4 == 0 {
										v = &node{kind: kObj, keys: []string{"q", "w"}, vals: []*node{sc(i), sc(i + 1)}}
									}
									add(kx, v)
								}
								if wide && variant%2 == 0 {
									for i := 0; i <= 16; i++ {
										add(fmt.Sprintf("g%d", i), sc(i))
									}
								}
								add("meta", x)
								if after&1 != 0 && (variant/27)%2 == 0 {
									add("keepC", sc(variant))
								}
								if after&2 != 0 {
									add("v0", sc(variant+1))
								}
								if after&1 != 0 && (variant/27)%2 == 1 {
									add("keepC", sc(variant))
								}
								if wide && variant%2 == 1 {
									for i := 0; i <= 16; i++ {
										add(fmt.Sprintf("g%d", i), sc(i))
									}
								}
								for i := zfront; i < p; i++ {
									add(fmt.Sprintf("z%d", i), sc(i))
								}
								// wrap
								root := P
								switch d {
								case 1:
									root = &node{kind: kObj, keys: []string{"other", "w1", "tail"}, vals: []*node{sc(variant), P, scalar(`"x"`)}}
								case 2:
									w1 := &node{kind: kObj, keys: []string{"in", "w2", "in2"}, vals: []*node{scalar(`true`), P, scalar(`2`)}}
									root = &node{kind: kObj, keys: []string{"other", "w1", "tail"}, vals: []*node{sc(variant), w1, scalar(`"x"`)}}
								}
								var b strings.Builder
								root.render(&b, nil)
								c.events = append(c.events, &eventCase{tree: root, bytes: b.String()})
								hc.evLabel = append(hc.evLabel, fmt.Sprintf("k=%d (deleted inside X) j=%d (unwanted siblings before X) p=%d (earlier deletions in P) kept-before=%d after=%d X-survivors=%d wide=%t", k, j, p, kb, after, surv, wide))
								hc.evKJ = append(hc.evKJ, [2]int{k, j})

								if sweepHist[h] == "mutate" {
									var ops []mutOp
									var dels []mutOp
									for _, kx := range ts {
										dels = append(dels, mutOp{Op: "del", Path: pa("meta", kx)})
									}
									var zd []mutOp
									for i := 0; i < p; i++ {
										zd = append(zd, mutOp{Op: "del", Path: pa(fmt.Sprintf("z%d", i))})
									}
									touchX := mutOp{Op: "touch", Path: pa("meta")}
									if (variant/2)%4 == 1 {
										ops = append(ops, touchX)
									}
									switch (variant / 8) % 3 {
									case 0:
										ops = append(append(ops, zd...), dels...)
									case 1:
										ops = append(append(ops, dels...), zd...)
									default:
										for i := 0; i < len(zd) || i < len(dels); i++ {
											if i < len(dels) {
												ops = append(ops, dels[i])
											}
											if i < len(zd) {
												ops = append(ops, zd[i])
											}
										}
									}
									switch (variant / 2) % 4 {
									case 2:
										ops = append(ops, touchX)
									case 3:
										if len(us) > 0 {
											ops = append(ops, mutOp{Op: "touch", Path: pa(us[0])})
										}
									}
									hc.scripts[0] = append(hc.scripts[0], ops)
								}
							}
						}
					}
				}
			}
		}
	}
	return hc
}
