package main

// Child side of the history clause (random histories and the systematic sweep).

import (
	"encoding/json"
	"fmt"
	"sort"
	"strings"
	"time"

	"verifharness/core"
)

const (
	histQuick     = 400 // random-history configurations (x 32 events x 2 plugins)
	histThorough  = 6000
	histSeedBase  = 2 << 20
	sweepSeedBase = 3 << 20
)

func childHist(in childIn, io *core.ChildIO) (any, error) {
	out := &childOut{Counters: map[string]int64{}, Viol: map[string]*witness{}, ViolCount: map[string]int64{}, Incon: map[string]int{}}
	fps := map[string]struct{}{}
	skip := map[string]bool{}
	for _, s := range in.Skip {
		skip[s] = true
	}
	addViol := func(sig string, w *witness) {
		out.ViolCount[sig]++
		if cur, ok := out.Viol[sig]; !ok || smaller(w, cur) {
			out.Viol[sig] = w
		}
	}

	for ci := in.From; ci < in.To; ci++ {
		var hc *histConfig
		if in.Sweep {
			hc = genSweepConfig(subSeed(in.Seed, ci+sweepSeedBase), ci, in.Thorough)
		} else {
			hc = genHistConfig(subSeed(in.Seed, ci+histSeedBase), ci, in.Events, in.Thorough)
		}
		cl := hc.clause
		for ei, ev := range hc.events {
			if !json.Valid([]byte(ev.bytes)) {
				out.HarnessErr = fmt.Sprintf("%s generator produced invalid JSON (config %d event %d): %s", cl, ci, ei, core.Trunc(ev.bytes, 300))
				return out, nil
			}
			back, err := parseJSON(ev.bytes)
			if err != nil || !strictEqual(back, ev.tree) || hasDupKeys(back) {
				out.HarnessErr = fmt.Sprintf("%s render/parse round trip failed or duplicate keys (config %d event %d): %v", cl, ci, ei, err)
				return out, nil
			}
		}
		out.Counters[cl+".config.total"]++
		out.Counters[fmt.Sprintf("%s.config.steps_%d", cl, len(hc.pre))]++
		for _, k := range hc.preKinds {
			out.Counters[cl+".step."+k]++
		}

		for _, plugin := range plugins {
			if (hc.only != "" && hc.only != plugin) || skip[caseKey(ci, plugin)] {
				continue
			}
			io.Log(map[string]any{"config": ci, "plugin": plugin, "clause": cl, "selectors": hc.Selectors, "history": hc.pre})
			acts := make([]map[string]any, 0, len(hc.pre)+2)
			for _, a := range hc.pre {
				cp := make(map[string]any, len(a))
				for k, v := range a {
					cp[k] = v
				}
				acts = append(acts, cp)
			}
			acts = append(acts, map[string]any{"type": "c18_record"}, map[string]any{"type": plugin, "fields": hc.Selectors})
			shape := [][2]int{{2, 1}, {4, 3}, {8, 5}, {64, 60}, {256, 200}}[ci%5]
			capacity, wave := shape[0], shape[1]
			hh := &histHooks{scripts: hc.scripts, rec: map[int64]string{}}
			rr, err := startRealActs(acts, capacity, false, hh)
			if err != nil {
				out.HarnessErr = fmt.Sprintf("%s: action chain rejected (config %d): %v: %v", cl, ci, err, hc.pre)
				return out, nil
			}
			var ferr error
			if in.Sync {
				for ei := range hc.events {
					lg := map[string]any{"config": ci, "plugin": plugin, "clause": cl, "event": ei, "input": hc.events[ei].bytes, "selectors": hc.Selectors, "history": hc.pre}
					for s, per := range hc.scripts {
						lg[fmt.Sprintf("mutations_slot_%d", s)] = per[ei]
					}
					io.Log(lg)
					if ferr = rr.feed(hc.events, ei, ei+1, time.Minute); ferr != nil {
						break
					}
				}
			} else {
				for st := 0; st < len(hc.events) && ferr == nil; st += wave {
					ferr = rr.feed(hc.events, st, min(st+wave, len(hc.events)), 2*time.Minute)
				}
			}
			if ferr != nil {
				out.Incon[cl+": pipeline did not deliver all events ("+plugin+")"]++
				continue
			}
			rr.stop()

			// the twin: the recorded JSON, freshly decoded, through the plugin alone
			var twin *realRun
			recEvents := make([]*eventCase, len(hc.events))
			for ei := range hc.events {
				recEvents[ei] = &eventCase{bytes: hh.rec[int64(ei)]}
				if !json.Valid([]byte(recEvents[ei].bytes)) { // missing, or the bounded-encode marker: keep the twin's numbering intact
					recEvents[ei].bytes = "{}"
				}
			}
			// (every sweep pipeline; every 4th random-history configuration in the quick tier, all in thorough)
			if !(in.Sweep || in.Thorough || ci%4 == 0) {
			} else if tw, err := startReal(plugin, hc.Selectors, 64, false); err == nil {
				var terr error
				for st := 0; st < len(recEvents) && terr == nil; st += 60 {
					terr = tw.feed(recEvents, st, min(st+60, len(recEvents)), 2*time.Minute)
				}
				if terr == nil {
					tw.stop()
					twin = tw
				} else {
					out.Incon[cl+": twin pipeline did not deliver all events ("+plugin+")"]++
				}
			}

			pre := cl + "." + plugin + "."
			for ei, ev := range hc.events {
				got, ok := rr.out(ei)
				rec, ok2 := hh.rec[int64(ei)]
				if !ok || !ok2 {
					out.Incon[cl+": event missing at recorder or output"]++
					continue
				}
				hist := map[string]any{"fed_to_pipeline": ev.bytes, "actions_before": hc.pre}
				for s, per := range hc.scripts {
					hist[fmt.Sprintf("mutations_slot_%d", s)] = per[ei]
				}
				if hc.label != "" {
					hist["sweep"] = hc.label + " | " + hc.evLabel[ei]
				}
				if _, dup := rr.out(-ei - 1); dup {
					addViol("plugin="+plugin+" event-delivered-twice", &witness{Config: ci, Event: ei, Plugin: plugin, Selectors: hc.Selectors, Input: rec, Output: got, History: hist})
				}
				if rec == encodeRunaway {
					out.Counters[pre+"not_judged.history_left_a_corrupt_tree"]++
					continue // the earlier actions broke the tree; nothing can be said about the plugin under test
				}
				recTree, err := parseJSON(rec)
				if err != nil || recTree.kind != kObj {
					out.Counters[pre+"not_judged.event_before_plugin_is_not_a_json_object"]++
					continue // outside the quantifier (and the history's business, not these plugins')
				}
				if hasDupKeys(recTree) {
					out.Counters[pre+"not_judged.event_before_plugin_has_duplicate_keys"]++
					continue // outside the quantifier
				}
				minimalRK(recTree)
				var exp *node
				var outs []pathOutcome
				if plugin == "remove_fields" {
					exp, outs = refRemove(recTree, hc.paths)
				} else {
					exp, outs = refKeep(recTree, hc.paths)
				}
				v := judge(plugin, hc.paths, recTree, exp, got)
				out.Evals++
				out.Counters[pre+"cases"]++
				if !strictEqual(recTree, ev.tree) {
					out.Counters[pre+"input.changed_by_history"]++
				}

				var kinds []string
				hits := 0
				for _, o := range outs {
					out.Counters[pre+"path."+o.kind]++
					kinds = append(kinds, fmt.Sprintf("%d:%d:%s:%t:%t", o.depth, o.reached, o.kind, o.dotted, o.wide))
					if strings.HasPrefix(o.kind, "hit-") {
						hits++
					}
				}
				sort.Strings(kinds)
				kinds = uniq(kinds)
				result := "partial"
				switch {
				case len(exp.keys) == 0 && len(recTree.keys) > 0:
					result = "emptied"
				case strictEqual(exp, recTree):
					result = "unchanged"
				}
				out.Counters[pre+"result."+result]++
				if hc.clause == "sweep" {
					out.Counters[fmt.Sprintf("sweep.%s.k%d_j%d", plugin, hc.evKJ[ei][0], hc.evKJ[ei][1])]++
					fps[hash36("sweep", plugin, hc.label, hc.evLabel[ei])] = struct{}{}
				} else if hits > 0 || (plugin == "keep_fields" && len(recTree.keys) > 0) {
					fps[hash36("hist", plugin, strings.Join(hc.preKinds, ">"), strings.Join(kinds, ","), result, sizeBucket(len(recTree.keys)))] = struct{}{}
				}

				// twin oracle: same JSON, no history => same result (order included)
				twinNote := ""
				if twin != nil {
					if fresh, ok := twin.out(ei); ok {
						out.Counters[pre+"twin.cases"]++
						ft, e1 := parseJSON(fresh)
						gt, e2 := parseJSON(got)
						switch {
						case e1 == nil && e2 == nil && strictEqual(ft, gt):
							out.Counters[pre+"twin.same_as_fresh_decode"]++
						default:
							out.Counters[pre+"twin.differs_from_fresh_decode"]++
							twinNote = " | the same JSON freshly decoded (no history) gives " + core.Trunc(fresh, 300)
							if e1 == nil && strictEqual(ft, exp) {
								twinNote += " = the reference result"
							}
							hist["output_for_same_json_freshly_decoded"] = fresh
							addViol("plugin="+plugin+" after-history: output differs from the output for the same JSON freshly decoded",
								&witness{Config: ci, Event: ei, Plugin: plugin, Selectors: hc.Selectors, Paths: hc.paths, Input: rec, Output: got, Expected: exp.String(), History: hist,
									What: "the event reached " + plugin + " after earlier actions had modified it; a fresh decode of exactly the JSON it had at that point gives another result: " + core.Trunc(fresh, 300) + " vs " + core.Trunc(got, 300)})
						}
					}
				}

				if len(v) == 0 {
					out.Counters[pre+"equal_to_reference"]++
					if len(out.Samples) < 2 && hits > 0 && !strictEqual(recTree, ev.tree) && ei > 1 {
						out.Samples = append(out.Samples, map[string]any{"clause": cl, "plugin": plugin, "selectors": hc.Selectors, "history": hist, "event_before_plugin": core.Trunc(rec, 400), "output": core.Trunc(got, 400)})
					}
					continue
				}
				contentOK := true
				for _, f := range v {
					if !strings.Contains(f.signature, "diff=survivor-key-order") {
						contentOK = false
					}
				}
				if contentOK {
					out.Counters[pre+"equal_to_reference_ignoring_key_order_only"]++
				}
				for _, f := range v {
					addViol(f.signature, &witness{Config: ci, Event: ei, Plugin: plugin, Selectors: hc.Selectors, Paths: hc.paths,
						Input: rec, Output: got, Expected: exp.String(), History: hist,
						What: f.what + " [" + cl + " clause: input = the event as recorded right before " + plugin + ", after the history in the witness" + twinNote + "]"})
				}
			}
		}
	}
	for fp := range fps {
		out.FPs = append(out.FPs, fp)
	}
	sort.Strings(out.FPs)
	return out, nil
}
