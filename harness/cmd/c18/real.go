package main

// Real side: the real keep_fields / remove_fields plugins, configured from an
// actions JSON through fd.SetupActions (registry -> pipeline.GetConfig ->
// cfg.DecodeConfig/cfg.Parse -> plugin.Start -> cfg.ParseNestedFields), run in
// a real pipeline with one processor, so that ONE plugin instance sees all
// events of a configuration one after another.

import (
	"encoding/json"
	"fmt"
	"runtime"
	"sync"
	"sync/atomic"
	"time"

	simplejson "github.com/bitly/go-simplejson"
	"github.com/ozontech/file.d/fd"
	"github.com/ozontech/file.d/pipeline"
	_ "github.com/ozontech/file.d/plugin/action/keep_fields"
	_ "github.com/ozontech/file.d/plugin/action/remove_fields"
	"github.com/ozontech/file.d/plugin/input/fake"
	"github.com/ozontech/file.d/plugin/output/devnull"
	"github.com/prometheus/client_golang/prometheus"
	"go.uber.org/zap"
)

var pipelineSeq atomic.Int64

type realRun struct {
	p     *pipeline.Pipeline
	input *fake.Plugin
	mu    sync.Mutex
	outs  map[int64]string
	outCh chan struct{}
	probe *probeStats
}

// probe actions (harness-side, parallel clause only): placed right before and
// right after the plugin under test, they count how many processors are inside
// that window at the same time, so the evidence shows that the plugin's Do
// really ran concurrently on several events.
type probeStats struct {
	inside  atomic.Int64
	maxSeen atomic.Int64
	overlap atomic.Int64  // events that entered while another processor was inside
	gate    chan struct{} // closed once every event is queued: processors then drain their streams side by side
	arrived atomic.Int64  // processors that passed the gate (bounded spin barrier, so they start together)
	want    int64
}

var probes sync.Map // pipeline name -> *probeStats

type probePlugin struct {
	st       *probeStats
	exit     bool
	released bool
}
type probeConfig struct{}

func (p *probePlugin) Start(_ pipeline.AnyConfig, params *pipeline.ActionPluginParams) {
	if v, ok := probes.Load(params.PipelineName); ok {
		p.st = v.(*probeStats)
	}
}
func (p *probePlugin) Stop() {}
func (p *probePlugin) Do(_ *pipeline.Event) pipeline.ActionResult {
	if p.st == nil {
		return pipeline.ActionPass
	}
	if p.exit {
		p.st.inside.Add(-1)
		return pipeline.ActionPass
	}
	if !p.released {
		p.released = true
		<-p.st.gate
		p.st.arrived.Add(1)
		// Busy-wait (no yield) until `want` processors are spinning here at the same time, i.e. are
		// really running on different threads; bounded by an iteration count (no clock, never a deadlock).
		for i := 0; i < 2_000_000 && p.st.arrived.Load() < p.st.want; i++ {
		}
	}
	n := p.st.inside.Add(1)
	if n > 1 {
		p.st.overlap.Add(1)
	}
	for {
		m := p.st.maxSeen.Load()
		if n <= m || p.st.maxSeen.CompareAndSwap(m, n) {
			break
		}
	}
	return pipeline.ActionPass
}

func init() {
	fd.DefaultPluginRegistry.RegisterAction(&pipeline.PluginStaticInfo{Type: "c18_probe_in", Factory: func() (pipeline.AnyPlugin, pipeline.AnyConfig) {
		return &probePlugin{}, &probeConfig{}
	}})
	fd.DefaultPluginRegistry.RegisterAction(&pipeline.PluginStaticInfo{Type: "c18_probe_out", Factory: func() (pipeline.AnyPlugin, pipeline.AnyConfig) {
		return &probePlugin{exit: true}, &probeConfig{}
	}})
}

// startReal builds and starts the pipeline. parallel=false: one processor
// (one plugin instance). parallel=true: the default GOMAXPROCS*2 processors,
// each with its own plugin instance started from the same config pointer,
// plus the probe actions around the plugin.
func startReal(plugin string, selectors []string, capacity int, parallel bool) (*realRun, error) {
	return startRealActs([]map[string]any{{"type": plugin, "fields": selectors}}, capacity, parallel, nil)
}

// startRealActs is startReal for an arbitrary action chain (history clause:
// earlier real actions / the harness mutator, the recorder, then the plugin
// under test). hh (may be nil) is what the harness-side actions of that chain
// read and write; it is registered under the pipeline's name before Start.
func startRealActs(acts []map[string]any, capacity int, parallel bool, hh *histHooks) (*realRun, error) {
	settings := &pipeline.Settings{
		Capacity:            capacity, // small pools recycle event objects (and their insane-json roots) quickly
		MaintenanceInterval: time.Second * 5,
		EventTimeout:        pipeline.DefaultEventTimeout,
		Antispam:            pipeline.AntispamSettings{Threshold: pipeline.DefaultAntispamThreshold},
		AvgEventSize:        2048,
		MetaCacheSize:       32,
		StreamField:         "c18_stream_field_never_present",
		Decoder:             "json",
		Metric: &pipeline.MetricSettings{
			HoldDuration:        pipeline.DefaultMetricHoldDuration,
			MaxLabelValueLength: pipeline.DefaultMetricMaxLabelValueLength,
		},
	}
	name := fmt.Sprintf("c18_%d", pipelineSeq.Add(1))
	p := pipeline.New(name, settings, prometheus.NewRegistry(), zap.NewNop())
	rr := &realRun{outs: map[int64]string{}, outCh: make(chan struct{}, 4096)}
	if parallel {
		rr.probe = &probeStats{gate: make(chan struct{}), want: int64(min(runtime.GOMAXPROCS(0), 4))}
		probes.Store(name, rr.probe)
	} else {
		p.DisableParallelism() // one processor => one plugin instance for every event
	}

	inAny, _ := fake.Factory()
	in := inAny.(*fake.Plugin)
	p.SetInput(&pipeline.InputPluginInfo{
		PluginStaticInfo:  &pipeline.PluginStaticInfo{Type: "fake"},
		PluginRuntimeInfo: &pipeline.PluginRuntimeInfo{Plugin: in},
	})
	outAny, _ := devnull.Factory()
	out := outAny.(*devnull.Plugin)
	p.SetOutput(&pipeline.OutputPluginInfo{
		PluginStaticInfo:  &pipeline.PluginStaticInfo{Type: "devnull"},
		PluginRuntimeInfo: &pipeline.PluginRuntimeInfo{Plugin: out},
	})

	if parallel {
		acts = []map[string]any{{"type": "c18_probe_in"}, acts[0], {"type": "c18_probe_out"}}
	}
	if hh != nil {
		histHookReg.Store(name, hh)
	}
	actions, err := json.Marshal(acts)
	if err != nil {
		return nil, err
	}
	sj, err := simplejson.NewJson(actions)
	if err != nil {
		return nil, err
	}
	if err := fd.SetupActions(p, fd.DefaultPluginRegistry, sj, nil); err != nil {
		histHookReg.Delete(name)
		probes.Delete(name)
		return nil, fmt.Errorf("SetupActions: %w", err)
	}

	rr.p, rr.input = p, in
	out.SetOutFn(func(e *pipeline.Event) {
		s := safeEncode(e.Root) // EncodeToString, unless the tree is so broken that Encode would never return
		rr.mu.Lock()
		if _, dup := rr.outs[e.Offset]; dup {
			rr.outs[-e.Offset-1] = s // an event seen twice: keep it visible
		}
		rr.outs[e.Offset] = s
		rr.mu.Unlock()
		rr.outCh <- struct{}{}
	})
	p.Start()
	return rr, nil
}

// feed sends events [from,to) and waits until all of them reached the output.
func (rr *realRun) feed(events []*eventCase, from, to int, watchdog time.Duration) error {
	go func() {
		for i := from; i < to; i++ {
			rr.input.In(0, "c18.log", pipeline.NewOffsets(int64(i), nil), []byte(events[i].bytes))
		}
	}()
	timer := time.NewTimer(watchdog)
	defer timer.Stop()
	for n := from; n < to; n++ {
		select {
		case <-rr.outCh:
		case <-timer.C:
			return fmt.Errorf("watchdog: %d of %d events reached the output", n-from, to-from)
		}
	}
	return nil
}

// feedParallel sends all events from `feeders` goroutines over `sources`
// source ids (one stream each, so several processors work at once) and waits
// until all of them reached the output. The pool is larger than the number
// of events, so nobody waits for a free event. The entry probe holds the
// processors until everything is queued; then they all run flat out.
func (rr *realRun) feedParallel(events []*eventCase, feeders, sources int, watchdog time.Duration) error {
	var fed sync.WaitGroup
	fed.Add(feeders)
	go func() {
		fed.Wait()
		close(rr.probe.gate)
	}()
	for f := 0; f < feeders; f++ {
		go func(f int) {
			defer fed.Done()
			for i := f; i < len(events); i += feeders {
				src := pipeline.SourceID(i % sources)
				rr.input.In(src, fmt.Sprintf("c18-%d.log", src), pipeline.NewOffsets(int64(i), nil), []byte(events[i].bytes))
			}
		}(f)
	}
	timer := time.NewTimer(watchdog)
	defer timer.Stop()
	for n := 0; n < len(events); n++ {
		select {
		case <-rr.outCh:
		case <-timer.C:
			return fmt.Errorf("watchdog: %d of %d events reached the output", n, len(events))
		}
	}
	return nil
}

func (rr *realRun) stop() {
	rr.p.Stop()
	probes.Delete(rr.p.Name)
	histHookReg.Delete(rr.p.Name)
}

func (rr *realRun) out(i int) (string, bool) {
	rr.mu.Lock()
	defer rr.mu.Unlock()
	s, ok := rr.outs[int64(i)]
	return s, ok
}
