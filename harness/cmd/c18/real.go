package main

// Real side: the real keep_fields / remove_fields plugins, configured from an
// actions JSON through fd.SetupActions (registry -> pipeline.GetConfig ->
// cfg.DecodeConfig/cfg.Parse -> plugin.Start -> cfg.ParseNestedFields), run in
// a real pipeline with one processor, so that ONE plugin instance sees all
// events of a configuration one after another.

import (
	"encoding/json"
	"fmt"
	"sync"
	"sync/atomic"
	"time"

	simplejson "github.com/bitly/go-simplejson"
	"github.com/ozontech/file.d/fd"
	"github.com/ozontech/file.d/pipeline"
	_ "github.com/ozontech/file.d/plugin/action/keep_fields"
	_ "github.com/ozontech/file.d/plugin/action/remove_fields"
	"github.com/ozontech/file.d/plugin/input/fake"
	"github.com/ozontech/file.d/plugin/output/devnull"
	"github.com/prometheus/client_golang/prometheus"
	"go.uber.org/zap"
)

var pipelineSeq atomic.Int64

type realRun struct {
	p     *pipeline.Pipeline
	input *fake.Plugin
	mu    sync.Mutex
	outs  map[int64]string
	outCh chan struct{}
}

func startReal(plugin string, selectors []string, capacity int) (*realRun, error) {
	settings := &pipeline.Settings{
		Capacity:            capacity, // small pools recycle event objects (and their insane-json roots) quickly
		MaintenanceInterval: time.Second * 5,
		EventTimeout:        pipeline.DefaultEventTimeout,
		Antispam:            pipeline.AntispamSettings{Threshold: pipeline.DefaultAntispamThreshold},
		AvgEventSize:        2048,
		MetaCacheSize:       32,
		StreamField:         "c18_stream_field_never_present",
		Decoder:             "json",
		Metric: &pipeline.MetricSettings{
			HoldDuration:        pipeline.DefaultMetricHoldDuration,
			MaxLabelValueLength: pipeline.DefaultMetricMaxLabelValueLength,
		},
	}
	name := fmt.Sprintf("c18_%d", pipelineSeq.Add(1))
	p := pipeline.New(name, settings, prometheus.NewRegistry(), zap.NewNop())
	p.DisableParallelism() // one processor => one plugin instance for every event

	inAny, _ := fake.Factory()
	in := inAny.(*fake.Plugin)
	p.SetInput(&pipeline.InputPluginInfo{
		PluginStaticInfo:  &pipeline.PluginStaticInfo{Type: "fake"},
		PluginRuntimeInfo: &pipeline.PluginRuntimeInfo{Plugin: in},
	})
	outAny, _ := devnull.Factory()
	out := outAny.(*devnull.Plugin)
	p.SetOutput(&pipeline.OutputPluginInfo{
		PluginStaticInfo:  &pipeline.PluginStaticInfo{Type: "devnull"},
		PluginRuntimeInfo: &pipeline.PluginRuntimeInfo{Plugin: out},
	})

	actions, err := json.Marshal([]map[string]any{{"type": plugin, "fields": selectors}})
	if err != nil {
		return nil, err
	}
	sj, err := simplejson.NewJson(actions)
	if err != nil {
		return nil, err
	}
	if err := fd.SetupActions(p, fd.DefaultPluginRegistry, sj, nil); err != nil {
		return nil, fmt.Errorf("SetupActions: %w", err)
	}

	rr := &realRun{p: p, input: in, outs: map[int64]string{}, outCh: make(chan struct{}, 1024)}
	out.SetOutFn(func(e *pipeline.Event) {
		s := e.Root.EncodeToString()
		rr.mu.Lock()
		if _, dup := rr.outs[e.Offset]; dup {
			rr.outs[-e.Offset-1] = s // an event seen twice: keep it visible
		}
		rr.outs[e.Offset] = s
		rr.mu.Unlock()
		rr.outCh <- struct{}{}
	})
	p.Start()
	return rr, nil
}

// feed sends events [from,to) and waits until all of them reached the output.
func (rr *realRun) feed(events []*eventCase, from, to int, watchdog time.Duration) error {
	go func() {
		for i := from; i < to; i++ {
			rr.input.In(0, "c18.log", pipeline.NewOffsets(int64(i), nil), []byte(events[i].bytes))
		}
	}()
	timer := time.NewTimer(watchdog)
	defer timer.Stop()
	for n := from; n < to; n++ {
		select {
		case <-rr.outCh:
		case <-timer.C:
			return fmt.Errorf("watchdog: %d of %d events reached the output", n-from, to-from)
		}
	}
	return nil
}

func (rr *realRun) stop() { rr.p.Stop() }

func (rr *realRun) out(i int) (string, bool) {
	rr.mu.Lock()
	defer rr.mu.Unlock()
	s, ok := rr.outs[int64(i)]
	return s, ok
}
