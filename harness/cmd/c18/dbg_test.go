package main

import (
	"encoding/json"
	"fmt"
	"os"
	"testing"
)

func TestDbg(t *testing.T) {
	b, _ := os.ReadFile(os.Getenv("DBG"))
	var r struct {
		Witness witness `json:"witness"`
	}
	json.Unmarshal(b, &r)
	w := r.Witness
	in, _ := parseJSON(w.Input)
	var exp *node
	if w.Plugin == "remove_fields" {
		exp, _ = refRemove(in, w.Paths)
	} else {
		exp, _ = refKeep(in, w.Paths)
	}
	act, err := parseJSON(w.Output)
	fmt.Println("parse err", err, "strict", strictEqual(exp, act))
	var diffs []*contentDiffInfo
	contentDiffs(exp, act, nil, &diffs)
	for _, d := range diffs {
		fmt.Println(d.kind, showLoc(d.loc), core_trunc(d.exp, 50), core_trunc(d.act, 50))
	}
	fmt.Println(orderDiff(exp, act, nil))
	for _, p := range w.Paths {
		q := []string{}
		for _, k := range p {
			q = append(q, core_trunc(k, 10))
		}
		fmt.Printf("%q\n", q)
	}
	short := func(n *node) string { return "" }
	_ = short
	for _, f := range judge(w.Plugin, w.Paths, in, exp, w.Output) {
		fmt.Println("SIG", f.signature, "|", f.what)
	}
}
