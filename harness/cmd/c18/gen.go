package main

// Deterministic generators: key vocabularies, selector sets and events.

import (
	"fmt"
	"math/rand"
	"strings"
	"unicode/utf8"
)

var (
	plainKeys   = []string{"a", "b", "c", "d", "e", "msg", "level", "ts", "k1", "k2", "k3", "f", "ab", "abc", "some", "qwe"}
	dottedKeys  = []string{"a.b", "a.b.c", ".a", "a.", ".", "..", "a..b", "k8s.pod.name", "x.y", "exception.type", "b.c", "c.d.", "ключ.поле", "naïve.key"}
	unicodeKeys = []string{"a b", " ", "ключ", "日本語", "é", "😀", "ß", "a b", " "}
	numericKeys = []string{"0", "1", "2", "10", "-1", "01", "00"}
	escapeKeys  = []string{`q"t`, "tab\tk", "nl\nk", `b\s`, "sl/ash", `"`, `x\y.z`, "\u0001"}
	longKeys    = []string{strings.Repeat("k", 300), strings.Repeat("long.", 40) + "end"}

	scalarPool = []string{
		`0`, `1`, `-1`, `-0`, `1.50`, `1e5`, `1E+2`, `0.000001`, `12345678901234567890123`, `-12.5e-3`,
		`true`, `false`, `null`,
		`""`, `"v"`, `"some value"`, `"with \"quote\""`, `"back\\slash"`, `"unié"`, `"😀"`,
		`"sl\/ash"`, `"tab\t"`, `"日本語"`, `"a.b"`, `"<&>"`, `"` + " " + `"`, `" "`, `"0"`, `"true"`, `"null"`,
		`"{\"not\":\"an object\"}"`, `"[1,2]"`, `"` + strings.Repeat("x", 500) + `"`, `"é"`, `"\\."`,
	}
)

type eventCase struct {
	tree  *node
	bytes string
	wsOn  bool
}

type config struct {
	Idx       int
	vocab     []string
	paths     [][]string
	Selectors []string
	overlap   bool
	duplicate bool
	events    []*eventCase
}

type gen struct {
	r    *rand.Rand
	wide bool // parallel clause: more wide events, so that one Do takes longer and overlaps with others
}

func (g *gen) pick(s []string) string { return s[g.r.Intn(len(s))] }

func (g *gen) vocab() []string {
	n := 5 + g.r.Intn(8)
	seen := map[string]bool{}
	var v []string
	add := func(k string) {
		if !seen[k] {
			seen[k] = true
			v = append(v, k)
		}
	}
	// always a few plain keys so that nesting is likely to line up
	for len(v) < 3 {
		add(g.pick(plainKeys))
	}
	for len(v) < n {
		switch x := g.r.Intn(100); {
		case x < 30:
			add(g.pick(plainKeys))
		case x < 55:
			add(g.pick(dottedKeys))
		case x < 70:
			add(g.pick(unicodeKeys))
		case x < 82:
			add(g.pick(numericKeys))
		case x < 94:
			add(g.pick(escapeKeys))
		default:
			add(g.pick(longKeys))
		}
	}
	// hostile relation: a dotted key equal to the joined form of two other keys
	if g.r.Intn(3) == 0 && len(v) >= 2 {
		add(v[0] + "." + v[1])
	}
	return v
}

func (g *gen) pathKey(vocab []string) string {
	for tries := 0; tries < 20; tries++ {
		k := g.pick(vocab)
		if expressible(k) {
			return k
		}
	}
	return "a"
}

func (g *gen) randomPath(vocab []string) []string {
	var n int
	switch x := g.r.Intn(100); {
	case x < 35:
		n = 1
	case x < 65:
		n = 2
	case x < 85:
		n = 3
	case x < 96:
		n = 4
	default:
		n = 5
	}
	p := make([]string, n)
	for i := range p {
		p[i] = g.pathKey(vocab)
		if i > 0 && g.r.Intn(12) == 0 {
			p[i] = g.pick(numericKeys[:4]) // may index an array in the event
		}
	}
	return p
}

func clonePath(p []string) []string { return append([]string(nil), p...) }

func (g *gen) pathSet(vocab []string, thorough bool) (paths [][]string, overlap, dup bool) {
	n := 1 + g.r.Intn(6)
	if g.r.Intn(20) == 0 {
		n = 10 + g.r.Intn(16)
	}
	if thorough && g.r.Intn(50) == 0 {
		n = 30 + g.r.Intn(30)
	}
	for len(paths) < n {
		if len(paths) == 0 || g.r.Intn(100) < 55 {
			paths = append(paths, g.randomPath(vocab))
			continue
		}
		base := paths[g.r.Intn(len(paths))]
		switch g.r.Intn(5) {
		case 0: // descendant
			p := clonePath(base)
			for k := 1 + g.r.Intn(2); k > 0 && len(p) < 6; k-- {
				p = append(p, g.pathKey(vocab))
			}
			paths = append(paths, p)
		case 1: // ancestor
			if len(base) > 1 {
				paths = append(paths, clonePath(base[:1+g.r.Intn(len(base)-1)]))
			} else {
				paths = append(paths, g.randomPath(vocab))
			}
		case 2: // duplicate
			paths = append(paths, clonePath(base))
		case 3: // sibling
			p := clonePath(base)
			p[len(p)-1] = g.pathKey(vocab)
			paths = append(paths, p)
		case 4: // same names, other split: ["a","b"] <-> ["a.b"]
			if len(base) >= 2 {
				i := g.r.Intn(len(base) - 1)
				p := clonePath(base[:i])
				p = append(p, base[i]+"."+base[i+1])
				p = append(p, base[i+2:]...)
				if expressible(p[i]) {
					paths = append(paths, p)
					break
				}
			}
			paths = append(paths, g.randomPath(vocab))
		}
	}
	g.r.Shuffle(len(paths), func(i, j int) { paths[i], paths[j] = paths[j], paths[i] })
	for i := range paths {
		for j := range paths {
			if i == j {
				continue
			}
			if len(paths[j]) < len(paths[i]) && pathHasPrefix(paths[i], paths[j]) {
				overlap = true
			}
			if i < j && len(paths[i]) == len(paths[j]) && pathHasPrefix(paths[i], paths[j]) {
				dup = true
			}
		}
	}
	return paths, overlap, dup
}

// ---------------------------------------------------------------- events

func (g *gen) scalarNode() *node { return scalar(g.pick(scalarPool)) }

func (g *gen) value(vocab []string, depth, maxDepth int) *node {
	x := g.r.Intn(100)
	switch {
	case x < 50 || depth >= maxDepth:
		if depth >= maxDepth && x >= 90 {
			if x%2 == 0 {
				return &node{kind: kObj}
			}
			return &node{kind: kArr}
		}
		return g.scalarNode()
	case x < 80:
		return g.object(vocab, depth, maxDepth, false)
	default:
		return g.array(vocab, depth, maxDepth)
	}
}

func (g *gen) array(vocab []string, depth, maxDepth int) *node {
	n := &node{kind: kArr}
	cnt := g.r.Intn(4)
	for i := 0; i < cnt; i++ {
		n.vals = append(n.vals, g.value(vocab, depth+1, maxDepth))
	}
	return n
}

func (g *gen) object(vocab []string, depth, maxDepth int, top bool) *node {
	var cnt int
	switch x := g.r.Intn(100); {
	case x < 6:
		cnt = 0
	case x < 70:
		cnt = 1 + g.r.Intn(5)
	case x < 88:
		cnt = 6 + g.r.Intn(6)
	case x < 98:
		if depth <= 1 {
			cnt = 17 + g.r.Intn(14) // insane-json switches to a field map above 16 fields
		} else {
			cnt = 1 + g.r.Intn(3)
		}
	default:
		if top {
			cnt = 101 + g.r.Intn(40) // more fields than the plugin's per-depth buffer capacity
		} else {
			cnt = 2
		}
	}
	if top && g.wide && g.r.Intn(100) < 35 {
		cnt = 17 + g.r.Intn(70)
	}
	n := &node{kind: kObj}
	used := map[string]bool{}
	perm := g.r.Perm(len(vocab))
	pi := 0
	filler := 0
	for len(n.keys) < cnt {
		var k string
		if pi < len(perm) && (cnt <= len(vocab) || g.r.Intn(3) != 0) {
			k = vocab[perm[pi]]
			pi++
		} else {
			k = fmt.Sprintf("f%d", filler)
			filler++
			if g.r.Intn(40) == 0 {
				k = ""
			}
		}
		if used[k] {
			continue
		}
		used[k] = true
		n.keys = append(n.keys, k)
		n.vals = append(n.vals, g.value(vocab, depth+1, maxDepth))
	}
	return n
}

// plant makes path (or something that almost is path) exist in root.
func (g *gen) plant(root *node, path []string, vocab []string, maxDepth int) {
	cur := root
	for i, k := range path {
		if cur.kind != kObj {
			return
		}
		last := i == len(path)-1
		idx := cur.indexOf(k)
		if last {
			if idx < 0 && g.r.Intn(10) == 0 {
				return // almost found: leaf missing
			}
			v := g.value(vocab, i+1, maxDepth+1)
			if idx >= 0 {
				cur.vals[idx] = v
			} else {
				g.insert(cur, k, v)
			}
			return
		}
		var next *node
		if idx >= 0 && cur.vals[idx].kind == kObj {
			next = cur.vals[idx]
		} else {
			switch x := g.r.Intn(100); {
			case x < 80:
				next = g.object(vocab, i+1, maxDepth, false)
				if len(next.keys) > 12 && g.r.Intn(2) == 0 {
					next.keys, next.vals = next.keys[:3], next.vals[:3]
				}
			case x < 90:
				next = g.array(vocab, i+1, maxDepth+1) // path crosses an array
				if len(next.vals) == 0 {
					next.vals = append(next.vals, g.object(vocab, i+2, maxDepth+1, false), g.scalarNode())
				}
			default:
				next = g.scalarNode() // path crosses a scalar
			}
			if idx >= 0 {
				cur.vals[idx] = next
			} else {
				g.insert(cur, k, next)
			}
		}
		cur = next
	}
}

func (g *gen) insert(obj *node, k string, v *node) {
	pos := g.r.Intn(len(obj.keys) + 1)
	obj.keys = append(obj.keys, "")
	obj.vals = append(obj.vals, nil)
	copy(obj.keys[pos+1:], obj.keys[pos:])
	copy(obj.vals[pos+1:], obj.vals[pos:])
	obj.keys[pos] = k
	obj.vals[pos] = v
}

// exoticKey renders a key with non-minimal JSON escapes (\uXXXX, \/).
func (g *gen) exoticKey(k string) string {
	if k == "" {
		return `""`
	}
	var b strings.Builder
	b.WriteByte('"')
	target := g.r.Intn(utf8.RuneCountInString(k))
	ri := 0
	for _, r := range k {
		if ri == target || (r == '/' && g.r.Intn(2) == 0) {
			switch {
			case r == '/':
				b.WriteString(`\/`)
			case r > 0xFFFF:
				r -= 0x10000
				fmt.Fprintf(&b, `\u%04x\u%04x`, 0xD800+(r>>10), 0xDC00+(r&0x3FF))
			default:
				if g.r.Intn(2) == 0 {
					fmt.Fprintf(&b, `\u%04X`, r)
				} else {
					fmt.Fprintf(&b, `\u%04x`, r)
				}
			}
		} else {
			q := quoteJSON(string(r))
			b.WriteString(q[1 : len(q)-1])
		}
		ri++
	}
	b.WriteByte('"')
	return b.String()
}

func (g *gen) decorateKeys(n *node) {
	switch n.kind {
	case kObj:
		n.rk = make([]string, len(n.keys))
		for i, k := range n.keys {
			if g.r.Intn(12) == 0 {
				n.rk[i] = g.exoticKey(k)
			}
		}
		fallthrough
	case kArr:
		for _, v := range n.vals {
			g.decorateKeys(v)
		}
	}
}

func (g *gen) event(cfg *config, i int) *eventCase {
	maxDepth := 2 + g.r.Intn(3)
	var root *node
	switch x := g.r.Intn(100); {
	case x < 3:
		root = &node{kind: kObj}
	default:
		root = g.object(cfg.vocab, 0, maxDepth, true)
	}
	if g.r.Intn(100) < 70 {
		for _, p := range cfg.paths {
			if g.r.Intn(100) < 55 {
				g.plant(root, p, cfg.vocab, maxDepth)
			}
		}
	}
	if g.r.Intn(25) == 0 && len(cfg.paths) > 0 {
		// an event made only of addressed values: remove empties it, keep keeps all
		root = &node{kind: kObj}
		for _, p := range cfg.paths {
			g.plant(root, p, cfg.vocab, maxDepth)
		}
	}
	g.decorateKeys(root)
	ec := &eventCase{tree: root}
	var b strings.Builder
	if g.r.Intn(7) == 0 {
		ec.wsOn = true
		wsChars := []string{"", "", " ", "  ", "\t", "\n", "\r\n", " \n "}
		root.render(&b, func() string { return wsChars[g.r.Intn(len(wsChars))] })
	} else {
		root.render(&b, nil)
	}
	ec.bytes = b.String()
	return ec
}

func genConfig(seed int64, idx, nEvents int, thorough, wide bool) *config {
	g := &gen{r: rand.New(rand.NewSource(seed)), wide: wide}
	cfg := &config{Idx: idx}
	cfg.vocab = g.vocab()
	cfg.paths, cfg.overlap, cfg.duplicate = g.pathSet(cfg.vocab, thorough)
	for _, p := range cfg.paths {
		cfg.Selectors = append(cfg.Selectors, renderSelector(p))
	}
	for i := 0; i < nEvents; i++ {
		cfg.events = append(cfg.events, g.event(cfg, i))
	}
	return cfg
}
