package main

// Oracle: compares the re-decoded output of the real plugin with the
// reference projection / subtraction and classifies a difference into a
// structural signature.

import (
	"fmt"
	"strconv"
	"strings"
)

// contentDiffs lists the differences ignoring object key order (document
// order of the expected tree, then extra keys in output order). It does not
// descend below a difference.
type contentDiffInfo struct {
	kind string // missing extra type-changed bytes-changed array-changed duplicate-key
	loc  []string
	exp  string
	act  string
}

func contentDiffs(exp, act *node, loc []string, out *[]*contentDiffInfo) {
	if len(*out) >= 16 {
		return
	}
	if exp.kind != act.kind {
		*out = append(*out, &contentDiffInfo{kind: "type-changed", loc: clonePath(loc), exp: exp.typeName(), act: act.typeName()})
		return
	}
	switch exp.kind {
	case kScalar:
		if exp.raw != act.raw {
			k := "bytes-changed"
			if tokenClass(exp.raw) != tokenClass(act.raw) {
				k = "type-changed"
			}
			*out = append(*out, &contentDiffInfo{kind: k, loc: clonePath(loc), exp: exp.raw, act: act.raw})
		}
		return
	case kArr:
		if len(exp.vals) != len(act.vals) {
			*out = append(*out, &contentDiffInfo{kind: "array-changed", loc: clonePath(loc), exp: fmt.Sprint(len(exp.vals)), act: fmt.Sprint(len(act.vals))})
			return
		}
		for i := range exp.vals {
			contentDiffs(exp.vals[i], act.vals[i], append(loc, fmt.Sprintf("#%d", i)), out)
		}
		return
	}
	// duplicate keys in the output are a difference of their own
	seen := map[string]bool{}
	for _, k := range act.keys {
		if seen[k] {
			*out = append(*out, &contentDiffInfo{kind: "duplicate-key", loc: append(clonePath(loc), k)})
			return
		}
		seen[k] = true
	}
	for i, k := range exp.keys {
		j := act.indexOf(k)
		if j < 0 {
			*out = append(*out, &contentDiffInfo{kind: "missing", loc: append(clonePath(loc), k), exp: exp.vals[i].typeName()})
			continue
		}
		contentDiffs(exp.vals[i], act.vals[j], append(loc, k), out)
	}
	for j, k := range act.keys {
		if exp.indexOf(k) < 0 {
			*out = append(*out, &contentDiffInfo{kind: "extra", loc: append(clonePath(loc), k), act: act.vals[j].typeName()})
		}
	}
}

// orderDiff finds the first object whose common keys come in another order
// in the output (keys present on one side only are content differences and
// are left out here, so the two checks are independent).
func orderDiff(exp, act *node, loc []string) ([]string, bool) {
	if exp.kind != act.kind {
		return nil, false
	}
	switch exp.kind {
	case kArr:
		if len(exp.vals) != len(act.vals) {
			return nil, false
		}
		for i := range exp.vals {
			if l, ok := orderDiff(exp.vals[i], act.vals[i], append(loc, fmt.Sprintf("#%d", i))); ok {
				return l, true
			}
		}
	case kObj:
		var e, a []string
		for _, k := range exp.keys {
			if act.indexOf(k) >= 0 {
				e = append(e, k)
			}
		}
		for _, k := range act.keys {
			if exp.indexOf(k) >= 0 {
				a = append(a, k)
			}
		}
		if len(e) == len(a) { // no duplicate keys involved
			for i := range e {
				if e[i] != a[i] {
					return clonePath(loc), true
				}
			}
		}
		for i, k := range exp.keys {
			if j := act.indexOf(k); j >= 0 {
				if l, ok := orderDiff(exp.vals[i], act.vals[j], append(loc, k)); ok {
					return l, true
				}
			}
		}
	}
	return nil, false
}

// at navigates a tree by a location (keys, "#i" for array elements).
func at(root *node, loc []string) *node {
	cur := root
	for _, k := range loc {
		if cur == nil {
			return nil
		}
		switch cur.kind {
		case kObj:
			i := cur.indexOf(k)
			if i < 0 {
				return nil
			}
			cur = cur.vals[i]
		case kArr:
			var i int
			if _, err := fmt.Sscanf(k, "#%d", &i); err != nil || i < 0 || i >= len(cur.vals) {
				return nil
			}
			cur = cur.vals[i]
		default:
			return nil
		}
	}
	return cur
}

// relation of a location to the configured paths.
func relation(loc []string, paths [][]string) string {
	rel := "unaddressed"
	rank := 0
	for _, p := range paths {
		switch {
		case len(p) == len(loc) && pathHasPrefix(loc, p):
			return "addressed"
		case len(p) < len(loc) && pathHasPrefix(loc, p):
			if rank < 2 {
				rel, rank = "inside-addressed", 2
			}
		case len(p) > len(loc) && pathHasPrefix(p, loc):
			if rank < 1 {
				rel, rank = "on-the-way", 1
			}
		}
	}
	return rel
}

// viaArrayIndex: the difference lies at or below an array element position
// that some configured path would reach by reading a decimal component as an
// array index (loc[i] == "#n" where the path has "n"), or is the array itself
// with such a path continuing into it.
func viaArrayIndex(input *node, loc []string, paths [][]string) bool {
	idx := make([]int, len(loc)) // array index at this position, or -1 for an object key
	for i, k := range loc {
		idx[i] = -1
		if strings.HasPrefix(k, "#") {
			if a := at(input, loc[:i]); a != nil && a.kind == kArr {
				idx[i], _ = strconv.Atoi(k[1:])
			}
		}
	}
	// matches reports whether p[:n] walks loc[:n], reading integer-looking
	// components as indexes where loc has an array position
	matches := func(p []string, n int) bool {
		if len(p) < n {
			return false
		}
		for i := 0; i < n; i++ {
			if idx[i] >= 0 {
				if v, err := strconv.Atoi(p[i]); err != nil || v != idx[i] {
					return false
				}
			} else if p[i] != loc[i] {
				return false
			}
		}
		return true
	}
	for _, p := range paths {
		for i := range loc {
			if idx[i] >= 0 && matches(p, i+1) {
				return true
			}
		}
		if n := at(input, loc); n != nil && n.kind == kArr && len(p) > len(loc) && matches(p, len(loc)) {
			if _, err := strconv.Atoi(p[len(loc)]); err == nil {
				return true // the array itself changed and a path continues into it with an integer component
			}
		}
	}
	return false
}

func showLoc(loc []string) string {
	q := make([]string, len(loc))
	for i, k := range loc {
		q[i] = fmt.Sprintf("%q", core_trunc(k, 40))
	}
	return "[" + strings.Join(q, ",") + "]"
}

type finding struct {
	signature string
	what      string
}

// judge decides one case; an empty result means "equal to the reference".
func judge(plugin string, paths [][]string, input, expected *node, output string) []finding {
	if output == encodeRunaway {
		return []finding{{"plugin=" + plugin + " output=encoding-never-terminates (event tree corrupted)",
			"after " + plugin + " the event's node chain contains a cycle: insane-json's Encode would run forever and exhaust the memory (found by a step-bounded dry run of Encode)"}}
	}
	act, err := parseJSON(output)
	if err != nil {
		return []finding{{"plugin=" + plugin + " output=invalid-json", fmt.Sprintf("output of %s is not valid JSON: %v", plugin, err)}}
	}
	if act.kind != kObj {
		return []finding{{"plugin=" + plugin + " output=root-not-object", "root of the event is no longer an object"}}
	}
	if strictEqual(expected, act) {
		return nil
	}
	var res []finding
	seen := map[string]bool{}
	add := func(sig, what string) {
		if !seen[sig] {
			seen[sig] = true
			res = append(res, finding{sig, what})
		}
	}
	var diffs []*contentDiffInfo
	contentDiffs(expected, act, nil, &diffs)
	for _, d := range diffs {
		var what string
		switch d.kind {
		case "array-changed":
			what = fmt.Sprintf("array at %s has %s elements, expected %s", showLoc(d.loc), d.act, d.exp)
		case "missing":
			what = fmt.Sprintf("field %s (%s) must survive but is missing from the output", showLoc(d.loc), d.exp)
		case "extra":
			what = fmt.Sprintf("field %s (%s) must be gone but is present in the output", showLoc(d.loc), d.act)
		case "duplicate-key":
			what = fmt.Sprintf("output has the key %s twice", showLoc(d.loc))
		default:
			what = fmt.Sprintf("value at %s changed: expected %s got %s", showLoc(d.loc), core_trunc(d.exp, 80), core_trunc(d.act, 80))
		}
		if d.kind != "extra" && d.kind != "duplicate-key" && viaArrayIndex(input, d.loc, paths) {
			add("plugin="+plugin+" numeric-selector-component-indexes-array (content inside an array changed)",
				what+" — a selector component was read as an array index; arrays are non-objects, paths crossing them must be ignored")
			continue
		}
		add("plugin="+plugin+" diff="+d.kind+" where="+relation(d.loc, paths), what)
	}
	if loc, found := orderDiff(expected, act, nil); found {
		in := at(input, loc)
		ex := at(expected, loc)
		ac := at(act, loc)
		where := "object-with-deletions"
		if in != nil && ac != nil && len(in.keys) == len(ac.keys) {
			where = "untouched-object" // nothing was deleted from this object, rightly or wrongly
		}
		add("plugin="+plugin+" diff=survivor-key-order in="+where,
			fmt.Sprintf("survivors of the object at %s are re-ordered: expected key order %q, got %q", showLoc(loc), trimKeys(ex), trimKeys(ac)))
	}
	if len(res) == 0 {
		add("plugin="+plugin+" diff=unclassified", "output differs from the reference")
	}
	return res
}

func trimKeys(n *node) []string {
	if n == nil {
		return nil
	}
	k := make([]string, 0, 13)
	for i, x := range n.keys {
		if i == 12 {
			k = append(k, "…")
			break
		}
		k = append(k, core_trunc(x, 24))
	}
	return k
}

func core_trunc(s string, n int) string {
	if len(s) > n {
		return s[:n] + "…"
	}
	return s
}
