// C18 — keep_fields and remove_fields select exactly the configured paths.
//
// Runtime monitor: generated selector sets and events are run through the
// real plugins (real config path, real pipeline, one plugin instance per
// configuration reused for all its events) and the re-decoded output is
// compared with a naive projection / subtraction on an order-preserving JSON
// tree. See NOTES.md.
package main

import (
	"encoding/json"
	"fmt"
	"hash/fnv"
	"os"
	"sort"
	"strconv"
	"strings"
	"time"

	"github.com/ozontech/file.d/cfg"

	"verifharness/core"
)

var plugins = []string{"remove_fields", "keep_fields"}

type childIn struct {
	Seed     int64
	Thorough bool
	From, To int // configuration indexes
	Events   int // events per configuration
	Skip     []string
	Sync     bool // confirm mode: one event at a time, each logged before it is fed
	Par      bool // parallel clause: every configuration also runs in a multi-processor pipeline
	Hist     bool // history clause: random histories in front of the plugin under test
	Sweep    bool // history clause: the systematic k x j x position sweep
}

type witness struct {
	Config    int        `json:"config"`
	Event     int        `json:"event"`
	Plugin    string     `json:"plugin"`
	Selectors []string   `json:"selectors"`
	Paths     [][]string `json:"paths"`
	Input     string     `json:"input"`
	Output    string     `json:"output"`
	Expected  string     `json:"expected"`
	What      string     `json:"what"`
	History   any        `json:"history,omitempty"` // history clause: what happened to the event before it reached the plugin
	Count     int64      `json:"occurrences_in_run,omitempty"`
}

type childOut struct {
	Evals      int64
	Counters   map[string]int64
	FPs        []string
	Viol       map[string]*witness
	ViolCount  map[string]int64
	Samples    []any
	Incon      map[string]int
	HarnessErr string
}

func subSeed(seed int64, idx int) int64 {
	h := fnv.New64a()
	fmt.Fprintf(h, "C18|cfg|%d|%d", seed, idx)
	return int64(h.Sum64() >> 1)
}

func hash36(parts ...string) string {
	h := fnv.New64a()
	for _, p := range parts {
		h.Write([]byte(p))
		h.Write([]byte{0})
	}
	return strconv.FormatUint(h.Sum64(), 36)
}

func sizeBucket(n int) string {
	switch {
	case n == 0:
		return "0"
	case n <= 5:
		return "1-5"
	case n <= 16:
		return "6-16"
	case n <= 100:
		return "17-100"
	}
	return ">100"
}

func caseKey(cfgIdx int, plugin string) string { return fmt.Sprintf("%d/%s", cfgIdx, plugin) }

func child(raw json.RawMessage, io *core.ChildIO) (any, error) {
	var in childIn
	if err := json.Unmarshal(raw, &in); err != nil {
		return nil, err
	}
	if msg := mirrorSelfCheck(); msg != "" {
		return &childOut{HarnessErr: msg}, nil
	}
	if in.Hist || in.Sweep {
		return childHist(in, io)
	}
	out := &childOut{Counters: map[string]int64{}, Viol: map[string]*witness{}, ViolCount: map[string]int64{}, Incon: map[string]int{}}
	fps := map[string]struct{}{}
	skip := map[string]bool{}
	for _, s := range in.Skip {
		skip[s] = true
	}
	addViol := func(sig string, w *witness) {
		out.ViolCount[sig]++
		if cur, ok := out.Viol[sig]; !ok || smaller(w, cur) {
			out.Viol[sig] = w
		}
	}

	for ci := in.From; ci < in.To; ci++ {
		seedIdx := ci
		if in.Par {
			seedIdx += 1 << 20 // the parallel clause has its own configurations
		}
		c := genConfig(subSeed(in.Seed, seedIdx), ci, in.Events, in.Thorough, in.Par)

		// harness self-check: what we feed is the tree we reason about
		for ei, ev := range c.events {
			if !json.Valid([]byte(ev.bytes)) {
				out.HarnessErr = fmt.Sprintf("generator produced invalid JSON (config %d event %d): %s", ci, ei, core.Trunc(ev.bytes, 300))
				return out, nil
			}
			back, err := parseJSON(ev.bytes)
			if err != nil || !strictEqual(back, ev.tree) {
				out.HarnessErr = fmt.Sprintf("render/parse round trip failed (config %d event %d): %v", ci, ei, err)
				return out, nil
			}
		}
		if c.overlap {
			out.Counters["config.overlapping_paths"]++
		}
		if c.duplicate {
			out.Counters["config.duplicate_selectors"]++
		}
		out.Counters["config.total"]++
		out.Counters["config.selectors"] += int64(len(c.Selectors))

		// secondary oracle on the exported normaliser (localises parser defects)
		if !skip[caseKey(ci, "ParseNestedFields")] {
			io.Log(map[string]any{"config": ci, "plugin": "ParseNestedFields", "selectors": c.Selectors})
			got, err := cfg.ParseNestedFields(c.Selectors)
			out.Evals++
			out.Counters["normaliser.cases"]++
			want := refNormalise(c.paths)
			if sig, what := compareNormalised(want, got, err); sig != "" {
				addViol(sig, &witness{Config: ci, Event: -1, Plugin: "cfg.ParseNestedFields", Selectors: c.Selectors, Paths: c.paths,
					Expected: fmt.Sprint(want), Output: fmt.Sprint(got), What: what})
			} else {
				out.Counters["normaliser.equal"]++
				if len(want) < len(c.paths) {
					out.Counters["normaliser.dropped_nested_or_duplicate"]++
				}
			}
		}

		for _, plugin := range plugins {
			if skip[caseKey(ci, plugin)] {
				continue
			}
			io.Log(map[string]any{"config": ci, "plugin": plugin, "selectors": c.Selectors, "par": in.Par})
			// Event objects (and their insane-json roots/node pools) are handed out round-robin, so a small
			// pool recycles them between events of one configuration. Events are fed in waves smaller than
			// the pool and the next wave starts only after the previous one reached the output: the input
			// never has to wait for a free event (pool waiting is C04/C05 territory, not this property).
			shape := [][2]int{{2, 1}, {4, 3}, {8, 5}, {64, 60}, {256, 200}}[ci%5]
			capacity, wave := shape[0], shape[1]
			if in.Par {
				capacity, wave = 256, 200 // the sequential twin of a parallel run
			}
			out.Counters[fmt.Sprintf("pipeline.pool_%d_wave_%d", capacity, wave)]++
			rr, err := startReal(plugin, c.Selectors, capacity, false)
			if err != nil {
				addViol("plugin="+plugin+" config-rejected", &witness{Config: ci, Event: -1, Plugin: plugin, Selectors: c.Selectors, Paths: c.paths, What: "documented selectors rejected: " + err.Error()})
				continue
			}
			var ferr error
			if in.Sync {
				for ei := range c.events {
					io.Log(map[string]any{"config": ci, "plugin": plugin, "event": ei, "input": c.events[ei].bytes, "selectors": c.Selectors})
					if ferr = rr.feed(c.events, ei, ei+1, time.Minute); ferr != nil {
						break
					}
				}
			} else {
				for st := 0; st < len(c.events) && ferr == nil; st += wave {
					ferr = rr.feed(c.events, st, min(st+wave, len(c.events)), 2*time.Minute)
				}
			}
			if ferr != nil {
				out.Incon["pipeline did not deliver all events ("+plugin+")"]++
				continue // pipeline abandoned
			}
			rr.stop()

			for ei, ev := range c.events {
				got, ok := rr.out(ei)
				if !ok {
					out.Incon["event missing at output"]++
					continue
				}
				if _, dup := rr.out(-ei - 1); dup {
					addViol("plugin="+plugin+" event-delivered-twice", &witness{Config: ci, Event: ei, Plugin: plugin, Selectors: c.Selectors, Input: ev.bytes, Output: got})
				}
				var exp *node
				var outs []pathOutcome
				if plugin == "remove_fields" {
					exp, outs = refRemove(ev.tree, c.paths)
				} else {
					exp, outs = refKeep(ev.tree, c.paths)
				}
				v := judge(plugin, c.paths, ev.tree, exp, got)
				out.Evals++
				pre := plugin + "."
				out.Counters[pre+"cases"]++

				// what this case exercised
				var kinds []string
				hits := 0
				for _, o := range outs {
					out.Counters[pre+"path."+o.kind]++
					kinds = append(kinds, fmt.Sprintf("%d:%d:%s:%t:%t:%t", o.depth, o.reached, o.kind, o.dotted, o.wide, o.escaped))
					if strings.HasPrefix(o.kind, "hit-") {
						hits++
						d := o.depth
						if d > 4 {
							d = 4
						}
						out.Counters[fmt.Sprintf("%shit.depth%d", pre, d)]++
						if o.dotted {
							out.Counters[pre+"hit.dotted_name"]++
						}
						if o.escaped {
							out.Counters[pre+"hit.key_with_nonminimal_json_escape"]++
						}
						if o.wide {
							out.Counters[pre+"hit.in_object_over_16_fields"]++
						}
					}
				}
				sort.Strings(kinds)
				kinds = uniq(kinds)
				result := "partial"
				switch {
				case len(exp.keys) == 0 && len(ev.tree.keys) > 0:
					result = "emptied"
				case strictEqual(exp, ev.tree):
					result = "unchanged"
				}
				out.Counters[pre+"result."+result]++
				if ev.wsOn {
					out.Counters[pre+"input.with_whitespace"]++
				}
				if ev.tree.indexOf("") >= 0 {
					out.Counters[pre+"input.has_empty_key"]++
				}
				if len(ev.tree.keys) > 100 {
					out.Counters[pre+"input.over_100_top_fields"]++
				}
				if hits > 0 || strings.Contains(strings.Join(kinds, " "), "cross-") || (plugin == "keep_fields" && len(ev.tree.keys) > 0) {
					fps[hash36(plugin, strings.Join(kinds, ","), result, sizeBucket(len(ev.tree.keys)))] = struct{}{}
				}
				if len(v) == 0 {
					out.Counters[pre+"equal_to_reference"]++
					if len(out.Samples) < 3 && hits > 0 && ei > 2 {
						out.Samples = append(out.Samples, map[string]any{"plugin": plugin, "selectors": c.Selectors, "input": core.Trunc(ev.bytes, 400), "output": core.Trunc(got, 400)})
					}
					continue
				}
				contentOK := true
				for _, f := range v {
					if !strings.Contains(f.signature, "diff=survivor-key-order") {
						contentOK = false
					}
				}
				if contentOK {
					out.Counters[pre+"equal_to_reference_ignoring_key_order_only"]++
				}
				for _, f := range v {
					addViol(f.signature, &witness{Config: ci, Event: ei, Plugin: plugin, Selectors: c.Selectors, Paths: c.paths,
						Input: ev.bytes, Output: got, Expected: exp.String(), What: f.what})
				}
			}

			if !in.Par {
				continue
			}
			// ---- parallel clause: same selectors, same events, GOMAXPROCS*2 processors (each with its own
			// plugin instance started from the same config pointer), several feeders and source ids. Every
			// output must be byte-identical to what the single-processor pipeline produced for that event.
			io.Log(map[string]any{"config": ci, "plugin": plugin, "selectors": c.Selectors, "par": true, "phase": "parallel"})
			pr, err := startReal(plugin, c.Selectors, 512, true)
			if err != nil {
				addViol("plugin="+plugin+" config-rejected", &witness{Config: ci, Event: -1, Plugin: plugin, Selectors: c.Selectors, What: err.Error()})
				continue
			}
			if perr := pr.feedParallel(c.events, 4, 12, 2*time.Minute); perr != nil {
				out.Incon["parallel pipeline did not deliver all events ("+plugin+")"]++
				continue
			}
			pr.stop()
			ppre := "parallel." + plugin + "."
			out.Counters[ppre+"pipelines"]++
			out.Counters[fmt.Sprintf("%spipelines_with_%02d_working_processors", ppre, pr.probe.arrived.Load())]++
			if pr.probe.maxSeen.Load() >= 2 {
				out.Counters[ppre+"pipelines_with_overlapping_Do"]++
			}
			out.Counters[ppre+"events_entering_while_another_processor_was_inside"] += pr.probe.overlap.Load()
			if m := pr.probe.maxSeen.Load(); m > out.Counters["max:"+ppre+"processors_inside_at_once"] {
				out.Counters["max:"+ppre+"processors_inside_at_once"] = m
			}
			for ei, ev := range c.events {
				seq, ok1 := rr.out(ei)
				par, ok2 := pr.out(ei)
				if !ok1 || !ok2 {
					out.Incon["event missing at output (parallel clause)"]++
					continue
				}
				out.Evals++
				out.Counters[ppre+"cases"]++
				if _, dup := pr.out(-ei - 1); dup {
					addViol("plugin="+plugin+" parallel: event-delivered-twice", &witness{Config: ci, Event: ei, Plugin: plugin, Selectors: c.Selectors, Input: ev.bytes, Output: par})
				}
				if seq == par {
					out.Counters[ppre+"identical_to_sequential"]++
					if seq != ev.bytes {
						fps[hash36("par", plugin, hash36(seq))] = struct{}{}
					}
					continue
				}
				// classify against the reference with the same oracle
				var exp *node
				if plugin == "remove_fields" {
					exp, _ = refRemove(ev.tree, c.paths)
				} else {
					exp, _ = refKeep(ev.tree, c.paths)
				}
				class := "spelling-only"
				what := "same JSON value, other bytes"
				for _, f := range judge(plugin, c.paths, ev.tree, exp, par) {
					if sf := judge(plugin, c.paths, ev.tree, exp, seq); !hasSig(sf, f.signature) {
						class = strings.TrimPrefix(f.signature, "plugin="+plugin+" ")
						what = f.what
						break
					}
				}
				if class == "spelling-only" {
					if ps, e1 := parseJSON(par); e1 == nil {
						if ss, e2 := parseJSON(seq); e2 == nil && !strictEqual(ps, ss) {
							class, what = "other-value-same-class", "outputs differ in value but fall in the same difference classes"
						}
					}
				}
				out.Counters[ppre+"differs_from_sequential: "+class]++
				addViol("plugin="+plugin+" parallel-output-differs-from-sequential",
					&witness{Config: ci, Event: ei, Plugin: plugin, Selectors: c.Selectors, Paths: c.paths, Input: ev.bytes, Output: par, Expected: seq,
						What: fmt.Sprintf("with %d processors (one plugin instance each, all started from the same config pointer) the event came out differently than from the single-processor pipeline (expected = sequential output): %s: %s", len(pr.p.Procs), class, what)})
			}
		}
	}
	for fp := range fps {
		out.FPs = append(out.FPs, fp)
	}
	sort.Strings(out.FPs)
	return out, nil
}

// smaller orders witnesses: shortest input first, then lowest indexes (deterministic choice).
func smaller(a, b *witness) bool {
	la, lb := len(a.Input)+len(strings.Join(a.Selectors, ",")), len(b.Input)+len(strings.Join(b.Selectors, ","))
	if la != lb {
		return la < lb
	}
	if a.Config != b.Config {
		return a.Config < b.Config
	}
	return a.Event < b.Event
}

func hasSig(fs []finding, sig string) bool {
	for _, f := range fs {
		if f.signature == sig {
			return true
		}
	}
	return false
}

func uniq(s []string) []string {
	var o []string
	for i, x := range s {
		if i == 0 || x != s[i-1] {
			o = append(o, x)
		}
	}
	return o
}

// compareNormalised compares path sets (order is not part of the contract).
func compareNormalised(want, got [][]string, err error) (sig, what string) {
	if err != nil {
		return "cfg.ParseNestedFields error-on-documented-selectors", err.Error()
	}
	key := func(p []string) string {
		b, _ := json.Marshal(p)
		return string(b)
	}
	w := map[string]bool{}
	for _, p := range want {
		w[key(p)] = true
	}
	g := map[string]bool{}
	for _, p := range got {
		if g[key(p)] {
			return "cfg.ParseNestedFields diff=duplicate-kept", "path listed twice after normalisation: " + key(p)
		}
		g[key(p)] = true
	}
	for k := range w {
		if !g[k] {
			// a path with the same number of components but other names => splitting/escaping
			return "cfg.ParseNestedFields diff=path-missing-or-split-differently", "expected path " + k + " not in parsed set"
		}
	}
	for k := range g {
		if !w[k] {
			return "cfg.ParseNestedFields diff=extra-path", "unexpected path " + k + " in parsed set"
		}
	}
	return "", ""
}

func main() {
	core.RegisterChild("c18", child)
	core.Main("C18", "exploration", run)
}

type merged struct {
	evals     int64
	counters  map[string]int64
	viol      map[string]*witness
	violCount map[string]int64
}

func run(c *core.Ctx) {
	c.SetRule("one case = (plugin, selector set, event). A configuration is a key vocabulary (plain, dotted, unicode, numeric, JSON-escaped, 300-byte names), " +
		"1-6 selectors (sometimes 10-60) rendered with the documented `\\.` escaping incl. descendants/ancestors/duplicates/other-split twins of each other and numeric components, " +
		"and N events (depth<=6, 0-140 fields per object, arrays, scalars of every type and raw spelling, non-minimal key escapes, optional whitespace) of which ~70% have some of the paths planted " +
		"(also through arrays/scalars, or with the leaf missing); all events of a configuration pass through ONE instance of each real plugin in a real single-processor pipeline. " +
		"Parallel clause: further configurations (120-150 events, 35% with 17-86 top-level fields) run through a single-processor pipeline AND a pipeline with GOMAXPROCS*2=12 processors (one plugin instance each, same config pointer), fed by 4 goroutines over 12 source ids, processors released together once everything is queued; each parallel output must be byte-identical to the sequential one; probe actions around the plugin count overlapping Do calls. " +
		"History clause: the event reaching the plugin is not freshly decoded. Random family: configurations of the same kind with 1-4 earlier steps in the same real pipeline (real remove_fields, keep_fields, rename, modify, set_time, add_host, json_decode, flatten, move, json_encode actions working on relatives of the configured paths, and a harness action applying a per-event script of 1-25 insane-json mutations - delete / add / re-type / rename / touch, top level and nested, bursts of k deletions inside one nested object plus deletions in its parent); a recording action right in front of the plugin under test encodes the event, and the output must equal the reference selection applied to THAT JSON. Sweep: fixed shape, counts walked exhaustively - k=0..4 deletions inside a nested object X x j=0..4 unwanted siblings in front of X x 0..2 kept siblings in front x kept/unwanted fields behind x p=0..2 earlier deletions in X's parent x X keeping 0..2 own fields x parent <=16 / >16 fields, for the parent at depth 0,1,2, five kinds of history (remove_fields, keep_fields, remove_fields twice, rename, direct mutations with/without a Dig of X) and four set-ups of the plugin under test (keep dropping X, keep keeping part of X, remove with X last / first). Twin oracle: the recorded JSON, freshly decoded, through the plugin alone must give the same tree (key order included) as the event with history. " +
		"non-trivial = at least one selector addresses or crosses something (or keep_fields on a non-empty event); distinct = distinct (plugin, multiset of per-path outcome {depth, matched components, hit type/absent/crossing kind, dotted name, wide object}, result class, top-level size bucket)")
	c.Assume("events are JSON objects with unique (decoded) keys and valid UTF-8; selector names are non-empty and have no backslash before a dot or at their end (not expressible with the documented escaping)")
	c.Assume("history clause: insane-json's Encode of the event right before the plugin under test shows the event as that plugin sees it (events for which that JSON has duplicate keys or is not an object are outside the quantifier and not judged); the earlier actions themselves are not judged")
	c.Assume("the pipeline itself (json decoder, fake input, devnull output, stream field absent) passes an event through unchanged apart from whitespace and key re-escaping; keys are compared decoded, values by raw bytes")

	type job struct {
		from, to, events, procs int
		par, hist, sweep        bool
	}
	var jobs []job
	split := func(configs, chunks, events, procs int, par bool) {
		per := (configs + chunks - 1) / chunks
		for from := 0; from < configs; from += per {
			jobs = append(jobs, job{from: from, to: min(from+per, configs), events: events, procs: procs, par: par})
		}
	}
	// history clause first (its sweep chunks are the longest single jobs): random histories, then the sweep
	split(c.N(histQuick, histThorough), c.N(16, 96), c.N(32, 40), 4, false)
	for i := range jobs {
		jobs[i].hist = true
	}
	histJobs := len(jobs)
	split(sweepConfigs, 12, 0, 4, false)
	for i := histJobs; i < len(jobs); i++ {
		jobs[i].sweep = true
	}
	// sequential clause: one processor, one plugin instance per configuration
	split(c.N(6000, 40000), c.N(48, 320), c.N(25, 60), 4, false)
	seqJobs := len(jobs)
	// parallel clause: own configurations, more events each, GOMAXPROCS 6 => 12 processors per pipeline
	split(c.N(640, 6400), c.N(32, 160), c.N(120, 150), 6, true)

	m := &merged{counters: map[string]int64{}, viol: map[string]*witness{}, violCount: map[string]int64{}}
	type chunkRes struct {
		outs   []*childOut
		crashV []crashViolation
	}
	results := make([]chunkRes, len(jobs))

	runJob := func(ch int) {
		j := jobs[ch]
		from, to, events := j.from, j.to, j.events
		opt := core.ChildOpt{Timeout: 20 * time.Minute, GOMAXPROCS: j.procs}
		var skip []string
		for from < to {
			in := childIn{Seed: c.Seed, Thorough: c.Thorough(), From: from, To: to, Events: events, Skip: skip, Par: j.par, Hist: j.hist, Sweep: j.sweep}
			res := core.RunChild("c18", in, opt)
			if res.Completed {
				var o childOut
				if err := json.Unmarshal(res.Out, &o); err != nil {
					c.Fatal("cannot decode child output: %v", err)
					return
				}
				results[ch].outs = append(results[ch].outs, &o)
				return
			}
			if res.TimedOut {
				c.Inconclusive("child watchdog")
				return
			}
			// crash: attribute to the last logged configuration/plugin, confirm alone
			var last struct {
				Config int
				Plugin string
			}
			if res.LastLog() == nil || json.Unmarshal(res.LastLog(), &last) != nil {
				c.Inconclusive("child crashed before any command")
				return
			}
			cin := childIn{Seed: c.Seed, Thorough: c.Thorough(), From: last.Config, To: last.Config + 1, Events: events, Sync: !j.par, Par: j.par, Hist: j.hist, Sweep: j.sweep}
			for _, p := range append([]string{"ParseNestedFields"}, plugins...) {
				if p != last.Plugin {
					cin.Skip = append(cin.Skip, caseKey(last.Config, p))
				}
			}
			conf := core.RunChild("c18", cin, opt)
			if conf.Crashed() && (j.hist || j.sweep) && !stackInCodeUnderTest(conf.Stderr) {
				// an earlier action of the history (or insane-json under it) died; keep_fields / remove_fields
				// are nowhere on the stack: not a matter of this property, the configuration is not judged
				msg, site := core.PanicSite(conf.Stderr)
				if i := strings.LastIndex(site, ":"); i > 0 {
					site = site[:i]
				}
				c.Inconclusive("history clause: an action in front of the plugin under test crashed, configuration not judged (" + core.NormalizeMsg(msg) + "@" + site + ")")
			} else if conf.Crashed() {
				msg, site := core.PanicSite(conf.Stderr)
				if i := strings.LastIndex(site, ":"); i > 0 {
					site = site[:i] // drop the line number
				}
				var lg struct {
					Level, Message string
				}
				if strings.HasPrefix(msg, "{") && json.Unmarshal([]byte(msg), &lg) == nil && lg.Message != "" {
					msg = lg.Level + ": " + lg.Message
				}
				if msg == "" {
					msg = fmt.Sprintf("process exit code %d without panic message", conf.ExitCode)
				}
				results[ch].crashV = append(results[ch].crashV, crashViolation{
					sig:  "plugin=" + last.Plugin + parTag(j.par) + histTag(j.hist || j.sweep) + " crash=" + core.NormalizeMsg(msg) + "@" + site,
					what: "process died inside " + last.Plugin + map[bool]string{true: " (or in an action in front of it; see the stack)"}[j.hist || j.sweep] + ": " + msg,
					wit:  map[string]any{"config": last.Config, "plugin": last.Plugin, "last_command": conf.LastLog(), "stderr": core.Trunc(conf.Stderr, 3000)},
					cfg:  last.Config,
				})
			} else {
				c.Inconclusive("crash not reproduced alone")
			}
			// results of the configurations before the crash are lost: redo [from,last) cheaply is not
			// possible without the crash, so resume from the crashed configuration with it skipped
			if last.Config > from {
				pre := core.RunChild("c18", childIn{Seed: c.Seed, Thorough: c.Thorough(), From: from, To: last.Config, Events: events, Skip: skip, Par: j.par, Hist: j.hist, Sweep: j.sweep}, opt)
				if pre.Completed {
					var o childOut
					if json.Unmarshal(pre.Out, &o) == nil {
						results[ch].outs = append(results[ch].outs, &o)
					}
				} else {
					c.Inconclusive("prefix of a crashed chunk did not complete")
				}
			}
			skip = append(skip, caseKey(last.Config, last.Plugin))
			from = last.Config
			if len(skip) > 10 {
				c.Inconclusive("too many crashes in one chunk")
				return
			}
		}
	}
	if only := os.Getenv("C18_ONLY"); only != "" { // development aid: time one clause alone (the evidence floors then fail => exit 2)
		for i := range jobs {
			j := &jobs[i]
			kind := map[bool]string{true: "par"}[j.par] + map[bool]string{true: "hist"}[j.hist] + map[bool]string{true: "sweep"}[j.sweep]
			if kind == "" {
				kind = "seq"
			}
			if (only == "nohist") == (kind == "hist" || kind == "sweep") || (only != "nohist" && kind != only) {
				j.to = j.from
			}
		}
	}
	core.ParallelFor(seqJobs, 16, runJob)
	core.ParallelFor(len(jobs)-seqJobs, 8, func(i int) { runJob(seqJobs + i) }) // 8 x GOMAXPROCS 6: real parallelism inside each child

	var crashes []crashViolation
	for _, r := range results {
		crashes = append(crashes, r.crashV...)
		for _, o := range r.outs {
			if o.HarnessErr != "" {
				c.Fatal("harness self-check failed: %s", o.HarnessErr)
			}
			m.evals += o.Evals
			for k, v := range o.Counters {
				if strings.HasPrefix(k, "max:") {
					m.counters[k] = max(m.counters[k], v)
				} else {
					m.counters[k] += v
				}
			}
			for _, fp := range o.FPs {
				c.Nontrivial(fp)
			}
			for r, n := range o.Incon {
				for i := 0; i < n; i++ {
					c.Inconclusive(r)
				}
			}
			for sig, w := range o.Viol {
				m.violCount[sig] += o.ViolCount[sig]
				if cur, ok := m.viol[sig]; !ok || smaller(w, cur) {
					m.viol[sig] = w
				}
			}
			for _, s := range o.Samples {
				c.Sample(s)
			}
		}
	}
	c.Eval(int(m.evals))
	for k, v := range m.counters {
		c.Count(k, v)
	}

	// report: one call per signature, witness = the case with the lowest index
	sort.Slice(crashes, func(i, j int) bool { return crashes[i].cfg < crashes[j].cfg })
	crashSeen := map[string]int{}
	for _, cv := range crashes {
		crashSeen[cv.sig]++
	}
	for _, cv := range crashes {
		if n := crashSeen[cv.sig]; n > 0 {
			crashSeen[cv.sig] = 0
			c.Count("crashed: "+cv.sig, int64(n))
			c.Violation(cv.sig, cv.what, cv.wit)
		}
	}
	sigs := make([]string, 0, len(m.viol))
	for s := range m.viol {
		sigs = append(sigs, s)
	}
	sort.Strings(sigs)
	for _, s := range sigs {
		w := m.viol[s]
		w.Count = m.violCount[s]
		c.Count("differs: "+s, m.violCount[s])
		c.Violation(s, w.What, w)
	}

	// evidence floors: a run that never saw a behaviour class decides nothing about it
	need := []string{"config.overlapping_paths", "config.duplicate_selectors", "normaliser.equal", "normaliser.dropped_nested_or_duplicate"}
	for _, p := range plugins {
		for _, k := range []string{"cases", "equal_to_reference", "hit.depth1", "hit.depth2", "hit.depth3", "hit.depth4", "hit.dotted_name", "hit.in_object_over_16_fields", "hit.key_with_nonminimal_json_escape", "input.has_empty_key",
			"path.hit-scalar", "path.hit-object", "path.hit-array", "path.absent-root", "path.absent-mid", "path.absent-leaf",
			"path.cross-array", "path.cross-array-numeric", "path.cross-scalar",
			"result.unchanged", "result.partial", "result.emptied", "input.with_whitespace", "input.over_100_top_fields"} {
			need = append(need, p+"."+k)
		}
	}
	for _, p := range plugins {
		need = append(need, "parallel."+p+".cases", "parallel."+p+".identical_to_sequential", "parallel."+p+".pipelines_with_overlapping_Do")
		if ov, n := m.counters["parallel."+p+".events_entering_while_another_processor_was_inside"], m.counters["parallel."+p+".cases"]; n > 0 && ov*100 < n {
			c.Inconclusive("parallel clause: fewer than 1% of the events of " + p + " overlapped with another processor")
		}
	}
	// history clause: every kind of history step, both plugins judged on events that really differ from
	// what was fed, the twin oracle at work, and every (k, j) cell of the sweep
	for _, k := range []string{"remove_fields", "keep_fields", "mutate", "rename", "modify", "set_time", "add_host", "json_decode", "flatten", "move", "json_encode"} {
		need = append(need, "history.step."+k)
	}
	for _, h := range sweepHist {
		need = append(need, "sweep.step.sweep:"+h)
	}
	for _, p := range plugins {
		for _, cl := range []string{"history", "sweep"} {
			for _, k := range []string{"cases", "equal_to_reference", "input.changed_by_history", "twin.same_as_fresh_decode", "result.partial", "result.emptied", "path.hit-object", "path.hit-scalar"} {
				need = append(need, cl+"."+p+"."+k)
			}
		}
		need = append(need, "history."+p+".path.hit-array", "history."+p+".path.absent-leaf", "history."+p+".path.cross-scalar", "history."+p+".result.unchanged")
		for k := 0; k <= 4; k++ {
			for j := 0; j <= 4; j++ {
				need = append(need, fmt.Sprintf("sweep.%s.k%d_j%d", p, k, j))
			}
		}
	}
	for _, k := range need {
		if m.counters[k] == 0 {
			c.Fatal("behaviour class never observed: %s", k)
		}
	}
}

// stackInCodeUnderTest: some frame of the crashed goroutine dump belongs to the two plugins or to cfg.
func stackInCodeUnderTest(stderr string) bool {
	for _, pkg := range []string{"file.d/plugin/action/keep_fields.", "file.d/plugin/action/remove_fields.", "file.d/cfg."} {
		if strings.Contains(stderr, pkg) {
			return true
		}
	}
	return false
}

func histTag(h bool) string {
	if h {
		return " after-history:"
	}
	return ""
}

func parTag(par bool) string {
	if par {
		return " parallel:"
	}
	return ""
}

type crashViolation struct {
	sig, what string
	wit       any
	cfg       int
}
