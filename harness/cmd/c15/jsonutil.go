package main

// A small, strict JSON reader written for the oracle (independent of
// insane-json and of encoding/json's lossy handling of invalid UTF-8):
// it splits a top-level object into raw member values and unescapes string
// literals byte-exactly.

import (
	"bytes"
	"encoding/json"
	"errors"
	"fmt"
	"sort"
	"unicode/utf16"
	"unicode/utf8"
)

type rawMember struct {
	Key string
	Raw string // raw value text
}

type jscan struct {
	s string
	i int
}

func (p *jscan) ws() {
	for p.i < len(p.s) {
		switch p.s[p.i] {
		case ' ', '\t', '\n', '\r':
			p.i++
		default:
			return
		}
	}
}

var errJSON = errors.New("invalid JSON")

// skipString: p.i at the opening quote; returns the raw literal incl. quotes.
func (p *jscan) skipString() (string, error) {
	st := p.i
	if p.i >= len(p.s) || p.s[p.i] != '"' {
		return "", errJSON
	}
	p.i++
	for p.i < len(p.s) {
		c := p.s[p.i]
		switch {
		case c == '"':
			p.i++
			return p.s[st:p.i], nil
		case c == '\\':
			p.i += 2
		case c < 0x20:
			return "", fmt.Errorf("%w: raw control character 0x%02x inside a string", errJSON, c)
		default:
			p.i++
		}
	}
	return "", fmt.Errorf("%w: unterminated string", errJSON)
}

func (p *jscan) skipValue(depth int) error {
	if depth > 200 {
		return errJSON
	}
	p.ws()
	if p.i >= len(p.s) {
		return errJSON
	}
	switch c := p.s[p.i]; {
	case c == '"':
		_, err := p.skipString()
		return err
	case c == '{':
		p.i++
		p.ws()
		if p.i < len(p.s) && p.s[p.i] == '}' {
			p.i++
			return nil
		}
		for {
			p.ws()
			if _, err := p.skipString(); err != nil {
				return err
			}
			p.ws()
			if p.i >= len(p.s) || p.s[p.i] != ':' {
				return errJSON
			}
			p.i++
			if err := p.skipValue(depth + 1); err != nil {
				return err
			}
			p.ws()
			if p.i >= len(p.s) {
				return errJSON
			}
			if p.s[p.i] == ',' {
				p.i++
				continue
			}
			if p.s[p.i] == '}' {
				p.i++
				return nil
			}
			return errJSON
		}
	case c == '[':
		p.i++
		p.ws()
		if p.i < len(p.s) && p.s[p.i] == ']' {
			p.i++
			return nil
		}
		for {
			if err := p.skipValue(depth + 1); err != nil {
				return err
			}
			p.ws()
			if p.i >= len(p.s) {
				return errJSON
			}
			if p.s[p.i] == ',' {
				p.i++
				continue
			}
			if p.s[p.i] == ']' {
				p.i++
				return nil
			}
			return errJSON
		}
	default:
		st := p.i
		for p.i < len(p.s) {
			c := p.s[p.i]
			if c == ',' || c == '}' || c == ']' || c == ' ' || c == '\t' || c == '\n' || c == '\r' {
				break
			}
			p.i++
		}
		lit := p.s[st:p.i]
		if lit == "true" || lit == "false" || lit == "null" {
			return nil
		}
		if lit == "" || !json.Valid([]byte(lit)) {
			return errJSON
		}
		return nil
	}
}

// splitObject returns the members of a top-level JSON object with their raw
// value text, in document order.
func splitObject(s string) ([]rawMember, error) {
	p := &jscan{s: s}
	p.ws()
	if p.i >= len(s) || s[p.i] != '{' {
		return nil, fmt.Errorf("%w: not an object", errJSON)
	}
	p.i++
	var out []rawMember
	p.ws()
	if p.i < len(s) && s[p.i] == '}' {
		p.i++
	} else {
		for {
			p.ws()
			klit, err := p.skipString()
			if err != nil {
				return nil, err
			}
			k, err := unescapeJSONString(klit)
			if err != nil {
				return nil, err
			}
			p.ws()
			if p.i >= len(s) || s[p.i] != ':' {
				return nil, errJSON
			}
			p.i++
			p.ws()
			st := p.i
			if err := p.skipValue(1); err != nil {
				return nil, err
			}
			out = append(out, rawMember{Key: k, Raw: s[st:p.i]})
			p.ws()
			if p.i >= len(s) {
				return nil, errJSON
			}
			if s[p.i] == ',' {
				p.i++
				continue
			}
			if s[p.i] == '}' {
				p.i++
				break
			}
			return nil, errJSON
		}
	}
	p.ws()
	if p.i != len(s) {
		return nil, fmt.Errorf("%w: trailing bytes", errJSON)
	}
	return out, nil
}

func hexv(c byte) int {
	switch {
	case c >= '0' && c <= '9':
		return int(c - '0')
	case c >= 'a' && c <= 'f':
		return int(c-'a') + 10
	case c >= 'A' && c <= 'F':
		return int(c-'A') + 10
	}
	return -1
}

// unescapeJSONString decodes a JSON string literal (with quotes) byte-exactly:
// bytes that are not part of an escape sequence are copied as they are (also
// invalid UTF-8), escape sequences must be well formed.
func unescapeJSONString(lit string) (string, error) {
	if len(lit) < 2 || lit[0] != '"' || lit[len(lit)-1] != '"' {
		return "", fmt.Errorf("%w: not a string literal", errJSON)
	}
	s := lit[1 : len(lit)-1]
	var b bytes.Buffer
	for i := 0; i < len(s); {
		c := s[i]
		if c == '"' {
			return "", fmt.Errorf("%w: unescaped quote inside a string", errJSON)
		}
		if c < 0x20 {
			return "", fmt.Errorf("%w: raw control character inside a string", errJSON)
		}
		if c != '\\' {
			b.WriteByte(c)
			i++
			continue
		}
		if i+1 >= len(s) {
			return "", fmt.Errorf("%w: dangling backslash", errJSON)
		}
		switch s[i+1] {
		case '"', '\\', '/':
			b.WriteByte(s[i+1])
			i += 2
		case 'b':
			b.WriteByte('\b')
			i += 2
		case 'f':
			b.WriteByte('\f')
			i += 2
		case 'n':
			b.WriteByte('\n')
			i += 2
		case 'r':
			b.WriteByte('\r')
			i += 2
		case 't':
			b.WriteByte('\t')
			i += 2
		case 'u':
			rd := func(at int) (rune, bool) {
				if at+6 > len(s) || s[at] != '\\' || s[at+1] != 'u' {
					return 0, false
				}
				v := 0
				for k := 2; k < 6; k++ {
					h := hexv(s[at+k])
					if h < 0 {
						return 0, false
					}
					v = v<<4 | h
				}
				return rune(v), true
			}
			r, ok := rd(i)
			if !ok {
				return "", fmt.Errorf("%w: malformed \\u escape", errJSON)
			}
			i += 6
			if utf16.IsSurrogate(r) {
				if r2, ok2 := rd(i); ok2 {
					if d := utf16.DecodeRune(r, r2); d != utf8.RuneError {
						r = d
						i += 6
					} else {
						r = utf8.RuneError
					}
				} else {
					r = utf8.RuneError
				}
			}
			b.WriteRune(r)
		default:
			return "", fmt.Errorf("%w: unknown escape \\%c", errJSON, s[i+1])
		}
	}
	return b.String(), nil
}

// canonValue: canonical semantic form of a raw JSON value (object keys
// sorted, strings decoded, numbers as written).
func canonValue(raw string) (string, error) {
	dec := json.NewDecoder(bytes.NewReader([]byte(raw)))
	dec.UseNumber()
	var v any
	if err := dec.Decode(&v); err != nil {
		return "", err
	}
	var b bytes.Buffer
	canonWrite(&b, v)
	return b.String(), nil
}

func canonWrite(b *bytes.Buffer, v any) {
	switch x := v.(type) {
	case map[string]any:
		keys := make([]string, 0, len(x))
		for k := range x {
			keys = append(keys, k)
		}
		sort.Strings(keys)
		b.WriteByte('{')
		for i, k := range keys {
			if i > 0 {
				b.WriteByte(',')
			}
			fmt.Fprintf(b, "%q:", k)
			canonWrite(b, x[k])
		}
		b.WriteByte('}')
	case []any:
		b.WriteByte('[')
		for i, e := range x {
			if i > 0 {
				b.WriteByte(',')
			}
			canonWrite(b, e)
		}
		b.WriteByte(']')
	case string:
		fmt.Fprintf(b, "%q", x)
	case json.Number:
		b.WriteString(x.String())
	case nil:
		b.WriteString("null")
	default:
		fmt.Fprintf(b, "%v", x)
	}
}

// jsonEscapeLen is the length of s as a JSON string literal body in the most
// compact standard escaping (short escapes, \u00XX for other controls).
func jsonEscapeLen(s string) int {
	n := 0
	for i := 0; i < len(s); i++ {
		switch c := s[i]; {
		case c == '"' || c == '\\' || c == '\n' || c == '\r' || c == '\t':
			n += 2
		case c < 0x20:
			n += 6
		default:
			n++
		}
	}
	return n
}
