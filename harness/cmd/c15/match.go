package main

// Match conditions on the join / join_template action itself.
//
// The pipeline README: an action with `match_fields` (modes and / or /
// and_prefix / or_prefix, optional `match_invert`) or `do_if` is executed only
// for the events that satisfy the conditions; all other events skip the
// action. The events of a case carry two extra string members, `svc` and
// `lvl` (each may be absent); the generator decides per event whether it shall
// satisfy the conditions and draws member values until matchOf - the
// reference reading of the configured conditions, written from the README -
// agrees.

import (
	"math/rand"
	"regexp"
	"strings"
)

var matchModes = []string{"and", "or", "and_prefix", "or_prefix", "regex", "invert", "do_if"}

// addMatch adds the conditions of cs.Match to the action config.
func addMatch(cs *Case, a map[string]any) {
	switch cs.Match {
	case "and":
		a["match_fields"] = map[string]any{"svc": "a", "lvl": []any{"x", "y"}}
		a["match_mode"] = "and"
	case "or":
		a["match_fields"] = map[string]any{"svc": "a", "lvl": "x"}
		a["match_mode"] = "or"
	case "and_prefix":
		a["match_fields"] = map[string]any{"svc": "a", "lvl": []any{"x", "y"}}
		a["match_mode"] = "and_prefix"
	case "or_prefix":
		a["match_fields"] = map[string]any{"svc": "a", "lvl": "x"}
		a["match_mode"] = "or_prefix"
	case "regex":
		a["match_fields"] = map[string]any{"svc": "/^a+$/"}
	case "invert":
		a["match_fields"] = map[string]any{"svc": "b"}
		a["match_invert"] = true
	case "do_if":
		a["do_if"] = map[string]any{"op": "or", "operands": []any{
			map[string]any{"op": "equal", "field": "svc", "values": []any{"a"}},
			map[string]any{"op": "prefix", "field": "lvl", "values": []any{"x"}},
		}}
	}
}

var reAPlus = regexp.MustCompile(`^a+$`)

// matchOf: does an event with these members satisfy the conditions of mode?
func matchOf(mode string, hasSvc bool, svc string, hasLvl bool, lvl string) bool {
	in := func(s string, vs ...string) bool {
		for _, v := range vs {
			if s == v {
				return true
			}
		}
		return false
	}
	pre := func(s string, vs ...string) bool {
		for _, v := range vs {
			if strings.HasPrefix(s, v) {
				return true
			}
		}
		return false
	}
	switch mode {
	case "and":
		return hasSvc && svc == "a" && hasLvl && in(lvl, "x", "y")
	case "or":
		return (hasSvc && svc == "a") || (hasLvl && lvl == "x")
	case "and_prefix":
		return hasSvc && pre(svc, "a") && hasLvl && pre(lvl, "x", "y")
	case "or_prefix":
		return (hasSvc && pre(svc, "a")) || (hasLvl && pre(lvl, "x"))
	case "regex":
		return hasSvc && reAPlus.MatchString(svc)
	case "invert":
		return !(hasSvc && svc == "b")
	case "do_if":
		return (hasSvc && svc == "a") || (hasLvl && pre(lvl, "x"))
	}
	return true
}

var (
	svcVals = []string{"a", "a", "a", "b", "b", "aa", "a1", "ab", "ba", "c", "A"}
	lvlVals = []string{"x", "x", "y", "z", "z", "x9", "yy", "w", "X"}
)

// drawMatchMembers sets Svc/Lvl of the line so that matchOf == !ln.NoMatch.
func drawMatchMembers(cs *Case, rng *rand.Rand, ln *Line) {
	for try := 0; ; try++ {
		ln.HasSvc, ln.HasLvl = rng.Intn(6) != 0, rng.Intn(6) != 0
		ln.Svc, ln.Lvl = "", ""
		if ln.HasSvc {
			ln.Svc = svcVals[rng.Intn(len(svcVals))]
		}
		if ln.HasLvl {
			ln.Lvl = lvlVals[rng.Intn(len(lvlVals))]
		}
		if matchOf(cs.Match, ln.HasSvc, ln.Svc, ln.HasLvl, ln.Lvl) == !ln.NoMatch {
			return
		}
		if try > 10000 {
			panic("generator: cannot realise match=" + cs.Match)
		}
	}
}

// ---------------------------------------------------------------------------
// run shapes: successive runs whose joined lengths fit the buffer that earlier
// runs of the same processor left behind (equal lengths; a long run followed by
// shorter ones), ended in turn by the next start line and by another event.
// ---------------------------------------------------------------------------

type shaper struct {
	on    bool
	rng   *rand.Rand
	plan  []int // nominal classes still to come
	free  int   // lines that keep the class that was drawn
	runNo int
	k     int
	l     int
	saw   bool
}

func newShaper(cs *Case, rng *rand.Rand) *shaper {
	s := &shaper{on: cs.RunShape != "", rng: rng, l: cs.ShapeLen}
	if s.on {
		s.k = 1 + rng.Intn(4)
		if cs.RunShape == "saw" {
			s.saw = true
			s.k = 4 + rng.Intn(4)
		}
	}
	return s
}

func (s *shaper) class(drawn int) int {
	if !s.on {
		return drawn
	}
	if len(s.plan) == 0 {
		if s.free > 0 {
			s.free--
			return drawn
		}
		if s.rng.Intn(5) == 0 {
			s.free = s.rng.Intn(5)
			return drawn
		}
		k := s.k
		if s.saw {
			// a long run, then shorter and shorter ones (the last one is a lone start line)
			k = s.k - (s.runNo%5)*s.k/4
		}
		s.runNo++
		s.plan = append(s.plan, 0)
		for i := 0; i < k; i++ {
			s.plan = append(s.plan, 1)
		}
		switch s.rng.Intn(4) {
		case 0:
			s.plan = append(s.plan, 2) // ended by another event
		case 1:
			s.plan = append(s.plan, 3) // ended by an event without the field
		}
	}
	c := s.plan[0]
	s.plan = s.plan[1:]
	return c
}

// value pads a tagged value to the case's length with a filler letter of its own.
func (s *shaper) value(cs *Case, v string, class, i int) string {
	if !s.on || !strings.Contains(v, "⟦") || len(v) >= s.l {
		return v
	}
	nl := strings.HasSuffix(v, "\n")
	v = strings.TrimSuffix(v, "\n")
	n := s.l - len(v)
	if nl {
		n--
	}
	v += strings.Repeat(string(rune('a'+i%26)), n)
	if nl {
		v += "\n"
	}
	return v
}
