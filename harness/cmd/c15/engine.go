package main

import (
	"encoding/json"
	"fmt"
	"math/rand"
	"sort"
	"strings"
	"sync"
	"sync/atomic"
	"time"

	simplejson "github.com/bitly/go-simplejson"
	"github.com/ozontech/file.d/fd"
	"github.com/ozontech/file.d/pipeline"
	"github.com/ozontech/file.d/pipeline/metadata"
	"github.com/ozontech/file.d/plugin/action/join_template/template"
	k8s "github.com/ozontech/file.d/plugin/input/k8s"
	"github.com/ozontech/file.d/verifhook"
	"github.com/prometheus/client_golang/prometheus"
	"go.uber.org/zap"

	"verifharness/core"

	_ "github.com/ozontech/file.d/plugin/action/discard"
	_ "github.com/ozontech/file.d/plugin/action/join"
	_ "github.com/ozontech/file.d/plugin/action/join_template"
	_ "github.com/ozontech/file.d/plugin/action/modify"
)

// ---------------- monitoring plugins (boundary only) ----------------

type engine struct {
	cs   *Case
	t0   time.Time
	ctl  pipeline.InputPluginController
	mu   sync.Mutex
	outs []*OutRec
	ids  map[string]int // join kinds: output count per event id (for pause waits)

	out     *monOutput
	held    []heldEv // events the output has not let go of yet
	lastOut time.Time

	commits atomic.Int64
}

func (e *engine) now() int64 { return int64(time.Since(e.t0)) }

type monInput struct{ eng *engine }

func (m *monInput) Start(_ pipeline.AnyConfig, params *pipeline.InputPluginParams) {
	m.eng.ctl = params.Controller
}
func (m *monInput) Stop()                          {}
func (m *monInput) Commit(*pipeline.Event)         { m.eng.commits.Add(1) }
func (m *monInput) PassEvent(*pipeline.Event) bool { return true }

type monOutput struct {
	eng *engine
	ctl pipeline.OutputPluginController
}

// heldEv: an event the output has received but not yet encoded "for real".
type heldEv struct {
	ev     *pipeline.Event
	rec    *OutRec
	early  string // encoding taken inside Out
	stream string
	src    uint64
}

func (o *monOutput) Start(_ pipeline.AnyConfig, params *pipeline.OutputPluginParams) {
	o.ctl = params.Controller
}
func (o *monOutput) Stop() {}

// Out behaves like a batching output: it takes a first look at the event
// (a COPY of the encoded event - insane-json strings alias memory that is
// reused as soon as the event is committed), then keeps the *pipeline.Event
// itself un-encoded until OutHold later events of any stream have arrived (or
// the output has been idle for a while), and only then encodes it again - that
// second encoding is what the oracle judges - and commits it. An event must not
// change while an output holds it: any difference between the two encodings is
// reported.
func (o *monOutput) Out(ev *pipeline.Event) {
	js := string(ev.Root.Encode(nil))
	info := pipeline.VerifInfo(ev)
	rec := &OutRec{Src: uint64(ev.SourceID), Stream: strings.Clone(info.StreamName)}
	e := o.eng
	id := ""
	if e.cs.Kind != "k8s" {
		if n := ev.Root.Dig("id"); n != nil {
			id = strings.Clone(n.AsString())
		}
	}
	h := heldEv{ev: ev, rec: rec, early: js, stream: rec.Stream, src: rec.Src}
	var release []heldEv
	e.mu.Lock()
	rec.N = len(e.outs)
	rec.T = e.now()
	e.outs = append(e.outs, rec)
	if id != "" {
		e.ids[id]++
	}
	e.held = append(e.held, h)
	e.lastOut = time.Now()
	switch {
	case e.cs.OutBatch:
		if len(e.held) > e.cs.OutHold {
			release, e.held = e.held, nil
		}
	default:
		for len(e.held) > e.cs.OutHold {
			release = append(release, e.held[0])
			e.held = e.held[1:]
		}
	}
	seen := len(e.outs)
	e.mu.Unlock()
	o.release(release, seen)
}

// release: the late look at the events, then Commit.
func (o *monOutput) release(hs []heldEv, seen int) {
	if len(hs) == 0 {
		return
	}
	type late struct {
		js, changed string
	}
	ls := make([]late, len(hs))
	for i, h := range hs {
		js := string(h.ev.Root.Encode(nil))
		ls[i].js = js
		info := pipeline.VerifInfo(h.ev)
		switch {
		case js != h.early:
			ls[i].changed = "encoding"
		case uint64(h.ev.SourceID) != h.src || info.StreamName != h.stream:
			ls[i].changed = fmt.Sprintf("source/stream: %d/%s at Out, %d/%s at commit", h.src, h.stream, uint64(h.ev.SourceID), info.StreamName)
		}
	}
	e := o.eng
	e.mu.Lock()
	for i, h := range hs {
		h.rec.JSON = ls[i].js
		h.rec.HeldFor = seen - h.rec.N - 1
		if ls[i].changed != "" {
			h.rec.Changed = ls[i].changed
			h.rec.JSONAtOut = h.early
		}
	}
	e.mu.Unlock()
	for _, h := range hs {
		o.ctl.Commit(h.ev)
	}
}

// flushIdle lets go of everything that is held when no event has arrived for
// `idle` (the flush time-out of a batching output). Liveness only: nothing is
// judged by it.
func (e *engine) flushIdle(idle time.Duration) {
	e.mu.Lock()
	var hs []heldEv
	if len(e.held) > 0 && time.Since(e.lastOut) >= idle {
		hs, e.held = e.held, nil
	}
	seen := len(e.outs)
	e.mu.Unlock()
	if e.out != nil {
		e.out.release(hs, seen)
	}
}

func (e *engine) seenID(id string) bool {
	e.mu.Lock()
	defer e.mu.Unlock()
	return e.ids[id] > 0
}

// ---------------- one case ----------------

var caseSeq atomic.Int64

func chainOf(cs *Case) []map[string]any {
	var chain []map[string]any
	if cs.PreDiscard {
		chain = append(chain, map[string]any{"type": "discard", "match_fields": map[string]any{"drop": "1"}})
	}
	switch cs.Kind {
	case "join":
		a := map[string]any{"type": "join", "field": cs.Field, "start": "/" + cs.Start + "/", "continue": "/" + cs.Continue + "/"}
		if cs.Negate {
			a["negate"] = true
		}
		if cs.JoinMax > 0 {
			a["max_event_size"] = cs.JoinMax
		}
		addMatch(cs, a)
		chain = append(chain, a)
	case "join_template":
		a := map[string]any{"type": "join_template", "field": cs.Field}
		if cs.Deprecated && len(cs.Templates) == 1 {
			a["template"] = cs.Templates[0]
		} else {
			a["templates"] = cs.Templates
		}
		if cs.JoinMax > 0 {
			a["max_event_size"] = cs.JoinMax
		}
		addMatch(cs, a)
		chain = append(chain, a)
	case "k8s":
		chain = append(chain, map[string]any{"type": "k8s-multiline", "split_event_size": cs.SplitEventSize, "offsets_file": "/nonexistent/offsets.yaml"})
	}
	return addPost(cs, chain)
}

func runCase(cs Case) (res Result) {
	res = Result{Case: cs, Stats: map[string]int64{}}
	verifhook.Reset()
	defer verifhook.Reset()
	var ticks, unblocks atomic.Int64
	verifhook.Arm("streamer.tick", func() { ticks.Add(1) })
	verifhook.Arm("stream.unblock", func() { unblocks.Add(1) })

	lines := genLines(&cs)
	if cs.Kind == "k8s" {
		finishK8sLines(&cs, lines)
		k8s.VerifC15InitMeta(k8sNode, map[string]string{"zone": "z15"})
		for s := 1; s <= cs.Sources; s++ {
			p := podOf(s)
			k8s.VerifC15PutPod(p.NS, p.Pod, p.Container, p.CID, p.Labels)
		}
	}

	eng := &engine{cs: &cs, ids: map[string]int{}}
	eng.out = &monOutput{eng: eng}
	settings := &pipeline.Settings{
		// the events held by the output come on top of the pipeline's capacity
		Decoder: "json", Capacity: cs.Capacity + cs.OutHold, AvgEventSize: cs.AvgSize, MetaCacheSize: 32,
		MaintenanceInterval: 5 * time.Second,
		EventTimeout:        time.Duration(cs.EventTimeoutMs) * time.Millisecond,
		Antispam:            pipeline.AntispamSettings{Threshold: pipeline.DefaultAntispamThreshold, MaintenanceInterval: 5 * time.Second},
		StreamField:         "stream", Pool: pipeline.PoolType(cs.Pool),
		Metric: &pipeline.MetricSettings{HoldDuration: pipeline.DefaultMetricHoldDuration},
	}
	if cs.Kind == "k8s" {
		settings.Decoder = "cri"
		settings.MaxEventSize = cs.PipeMax
		settings.CutOffEventByLimit = cs.CutOff
		settings.CutOffEventByLimitField = cs.CutOffField
	}
	p := pipeline.New(fmt.Sprintf("c15_%d_%d", time.Now().UnixNano(), caseSeq.Add(1)), settings, prometheus.NewRegistry(), zap.NewNop())
	if cs.SingleProc {
		p.DisableParallelism()
	}
	p.SetInput(&pipeline.InputPluginInfo{
		PluginStaticInfo:  &pipeline.PluginStaticInfo{Type: "verif_c15_input"},
		PluginRuntimeInfo: &pipeline.PluginRuntimeInfo{Plugin: &monInput{eng: eng}},
	})
	chainJSON, _ := json.Marshal(chainOf(&cs))
	sj, _ := simplejson.NewJson(chainJSON)
	if err := fd.SetupActions(p, fd.DefaultPluginRegistry, sj, map[string]int{"capacity": cs.Capacity, "gomaxprocs": 4}); err != nil {
		res.Inconclusive = "setup actions: " + err.Error()
		return res
	}
	p.SetOutput(&pipeline.OutputPluginInfo{
		PluginStaticInfo:  &pipeline.PluginStaticInfo{Type: "verif_c15_output"},
		PluginRuntimeInfo: &pipeline.PluginRuntimeInfo{Plugin: eng.out},
	})
	p.VerifSetPoolWakeup(50 * time.Millisecond)
	eng.t0 = time.Now()
	eng.lastOut = eng.t0
	p.Start()
	// the flush time-out of the holding output
	flushStop := make(chan struct{})
	var flushWG sync.WaitGroup
	flushWG.Add(1)
	go func() {
		defer flushWG.Done()
		for {
			select {
			case <-flushStop:
				return
			case <-time.After(3 * time.Millisecond):
				eng.flushIdle(15 * time.Millisecond)
			}
		}
	}()

	// ---- feeders: a source is fed by exactly one goroutine, in order ----
	feeders := cs.Feeders
	if feeders > cs.Sources {
		feeders = cs.Sources
	}
	timeoutTicks := int64(cs.EventTimeoutMs/200 + 2)
	var flushMissing []Viol
	var noTimeout string
	var fmu sync.Mutex
	var pausesDone, pauseWaitTicks, fedCount atomic.Int64
	// open run (by the no-time-out reference model) after each kept line, per stream
	openAfter := map[*Line]*Line{}
	if cs.Kind != "k8s" {
		for _, l := range lines {
			ms := map[string]*joinModel{}
			for _, ln := range l {
				m := ms[ln.Stream]
				if m == nil {
					m = newJoinModel(&cs)
					ms[ln.Stream] = m
				}
				if !ln.Drop {
					m.step(ln)
				}
				if ln.Pause {
					openAfter[ln] = m.open
				}
			}
		}
	}
	var wg sync.WaitGroup
	for f := 0; f < feeders; f++ {
		wg.Add(1)
		go func(f int) {
			defer wg.Done()
			rng := rand.New(rand.NewSource(cs.Seed ^ int64(f+1)*7919))
			var mine []int
			for s := f; s < cs.Sources; s += feeders {
				mine = append(mine, s)
			}
			next := make([]int, cs.Sources)
			left := 0
			for _, s := range mine {
				left += len(lines[s])
			}
			for left > 0 {
				s := mine[rng.Intn(len(mine))]
				if next[s] >= len(lines[s]) {
					continue
				}
				burst := 1 + rng.Intn(6)
				for ; burst > 0 && next[s] < len(lines[s]); burst-- {
					ln := lines[s][next[s]]
					next[s]++
					left--
					var md metadata.MetaData
					name := fmt.Sprintf("src%d", ln.Src)
					if cs.Kind == "k8s" {
						pd := podOf(ln.Src)
						md = metadata.MetaData(pd.meta())
						name = pd.fileName()
					}
					ln.TCall = eng.now()
					ln.Seq = eng.ctl.In(pipeline.SourceID(ln.Src), name, pipeline.NewOffsets(int64(next[s]), nil), ln.Raw, false, md)
					ln.TRet = eng.now()
					fedCount.Add(1)
					if !ln.Pause {
						continue
					}
					// deliberate pause longer than event_timeout, measured in streamer
					// heartbeat ticks (not wall time): for join the feeder waits until
					// the flushed run is seen at the output
					t0 := ticks.Load()
					u0 := unblocks.Load()
					open := openAfter[ln]
					for {
						dt := ticks.Load() - t0
						if cs.Kind == "k8s" || open == nil || open.PostDrop {
							// (a run that the action behind the joining action drops is never
							// seen at the output: wait out the time-out instead)
							if dt >= timeoutTicks+1 {
								break
							}
						} else {
							if eng.seenID(open.ID) && dt >= 1 {
								break
							}
							if dt >= 3*timeoutTicks+25 {
								fmu.Lock()
								if unblocks.Load() > u0 {
									flushMissing = append(flushMissing, Viol{Sig: cs.Kind + ":timeout-did-not-flush-run",
										What:    fmt.Sprintf("the run opened by %s was still held after %d streamer heartbeat ticks without a new event (event_timeout %d ms = %d ticks) although the streamer injected %d time-out event(s) meanwhile", open.ID, dt, cs.EventTimeoutMs, timeoutTicks, unblocks.Load()-u0),
										Witness: map[string]any{"run_first_event": lineBrief(open), "paused_after": lineBrief(ln), "stream_unblock_hits_during_pause": unblocks.Load() - u0}})
								} else {
									// no time-out event was injected at all: not this property's
									// question (C04), and nothing to judge here
									noTimeout = fmt.Sprintf("no stream time-out was injected during a pause of %d heartbeat ticks (event_timeout %d ms)", dt, cs.EventTimeoutMs)
								}
								fmu.Unlock()
								break
							}
						}
						time.Sleep(5 * time.Millisecond)
					}
					pauseWaitTicks.Add(ticks.Load() - t0)
					pausesDone.Add(1)
				}
			}
		}(f)
	}
	feedDone := make(chan struct{})
	go func() { wg.Wait(); close(feedDone) }()

	// ---- quiescence, decided on logical progress (heartbeat ticks) ----
	patience := timeoutTicks
	if patience > 12 {
		patience = 12
	}
	patience += 15
	lastOuts, lastTick := -1, ticks.Load()
	lastWall := time.Now()
	fed := false
	zero := 0
	for {
		select {
		case <-feedDone:
			fed = true
		default:
		}
		eng.mu.Lock()
		n := len(eng.outs)
		eng.mu.Unlock()
		tk := ticks.Load()
		prog := n + int(eng.commits.Load()) + int(fedCount.Load())
		if prog != lastOuts {
			lastOuts, lastTick, lastWall = prog, tk, time.Now()
		}
		if fed && p.VerifPoolInUse() == 0 {
			zero++
			if zero >= 3 {
				break
			}
		} else {
			zero = 0
		}
		if fed && tk-lastTick > patience {
			res.Stats["not_quiescent"] = 1
			res.Dump = core.Trunc(p.VerifDump(), 6000)
			break
		}
		if !fed && tk-lastTick > 75 && time.Since(lastWall) > 15*time.Second {
			// nothing was fed, emitted or committed during 75 heartbeat ticks: the
			// feeders are stuck inside In (event pool exhausted). Whether events
			// leak is C04/C05's question; this case decides nothing.
			res.Inconclusive = "feeders blocked inside In for 75 heartbeat ticks (event pool exhausted)"
			res.Stats["not_quiescent"] = 1
			res.Dump = core.Trunc(p.VerifDump(), 6000)
			break
		}
		if time.Since(lastWall) > 60*time.Second {
			if tk == lastTick {
				res.Inconclusive = "no progress for 60 s and the streamer heartbeat does not tick"
			} else if !fed {
				res.Inconclusive = "feeders blocked for 60 s (pool exhausted?)"
			}
			res.Stats["not_quiescent"] = 1
			res.Dump = core.Trunc(p.VerifDump(), 6000)
			break
		}
		time.Sleep(2 * time.Millisecond)
	}
	close(flushStop)
	flushWG.Wait()
	eng.flushIdle(0)
	stopped := make(chan struct{})
	go func() { p.Stop(); close(stopped) }()
	select {
	case <-stopped:
	case <-time.After(15 * time.Second):
		res.Stats["stop_hung"] = 1
	}
	if !fed {
		if res.Inconclusive == "" {
			res.Inconclusive = "feeders did not finish"
		}
		return res
	}

	eng.mu.Lock()
	outs := append([]*OutRec(nil), eng.outs...)
	eng.mu.Unlock()
	res.Stats["case_wall_ms"] = time.Since(eng.t0).Milliseconds()
	res.Stats["procs"] = int64(p.VerifProcCount())
	res.Stats["events_out"] = int64(len(outs))
	res.Stats["stream_unblock_hits"] = unblocks.Load()
	res.Stats["pauses_done"] = pausesDone.Load()
	res.Viol = append(res.Viol, flushMissing...)
	judge(&cs, lines, outs, &res)
	if noTimeout != "" && len(res.Viol) == 0 {
		res.Inconclusive = noTimeout
	}
	return res
}

// ---------------- judging ----------------

func judge(cs *Case, lines [][]*Line, outs []*OutRec, res *Result) {
	st := &oracleStats{m: res.Stats, fps: map[string]struct{}{}}
	type key struct {
		src    int
		stream string
	}
	obs := map[key]*streamObs{}
	var keys []key
	for _, l := range lines {
		for _, ln := range l {
			k := key{ln.Src, ln.Stream}
			so := obs[k]
			if so == nil {
				so = &streamObs{Src: ln.Src, Stream: ln.Stream}
				obs[k] = so
				keys = append(keys, k)
			}
			so.Raw = append(so.Raw, ln)
			st.add("events_in", 1)
		}
	}
	sort.Slice(keys, func(i, j int) bool {
		if keys[i].src != keys[j].src {
			return keys[i].src < keys[j].src
		}
		return keys[i].stream < keys[j].stream
	})
	add := func(v Viol) {
		for _, x := range res.Viol {
			if x.Sig == v.Sig {
				return // one witness per signature and case
			}
		}
		if len(res.Viol) < 8 {
			res.Viol = append(res.Viol, v)
		}
	}
	path := strings.Split(cs.Field, ".")
	unplaced := 0 // output events that cannot be attributed to a line: the walk would only echo that
	for _, r := range outs {
		oe := &outEv{rec: r}
		var src int
		var stream string
		st.add("events_held_for_total", int64(r.HeldFor))
		if r.HeldFor > 0 {
			st.add("events_read_late", 1)
		}
		if r.Changed != "" {
			// an event must not change while an output holds it
			st.add("events_changed_while_held", 1)
			what := fmt.Sprintf("output event %d (source %d stream %s) changed between Out and Commit while the output held it (%d later events arrived meanwhile): %s", r.N, r.Src, r.Stream, r.HeldFor, r.Changed)
			w := map[string]any{"held_for_events": r.HeldFor, "out_hold": cs.OutHold, "batch": cs.OutBatch}
			if r.Changed == "encoding" {
				d := 0
				for d < len(r.JSON) && d < len(r.JSONAtOut) && r.JSON[d] == r.JSONAtOut[d] {
					d++
				}
				what += fmt.Sprintf(": first difference at byte %d of %d/%d", d, len(r.JSONAtOut), len(r.JSON))
				w["first_difference_at"] = d
				w["json_at_out"] = short(r.JSONAtOut[max0(d-40):], 300)
				w["json_at_commit"] = short(r.JSON[max0(d-40):], 300)
			}
			add(Viol{Sig: kindSig(cs) + ":output-event-changed-before-commit", What: what, Witness: w})
		}
		if cs.Kind == "k8s" {
			oe.mem = map[string]string{}
			ms, err := splitObject(r.JSON)
			what := ""
			if err != nil {
				what = fmt.Sprintf("the encoded output event is not valid JSON (%v); it starts with %q", err, short(r.JSON, 24))
			}
			for _, m := range ms {
				v := m.Raw
				if strings.HasPrefix(v, `"`) {
					u, err := unescapeJSONString(v)
					if err != nil {
						what = fmt.Sprintf("member %s of the output event is not a valid JSON string: %v", m.Key, err)
						break
					}
					v = u
				}
				if _, dup := oe.mem[m.Key]; dup && m.Key != "log" {
					add(Viol{Sig: "k8s-multiline:event-fields-wrong", What: "duplicate member " + m.Key, Witness: map[string]any{"json": short(r.JSON, 600)}})
				}
				oe.mem[m.Key] = v // the last `log` member wins (as for every JSON reader)
			}
			if what != "" {
				shape := "invalid-json-output"
				if cs.CutOff && cs.PipeMax > 0 && len(r.JSON) > cs.PipeMax {
					// the only writer of raw escaped text is the cut-off branch of the action
					shape = "cutoff-splits-escape-sequence"
				}
				add(Viol{Sig: "k8s-multiline:" + shape, What: what, Witness: map[string]any{"max_event_size": cs.PipeMax, "json": short(r.JSON, 900), "json_tail": tail(r.JSON, 120)}})
				oe.broken = true
				oe.tags = findTags(r.JSON) // tags are never escaped: the event can still be placed
				if len(oe.tags) == 0 {
					unplaced++
					continue
				}
			}
			if !oe.broken {
				oe.log = oe.mem["log"]
				oe.tags = findTags(oe.log)
			}
			src, stream = int(r.Src), r.Stream
			if len(oe.tags) > 0 {
				t := oe.tags[0]
				long := map[string]string{"o": "stdout", "e": "stderr"}[t.Stream]
				if t.Src != src || long != stream {
					add(Viol{Sig: "k8s-multiline:merged-foreign-stream", What: fmt.Sprintf("an event of source %d stream %s starts with chunk ⟦%d.%s.%d⟧", src, stream, t.Src, t.Stream, t.Idx), Witness: map[string]any{"json": short(r.JSON, 600)}})
					unplaced++
					continue
				}
			}
		} else {
			strip := ""
			if postModifies(cs) {
				strip = postMember
			}
			v, postVal, hadPost, err := viewEventStrip(r.JSON, path, strip)
			if err == nil && strip != "" {
				if !hadPost || postVal != "1" {
					add(Viol{Sig: cs.Kind + ":following-action-not-applied", What: fmt.Sprintf("event %s reached the output without the member that the modify action behind the joining action adds (%s = \"1\")", v.ID, postMember), Witness: map[string]any{"json": short(r.JSON, 600)}})
				} else {
					st.add("post_modified_events", 1)
				}
			}
			if err != nil {
				add(Viol{Sig: cs.Kind + ":invalid-json-output", What: "the output event is not valid JSON: " + err.Error(), Witness: map[string]any{"json": short(r.JSON, 600)}})
				unplaced++
				continue
			}
			oe.view = v
			var lab string
			var idx int
			parts := strings.Split(v.ID, ".")
			if len(parts) != 3 {
				add(Viol{Sig: cs.Kind + ":unknown-event", What: "output event without a known id", Witness: map[string]any{"json": short(r.JSON, 600)}})
				unplaced++
				continue
			}
			fmt.Sscanf(parts[0], "%d", &src)
			lab = parts[1]
			fmt.Sscanf(parts[2], "%d", &idx)
			stream = lab
			if lab == "not_set" {
				stream = ""
			}
			if uint64(src) != r.Src || streamLabel(stream) != r.Stream {
				add(Viol{Sig: cs.Kind + ":misrouted-event", What: fmt.Sprintf("event %s left the pipeline as source %d stream %s", v.ID, r.Src, r.Stream), Witness: map[string]any{"json": short(r.JSON, 600)}})
				unplaced++
				continue
			}
			oe.tags = findTags(v.Value)
			foreign := false
			for _, t := range oe.tags {
				if t.Src != src || t.Stream != lab {
					add(Viol{Sig: cs.Kind + ":merged-foreign-stream", What: fmt.Sprintf("event %s holds the value of line ⟦%d.%s.%d⟧ of another source or stream", v.ID, t.Src, t.Stream, t.Idx), Witness: map[string]any{"json": short(r.JSON, 600)}})
					foreign = true
					break
				}
			}
			if foreign {
				unplaced++
				continue
			}
		}
		so := obs[key{src, stream}]
		if so == nil {
			add(Viol{Sig: kindSig(cs) + ":unknown-event", What: fmt.Sprintf("output event for unknown source %d stream %q", src, stream), Witness: map[string]any{"json": short(r.JSON, 600)}})
			unplaced++
			continue
		}
		so.Outs = append(so.Outs, oe)
	}
	if unplaced == 0 {
		for _, k := range keys {
			so := obs[k]
			if cs.Kind == "k8s" {
				for _, v := range checkK8sStream(cs, so, st) {
					add(v)
				}
			} else if v := checkJoinStream(cs, so, st); v != nil {
				add(*v)
			}
			st.add("streams_checked", 1)
		}
	}
	// join_template: the plugin's matchers against the documented expressions
	if cs.Kind == "join_template" {
		checkTemplateClassification(cs, lines, st, add)
	}
	for f := range st.fps {
		res.Fingerprints = append(res.Fingerprints, f)
	}
	sort.Strings(res.Fingerprints)
	res.Fingerprints = append(res.Fingerprints, fmt.Sprintf("case/%s/%s/procs=%d/single=%v/timeout=%d/max=%d/split=%d/pipemax=%d/cut=%v/pre=%v/streams=%d/src=%d/hold=%d/batch=%v/match=%s/shape=%s",
		cs.Kind, cs.Family, cs.Procs, cs.SingleProc, cs.EventTimeoutMs, cs.JoinMax, cs.SplitEventSize, cs.PipeMax, cs.CutOff, cs.PreDiscard, cs.Streams, cs.Sources, cs.OutHold, cs.OutBatch, cs.Match, cs.RunShape))
	if cs.Post != "" || cs.NonStrPct > 0 {
		res.Fingerprints[len(res.Fingerprints)-1] += fmt.Sprintf("/post=%s/nonstr=%v", cs.Post, cs.NonStrPct > 0)
	}
	if strings.HasSuffix(cs.Name, "-0") {
		var sample []any
		for _, k := range keys[:1] {
			so := obs[k]
			sample = append(sample, map[string]any{"source": so.Src, "stream": so.Stream, "lines": window(so.Raw, 0, 8), "outputs": outBrief(so.Outs, 0, 5)})
		}
		res.Sample = map[string]any{"case": cs, "chain": chainOf(cs), "observed": sample}
	}
}

func kindSig(cs *Case) string {
	if cs.Kind == "k8s" {
		return "k8s-multiline"
	}
	return cs.Kind
}

// checkTemplateClassification compares the plugin's hand-written matchers
// (exported through template.InitTemplate) with the documented regular
// expressions on every generated value.
func checkTemplateClassification(cs *Case, lines [][]*Line, st *oracleStats, add func(Viol)) {
	reported := map[string]bool{}
	for _, name := range cs.Templates {
		t, err := template.InitTemplate(name)
		if err != nil {
			add(Viol{Sig: "join_template:template-missing:" + name, What: err.Error()})
			continue
		}
		ref := tplRefs[name]
		for _, l := range lines {
			for _, ln := range l {
				if !ln.HasField {
					continue
				}
				st.add("tpl_values_classified", 1)
				if got, want := t.StartCheck(ln.Value), ref.Start.MatchString(ln.Value); got != want && !reported[name+"s"] {
					reported[name+"s"] = true
					add(Viol{Sig: "join_template:start-check-differs-from-documented-regexp:" + name, What: fmt.Sprintf("template %s: StartCheck(%q) = %v, documented start expression says %v", name, short(ln.Value, 200), got, want), Witness: map[string]any{"value": ln.Value}})
				}
				if got, want := t.ContinueCheck(ln.Value), ref.Cont.MatchString(ln.Value); got != want && !reported[name+"c"] {
					reported[name+"c"] = true
					add(Viol{Sig: "join_template:continue-check-differs-from-documented-regexp:" + name, What: fmt.Sprintf("template %s: ContinueCheck(%q) = %v, documented continue expression says %v", name, short(ln.Value, 200), got, want), Witness: map[string]any{"value": ln.Value}})
				}
				if t.Negate != ref.Negate && !reported[name+"n"] {
					reported[name+"n"] = true
					add(Viol{Sig: "join_template:negate-differs:" + name, What: "negate flag of the template differs from the documentation"})
				}
			}
		}
	}
}
