// C15 — multi-line reassembly keeps every byte, in order, within one stream.
//
// The real join, join_template and k8s-multiline actions run inside a real
// pipeline (streamer, 1..8+ processors, event pool, time-out heartbeat)
// between a monitoring input and a monitoring output. A reference model per
// (source, stream), written from the READMEs and the property text, decides
// every event the output saw. See NOTES.md.
package main

import (
	"encoding/json"
	"fmt"
	"os"
	"sort"
	"strings"
	"sync"
	"time"

	"verifharness/core"
)

type childIn struct{ Cases []Case }
type childOut struct{ Results []Result }

func childMain(raw json.RawMessage, io *core.ChildIO) (any, error) {
	var in childIn
	if err := json.Unmarshal(raw, &in); err != nil {
		return nil, err
	}
	var out childOut
	for _, cs := range in.Cases {
		io.Log(cs)
		out.Results = append(out.Results, runCase(cs))
	}
	return out, nil
}

func main() {
	core.RegisterChild("c15", childMain)
	if len(os.Args) > 2 && os.Args[1] == "one" {
		// debugging aid: run the case of a replay file (or a bare Case) in this process
		runOne(os.Args[2])
		return
	}
	core.Main("C15", "exploration", run)
}

func run(c *core.Ctx) {
	c.SetRule("one case = one real pipeline (monitoring input -> [discard?] -> join | join_template | k8s-multiline -> monitoring output) fed with 1-4 sources x 1-3 streams by 1-3 feeder goroutines over 1, 2, 4 or 8 processors; " +
		"lines are drawn per case from 10 start/continue regexp families (anchored, unanchored, negate, match-all, empty-match, overlapping, case-insensitive, multi-byte), from the join_template vocabularies (the plugin's sample traces + near misses) or are CRI partial/final chunks; " +
		"payloads carry escapes, control characters, multi-byte runes, empty values, long values; every value is tagged with source/stream/index. " +
		"A reference model per (source, stream) decides every output event (ids, joined bytes, other members, order, no loss, no duplicate, no foreign bytes). " +
		"In a third of the join cases and in a family of its own (several sources/streams on exactly 1 and 2 processors) the action carries match_fields (and / or / and_prefix / or_prefix / regexp / match_invert) or do_if, and 5-35 % of the events - also in the middle of runs - do not satisfy them. The output holds every event for 0-32 later events before it encodes and commits it. " +
		"In a family of its own the joining action is followed by discard (match_fields / do_if on a marker member) and / or modify: dropped events and runs are accounted for as deliberately dropped, the walk judges what legitimately reaches the output. In another family 5-25 % of the events carry a join field that is not a JSON string (number, bool, null, object, array): such an event ends an open run, passes unchanged, and nothing behind it is glued to the earlier run. " +
		"A split of a run is accepted only where the harness's own monotonic clock shows a feeder gap >= event_timeout (or, for k8s, where split_event_size justifies it). " +
		"distinct_nontrivial = distinct (kind, pattern family, run-length bucket, how the run ended, empty continuation, limit hit, template) shapes of runs that were really observed at the output, plus distinct case configurations")
	c.Assume("Go's regexp package defines what `start`/`continue` match (the reference classifies with the same configured expressions; the state machine is what is tested)")
	c.Assume("join_template: the documented expressions in template/template.go (plus the two alternatives named in the code comments) define the templates on the vocabulary used here, which avoids the documented 'only first occurrence counts' corners")
	c.Assume("k8s-multiline: the 128 KiB look-ahead of split_event_size is part of the documented 'not a strict rule'")
	c.Assume("the monitoring output behaves like a batching output: it keeps the event itself (un-encoded) until K later events arrived or it has been idle for 15 ms, encodes it then (this late encoding is judged) and commits; the encoding taken inside Out is compared with it; In() call/return times are taken by the feeder with the monotonic clock")
	c.Assume("a join field that is present but not a JSON string is not a line of a run: only values are generated whose JSON text, scalar text and the empty string satisfy neither the start nor the continue check of the case, so that every reading makes them non-continuing events")
	c.Assume("match_fields / do_if on the joining action: an event that does not satisfy them passes unchanged while no run is open; while a run is open both readings are accepted (classified like a matching event, as the code does; or ends the run and passes unchanged) - it may never overtake the open run, leave it open, get lost or be duplicated")

	nJoin, nTpl, nK8s := c.N(66, 660), c.N(36, 360), c.N(48, 480)
	rng := c.Rand("cases")
	var cases []Case
	for i := 0; i < nJoin; i++ {
		cases = append(cases, genCase(rng, c.SubSeed("join", i), "join", i))
	}
	for i := 0; i < nTpl; i++ {
		cases = append(cases, genCase(rng, c.SubSeed("join_template", i), "join_template", i))
	}
	for i := 0; i < nK8s; i++ {
		cases = append(cases, genCase(rng, c.SubSeed("k8s", i), "k8s", i))
	}
	for j, n := 0, c.N(9, 60); j < n; j++ {
		cases = append(cases, genHugeCase(rng, c.SubSeed("k8s-huge", j), j))
	}
	// match conditions on the joining action, several sources/streams on 1 or 2 processors
	for j, n := 0, c.N(28, 280); j < n; j++ {
		cases = append(cases, genMatchCase(rng, c.SubSeed("join-match", j), "join", j))
	}
	for j, n := 0, c.N(14, 140); j < n; j++ {
		cases = append(cases, genMatchCase(rng, c.SubSeed("join_template-match", j), "join_template", j))
	}

	// actions behind the joining action (discard / modify), and join fields that are not strings
	for j, n := 0, c.N(18, 180); j < n; j++ {
		cases = append(cases, genPostCase(rng, c.SubSeed("join-post", j), "join", j))
	}
	for j, n := 0, c.N(9, 90); j < n; j++ {
		cases = append(cases, genPostCase(rng, c.SubSeed("join_template-post", j), "join_template", j))
	}
	for j, n := 0, c.N(12, 120); j < n; j++ {
		cases = append(cases, genNonStrCase(rng, c.SubSeed("join-nonstr", j), "join", j))
	}
	for j, n := 0, c.N(6, 60); j < n; j++ {
		cases = append(cases, genNonStrCase(rng, c.SubSeed("join_template-nonstr", j), "join_template", j))
	}

	var mu sync.Mutex
	raceKeys := map[string]int{}
	sigSeen := map[string]int{}
	handle := func(r Result) {
		// one evaluation = one run (joined or single) decided by the reference model
		c.Count("cases", 1)
		if n := int(r.Stats["runs_joined"] + r.Stats["runs_single"]); n > 0 {
			c.Eval(n)
		} else {
			c.Eval(1)
		}
		for k, v := range r.Stats {
			switch k {
			case "procs", "case_wall_ms":
				if v > c.Counter("max_"+k) {
					c.Count("max_"+k, v-c.Counter("max_"+k))
				}
			default:
				c.Count(k, v)
			}
		}
		c.Count("cases_"+r.Case.Kind, 1)
		if r.Case.Match != "" {
			c.Count("cases_with_match_conditions", 1)
			c.Count("cases_match_"+r.Case.Match, 1)
			nStreams := r.Case.Streams
			if nStreams == 0 {
				nStreams = 1
			}
			if r.Case.Sources*nStreams > 1 {
				switch {
				case r.Case.SingleProc:
					c.Count("cases_match_several_streams_on_1_processor", 1)
				case r.Case.Procs == 1:
					c.Count("cases_match_several_streams_on_2_processors", 1)
				}
			}
		}
		if r.Case.OutHold > 0 {
			c.Count("cases_output_holds_events", 1)
		}
		if r.Case.Post != "" {
			c.Count("cases_actions_behind_join", 1)
			c.Count("cases_post_"+r.Case.Post, 1)
		}
		if r.Case.NonStrPct > 0 {
			c.Count("cases_non_string_field", 1)
		}
		if r.Stats["case_wall_ms"] > 20000 {
			c.Extra("slow_case_"+r.Case.Name, map[string]any{"case": r.Case, "stats": r.Stats})
		}
		if r.Case.EventTimeoutMs < 1000 {
			c.Count("cases_short_timeout", 1)
		}
		if r.Inconclusive != "" {
			c.Inconclusive(r.Inconclusive)
			c.Extra("inconclusive_case_"+r.Case.Name, map[string]any{"case": r.Case, "reason": r.Inconclusive, "stats": r.Stats, "dump": r.Dump})
			return
		}
		for _, v := range r.Viol {
			// two witnesses per signature and run (every signature gets its replay
			// file); further cases with the same signature are only counted
			sigSeen[v.Sig]++
			c.Count("cases_with:"+v.Sig, 1)
			if sigSeen[v.Sig] <= 2 {
				c.Violation("C15:"+v.Sig, v.What, map[string]any{"case": r.Case, "chain": chainOf(&r.Case), "witness": v.Witness})
			}
		}
		for _, f := range r.Fingerprints {
			c.Nontrivial(f)
		}
		if r.Sample != nil {
			c.Sample(r.Sample)
		}
	}
	crash := func(cs Case, res *core.ChildResult) {
		c.Eval(1)
		c.Count("child_crashes", 1)
		msg, fn := core.PanicFunc(res.Stderr)
		c.Violation(fmt.Sprintf("C15:%s:pipeline-crash:%s@%s", kindSig(&cs), core.NormalizeMsg(msg), fn),
			"the process died while the pipeline was running: "+msg,
			map[string]any{"case": cs, "chain": chainOf(&cs), "stderr": core.Trunc(res.Stderr, 4000)})
	}

	// group by GOMAXPROCS, a few cases per child process (successive cases reuse
	// the process: plugin registries, the k8s meta cache, sync.Pools)
	byProcs := map[int][]Case{}
	for _, cs := range cases {
		byProcs[cs.Procs] = append(byProcs[cs.Procs], cs)
	}
	type group struct {
		procs int
		cases []Case
	}
	var groups []group
	perChild := c.N(5, 8)
	for _, pr := range []int{1, 2, 4} {
		l := byProcs[pr]
		for i := 0; i < len(l); i += perChild {
			j := i + perChild
			if j > len(l) {
				j = len(l)
			}
			groups = append(groups, group{pr, l[i:j]})
		}
	}
	runGroup := func(procs int, cs []Case) *core.ChildResult {
		return core.RunChild("c15", childIn{cs}, core.ChildOpt{Timeout: 10 * time.Minute, GOMAXPROCS: procs})
	}
	core.ParallelFor(len(groups), 10, func(i int) {
		g := groups[i]
		todo := g.cases
		for len(todo) > 0 {
			r := runGroup(g.procs, todo)
			mu.Lock()
			for _, rr := range r.RaceReports {
				c.Count("race_reports", 1)
				k := core.RaceKey(rr)
				raceKeys[k]++
				if raceKeys[k] == 1 {
					c.Extra(fmt.Sprintf("race_sample_%d", len(raceKeys)), map[string]any{"case": todo[0].Name, "report": core.Trunc(rr, 5000)})
				}
			}
			if r.Completed {
				var out childOut
				if err := json.Unmarshal(r.Out, &out); err != nil {
					c.Fatal("bad child output: %v", err)
				}
				for _, x := range out.Results {
					handle(x)
				}
				mu.Unlock()
				return
			}
			if r.TimedOut {
				c.Inconclusive("child watchdog")
				mu.Unlock()
				return
			}
			// crashed: the last logged case was running
			started := len(r.Log)
			if started == 0 {
				c.Inconclusive("child died before the first case: " + core.Trunc(r.Stderr, 300))
				mu.Unlock()
				return
			}
			last := todo[started-1]
			mu.Unlock()
			// the cases before it completed in that child but their results are lost: re-run them
			if started > 1 {
				r0 := runGroup(g.procs, todo[:started-1])
				mu.Lock()
				var out childOut
				if r0.Completed && json.Unmarshal(r0.Out, &out) == nil {
					for _, x := range out.Results {
						handle(x)
					}
				} else {
					c.Inconclusive("cases before a crashed case could not be completed")
				}
				mu.Unlock()
			}
			// confirm the crash alone
			r1 := runGroup(g.procs, []Case{last})
			mu.Lock()
			switch {
			case r1.Crashed():
				crash(last, r1)
			case r1.Completed:
				c.Inconclusive("process death not reproduced when the case ran alone: " + core.NormalizeMsg(firstLine(r.Stderr)))
				c.Extra("unconfirmed_crash", map[string]any{"case": last, "stderr": core.Trunc(r.Stderr, 3000)})
				var out childOut
				if json.Unmarshal(r1.Out, &out) == nil {
					for _, x := range out.Results {
						handle(x)
					}
				}
			default:
				c.Inconclusive("child watchdog")
			}
			mu.Unlock()
			todo = todo[started:]
		}
	})
	if len(raceKeys) > 0 {
		keys := make([]string, 0, len(raceKeys))
		for k := range raceKeys {
			keys = append(keys, k)
		}
		sort.Strings(keys)
		c.Extra("race_report_keys", raceKeys)
	}

	// a run that did not observe the behaviours it is about decides nothing
	need := []string{"runs_joined", "runs_single", "lines_collapsed", "pass_not_joined", "pass_missing_field", "timeout_splits",
		"run_end_by_start", "run_end_by_other", "run_end_by_missing", "limit_truncated_runs", "pre_discarded",
		"k8s_split_by_size", "tpl_values_classified", "pauses_done", "k8s_huge_lines_joined", "k8s_lines_joined_after_huge",
		// the output really read joined events late; events that do not satisfy the
		// match conditions really arrived while a run was open, on few processors
		"events_read_late", "joined_read_late", "joined_read_late_few_procs", "k8s_joined_read_late",
		"nomatch_lines_joined", "nomatch_ended_run", "nomatch_start_opened_run", "nomatch_start_passed_idle", "nomatch_passed",
		"cases_match_several_streams_on_1_processor", "cases_match_several_streams_on_2_processors",
		// runs (and single events) that the action behind the joining action dropped, such a
		// run ended by an event while it was held with more events behind it, runs and
		// events that passed that action, the member of the modify action seen;
		// non-string join fields ending a run / meeting an idle action, continuation
		// lines behind them
		"post_discarded_joined_runs", "post_discarded_single_runs", "post_discarded_passthrough",
		"post_discarded_run_ended_by_event_more_follow", "post_kept_joined_runs", "post_kept_passthrough", "post_modified_events",
		"nonstring_ended_run", "nonstring_passed_idle", "run_end_by_nonstring", "cont_after_nonstring_not_glued"}
	for _, k := range need {
		if c.Counter(k) == 0 {
			c.Fatal("expected behaviour class %q was never observed", k)
		}
	}
	if c.Counter("k8s_discarded_by_limit")+c.Counter("k8s_cut_off") == 0 {
		c.Fatal("no k8s line reached max_event_size")
	}
	if c.Counter("max_procs") < 8 {
		c.Fatal("no case ran on 8 processors")
	}
	for _, p := range postChains {
		if c.Counter("cases_post_"+p) == 0 {
			c.Fatal("no case with the chain %q behind the joining action completed", p)
		}
	}
}

func runOne(path string) {
	b, err := os.ReadFile(path)
	if err != nil {
		fmt.Println(err)
		os.Exit(2)
	}
	var w struct {
		Witness struct{ Case *Case } `json:"witness"`
	}
	var cs Case
	if json.Unmarshal(b, &w) == nil && w.Witness.Case != nil {
		cs = *w.Witness.Case
	} else if err := json.Unmarshal(b, &cs); err != nil {
		fmt.Println(err)
		os.Exit(2)
	}
	r := runCase(cs)
	r.Sample = nil
	out, _ := json.MarshalIndent(r, "", " ")
	fmt.Println(string(out))
}

func firstLine(s string) string {
	for _, l := range strings.Split(s, "\n") {
		if strings.HasPrefix(l, "panic:") || strings.HasPrefix(l, "fatal error:") {
			return l
		}
	}
	if i := strings.IndexByte(s, '\n'); i > 0 {
		return s[:i]
	}
	return s
}
