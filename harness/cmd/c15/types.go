package main

// Case is one execution of a real pipeline with one multi-line action.
type Case struct {
	Name string
	Seed int64
	Kind string // join | join_template | k8s

	Procs      int  // GOMAXPROCS of the child; the pipeline starts 2×Procs processors
	SingleProc bool // DisableParallelism: exactly one processor
	Pool       string
	Capacity   int
	AvgSize    int

	EventTimeoutMs int // 30000 (no split may ever be seen) or 100..300 (deliberate feeder pauses)
	Pauses         int // deliberate pause points (only with a short time-out)

	Sources   int
	Streams   int // streams per source (join kinds: 0 = no stream field, default stream)
	PerStream int // lines per (source, stream), sentinel excluded
	Feeders   int

	// join / join_template
	Family     string
	Field      string // selector, may be nested ("a.b")
	Start      string
	Continue   string
	Negate     bool
	JoinMax    int // max_event_size of the action
	Templates  []string
	Deprecated bool // use the deprecated single `template` parameter
	PreDiscard bool // chain [discard match_fields{drop:"1"}, <join>]
	WStart     int  // weights of nominal line classes
	WCont      int
	WOther     int
	WMissing   int
	WEmpty     int
	Hostile    int // 0 plain .. 3 everything

	// k8s
	SplitEventSize int
	PipeMax        int // pipeline max_event_size
	CutOff         bool
	CutOffField    string
	PartialPct     int // probability of a partial chunk
	BigChunks      bool
	HugeLine       bool // one line of 41 partial chunks of 16 KiB (> 512 KiB joined, below split_event_size) per stream

	// monitoring output: how long an event stays un-encoded inside the output
	OutHold  int  `json:",omitempty"` // 0 = encode and commit inside Out; K = keep the event until K later events arrived (or the output is idle)
	OutBatch bool `json:",omitempty"` // commit K+1 events at once (a batch) instead of a sliding window

	// match conditions on the join / join_template action itself
	Match      string `json:",omitempty"` // "" | and | or | and_prefix | or_prefix | regex | invert | do_if
	NoMatchPct int    `json:",omitempty"` // share of events that do not satisfy the conditions
	// lengths of successive runs: "" as drawn | equal (every value has the same length) | saw (long run, then shorter ones)
	RunShape string `json:",omitempty"`
	ShapeLen int    `json:",omitempty"`

	// actions that FOLLOW the joining action (post.go): "" | discard | discard_doif |
	// modify+discard | discard+modify | modify. The discard action removes every event
	// that reaches it with the member pd = "1" (a flushed run carries the members of
	// its first event), the modify action adds the member post = "1".
	Post string `json:",omitempty"`
	// share of events whose join field is present but is not a JSON string
	NonStrPct int `json:",omitempty"`
}

// Line is one input line of one (source, stream).
type Line struct {
	Src    int
	Stream string
	Idx    int // position inside its (source, stream)
	ID     string
	Raw    []byte `json:"-"`
	RawLen int

	// join kinds
	HasField bool
	Value    string
	Drop     bool
	Sentinel bool
	NoMatch  bool   `json:",omitempty"` // the event does not satisfy the match conditions of the join action
	Svc      string `json:",omitempty"`
	Lvl      string `json:",omitempty"`
	HasSvc   bool   `json:",omitempty"`
	HasLvl   bool   `json:",omitempty"`
	RestCan  string `json:"-"` // canonical form of the other members of the event
	// the action behind the joining action discards the event that carries this
	// line's members (the line itself if it is not joined, the whole run if it starts one)
	PostDrop bool   `json:",omitempty"`
	PD       string `json:",omitempty"` // value of the marker member pd ("" = absent)
	// the join field is present but holds this non-string JSON value (HasField is false:
	// the event has no string field to join)
	NonStr string `json:",omitempty"`

	// k8s
	Partial bool
	Content string // log content without the line's trailing newline
	Time    string

	// measured by the feeder (monotonic ns since the start of the case)
	TCall int64
	TRet  int64
	Pause bool
	Seq   uint64
}

// OutRec is one event seen by the monitoring output.
type OutRec struct {
	N      int
	Src    uint64
	Stream string
	// JSON is the event as encoded when the output let go of it (right before
	// Commit, after HeldFor later events had arrived); JSONAtOut is the encoding
	// taken inside Out, kept only if the two differ.
	JSON      string
	JSONAtOut string
	Changed   string // what changed while the output held the event ("" = nothing)
	HeldFor   int    // events that reached the output while this one was held
	T         int64
}

// Viol is one refuting observation.
type Viol struct {
	Sig     string
	What    string
	Witness any
}

// Result of one case.
type Result struct {
	Case         Case
	Viol         []Viol
	Inconclusive string
	Stats        map[string]int64
	Fingerprints []string
	Sample       any    `json:",omitempty"`
	Dump         string `json:",omitempty"` // streamer + pool state when the case did not become quiescent
}
