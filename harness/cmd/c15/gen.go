package main

import (
	"bytes"
	"encoding/json"
	"fmt"
	"math/rand"
	"strings"
	"unicode/utf16"
	"unicode/utf8"
)

// ---------------------------------------------------------------------------
// join pattern families: a start regexp, a continue regexp, negate, and a maker
// of lines of a *nominal* class (0 start, 1 continuation, 2 other). The
// oracle never trusts the nominal class: it classifies every value with the
// configured regular expressions itself.
// ---------------------------------------------------------------------------

type family struct {
	Name   string
	Start  string
	Cont   string
	Negate bool
	mk     func(rng *rand.Rand, class int, tag, payload string) string
}

func pick(rng *rand.Rand, xs ...string) string { return xs[rng.Intn(len(xs))] }

var families = []family{
	{Name: "prefix", Start: `^S:`, Cont: `^C:`,
		mk: func(rng *rand.Rand, c int, tag, p string) string {
			return []string{"S:", "C:", "N:"}[c] + tag + p
		}},
	{Name: "indent", Start: `^\d{4}-\d{2}-\d{2} `, Cont: `^\s+`,
		mk: func(rng *rand.Rand, c int, tag, p string) string {
			switch c {
			case 0:
				return fmt.Sprintf("20%02d-%02d-%02d ", rng.Intn(100), 1+rng.Intn(12), 1+rng.Intn(28)) + tag + p
			case 1:
				return pick(rng, " ", "\t", "    ", "\n ", " \t ") + tag + p
			}
			return pick(rng, "INFO ", "x", "2024-1-1 ", "-") + tag + p
		}},
	{Name: "negdate", Start: `^\[\d+\]`, Cont: `^\[\d+\]`, Negate: true,
		mk: func(rng *rand.Rand, c int, tag, p string) string {
			switch c {
			case 0:
				return fmt.Sprintf("[%d]", rng.Intn(100000)) + tag + p
			case 1:
				return pick(rng, "  at ", "Caused by: ", "[x]", "", " [1]") + tag + p
			}
			return pick(rng, "plain ", "[] ", "[-1]") + tag + p
		}},
	{Name: "readme", Start: `^(panic:)|(http: panic serving)`,
		Cont: `(^\s*$)|(goroutine [0-9]+ \[)|(\([0-9]+x[0-9,a-f]+)|(\.go:[0-9]+ \+[0-9]x)|(\/.*\.go:[0-9]+)|(\(...\))|(main\.main\(\))|(created by .*\/.*\.)|(^\[signal)|(panic.+[0-9]x[0-9,a-f]+)|(panic:)`,
		mk: func(rng *rand.Rand, c int, tag, p string) string {
			switch c {
			case 0:
				return pick(rng, "panic: ", "2019/01/11 12:13:27 http: panic serving 10.2.3.4:55: ", "panic: runtime error: ") + tag + p
			case 1:
				return pick(rng, "goroutine 12 [running]: ", "\t/usr/local/go/src/net/http/server.go:1746 +0xd0 ", "main.main() ", "created by net/http.(*Server).Serve ", "[signal SIGSEGV: segmentation violation] ", "panic(0xb6afc0, 0xd7c240) ", "net/http.(*conn).serve(0xc00032cfa0, 0xd8a3a0) ") + tag + p
			}
			return pick(rng, "INFO request done ", "level=warn msg=", "GET /index ") + tag + p
		}},
	{Name: "anycont", Start: `^BEGIN`, Cont: `.*`,
		mk: func(rng *rand.Rand, c int, tag, p string) string {
			if c == 0 {
				return "BEGIN " + tag + p
			}
			return pick(rng, "", "x ", "begin ", " BEGIN ") + tag + p
		}},
	{Name: "unicode", Start: `^→`, Cont: `^(…|\p{Han})`,
		mk: func(rng *rand.Rand, c int, tag, p string) string {
			switch c {
			case 0:
				return "→ " + tag + p
			case 1:
				return pick(rng, "… ", "日本 ", "中") + tag + p
			}
			return pick(rng, "- ", "é", "->") + tag + p
		}},
	{Name: "icase", Start: `(?i)^error\b`, Cont: `(?i)^\s*(at |caused by)`,
		mk: func(rng *rand.Rand, c int, tag, p string) string {
			switch c {
			case 0:
				return pick(rng, "ERROR ", "Error: ", "error ") + tag + p
			case 1:
				return pick(rng, "  at ", "\tAT ", "Caused By: ", "caused by ") + tag + p
			}
			return pick(rng, "errors ", "warn ", "attention ") + tag + p
		}},
	{Name: "overlap", Start: `^A`, Cont: `^[AB]`,
		mk: func(rng *rand.Rand, c int, tag, p string) string {
			return []string{"A", "B", "X"}[c] + tag + p
		}},
	{Name: "emptycont", Start: `^S`, Cont: `^$`,
		mk: func(rng *rand.Rand, c int, tag, p string) string {
			switch c {
			case 0:
				return "S" + tag + p
			case 1:
				return ""
			}
			return "N" + tag + p
		}},
	{Name: "negempty", Start: `^#`, Cont: `^$`, Negate: true,
		mk: func(rng *rand.Rand, c int, tag, p string) string {
			switch c {
			case 0:
				return "#" + tag + p
			case 1:
				return pick(rng, "x", " ", "\n") + tag + p
			}
			return ""
		}},
}

func familyByName(n string) *family {
	for i := range families {
		if families[i].Name == n {
			return &families[i]
		}
	}
	return nil
}

// ---------------------------------------------------------------------------
// hostile payloads
// ---------------------------------------------------------------------------

var payloadAtoms = [][]string{
	// level 0: plain
	{"", " ok", " request served in 12ms", " user=alice id=42", " done.", " a b c d e f"},
	// level 1: escapes
	{` he said "hi"`, ` path C:\temp\new`, " tab\there", " cr\rlf", ` back\\slash\\`, ` quote"`, ` "`, ` \`, ` lit\n`, ` \u0041 not an escape`, ` {"a":[1,2,{"b":"c"}]}`, ` <a href="x">&amp;</a>`},
	// level 2: multi-byte
	{" héllo wörld", " 日本語テキスト", " 😀🚀", " привет", " \u2028sep\u2029", " ñ", " 𝒳", " ✓"},
	// level 3: control characters
	{" \x01\x02", " \x1b[31mred\x1b[0m", " bell\x07", " \x7f", " nul\x00byte", " \x0b\x0c"},
}

func payload(rng *rand.Rand, level int, allowNL bool) string {
	var b strings.Builder
	n := rng.Intn(4)
	for i := 0; i < n; i++ {
		l := rng.Intn(level + 1)
		b.WriteString(payloadAtoms[l][rng.Intn(len(payloadAtoms[l]))])
	}
	switch r := rng.Intn(40); {
	case r == 0:
		b.WriteString(strings.Repeat("x", 200+rng.Intn(1200)))
	case r == 1:
		b.WriteString(strings.Repeat("é日", 100+rng.Intn(400)))
	case r == 2 && level >= 1:
		b.WriteString(strings.Repeat(`\"`, 50+rng.Intn(200)))
	}
	if allowNL && rng.Intn(2) == 0 {
		b.WriteString("\n")
	}
	return b.String()
}

// ---------------------------------------------------------------------------
// JSON writers: two escaping styles for the same string value
// ---------------------------------------------------------------------------

func jsonStr(s string, style int) string {
	if style == 0 {
		var b bytes.Buffer
		enc := json.NewEncoder(&b)
		enc.SetEscapeHTML(false)
		_ = enc.Encode(s)
		return strings.TrimSuffix(b.String(), "\n")
	}
	// style 1: every non-ASCII rune and every control as \uXXXX (surrogate pairs), / escaped
	var b strings.Builder
	b.WriteByte('"')
	for _, r := range s {
		switch {
		case r == '"':
			b.WriteString(`\"`)
		case r == '\\':
			b.WriteString(`\\`)
		case r == '/':
			b.WriteString(`\/`)
		case r == '\n':
			b.WriteString(`\n`)
		case r == '\t':
			b.WriteString(`\t`)
		case r < 0x20 || r == 0x7f || r > 0x7e:
			if r > 0xffff {
				r1, r2 := utf16.EncodeRune(r)
				fmt.Fprintf(&b, `\u%04x\u%04X`, r1, r2)
			} else {
				fmt.Fprintf(&b, `\u%04x`, r)
			}
		default:
			b.WriteRune(r)
		}
	}
	b.WriteByte('"')
	return b.String()
}

func extraValue(rng *rand.Rand, level, depth int) string {
	switch r := rng.Intn(9); {
	case r == 0:
		return fmt.Sprint(rng.Intn(100000) - 500)
	case r == 1:
		return pick(rng, "true", "false", "null", "1.5e3", "-0.25", "0")
	case r == 2 && depth < 3:
		n := rng.Intn(3)
		parts := make([]string, 0, n)
		for i := 0; i < n; i++ {
			parts = append(parts, extraValue(rng, level, depth+1))
		}
		return "[" + strings.Join(parts, ",") + "]"
	case r == 3 && depth < 3:
		n := rng.Intn(3)
		parts := make([]string, 0, n)
		for i := 0; i < n; i++ {
			parts = append(parts, jsonStr(fmt.Sprintf("k%d%s", i, pick(rng, "", " ", "é", `"`)), rng.Intn(2))+":"+extraValue(rng, level, depth+1))
		}
		return "{" + strings.Join(parts, ",") + "}"
	default:
		return jsonStr(payload(rng, level, true), rng.Intn(2))
	}
}

// ---------------------------------------------------------------------------
// line generation
// ---------------------------------------------------------------------------

func tagOf(src int, stream string, idx int) string {
	return fmt.Sprintf("⟦%d.%s.%d⟧", src, stream, idx)
}

func idOf(src int, stream string, idx int) string {
	return fmt.Sprintf("%d.%s.%d", src, stream, idx)
}

func streamNames(cs *Case) []string {
	if cs.Kind == "k8s" {
		if cs.Streams <= 1 {
			return []string{"stdout"}
		}
		return []string{"stdout", "stderr"}
	}
	if cs.Streams == 0 {
		return []string{""}
	}
	out := make([]string, cs.Streams)
	for i := range out {
		out[i] = string(rune('a' + i))
	}
	return out
}

func streamLabel(s string) string {
	if s == "" {
		return "not_set"
	}
	return s
}

// genJoinValue returns a value for the joined field of the nominal class.
func genJoinValue(cs *Case, rng *rand.Rand, class int, tag string) string {
	if cs.Kind == "join_template" {
		return genTemplateLine(cs, rng, class, tag)
	}
	f := familyByName(cs.Family)
	return f.mk(rng, class, tag, payload(rng, cs.Hostile, true))
}

// buildJoinEvent writes the JSON line of one event.
func buildJoinEvent(cs *Case, rng *rand.Rand, ln *Line) {
	style := rng.Intn(2)
	type member struct{ k, v string }
	var ms []member
	ms = append(ms, member{"id", jsonStr(ln.ID, 0)})
	if ln.Stream != "" {
		ms = append(ms, member{"stream", jsonStr(ln.Stream, 0)})
	}
	if cs.PreDiscard {
		d := "0"
		if ln.Drop {
			d = "1"
		}
		ms = append(ms, member{"drop", jsonStr(d, 0)})
	}
	if ln.HasSvc {
		ms = append(ms, member{"svc", jsonStr(ln.Svc, 0)})
	}
	if ln.HasLvl {
		ms = append(ms, member{"lvl", jsonStr(ln.Lvl, 0)})
	}
	if ln.PD != "" {
		ms = append(ms, member{"pd", jsonStr(ln.PD, 0)})
	}
	path := strings.Split(cs.Field, ".")
	if ln.NonStr != "" {
		// the field is present but is not a string
		v := ln.NonStr
		for i := len(path) - 1; i >= 1; i-- {
			v = `{` + jsonStr(path[i], 0) + ":" + v + `}`
		}
		ms = append(ms, member{path[0], v})
	} else if ln.HasField {
		v := jsonStr(ln.Value, style)
		for i := len(path) - 1; i >= 1; i-- {
			sib := ""
			if rng.Intn(2) == 0 {
				sib = `,"sib":` + extraValue(rng, cs.Hostile, 2)
			}
			if rng.Intn(2) == 0 {
				v = `{` + jsonStr(path[i], 0) + ":" + v + sib + `}`
			} else {
				v = `{` + strings.TrimPrefix(sib+",", ",") + jsonStr(path[i], 0) + ":" + v + `}`
			}
		}
		ms = append(ms, member{path[0], v})
	} else if len(path) > 1 && rng.Intn(2) == 0 {
		// the parent exists but the leaf does not
		ms = append(ms, member{path[0], pick(rng, `{}`, `{"other":1}`, `"str"`, `[1]`)})
	}
	if ln.Sentinel {
		ms = append(ms, member{"sentinel", "true"})
	}
	for i, n := 0, rng.Intn(3); i < n; i++ {
		ms = append(ms, member{fmt.Sprintf("x%d", i), extraValue(rng, cs.Hostile, 0)})
	}
	// member order: id stays first half of the time
	if rng.Intn(2) == 0 {
		rng.Shuffle(len(ms), func(i, j int) { ms[i], ms[j] = ms[j], ms[i] })
	}
	var b strings.Builder
	b.WriteByte('{')
	for i, m := range ms {
		if i > 0 {
			b.WriteByte(',')
		}
		b.WriteString(jsonStr(m.k, 0))
		b.WriteByte(':')
		if rng.Intn(8) == 0 {
			b.WriteByte(' ')
		}
		b.WriteString(m.v)
	}
	b.WriteString("}\n")
	ln.Raw = []byte(b.String())
	ln.RawLen = len(ln.Raw)
}

func weighted(rng *rand.Rand, w ...int) int {
	t := 0
	for _, x := range w {
		t += x
	}
	if t == 0 {
		return 0
	}
	r := rng.Intn(t)
	for i, x := range w {
		if r < x {
			return i
		}
		r -= x
	}
	return 0
}

// genLines builds, per source, the lines in feed order (the streams of one
// source are interleaved like the lines of one file).
func genLines(cs *Case) [][]*Line {
	rng := rand.New(rand.NewSource(cs.Seed))
	// the draws for match conditions and run shapes come from a stream of their
	// own: a case without them is the same case as before they existed
	rngM := rand.New(rand.NewSource(cs.Seed ^ 0x6d617463685f3135))
	// the same for the actions behind the joining action and for non-string values
	rngP := rand.New(rand.NewSource(cs.Seed ^ 0x706f73745f633135))
	var nonStr []string
	if cs.NonStrPct > 0 {
		nonStr = nonStrVocab(cs)
	}
	names := streamNames(cs)
	out := make([][]*Line, cs.Sources)
	for s := 0; s < cs.Sources; s++ {
		src := s + 1
		per := make([][]*Line, len(names))
		for si, name := range names {
			n := cs.PerStream
			if n > 4 {
				n = n/2 + rng.Intn(n)
			}
			lab := streamLabel(name)
			if cs.Kind == "k8s" {
				per[si] = genK8sStream(cs, rng, src, name, n)
				continue
			}
			burst := 0 // remaining lines of a forced long run
			sh := newShaper(cs, rngM)
			inRun := false // nominally inside a run (only used to place non-matching events)
			for i := 0; i < n; i++ {
				ln := &Line{Src: src, Stream: name, Idx: i, ID: idOf(src, lab, i), HasField: true}
				class := weighted(rng, cs.WStart, cs.WCont, cs.WOther, cs.WMissing, cs.WEmpty)
				if burst > 0 {
					class = 1
					burst--
				} else if class == 0 && rng.Intn(12) == 0 {
					burst = 10 + rng.Intn(60)
				}
				class = sh.class(class)
				switch class {
				case 3:
					ln.HasField = false
				case 4:
					ln.Value = ""
				default:
					ln.Value = genJoinValue(cs, rng, class, tagOf(src, lab, i))
					ln.Value = sh.value(cs, ln.Value, class, i)
				}
				if cs.PreDiscard && rng.Intn(6) == 0 {
					ln.Drop = true
				}
				if len(nonStr) > 0 {
					// a non-string value of the join field: anywhere, more often right inside
					// a (nominal) run
					pct := cs.NonStrPct
					if inRun {
						pct += 12
					}
					if rngP.Intn(100) < pct {
						ln.HasField, ln.Value = false, ""
						ln.NonStr = nonStr[rngP.Intn(len(nonStr))]
						class = 3
					}
				}
				if cs.Post != "" {
					drawPostMarker(rngP, ln, class == 0)
					if !postDiscards(cs) {
						ln.PostDrop = false // the marker is there, but no action looks at it
					}
				}
				if cs.Match != "" {
					// events that do not satisfy the match conditions of the action: anywhere,
					// and more often right inside a (nominal) run
					pct := cs.NoMatchPct
					if inRun {
						pct += 10
					}
					ln.NoMatch = rngM.Intn(100) < pct
					drawMatchMembers(cs, rngM, ln)
				}
				inRun = class == 0 || (inRun && class == 1)
				buildJoinEvent(cs, rng, ln)
				per[si] = append(per[si], ln)
			}
			// sentinel: an event without the field closes the last run
			ln := &Line{Src: src, Stream: name, Idx: n, ID: idOf(src, lab, n), Sentinel: true}
			if cs.Match != "" {
				ln.NoMatch = rngM.Intn(100) < cs.NoMatchPct
				drawMatchMembers(cs, rngM, ln)
			}
			if cs.Post != "" {
				ln.PD = pick(rngP, "", "0")
			}
			buildJoinEvent(cs, rng, ln)
			per[si] = append(per[si], ln)
		}
		// interleave, sometimes in bursts of one stream
		next := make([]int, len(per))
		left := 0
		for _, l := range per {
			left += len(l)
		}
		for left > 0 {
			si := rng.Intn(len(per))
			if next[si] >= len(per[si]) {
				continue
			}
			k := 1
			if rng.Intn(3) == 0 {
				k = 1 + rng.Intn(8)
			}
			for ; k > 0 && next[si] < len(per[si]); k-- {
				out[s] = append(out[s], per[si][next[si]])
				next[si]++
				left--
			}
		}
	}
	// the oracle needs the canonical form of the other members
	if cs.Kind != "k8s" {
		path := strings.Split(cs.Field, ".")
		for _, l := range out {
			for _, ln := range l {
				v, err := viewEvent(strings.TrimSuffix(string(ln.Raw), "\n"), path)
				if err != nil || v.ID != ln.ID || v.HasField != ln.HasField || v.Value != ln.Value {
					panic(fmt.Sprintf("generator self-check failed for %s: %v: %s", ln.ID, err, ln.Raw))
				}
				ln.RestCan = v.Canon
			}
		}
	}
	// pause points: after a line that leaves a run open
	if cs.Pauses > 0 {
		markPauses(cs, rng, out)
	}
	return out
}

// ---------------------------------------------------------------------------
// k8s (CRI) lines
// ---------------------------------------------------------------------------

func k8sPayload(rng *rand.Rand, cs *Case) string {
	p := payload(rng, cs.Hostile, false)
	p = strings.ReplaceAll(p, "\n", " ") // a CRI line holds no raw newline
	if cs.PipeMax > 0 && cs.Hostile >= 1 && rng.Intn(3) == 0 {
		// escape-dense text: wherever a size limit cuts, an escape sequence is near
		atoms := []string{`"`, `\`, "\t", "<", "é", "\x01", "a", "日", "&", `\n`}
		var b strings.Builder
		for i, n := 0, 20+rng.Intn(120); i < n; i++ {
			b.WriteString(atoms[rng.Intn(len(atoms))])
		}
		p += b.String()
	}
	if cs.BigChunks && rng.Intn(6) == 0 {
		p += strings.Repeat(pick(rng, "x", "y", "é", `"`, `\`), 2000+rng.Intn(14000))
	}
	return p
}

func genK8sStream(cs *Case, rng *rand.Rand, src int, stream string, n int) []*Line {
	var out []*Line
	short := map[string]string{"stdout": "o", "stderr": "e"}[stream]
	// one container log line longer than split_event_size (13 chunks of 16 KB)
	hugeAt, hugeN := -1, 13
	if cs.BigChunks && n > 20 {
		hugeAt = rng.Intn(n - 15)
	}
	if cs.HugeLine {
		// a line whose joined text exceeds 512 KiB but stays below split_event_size
		// minus the look-ahead (41 x 16 KiB = 656 KiB), early in the stream, followed
		// by ordinary lines written in partial chunks: buffers that were grown for
		// the huge line are reused for them
		hugeN = 41
		hugeAt = rng.Intn(4)
		n += hugeN
	}
	for i := 0; i < n; i++ {
		ln := &Line{Src: src, Stream: stream, Idx: i, ID: idOf(src, short, i)}
		ln.Partial = rng.Intn(100) < cs.PartialPct && i < n-1
		ln.Content = tagOf(src, short, i) + k8sPayload(rng, cs)
		if hugeAt >= 0 && i >= hugeAt && i < hugeAt+hugeN {
			ln.Partial = i < hugeAt+hugeN-1
			sz := 16000
			if cs.HugeLine {
				sz = 16384
			}
			ln.Content = tagOf(src, short, i) + strings.Repeat(pick(rng, "x", "yz", "é"), sz)[:sz]
			out = append(out, ln)
			continue
		}
		if cs.HugeLine && i >= hugeAt+hugeN && i < hugeAt+hugeN+3 {
			// the line right behind the huge one is written in three chunks
			ln.Partial = i < hugeAt+hugeN+2
		}
		if ln.Partial && cs.PipeMax == 0 {
			// hostile endings of a partial chunk: a literal backslash followed by 'n'
			// (an application that logs escaped JSON), a lone backslash, a quote
			switch rng.Intn(14) {
			case 0:
				ln.Content += `\n`
			case 1:
				ln.Content += `\`
			case 2:
				ln.Content += `"`
			case 3:
				ln.Content += `n`
			}
		}
		if cs.PipeMax > 0 {
			// a single input line stays below the pipeline's max_event_size (what In
			// does with a longer raw line is not this property's business)
			lim := cs.PipeMax - 64
			for len(ln.Content) > lim {
				_, sz := utf8.DecodeLastRuneInString(ln.Content)
				ln.Content = ln.Content[:len(ln.Content)-sz]
			}
			// (the literal backslash-n ending of a partial chunk is exercised by the
			// cases without a size limit only, so that one defect does not blur another)
			if ln.Partial && strings.HasSuffix(ln.Content, `\n`) {
				ln.Content += "."
			}
		}
		out = append(out, ln)
	}
	return out
}

func finishK8sLines(cs *Case, lines [][]*Line) {
	for _, l := range lines {
		for k, ln := range l {
			ln.Time = fmt.Sprintf("2016-10-06T00:17:09.%09dZ", 100000*ln.Src+k)
			flag := "F"
			if ln.Partial {
				flag = "P"
			}
			ln.Raw = []byte(ln.Time + " " + ln.Stream + " " + flag + " " + ln.Content + "\n")
			ln.RawLen = len(ln.Raw)
		}
	}
}

// ---------------------------------------------------------------------------
// pause points (short event_timeout): chosen where the reference model says a
// run is open after the line.
// ---------------------------------------------------------------------------

func markPauses(cs *Case, rng *rand.Rand, lines [][]*Line) {
	type cand struct{ ln *Line }
	var cands, dropCands []cand
	for _, l := range lines {
		byStream := map[string][]*Line{}
		for _, ln := range l {
			byStream[ln.Stream] = append(byStream[ln.Stream], ln)
		}
		for _, sl := range byStream {
			if cs.Kind == "k8s" {
				for _, ln := range sl {
					if ln.Partial {
						cands = append(cands, cand{ln})
					}
				}
				continue
			}
			m := newJoinModel(cs)
			for _, ln := range sl {
				if ln.Drop {
					// a pause right after an event that the discard action removed while
					// a run is open: the time-out must still reach the join action
					if m.open != nil {
						dropCands = append(dropCands, cand{ln})
					}
					continue
				}
				m.step(ln)
				if m.open != nil {
					cands = append(cands, cand{ln})
				}
			}
		}
	}
	rng.Shuffle(len(cands), func(i, j int) { cands[i], cands[j] = cands[j], cands[i] })
	rng.Shuffle(len(dropCands), func(i, j int) { dropCands[i], dropCands[j] = dropCands[j], dropCands[i] })
	if len(dropCands) > 2 {
		dropCands = dropCands[:2]
	}
	cands = append(dropCands, cands...)
	for i := 0; i < cs.Pauses && i < len(cands); i++ {
		cands[i].ln.Pause = true
	}
}

// ---------------------------------------------------------------------------
// case generation
// ---------------------------------------------------------------------------

// genHugeCase: k8s case of the "huge line" family (default split_event_size, no
// max_event_size, 30 s time-out); every third one runs on exactly one processor.
func genHugeCase(rng *rand.Rand, seed int64, j int) Case {
	cs := genCase(rng, seed, "k8s-huge", j)
	cs.Name = fmt.Sprintf("k8s-huge-%d", j)
	return cs
}

func genCase(rng *rand.Rand, seed int64, kind string, i int) Case {
	huge := kind == "k8s-huge"
	if huge {
		kind = "k8s"
	}
	cs := Case{Kind: kind, Seed: seed, Name: fmt.Sprintf("%s-%d", kind, i)}
	cs.Procs = []int{1, 2, 4}[rng.Intn(3)]
	// exactly one processor only with one (source, stream): a single processor
	// that holds a stream cannot serve another one until the time-out
	cs.SingleProc = rng.Intn(6) == 0
	cs.Pool = pick(rng, "std", "std", "low_memory")
	cs.AvgSize = []int{64, 256, 4096}[rng.Intn(3)]
	cs.Sources = 1 + rng.Intn(4)
	cs.Feeders = 1 + rng.Intn(3)
	cs.Hostile = rng.Intn(4)
	cs.EventTimeoutMs = 30000
	short := i%3 == 2 && !huge
	if huge {
		cs.SingleProc = i%3 == 0
	}
	if short {
		cs.EventTimeoutMs = []int{100, 200, 300}[rng.Intn(3)]
		cs.Pauses = 3 + rng.Intn(3)
	}
	switch kind {
	case "join", "join_template":
		cs.Streams = rng.Intn(4) // 0 = default stream only
		cs.PerStream = 40 + rng.Intn(160)
		cs.Field = pick(rng, "log", "log", "message", "a.b", "k8s.log.text")
		cs.PreDiscard = rng.Intn(4) == 0
		cs.WStart, cs.WCont, cs.WOther, cs.WMissing, cs.WEmpty = 2+rng.Intn(4), 3+rng.Intn(8), 1+rng.Intn(5), rng.Intn(2), rng.Intn(2)
		if rng.Intn(3) == 0 {
			cs.JoinMax = []int{1, 16, 64, 300, 2000}[rng.Intn(5)]
		}
		if kind == "join" {
			f := families[(i+int(seed%7))%len(families)]
			if rng.Intn(3) == 0 {
				f = families[rng.Intn(len(families))]
			}
			cs.Family, cs.Start, cs.Continue, cs.Negate = f.Name, f.Start, f.Cont, f.Negate
		} else {
			all := []string{"go_panic", "cs_exception", "go_data_race"}
			switch rng.Intn(5) {
			case 0, 1:
				cs.Templates = []string{all[(i+int(seed%3))%3]}
				cs.Deprecated = rng.Intn(2) == 0
			case 2:
				rng.Shuffle(3, func(a, b int) { all[a], all[b] = all[b], all[a] })
				cs.Templates = all[:2]
			default:
				rng.Shuffle(3, func(a, b int) { all[a], all[b] = all[b], all[a] })
				cs.Templates = all
			}
			cs.Family = strings.Join(cs.Templates, "+")
		}
	case "k8s":
		cs.Streams = 1 + rng.Intn(2)
		cs.PerStream = 30 + rng.Intn(120)
		cs.PartialPct = []int{20, 50, 75}[rng.Intn(3)]
		cs.SplitEventSize = 1000000
		switch {
		case huge:
			cs.HugeLine = true
			cs.PerStream = 16 + rng.Intn(30)
			cs.PartialPct = []int{50, 75}[rng.Intn(2)]
		case short:
			// time-outs only with the default limits
		case i%3 == 0:
			cs.SplitEventSize = 128*1024 + []int{150, 600, 3000, 20000}[rng.Intn(4)]
			cs.BigChunks = cs.SplitEventSize > 128*1024+10000
		case i%3 == 1:
			cs.PipeMax = []int{300, 700, 1500}[rng.Intn(3)]
			cs.PartialPct = []int{75, 85}[rng.Intn(2)]
			cs.CutOff = (i/3)%2 == 0
			if cs.CutOff && rng.Intn(2) == 0 {
				cs.CutOffField = "_cropped"
			}
		}
	}
	if cs.HugeLine {
		cs.Sources = 1 + rng.Intn(2)
	}
	if cs.SingleProc {
		cs.Sources, cs.Feeders = 1, 1
		if cs.Kind == "k8s" {
			cs.Streams = 1
		} else {
			cs.Streams = rng.Intn(2)
		}
	}
	nStreams := cs.Streams
	if nStreams == 0 {
		nStreams = 1
	}
	cs.Capacity = 2*cs.Sources*nStreams + 8 + rng.Intn(32)
	// dimensions added later draw from a stream of their own (the cases above
	// stay what they were): how long the output holds an event, match conditions
	// on the joining action, run shapes
	rx := rand.New(rand.NewSource(seed ^ 0x6f75745f686f6c64))
	cs.OutHold = []int{0, 1, 2, 3, 5, 8, 16, 32}[rx.Intn(8)]
	cs.OutBatch = cs.OutHold > 0 && rx.Intn(3) == 0
	if kind != "k8s" {
		if rx.Intn(3) == 0 {
			cs.Match = matchModes[rx.Intn(len(matchModes))]
			cs.NoMatchPct = 5 + rx.Intn(20)
		}
		switch rx.Intn(4) {
		case 0:
			cs.RunShape = "equal"
		case 1:
			cs.RunShape = "saw"
		}
		if cs.RunShape != "" {
			cs.ShapeLen = []int{40, 64, 100, 200, 600}[rx.Intn(5)]
		}
	}
	return cs
}

// genMatchCase: join / join_template with match conditions on the action and
// events that do not satisfy them in the middle of runs, on several sources
// and streams served by FEW processors: exactly one (j%3 == 0), two (j%3 == 1),
// or as drawn. One processor that waits for the next line of a run cannot serve
// any other stream, so with the long time-out the pool holds the whole input
// (nothing ever stalls, no time-out may be seen); with a short time-out a
// stalled stream is released by its time-out (a justified split).
func genMatchCase(rng *rand.Rand, seed int64, kind string, j int) Case {
	cs := genCase(rng, seed, kind, j)
	cs.Name = fmt.Sprintf("%s-match-%d", kind, j)
	rx := rand.New(rand.NewSource(seed ^ 0x6d617463682d6a))
	cs.Match = matchModes[j%len(matchModes)]
	cs.NoMatchPct = 8 + rx.Intn(20)
	cs.Sources = 2 + rx.Intn(2)
	cs.Streams = rx.Intn(3)
	cs.Feeders = 1 + rx.Intn(2)
	cs.PerStream = 20 + rx.Intn(50)
	cs.SingleProc = false
	switch j % 3 {
	case 0:
		cs.SingleProc = true
	case 1:
		cs.Procs = 1
	}
	if cs.OutHold == 0 && rx.Intn(2) == 0 {
		cs.OutHold = 2 + rx.Intn(8)
	}
	if j%2 == 1 {
		cs.EventTimeoutMs = []int{100, 200, 300}[rx.Intn(3)]
		cs.Pauses = 3 + rx.Intn(3)
	} else {
		cs.EventTimeoutMs, cs.Pauses = 30000, 0
	}
	nStreams := cs.Streams
	if nStreams == 0 {
		nStreams = 1
	}
	total := cs.Sources * nStreams * (cs.PerStream*3/2 + 2)
	switch {
	case cs.EventTimeoutMs >= 1000:
		cs.Capacity = total + 16
	default:
		cs.Capacity = total/3 + 32 + rx.Intn(64)
	}
	return cs
}
