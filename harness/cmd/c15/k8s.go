package main

// Oracle for k8s-multiline, from the k8s input README, the pipeline README
// (max_event_size, cut_off_event_by_limit[_field]) and the property text:
//
//   - the partial chunks (CRI tag P) of one container log line followed by
//     the final chunk (tag F) are replaced by one event whose `log` is the
//     in-order concatenation of the chunk contents (the final chunk keeps its
//     newline); a line that was not split passes unchanged;
//   - split_event_size: a longer event "will be split after all", "not a
//     strict rule: events may be split even if they won't exceed the limit":
//     a split between chunks is accepted where the accumulated input size plus
//     the plugin's 128 KiB look-ahead exceeds split_event_size;
//   - max_event_size: a joined event over the limit is discarded, or with
//     cut_off_event_by_limit cut to the first max_event_size bytes (and marked
//     with cut_off_event_by_limit_field);
//   - a stream time-out ends a run (only possible after a real feeder gap);
//   - stdout/stderr and different containers are never mixed.

import (
	"fmt"
	"strings"
	"unicode/utf8"
)

const k8sLookahead = 128 * 1024

type podInfo struct {
	NS, Pod, Container, CID string
	Labels                  map[string]string
}

func podOf(src int) podInfo {
	return podInfo{
		NS:        fmt.Sprintf("ns-%d", src%2),
		Pod:       fmt.Sprintf("pod-%d-abcde", src),
		Container: fmt.Sprintf("cont-%d", src),
		CID:       fmt.Sprintf("%064x", 0xc15000+src),
		Labels:    map[string]string{"app": fmt.Sprintf("app%d", src), "tier": "t"},
	}
}

func (p podInfo) fileName() string {
	return fmt.Sprintf("/k8s-logs/%s_%s_%s-%s.log", p.Pod, p.NS, p.Container, p.CID)
}

func (p podInfo) meta() map[string]string {
	return map[string]string{"k8s_pod": p.Pod, "k8s_namespace": p.NS, "k8s_container": p.Container, "k8s_container_id": p.CID}
}

const k8sNode = "node-c15"

func k8sText(ln *Line) string {
	if ln.Partial {
		return ln.Content
	}
	return ln.Content + "\n"
}

func k8sConcat(ls []*Line) string {
	var b strings.Builder
	for _, l := range ls {
		b.WriteString(k8sText(l))
	}
	return b.String()
}

// worst-case length of s inside a JSON string literal (every escapable byte
// as \u00XX)
func escMax(s string) int {
	n := 0
	for i := 0; i < len(s); i++ {
		c := s[i]
		if c < 0x20 || c == '"' || c == '\\' || c == '<' || c == '>' || c == '&' || c == 0x7f {
			n += 6
		} else {
			n++
		}
	}
	return n
}

// checkK8sStream returns the deviations of one stream. The walk stops at the
// first deviation, except for the two shapes after which the position in the
// line sequence is still known (so that one defect does not hide the rest of
// the stream from the oracle).
func checkK8sStream(cs *Case, so *streamObs, st *oracleStats) []Viol {
	var found []Viol
	seenSig := map[string]bool{}
	note := func(v *Viol) {
		if !seenSig[v.Sig] {
			seenSig[v.Sig] = true
			found = append(found, *v)
		}
	}
	if v := walkK8sStream(cs, so, st, note); v != nil {
		note(v)
	}
	return found
}

func walkK8sStream(cs *Case, so *streamObs, st *oracleStats, note func(*Viol)) *Viol {
	lines := so.Raw
	outs := so.Outs
	short1 := map[string]string{"stdout": "o", "stderr": "e"}[so.Stream]
	pod := podOf(so.Src)
	mk := func(shape, what string, pos, a int) *Viol {
		return &Viol{Sig: "k8s-multiline:" + shape, What: what, Witness: map[string]any{
			"source": so.Src, "stream": so.Stream, "at_line": pos, "split_event_size": cs.SplitEventSize,
			"max_event_size": cs.PipeMax, "cut_off": cs.CutOff,
			"lines": window(lines, pos-2, pos+10), "outputs": outBrief(outs, a-2, a+3),
		}}
	}
	// first chunk index of every output event (by its first tag)
	first := func(e *outEv) int {
		if len(e.tags) == 0 {
			return -1
		}
		return e.tags[0].Idx
	}
	pos, a := 0, 0
	afterHuge := false
	for pos < len(lines) {
		// the run [pos, e)
		e := pos
		for e < len(lines) && lines[e].Partial {
			e++
		}
		if e < len(lines) {
			e++
		}
		run := lines[pos:e]
		nPartial := 0
		for _, l := range run {
			if l.Partial {
				nPartial++
			}
		}
		partText := k8sConcat(run[:nPartial])
		under := cs.PipeMax == 0 || nPartial == 0 || escMax(partText)+escMax(k8sText(run[len(run)-1]))+8 < cs.PipeMax
		over := cs.PipeMax > 0 && nPartial > 0 && len(partText) > cs.PipeMax

		f := len(lines)
		if a < len(outs) {
			f = first(outs[a])
			if f < 0 {
				return mk("output-without-chunk-tag", fmt.Sprintf("output event %d carries no chunk of this stream: %s", outs[a].rec.N, short(outs[a].log, 200)), pos, a)
			}
		}
		if f < pos {
			return mk("duplicate-chunks", fmt.Sprintf("chunk %d reached the output again", f), pos, a)
		}
		if f > pos {
			// chunks pos..f-1 are missing
			if cs.PipeMax > 0 && !under && !cs.CutOff && f >= e {
				st.add("k8s_discarded_by_limit", 1)
				st.fp(fmt.Sprintf("k8s/discarded/chunks=%s", bucket(len(run))))
				pos = e
				continue
			}
			if cs.PipeMax > 0 && under && f >= e && nPartial > 0 {
				return mk("discarded-under-limit", fmt.Sprintf("the joined line of chunks %d..%d (at most %d bytes escaped) is below max_event_size=%d but was discarded", pos, e-1, escMax(partText), cs.PipeMax), pos, a)
			}
			allPartial := f <= pos+nPartial
			if allPartial && f < e {
				if ok, _ := anyGap(cs, lines, pos, f); ok {
					note(mk("timeout-drops-buffered-chunks", fmt.Sprintf("partial chunks %d..%d were buffered, then a stream time-out fired and the rest of the line (from chunk %d) was emitted without them: the buffered bytes are lost", pos, f-1, f), pos, a))
					st.add("k8s_timeout_drops", 1)
					pos = f
					continue
				}
			}
			return mk("lost-chunks", fmt.Sprintf("chunks %d..%d never reached the output", pos, f-1), pos, a)
		}
		ev := outs[a]
		// extent of this output event: consecutive chunks pos..q-1
		q := pos
		for _, t := range ev.tags {
			if t.Src != so.Src || t.Stream != short1 {
				return mk("merged-foreign-stream", fmt.Sprintf("output event %d holds chunk ⟦%d.%s.%d⟧ of another container or stream", ev.rec.N, t.Src, t.Stream, t.Idx), pos, a)
			}
			if t.Idx != q {
				shape := "chunks-out-of-order"
				if t.Idx > q {
					shape = "lost-chunks-inside-line"
				}
				return mk(shape, fmt.Sprintf("output event %d holds chunk %d where chunk %d is expected", ev.rec.N, t.Idx, q), pos, a)
			}
			q++
		}
		if ev.broken {
			// reported as invalid JSON already; with a cut-off it stands for the cut line
			if cs.CutOff && cs.PipeMax > 0 {
				st.add("k8s_cut_off_invalid_json", 1)
				pos = e
			} else {
				st.add("k8s_invalid_json_events", 1)
				pos = q // the chunks whose tags the raw text shows
			}
			a++
			continue
		}
		if q > e {
			return mk("joined-past-final-chunk", fmt.Sprintf("output event %d joins chunks %d..%d but the line ends with final chunk %d", ev.rec.N, pos, q-1, e-1), pos, a)
		}
		full := k8sConcat(lines[pos:q])
		got := ev.log
		cut := false
		if got != full {
			// only a cut-off may change the bytes
			if !(cs.PipeMax > 0 && cs.CutOff && !under) {
				shape := "joined-log-mismatch"
				switch {
				case len(got) > len(full) && strings.HasSuffix(got, full):
					shape = "joined-log-stale-prefix"
				case strings.HasPrefix(full, got):
					shape = "joined-log-truncated"
				}
				return mk(shape, fmt.Sprintf("log of output event %d is not the concatenation of chunks %d..%d: got %q want %q", ev.rec.N, pos, q-1, short(got, 300), short(full, 300)), pos, a)
			}
			cut = true
		}
		if cut {
			// "only the first max_event_size bytes are passed further": the chunks
			// seen in the output are a prefix of the line, the rest of the line is
			// consumed; the log is a byte prefix of the line (a final newline may
			// be kept)
			whole := k8sConcat(run)
			body := strings.TrimSuffix(got, "\n")
			if !strings.HasPrefix(whole, body) {
				m := 0
				for m < len(body) && m < len(whole) && body[m] == whole[m] {
					m++
				}
				if len(body)-m <= 8 && ((m < len(whole) && escapedAt(whole, m)) || (m > 0 && needsEscape(whole[m-1]))) {
					// the cut fell inside the escape sequence of whole[m] (or of the
					// backslash before it, whose first half is still a common prefix)
					note(mk("cutoff-splits-escape-sequence", fmt.Sprintf("cut_off_event_by_limit cut the escaped text of the line inside an escape sequence (line offset %d): the log of output event %d ends with %q where the line has %q", m, ev.rec.N, tail(body, 12), short(whole[max0(m-8):], 16)), pos, a))
					st.add("k8s_cut_off_inside_escape", 1)
					pos = e
					a++
					continue
				}
				return mk("cutoff-log-not-a-prefix", fmt.Sprintf("cut_off_event_by_limit: log of output event %d is not a prefix of the joined line: got …%q, the line has …%q there", ev.rec.N, tail(body, 40), tail(short(whole, len(body)+4), 44)), pos, a)
			}
			if len(body) > cs.PipeMax {
				return mk("cutoff-over-limit", fmt.Sprintf("cut_off_event_by_limit: %d bytes passed, max_event_size=%d", len(body), cs.PipeMax), pos, a)
			}
			if escMax(body)+16 < cs.PipeMax && len(body) < len(whole)-1 {
				return mk("cutoff-too-short", fmt.Sprintf("cut_off_event_by_limit: only %d bytes passed, max_event_size=%d", len(body), cs.PipeMax), pos, a)
			}
			if cs.CutOffField != "" && ev.mem[cs.CutOffField] != "true" {
				return mk("cutoff-field-missing", fmt.Sprintf("the event was cut but %s is not set", cs.CutOffField), pos, a)
			}
			st.add("k8s_cut_off", 1)
			st.fp(fmt.Sprintf("k8s/cut/chunks=%s", bucket(len(run))))
			q = e // the rest of the line is consumed by the cut
		} else {
			if over && q == e && nPartial > 0 {
				return mk("limit-not-applied", fmt.Sprintf("the partial chunks %d..%d alone have %d bytes > max_event_size=%d but the joined line passed whole", pos, pos+nPartial-1, len(partText), cs.PipeMax), pos, a)
			}
			if cs.CutOffField != "" && ev.mem[cs.CutOffField] != "" {
				return mk("cutoff-field-on-whole-event", fmt.Sprintf("event %d is complete but carries %s", ev.rec.N, cs.CutOffField), pos, a)
			}
		}
		if q < e {
			// split inside a line: justified by split_event_size or by a time-out
			acc := 0
			for _, l := range lines[pos:q] {
				acc += l.RawLen
			}
			switch {
			case acc+k8sLookahead > cs.SplitEventSize:
				st.add("k8s_split_by_size", 1)
				st.fp(fmt.Sprintf("k8s/split/chunks=%s/final=%v", bucket(q-pos), !lines[q-1].Partial))
			default:
				if ok, maxGap := gapPermitsTimeout(cs, lines, lines[q-1], lines[q]); ok {
					st.add("timeout_splits", 1)
				} else {
					shape := "line-split-unjustified"
					if strings.HasSuffix(lines[q-1].Content, `\n`) {
						shape = "line-split-at-partial-chunk-ending-with-literal-backslash-n"
					}
					v := mk(shape, fmt.Sprintf("the line of chunks %d..%d was emitted in pieces: a piece ends after partial chunk %d although %d accumulated bytes + 128 KiB look-ahead <= split_event_size=%d and no time-out was possible (largest gap %d ms)", pos, e-1, q-1, acc, cs.SplitEventSize, maxGap/1e6), pos, a)
					if shape == "line-split-unjustified" {
						return v
					}
					note(v)
					st.add("k8s_split_at_backslash_n", 1)
				}
			}
		} else if !cut {
			// must-split rule: a piece longer than split_event_size (+ one chunk) is too long
			maxChunk := 0
			for _, l := range lines[pos:q] {
				if l.RawLen > maxChunk {
					maxChunk = l.RawLen
				}
			}
			if len(full) > cs.SplitEventSize+maxChunk {
				return mk("split-event-size-exceeded", fmt.Sprintf("joined log has %d bytes, split_event_size=%d", len(full), cs.SplitEventSize), pos, a)
			}
		}
		// the other members
		want := map[string]string{"stream": so.Stream, "k8s_node": k8sNode}
		for k, v := range pod.meta() {
			want[k] = v
		}
		for k, v := range pod.Labels {
			want["k8s_pod_label_"+k] = v
		}
		want["k8s_node_label_zone"] = "z15"
		for k, v := range want {
			if ev.mem[k] != v {
				return mk("event-fields-wrong", fmt.Sprintf("output event %d: member %s = %q, want %q", ev.rec.N, k, ev.mem[k], v), pos, a)
			}
		}
		timeOK := false
		lastChunk := q
		if cut {
			lastChunk = e
		}
		for _, l := range lines[pos:lastChunk] {
			if l.Time == ev.mem["time"] {
				timeOK = true
			}
		}
		if !timeOK {
			return mk("event-fields-wrong", fmt.Sprintf("output event %d: time %q is not the time of one of its chunks", ev.rec.N, ev.mem["time"]), pos, a)
		}
		for k := range ev.mem {
			if _, ok := want[k]; !ok && k != "log" && k != "time" && k != cs.CutOffField {
				return mk("event-fields-wrong", fmt.Sprintf("output event %d: unexpected member %s", ev.rec.N, k), pos, a)
			}
		}
		n := q - pos
		if !cut && q == e {
			if len(full) > 512*1024 {
				st.add("k8s_huge_lines_joined", 1)
				st.fp("k8s/whole/huge")
				afterHuge = true
			} else if afterHuge && n > 1 {
				st.add("k8s_lines_joined_after_huge", 1)
			}
			if n > 1 {
				st.add("runs_joined", 1)
				st.add("lines_collapsed", int64(n-1))
				if ev.rec.HeldFor > 0 {
					st.add("joined_read_late", 1)
					st.add("k8s_joined_read_late", 1)
				}
			} else {
				st.add("runs_single", 1)
			}
			st.fp(fmt.Sprintf("k8s/whole/chunks=%s/limit=%v/bs-n=%v", bucket(n), cs.PipeMax > 0, n > 1 && strings.HasSuffix(lines[q-2].Content, `\`)))
		}
		pos = q
		a++
	}
	if a < len(outs) {
		return mk("duplicate-chunks", fmt.Sprintf("%d extra events at the output after the last chunk", len(outs)-a), pos, a)
	}
	return nil
}

func needsEscape(c byte) bool {
	return c < 0x20 || c == '"' || c == '\\' || c == '<' || c == '>' || c == '&'
}

// escapedAt: the text at s[m:] starts with something insane-json writes as an
// escape sequence: an ASCII character that needs escaping, U+2028 / U+2029
// (written as \u2028 / \u2029) or a byte that is not valid UTF-8 (\ufffd).
func escapedAt(s string, m int) bool {
	if needsEscape(s[m]) {
		return true
	}
	if s[m] < utf8.RuneSelf {
		return false
	}
	r, size := utf8.DecodeRuneInString(s[m:])
	return r == '\u2028' || r == '\u2029' || (r == utf8.RuneError && size == 1)
}

func max0(x int) int {
	if x < 0 {
		return 0
	}
	return x
}

func anyGap(cs *Case, lines []*Line, from, to int) (bool, int64) {
	var mx int64
	ok := false
	for i := from; i < to && i+1 < len(lines); i++ {
		if p, g := gapPermitsTimeout(cs, lines, lines[i], lines[i+1]); p {
			ok = true
			mx = g
		}
	}
	return ok, mx
}

func tail(s string, n int) string {
	if len(s) > n {
		return s[len(s)-n:]
	}
	return s
}
