package main

// Reference model and oracle for join / join_template, written from the
// plugin READMEs and the property text:
//
//   - an event whose field is missing is not joined; it ends an open run;
//   - a string value matching `start` ends an open run and opens a new one;
//   - while a run is open a value matching `continue` (xor negate) is
//     appended to the run and the event disappears;
//   - anything else ends the open run and is passed unchanged;
//   - the run is emitted as the first event of the run with the field replaced
//     by the concatenation of the values (max_event_size: "truncated");
//   - a stream time-out ends an open run as well (only possible when the
//     feeder really left a gap of at least event_timeout).
//
// Match conditions on the action (match_fields / do_if): the pipeline README
// says the action is executed for matching events only. Neither it nor the
// property text says what an event that does not match means to a run that is
// open. The code offers a busy action every following event of the stream,
// whether it matches or not (processor.doActions), so such an event is
// classified like any other: a continuation is appended, anything else ends
// the run, a start line even opens a new one. The oracle demands what the
// property text demands in either reading and accepts both:
//   - while no run is open, an event that does not match passes unchanged and
//     opens nothing;
//   - an event that does not match and arrives while a run is open either is
//     treated like a matching one (the code), or ends the run and passes
//     unchanged (match conditions read strictly);
//   - in no reading may it overtake the run that was open when it arrived, leave
//     the run open behind it, get lost or come out twice.

import (
	"bytes"
	"encoding/json"
	"fmt"
	"regexp"
	"strings"
)

type joinModel struct {
	cs      *Case
	start   *regexp.Regexp
	cont    *regexp.Regexp
	tpls    []tplRef
	tplName []string
	cur     int   // template of the open run
	open    *Line // first line of the open run
}

func newJoinModel(cs *Case) *joinModel {
	m := &joinModel{cs: cs, cur: -1}
	if cs.Kind == "join" {
		m.start = regexp.MustCompile(cs.Start)
		m.cont = regexp.MustCompile(cs.Continue)
	} else {
		for _, t := range cs.Templates {
			m.tpls = append(m.tpls, tplRefs[t])
			m.tplName = append(m.tplName, t)
		}
	}
	return m
}

// isStart reports whether the value opens a run (and with which template).
func (m *joinModel) isStart(v string) (bool, int) {
	if m.cs.Kind == "join" {
		return m.start.MatchString(v), -1
	}
	for i, t := range m.tpls {
		if t.Start.MatchString(v) {
			return true, i
		}
	}
	return false, -1
}

// isContAny: isCont for the join kind, or for a known template of join_template.
func (m *joinModel) isContAny(tpl int, v string) bool {
	if m.cs.Kind != "join" && (tpl < 0 || tpl >= len(m.tpls)) {
		return false
	}
	return m.isCont(tpl, v)
}

func (m *joinModel) isCont(tpl int, v string) bool {
	if m.cs.Kind == "join" {
		return m.cont.MatchString(v) != m.cs.Negate
	}
	t := m.tpls[tpl]
	return t.Cont.MatchString(v) != t.Negate
}

// step advances the no-time-out model by one kept line (used by the generator
// to find lines after which a run is open).
func (m *joinModel) step(ln *Line) {
	if ln.NoMatch && m.open == nil {
		// the action is idle: an event that does not satisfy its match conditions skips it
		return
	}
	// (while a run is open the action is offered every event of the stream)
	if !ln.HasField {
		m.open = nil
		return
	}
	if ok, t := m.isStart(ln.Value); ok {
		m.open, m.cur = ln, t
		return
	}
	if m.open != nil && m.isCont(m.cur, ln.Value) {
		return
	}
	m.open = nil
}

// ---------------------------------------------------------------------------
// event views
// ---------------------------------------------------------------------------

const fieldPlaceholder = "\x00<joined-field>\x00"

type evView struct {
	ID       string
	HasField bool
	Value    string
	Canon    string // canonical form with the field's string value replaced by a placeholder
}

// viewEvent decodes an event with encoding/json (independent of insane-json),
// extracts the string value at path and canonicalises the rest.
func viewEvent(js string, path []string) (evView, error) {
	v, _, _, err := viewEventStrip(js, path, "")
	return v, err
}

// viewEventStrip is viewEvent for an event that passed an action which adds the
// top-level member `strip`: the member is taken out of the canonical form and
// returned (value if it is a string, whether it was there).
func viewEventStrip(js string, path []string, strip string) (v evView, stripVal string, had bool, err error) {
	dec := json.NewDecoder(strings.NewReader(js))
	dec.UseNumber()
	var root any
	if err := dec.Decode(&root); err != nil {
		return v, "", false, err
	}
	if dec.More() {
		return v, "", false, fmt.Errorf("trailing data after the JSON value")
	}
	obj, ok := root.(map[string]any)
	if !ok {
		return v, "", false, fmt.Errorf("not an object")
	}
	if s, ok := obj["id"].(string); ok {
		v.ID = s
	}
	if strip != "" {
		if x, ok := obj[strip]; ok {
			had = true
			stripVal, _ = x.(string)
			delete(obj, strip)
		}
	}
	cur := obj
	for i, k := range path {
		x, ok := cur[k]
		if !ok {
			break
		}
		if i == len(path)-1 {
			if s, ok := x.(string); ok {
				v.HasField, v.Value = true, s
				cur[k] = fieldPlaceholder
			}
			break
		}
		nx, ok := x.(map[string]any)
		if !ok {
			break
		}
		cur = nx
	}
	var b bytes.Buffer
	canonWrite(&b, root)
	v.Canon = b.String()
	return v, stripVal, had, nil
}

// ---------------------------------------------------------------------------
// the oracle for one (source, stream)
// ---------------------------------------------------------------------------

type streamObs struct {
	Src    int
	Stream string
	Raw    []*Line // all lines in feed order (dropped ones included)
	Outs   []*outEv
}

type outEv struct {
	rec  *OutRec
	view evView
	tags []tagRef
	log  string // k8s: decoded log
	mem  map[string]string
	// k8s: the event is not valid JSON (already reported); only its chunk tags are known
	broken bool
}

type tagRef struct {
	Src    int
	Stream string
	Idx    int
	Pos    int
}

var tagRe = regexp.MustCompile(`⟦(\d+)\.([A-Za-z_]+)\.(\d+)⟧`)

func findTags(s string) []tagRef {
	var out []tagRef
	for _, m := range tagRe.FindAllStringSubmatchIndex(s, -1) {
		var t tagRef
		fmt.Sscanf(s[m[2]:m[3]], "%d", &t.Src)
		t.Stream = s[m[4]:m[5]]
		fmt.Sscanf(s[m[6]:m[7]], "%d", &t.Idx)
		t.Pos = m[0]
		out = append(out, t)
	}
	return out
}

// gapPermitsTimeout: could a stream time-out have fired between kept lines a
// and b (a < b, consecutive kept lines; dropped raw lines may lie between)?
// Only if some consecutive pair of raw lines of the stream in that range was
// fed with t_ret(In(next)) - t_call(In(prev)) >= event_timeout.
func gapPermitsTimeout(cs *Case, raw []*Line, a, b *Line) (bool, int64) {
	lim := int64(cs.EventTimeoutMs) * 1e6
	var maxGap int64
	for i := a.Idx; i < b.Idx && i+1 < len(raw); i++ {
		g := raw[i+1].TRet - raw[i].TCall
		if g > maxGap {
			maxGap = g
		}
	}
	return maxGap >= lim, maxGap
}

type oracleStats struct {
	m   map[string]int64
	fps map[string]struct{}
}

func (s *oracleStats) add(k string, n int64) { s.m[k] += n }
func (s *oracleStats) fp(f string) {
	if len(s.fps) < 400 {
		s.fps[f] = struct{}{}
	}
}

func bucket(n int) string {
	switch {
	case n <= 1:
		return fmt.Sprint(n)
	case n <= 3:
		return "2-3"
	case n <= 8:
		return "4-8"
	case n <= 30:
		return "9-30"
	}
	return "31+"
}

func short(s string, n int) string {
	if len(s) > n {
		return s[:n] + fmt.Sprintf("…(%d bytes)", len(s))
	}
	return s
}

func lineBrief(ln *Line) map[string]any {
	m := map[string]any{"id": ln.ID, "t_call_us": ln.TCall / 1000, "t_ret_us": ln.TRet / 1000}
	if ln.HasField {
		m["value"] = short(ln.Value, 160)
	} else if ln.NonStr != "" {
		m["field"] = "not a string: " + ln.NonStr
	} else if ln.Content != "" {
		m["content"] = short(ln.Content, 160)
		m["partial"] = ln.Partial
	} else {
		m["field"] = "missing"
	}
	if ln.Drop {
		m["dropped_by_discard_action"] = true
	}
	if ln.PostDrop {
		m["discarded_by_the_action_behind_join"] = true
	}
	if ln.Pause {
		m["pause_after"] = true
	}
	return m
}

func window(lines []*Line, from, to int) []any {
	if from < 0 {
		from = 0
	}
	if to > len(lines) {
		to = len(lines)
	}
	if to-from > 14 {
		to = from + 14
	}
	var out []any
	for _, l := range lines[from:to] {
		out = append(out, lineBrief(l))
	}
	return out
}

func outBrief(evs []*outEv, from, to int) []any {
	if from < 0 {
		from = 0
	}
	if to > len(evs) {
		to = len(evs)
	}
	var out []any
	for _, e := range evs[from:to] {
		out = append(out, map[string]any{"n": e.rec.N, "src": e.rec.Src, "stream": e.rec.Stream, "json": short(e.rec.JSON, 400)})
	}
	return out
}

// checkJoinStream walks the kept lines of one stream and the events the
// output saw for it. It returns the first deviation only (its shape is the
// signature).
func checkJoinStream(cs *Case, so *streamObs, st *oracleStats) *Viol {
	kind := cs.Kind
	m := newJoinModel(cs)
	var lines []*Line
	for _, l := range so.Raw {
		if l.Drop {
			st.add("pre_discarded", 1)
			continue
		}
		lines = append(lines, l)
	}
	idx := map[string]int{}
	for i, l := range lines {
		idx[l.ID] = i
	}
	outs := so.Outs
	mk := func(shape, what string, pos, a int) *Viol {
		return &Viol{Sig: kind + ":" + shape, What: what, Witness: map[string]any{
			"source": so.Src, "stream": so.Stream, "at_line": pos,
			"lines": window(lines, pos-3, pos+11), "outputs": outBrief(outs, a-2, a+4),
		}}
	}
	seen := map[string]int{}
	for _, e := range outs {
		seen[e.view.ID]++
	}
	pos, a := 0, 0
	// busyBefore: the previous output event was a run that ended exactly before
	// lines[pos] and not by a time-out, i.e. lines[pos] arrived while the action
	// was holding that run
	busyBefore := false
	// idleBefore: in the reading of the code the action may have been idle when
	// lines[pos] arrived (evidence only: tells a time-out from the strict reading)
	idleBefore := true
	// lastTpl: template of the last run; afterNonStr: the previous line was a
	// non-string value that ended that run (evidence only)
	lastTpl, afterNonStr := -1, false
	for pos < len(lines) {
		ln := lines[pos]
		if ln.PostDrop {
			// the action behind the joining action removes the event that carries this
			// line's members: deliberately dropped, nothing of it may be seen
			if a < len(outs) && outs[a].view.ID == ln.ID {
				return mk("following-action-not-applied", fmt.Sprintf("event %s reached the output although the discard action that follows the joining action matches it (pd = \"1\")", ln.ID), pos, a)
			}
			isS, tpl := false, -1
			if ln.HasField {
				isS, tpl = m.isStart(ln.Value)
			}
			afterNonStr = false
			if !isS {
				st.add("post_discarded_passthrough", 1)
				busyBefore, idleBefore = false, true
				pos++
				continue
			}
			// a whole run is dropped: its lines vanish up to the end of the run, or -
			// after a time-out - up to an earlier continuation line, which then passes
			// (or is dropped) on its own like the ones behind it
			e := pos + 1
			for e < len(lines) && lines[e].HasField {
				if s2, _ := m.isStart(lines[e].Value); s2 || !m.isCont(tpl, lines[e].Value) {
					break
				}
				e++
			}
			j := len(lines)
			if a < len(outs) {
				if k, ok := idx[outs[a].view.ID]; ok && k > pos {
					j = k
				}
				// (an unknown or an earlier id is reported by the next round of the walk)
			}
			q := e
			if j < e {
				justified := false
				var maxGap int64
				for c := j; c > pos; c-- {
					ok, g := gapPermitsTimeout(cs, so.Raw, lines[c-1], lines[c])
					if g > maxGap {
						maxGap = g
					}
					if ok {
						justified = true
						break
					}
					if !lines[c-1].PostDrop {
						break // lines[c-1] is not at the output: it was part of the run
					}
				}
				if !justified {
					return mk("run-split-without-timeout", fmt.Sprintf("the run of %s (dropped by the action behind the joining action) ended before continuation line %s although no stream time-out was possible there (largest feeder gap %d ms < event_timeout %d ms)", ln.ID, lines[j].ID, maxGap/1e6, cs.EventTimeoutMs), pos, a)
				}
				st.add("timeout_splits", 1)
				st.add("post_discarded_run_split_by_timeout", 1)
				q = j
			}
			if q-pos > 1 {
				st.add("post_discarded_joined_runs", 1)
			} else {
				st.add("post_discarded_single_runs", 1)
			}
			byEvent := false
			if q == e && e < len(lines) {
				if byTimeout, _ := gapPermitsTimeout(cs, so.Raw, lines[e-1], lines[e]); !byTimeout {
					// the run was still held when the event that ended it arrived
					byEvent = true
					st.add("post_discarded_run_ended_by_event", 1)
					if e+1 < len(lines) {
						st.add("post_discarded_run_ended_by_event_more_follow", 1)
					}
				}
			}
			st.fp(fmt.Sprintf("%s/%s/post=%s/dropped-run/len=%s/by-event=%v", kind, cs.Family, cs.Post, bucket(q-pos), byEvent))
			busyBefore, idleBefore = byEvent, !byEvent
			lastTpl = tpl
			pos = q
			continue
		}
		if a >= len(outs) {
			isS, _ := m.isStart(ln.Value)
			if ln.HasField && isS {
				return mk("run-never-flushed", fmt.Sprintf("the run opened by %s never reached the output although a non-continuing event followed it", ln.ID), pos, a)
			}
			return mk("lost-lines", fmt.Sprintf("event %s and everything after it never reached the output", ln.ID), pos, a)
		}
		ev := outs[a]
		if ev.view.ID != ln.ID {
			j, ok := idx[ev.view.ID]
			switch {
			case !ok:
				return mk("unknown-event", fmt.Sprintf("output event id %q does not belong to this stream", ev.view.ID), pos, a)
			case j < pos:
				return mk("duplicate-event", fmt.Sprintf("event %s reached the output again after later events of its stream", ev.view.ID), pos, a)
			case seen[ln.ID] > 0:
				return mk("reordered", fmt.Sprintf("event %s reached the output before %s of the same stream", ev.view.ID, ln.ID), pos, a)
			default:
				shape := "lost-lines"
				if isS, _ := m.isStart(ln.Value); !(ln.HasField && isS) {
					shape = "lost-non-joined-event"
				}
				return mk(shape, fmt.Sprintf("event %s never reached the output (next output event is %s)", ln.ID, ev.view.ID), pos, a)
			}
		}
		isS, tpl := false, -1
		if ln.HasField {
			isS, tpl = m.isStart(ln.Value)
		}
		if isS && ln.NoMatch && !busyBefore {
			// the action was idle: an event that does not satisfy the match conditions
			// is none of its business
			isS = false
			st.add("nomatch_start_passed_idle", 1)
		}
		if !isS {
			// not joined: unchanged
			if ev.view.HasField != ln.HasField || ev.view.Value != ln.Value {
				shape := "non-joined-event-changed"
				if strings.HasPrefix(ev.view.Value, ln.Value) && len(ev.view.Value) > len(ln.Value) && ln.HasField {
					shape = "joined-without-start"
				}
				return mk(shape, fmt.Sprintf("event %s is not part of a run but its field changed: got %q want %q", ln.ID, short(ev.view.Value, 200), short(ln.Value, 200)), pos, a)
			}
			if ev.view.Canon != ln.RestCan {
				return mk("non-joined-event-changed", fmt.Sprintf("event %s is not part of a run but its other fields changed", ln.ID), pos, a)
			}
			switch {
			case !ln.HasField:
				st.add("pass_missing_field", 1)
			default:
				st.add("pass_not_joined", 1)
			}
			if ln.NoMatch {
				st.add("nomatch_passed", 1)
				if busyBefore {
					st.add("nomatch_ended_run", 1)
				}
			}
			if afterNonStr && ln.HasField && lastTpl >= -1 && m.isContAny(lastTpl, ln.Value) {
				// a continuation-looking line behind the non-string event that ended the run
				st.add("cont_after_nonstring_not_glued", 1)
			}
			afterNonStr = false
			if ln.NonStr != "" {
				st.add("nonstring_passed", 1)
				if busyBefore {
					st.add("nonstring_ended_run", 1)
					afterNonStr = true
				} else {
					st.add("nonstring_passed_idle", 1)
				}
				st.fp(fmt.Sprintf("%s/%s/nonstring/%s/ended-run=%v", kind, cs.Family, nonStrClass(ln.NonStr), busyBefore))
			}
			if cs.Post != "" {
				st.add("post_kept_passthrough", 1)
			}
			busyBefore, idleBefore = false, true
			pos++
			a++
			continue
		}
		afterNonStr = false
		lastTpl = tpl
		// a run starts here
		e := pos + 1
		for e < len(lines) && lines[e].HasField {
			if s2, _ := m.isStart(lines[e].Value); s2 || !m.isCont(tpl, lines[e].Value) {
				break
			}
			e++
		}
		q := len(lines)
		if a+1 < len(outs) {
			j, ok := idx[outs[a+1].view.ID]
			switch {
			case !ok:
				return mk("unknown-event", fmt.Sprintf("output event id %q does not belong to this stream", outs[a+1].view.ID), pos, a+1)
			case j <= pos:
				return mk("duplicate-event", fmt.Sprintf("event %s reached the output again after later events of its stream", outs[a+1].view.ID), pos, a+1)
			}
			q = j
		}
		if cs.Post != "" {
			// events that the action behind the joining action dropped are not at the
			// output: the next visible event does not show where the run ended
			// (what follows the run is decided by the next rounds of the walk). After a
			// time-out, dropped continuation lines may sit between the split and the
			// next visible event; the joined value tells where the split was
			if q > e {
				q = e
			}
			for c := q; c > pos; c-- {
				if concat(lines[pos:c]) == ev.view.Value {
					q = c
					break
				}
				if !lines[c-1].PostDrop {
					break
				}
			}
		}
		if q > e {
			// more lines vanished than the run holds
			full := concat(lines[pos:e])
			shape := "lost-lines-after-run"
			if len(ev.view.Value) > len(full) && strings.HasPrefix(ev.view.Value, full) {
				shape = "joined-past-run-end"
			} else if ev.view.Value != full && !(cs.JoinMax > 0 && strings.HasPrefix(full, ev.view.Value)) {
				shape = "joined-value-mismatch"
			}
			return mk(shape, fmt.Sprintf("the run of %s ends before %s (a start, a non-continuing value or a missing field), but %d more events vanished; joined value %q", ln.ID, lines[e].ID, q-e, short(ev.view.Value, 300)), pos, a)
		}
		split := q < e
		strictEnd := false
		if split && (lines[q].NoMatch || (ln.NoMatch && q == pos+1)) {
			// match conditions read strictly: the event that does not match ended the
			// run (or, as a start line, never opened one). Where a time-out was possible
			// the ordinary explanation is preferred (evidence only, both are accepted).
			if byTimeout, _ := gapPermitsTimeout(cs, so.Raw, lines[q-1], lines[q]); !byTimeout {
				split, strictEnd = false, true
				// the run before a start line that does not match may have been flushed
				// by a time-out: then the action was idle when the line arrived and there
				// is only one reading
				if !(ln.NoMatch && q == pos+1 && idleBefore) {
					st.add("nomatch_strict_reading_seen", 1)
				}
			}
		}
		if split {
			ok, maxGap := gapPermitsTimeout(cs, so.Raw, lines[q-1], lines[q])
			if !ok {
				return mk("run-split-without-timeout", fmt.Sprintf("the run of %s was flushed before continuation line %s although no stream time-out was possible there (largest feeder gap %d ms < event_timeout %d ms)", ln.ID, lines[q].ID, maxGap/1e6, cs.EventTimeoutMs), pos, a)
			}
			st.add("timeout_splits", 1)
		}
		full := concat(lines[pos:q])
		got := ev.view.Value
		if !ev.view.HasField {
			return mk("joined-field-missing", fmt.Sprintf("the joined event %s has no string field %s", ln.ID, cs.Field), pos, a)
		}
		limited := false
		if cs.JoinMax == 0 {
			if got != full {
				shape := "joined-value-mismatch"
				switch {
				case len(got) > len(full) && strings.HasSuffix(got, full):
					shape = "joined-value-stale-prefix"
				case strings.HasPrefix(full, got):
					shape = "joined-value-truncated"
				case len(findTags(got)) > 0 && foreignTag(findTags(got), so):
					shape = "merged-foreign-stream"
				}
				return mk(shape, fmt.Sprintf("joined value of %s is not the concatenation of lines %d..%d: got %q want %q", ln.ID, pos, q-1, short(got, 300), short(full, 300)), pos, a)
			}
		} else {
			maxLine := 0
			for _, l := range lines[pos:q] {
				if len(l.Value) > maxLine {
					maxLine = len(l.Value)
				}
			}
			lo := len(full)
			if cs.JoinMax < lo {
				lo = cs.JoinMax
			}
			switch {
			case !strings.HasPrefix(full, got):
				shape := "joined-value-mismatch"
				if len(got) > len(full) && strings.HasSuffix(got, full) {
					shape = "joined-value-stale-prefix"
				}
				return mk(shape, fmt.Sprintf("joined value of %s is not a prefix of the concatenation of lines %d..%d: got %q want prefix of %q", ln.ID, pos, q-1, short(got, 300), short(full, 300)), pos, a)
			case len(got) < lo:
				return mk("limit-truncated-too-early", fmt.Sprintf("joined value of %s has %d bytes, max_event_size=%d, concatenation %d bytes", ln.ID, len(got), cs.JoinMax, len(full)), pos, a)
			case len(got) > cs.JoinMax+maxLine:
				return mk("limit-exceeded", fmt.Sprintf("joined value of %s has %d bytes, max_event_size=%d, longest line %d", ln.ID, len(got), cs.JoinMax, maxLine), pos, a)
			}
			limited = len(got) < len(full)
			if limited {
				st.add("limit_truncated_runs", 1)
			}
		}
		if ev.view.Canon != ln.RestCan {
			return mk("joined-event-fields-changed", fmt.Sprintf("the other fields of the joined event %s differ from those of the run's first event", ln.ID), pos, a)
		}
		n := q - pos
		if n > 1 {
			st.add("runs_joined", 1)
			st.add("lines_collapsed", int64(n-1))
			if ev.rec.HeldFor > 0 {
				// judged on an encoding taken after later events had passed the output
				st.add("joined_read_late", 1)
				if cs.SingleProc || cs.Procs == 1 {
					st.add("joined_read_late_few_procs", 1)
				}
			}
		} else {
			st.add("runs_single", 1)
		}
		hasEmpty := false
		for _, l := range lines[pos+1 : q] {
			if l.Value == "" {
				hasEmpty = true
			}
		}
		nmIn := false
		for _, l := range lines[pos+1 : q] {
			if l.NoMatch {
				st.add("nomatch_lines_joined", 1)
				nmIn = true
			}
		}
		if ln.NoMatch && q > pos+1 {
			st.add("nomatch_start_opened_run", 1)
		}
		busyBefore = !split && !strictEnd
		if busyBefore {
			// still idle if a time-out was possible right behind the run, or if the
			// "run" is a start line that does not match and met an idle action itself
			wasIdle := idleBefore
			idleBefore = false
			if q < len(lines) {
				idleBefore, _ = gapPermitsTimeout(cs, so.Raw, lines[q-1], lines[q])
			}
			if ln.NoMatch && q == pos+1 && wasIdle {
				idleBefore = true
			}
		} else {
			idleBefore = true
		}
		endBy := "other"
		if q < len(lines) {
			switch {
			case split:
				endBy = "timeout"
			case strictEnd:
				endBy = "nomatch"
			case lines[q].NonStr != "":
				endBy = "nonstring"
			case !lines[q].HasField:
				endBy = "missing"
			default:
				if s2, _ := m.isStart(lines[q].Value); s2 {
					endBy = "start"
				}
			}
		}
		st.add("run_end_by_"+endBy, 1)
		fp := fmt.Sprintf("%s/%s/len=%s/end=%s/empty=%v/limited=%v/tpl=%d", kind, cs.Family, bucket(n), endBy, hasEmpty, limited, tpl)
		if cs.Post != "" {
			st.add("post_kept_runs", 1)
			if n > 1 {
				st.add("post_kept_joined_runs", 1)
			}
			fp += "/post=" + cs.Post
		}
		if cs.Match != "" {
			endNM := q < len(lines) && lines[q].NoMatch
			fp += fmt.Sprintf("/match=%s/nomatch-inside=%v/nomatch-start=%v/ended-by-nomatch=%v", cs.Match, nmIn, ln.NoMatch, endNM)
		}
		st.fp(fp)
		pos = q
		a++
	}
	if a < len(outs) {
		return mk("duplicate-event", fmt.Sprintf("%d extra events at the output after the last line of the stream (first: %s)", len(outs)-a, outs[a].view.ID), pos, a)
	}
	return nil
}

func concat(ls []*Line) string {
	var b strings.Builder
	for _, l := range ls {
		b.WriteString(l.Value)
	}
	return b.String()
}

func foreignTag(tags []tagRef, so *streamObs) bool {
	lab := streamLabel(so.Stream)
	for _, t := range tags {
		if t.Src != so.Src || t.Stream != lab {
			return true
		}
	}
	return false
}
