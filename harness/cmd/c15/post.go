package main

// Two behaviour classes around the joining action:
//
// 1. Actions that FOLLOW the joining action (family `<kind>-post-N`): the
//    flushed run continues with the next action of the chain, from inside the
//    Do() call of the event that ended the run. That action may drop it
//    (`discard` with match_fields or do_if on the marker member pd) or change it
//    (`modify` adds the member post = "1"). The joined event carries the members
//    of the run's first event, so the generator knows which runs are dropped.
//    Oracle: the ordinary per-stream walk (same ids, same order, byte-exact
//    joined values, nothing lost / duplicated / re-ordered) over the events that
//    legitimately reach the output; a dropped event or run must not be seen at
//    all and must not disturb what follows it; every event at the output carries
//    what the modify action adds.
//
// 2. Values of the join field that are present but not a JSON string (family
//    `<kind>-nonstr-N`): numbers, booleans, null, objects, arrays. Such an event
//    has no string to join: like an event without the field it ends an open run
//    (the run is emitted first, complete), passes unchanged, and the
//    continuation lines behind it are not glued to the earlier run. Only values
//    are generated that no reading could take for a start or continuation line:
//    neither their JSON text nor the empty string (nor the scalar's text)
//    satisfies the start / continue checks of the case.

import (
	"fmt"
	"math/rand"
	"strings"
)

var postChains = []string{"discard", "modify+discard", "discard_doif", "discard+modify", "discard", "modify"}

const postMember = "post"

func postModifies(cs *Case) bool { return strings.Contains(cs.Post, "modify") }
func postDiscards(cs *Case) bool { return strings.Contains(cs.Post, "discard") }

// addPost appends the actions that follow the joining action.
func addPost(cs *Case, chain []map[string]any) []map[string]any {
	if cs.Post == "" {
		return chain
	}
	for _, a := range strings.Split(cs.Post, "+") {
		switch a {
		case "discard":
			chain = append(chain, map[string]any{"type": "discard", "match_fields": map[string]any{"pd": "1"}})
		case "discard_doif":
			chain = append(chain, map[string]any{"type": "discard", "do_if": map[string]any{"op": "equal", "field": "pd", "values": []any{"1"}}})
		case "modify":
			chain = append(chain, map[string]any{"type": "modify", postMember: "1"})
		}
	}
	return chain
}

// drawPostMarker decides whether the event with this line's members is dropped
// by the discard action behind the joining action and draws the marker member.
func drawPostMarker(rng *rand.Rand, ln *Line, start bool) {
	pct := 14
	if start {
		pct = 34
	}
	ln.PostDrop = rng.Intn(100) < pct
	if ln.PostDrop {
		ln.PD = "1"
		return
	}
	ln.PD = pick(rng, "", "0", "0", "10", "01")
}

// ---------------------------------------------------------------------------
// non-string values of the join field
// ---------------------------------------------------------------------------

var nonStrCandidates = []string{
	`12345`, `-7`, `0`, `1.5e3`, `true`, `false`, `null`,
	`{}`, `[]`, `[42]`, `{"msg":"structured","n":1}`, `[1,"two",{"k":null}]`, `{"a":{"b":"deep"}}`,
}

func nonStrClass(v string) string {
	switch {
	case strings.HasPrefix(v, "{"):
		return "object"
	case strings.HasPrefix(v, "["):
		return "array"
	case v == "true" || v == "false":
		return "bool"
	case v == "null":
		return "null"
	}
	return "number"
}

// nonStrVocab: the non-string values that no reading could classify as a start
// or continuation line of this case.
func nonStrVocab(cs *Case) []string {
	m := newJoinModel(cs)
	var out []string
	for _, v := range nonStrCandidates {
		readings := []string{v}
		if c := nonStrClass(v); c == "object" || c == "array" {
			readings = append(readings, "")
		}
		ok := true
		for _, r := range readings {
			if s, _ := m.isStart(r); s {
				ok = false
			}
			if cs.Kind == "join" {
				if m.isCont(-1, r) {
					ok = false
				}
			} else {
				for t := range m.tpls {
					if m.isCont(t, r) {
						ok = false
					}
				}
			}
		}
		if ok {
			out = append(out, v)
		}
	}
	return out
}

// ---------------------------------------------------------------------------
// cases
// ---------------------------------------------------------------------------

// genPostCase: [<join>, actions...]; no match conditions and no size limit on
// the joining action (other families drive those), every third case with a short
// time-out and pause points.
func genPostCase(rng *rand.Rand, seed int64, kind string, j int) Case {
	cs := genCase(rng, seed, kind, j)
	cs.Name = fmt.Sprintf("%s-post-%d", kind, j)
	rx := rand.New(rand.NewSource(seed ^ 0x706f73742d6a31))
	cs.Match, cs.NoMatchPct = "", 0
	cs.JoinMax = 0
	cs.Post = postChains[j%len(postChains)]
	cs.PerStream = 30 + rx.Intn(70)
	if j%3 == 2 {
		cs.EventTimeoutMs = []int{100, 200, 300}[rx.Intn(3)]
		cs.Pauses = 2 + rx.Intn(2)
	} else {
		cs.EventTimeoutMs, cs.Pauses = 30000, 0
	}
	// runs are ended by other events and by events without the field, too
	if cs.WOther < 2 {
		cs.WOther = 2
	}
	return cs
}

// genNonStrCase: [<join>] with events whose join field is not a string.
func genNonStrCase(rng *rand.Rand, seed int64, kind string, j int) Case {
	cs := genCase(rng, seed, kind, j)
	cs.Name = fmt.Sprintf("%s-nonstr-%d", kind, j)
	rx := rand.New(rand.NewSource(seed ^ 0x6e6f6e7374722d6a))
	cs.Match, cs.NoMatchPct = "", 0
	cs.NonStrPct = 5 + rx.Intn(10)
	cs.PerStream = 30 + rx.Intn(70)
	if j%3 == 2 {
		cs.EventTimeoutMs = []int{100, 200, 300}[rx.Intn(3)]
		cs.Pauses = 2 + rx.Intn(2)
	} else {
		cs.EventTimeoutMs, cs.Pauses = 30000, 0
	}
	if kind == "join" {
		// a family in which some non-string value is neither start nor continuation
		for k := 0; k < len(families) && len(nonStrVocab(&cs)) == 0; k++ {
			f := families[(j+k)%len(families)]
			cs.Family, cs.Start, cs.Continue, cs.Negate = f.Name, f.Start, f.Cont, f.Negate
		}
	} else {
		// (with go_data_race everything that is not a separator line continues)
		all := []string{"go_panic", "cs_exception"}
		switch j % 3 {
		case 0:
			cs.Templates = all[:1]
		case 1:
			cs.Templates = all[1:]
		default:
			cs.Templates = all
		}
		cs.Deprecated = len(cs.Templates) == 1 && rx.Intn(2) == 0
		cs.Family = strings.Join(cs.Templates, "+")
	}
	return cs
}
