package main

import (
	"math/rand"
	"sort"
)

// ---- exhaustive small scope ------------------------------------------------
//
// Contents: every placement of newlines in a string of length n (2^n shapes);
// the other bytes are pairwise distinct letters chosen by position, so that
// any misplaced, repeated or lost byte is visible (this subsumes an {a,b}
// alphabet for a reader that only looks for '\n').

const letters = "abcdefghijklmnopqrstuvwxyzABCDEFGHIJKLMNOPQRSTUVWXYZ"

func shapeContent(n int, mask uint32) []byte {
	b := make([]byte, n)
	for i := 0; i < n; i++ {
		if mask&(1<<uint(i)) != 0 {
			b[i] = '\n'
		} else {
			b[i] = letters[i%len(letters)]
		}
	}
	return b
}

// splitsOf returns the append schedules for a content of length n as cut
// points: 1 part; 2 parts at every i in 0..n (i=0: the file is empty when
// opened, i=n: a wake-up without growth); 3 parts at every 0<i<j<n and, with an
// empty middle append, at every 0<i=j<n.
func splitsOf(n int) [][]int {
	out := [][]int{{}}
	for i := 0; i <= n; i++ {
		out = append(out, []int{i})
	}
	for i := 1; i < n; i++ {
		for j := i; j < n; j++ {
			out = append(out, []int{i, j})
		}
	}
	return out
}

func cutParts(content []byte, cuts []int) [][]byte {
	parts := make([][]byte, 0, len(cuts)+1)
	prev := 0
	for _, c := range cuts {
		parts = append(parts, content[prev:c])
		prev = c
	}
	return append(parts, content[prev:])
}

// smallCases enumerates, for one content, every schedule and every start:
// reset, tail, and continue from every line start inside the part present at
// open (the only offsets a previous run can have saved).
func smallCases(n int, mask uint32, wakeCtr *int, out []*caseSpec) []*caseSpec {
	content := shapeContent(n, mask)
	for _, cuts := range splitsOf(n) {
		parts := cutParts(content, cuts)
		mk := func(op string, saved map[string]int64) {
			w := make([]byte, len(parts))
			for k := 1; k < len(parts); k++ {
				w[k] = "mnw"[*wakeCtr%3]
				*wakeCtr++
			}
			out = append(out, &caseSpec{Parts: parts, Op: op, Saved: saved, Wake: w})
		}
		mk("reset", nil)
		mk("tail", nil)
		p0 := parts[0]
		first, last := 0, 0
		for r := 1; r <= len(p0); r++ {
			if p0[r-1] == '\n' {
				mk("continue", map[string]int64{"default": int64(r)})
				if first == 0 {
					first = r
				}
				last = r
			}
		}
		if last > first { // two streams with different saved offsets: reading resumes at the smaller one
			mk("continue", map[string]int64{"stdout": int64(last), "stderr": int64(first)})
		}
	}
	return out
}

// notifyCases: the directed family "a write notification for the file is
// processed while a read round is in progress" (should_watch_file_changes): for
// one content, every split into 2 or 3 appends and every read of a round but
// the last as the moment of the notification. The file only grows, so the
// notification must not change anything that is delivered afterwards.
func notifyCases(n int, mask uint32, buf int, out []*caseSpec) []*caseSpec {
	content := shapeContent(n, mask)
	for _, cuts := range splitsOf(n) {
		if len(cuts) == 0 {
			continue
		}
		parts := cutParts(content, cuts)
		for k := 0; k+1 < len(parts); k++ {
			if len(parts[k+1]) == 0 && (k+2 >= len(parts) || len(parts[k+2]) == 0) {
				continue // nothing is delivered after the notification
			}
			reads := len(parts[k])/buf + 2
			for at := 1; at <= reads; at++ {
				w := make([]byte, len(parts))
				for i := 1; i < len(parts); i++ {
					// how the job is woken for the next round: maintenance, a write
					// notification, or a notification that is not a write (create /
					// rename of the same inode, symlink maintenance)
					w[i] = "mwn"[(at+i+k)%3]
				}
				na := make([]int, len(parts))
				na[k] = at
				out = append(out, &caseSpec{Parts: parts, Op: "reset", Wake: w, NotifyAt: na})
			}
		}
	}
	return out
}

type smallTask struct {
	Kind     string // "" = two files per worker, full start/limit matrix; "notify" = notifyCases
	Cfg      runConfig
	N        int
	MaskFrom uint32
	MaskTo   uint32 // exclusive
}

func notifyTasks(maxN int, bufs []int) []smallTask {
	var ts []smallTask
	for _, b := range bufs {
		for n := 1; n <= maxN; n++ {
			total := uint32(1) << uint(n)
			for from := uint32(0); from < total; from += 16 {
				to := from + 16
				if to > total {
					to = total
				}
				ts = append(ts, smallTask{Kind: "notify", Cfg: runConfig{Buf: b}, N: n, MaskFrom: from, MaskTo: to})
			}
		}
	}
	return ts
}

func smallTasks(maxN int, bufs []int, limits []runConfig) []smallTask {
	var ts []smallTask
	for _, b := range bufs {
		for _, l := range limits {
			cfg := runConfig{Buf: b, M: l.M, Cut: l.Cut}
			for n := 0; n <= maxN; n++ {
				total := uint32(1) << uint(n)
				step := uint32(32)
				if n >= 10 {
					step = 16
				}
				for from := uint32(0); from < total; from += step {
					to := from + step
					if to > total {
						to = total
					}
					ts = append(ts, smallTask{Cfg: cfg, N: n, MaskFrom: from, MaskTo: to})
				}
			}
		}
	}
	return ts
}

// ---- seeded large cases ----------------------------------------------------

var hostileRunes = []string{"é", "日", "😀", "\x00", "\r", "\"", "\\", "\xff", "\xc3", " ", "\t", "{", "}"}

func fillLine(rng *rand.Rand, n int, tag byte) []byte {
	b := make([]byte, 0, n+1)
	for len(b) < n {
		if rng.Intn(7) == 0 {
			r := hostileRunes[rng.Intn(len(hostileRunes))]
			if len(b)+len(r) <= n {
				b = append(b, r...)
				continue
			}
		}
		b = append(b, letters[(int(tag)+len(b))%len(letters)])
	}
	return b
}

func pick(rng *rand.Rand, xs ...int) int { return xs[rng.Intn(len(xs))] }

func genLargeConfig(rng *rand.Rand) runConfig {
	cfg := runConfig{}
	cfg.Buf = pick(rng, 1, 2, 3, 5, 7, 16, 61, 64, 100, 512, 1000, 4096, 8192, 16384, 65536, 131072)
	switch rng.Intn(10) {
	case 0, 1, 2:
		cfg.M = 0
	case 3:
		cfg.M = 1 + rng.Intn(8)
	case 4:
		cfg.M = 8 + rng.Intn(120)
	case 5, 6:
		cfg.M = cfg.Buf + rng.Intn(5) - 2
	case 7:
		cfg.M = 2*cfg.Buf + rng.Intn(5) - 2
	case 8:
		cfg.M = 1000 + rng.Intn(70000)
	default:
		cfg.M = cfg.Buf/2 + 1
	}
	if cfg.M < 0 {
		cfg.M = 0
	}
	cfg.Cut = rng.Intn(2) == 0
	return cfg
}

func genLargeSpec(rng *rand.Rand, cfg runConfig, bigLine int) *caseSpec {
	budget := cfg.Buf * 6000 // keeps the number of read syscalls bounded for tiny buffers
	if budget > 3<<20 {
		budget = 3 << 20
	}
	nLines := rng.Intn(120)
	if rng.Intn(6) == 0 {
		nLines = rng.Intn(4)
	}
	var content []byte
	var lineStarts []int
	for i := 0; i < nLines && len(content) < budget; i++ {
		var n int
		switch rng.Intn(12) {
		case 0:
			n = 0
		case 1, 2:
			n = 1 + rng.Intn(10)
		case 3, 4:
			n = cfg.Buf + rng.Intn(5) - 3
		case 5:
			n = (1+rng.Intn(4))*cfg.Buf + rng.Intn(3) - 2
		case 6, 7:
			if cfg.M > 0 {
				n = cfg.M + rng.Intn(5) - 3
			} else {
				n = rng.Intn(200)
			}
		case 8:
			if cfg.M > 0 {
				n = cfg.M + 1 + rng.Intn(3*cfg.M+10)
			} else {
				n = rng.Intn(2000)
			}
		case 9:
			if rng.Intn(4) == 0 {
				n = rng.Intn(bigLine)
			} else {
				n = rng.Intn(3000)
			}
		default:
			n = rng.Intn(80)
		}
		if n < 0 {
			n = 0
		}
		if n > budget {
			n = budget
		}
		lineStarts = append(lineStarts, len(content))
		content = append(content, fillLine(rng, n, byte(i))...)
		content = append(content, '\n')
	}
	lineStarts = append(lineStarts, len(content))
	if rng.Intn(2) == 0 { // unterminated tail
		content = append(content, fillLine(rng, rng.Intn(3*cfg.Buf+20)%4096, 77)...)
	}
	// append schedule
	nParts := 1 + rng.Intn(5)
	cutSet := map[int]bool{}
	for tries := 0; len(cutSet) < nParts-1 && tries < 40; tries++ {
		var c int
		if len(content) == 0 {
			break
		}
		switch rng.Intn(4) {
		case 0: // right after a newline
			c = lineStarts[rng.Intn(len(lineStarts))]
		case 1: // right before a newline
			c = lineStarts[rng.Intn(len(lineStarts))] - 1
		default:
			c = rng.Intn(len(content) + 1)
		}
		if c < 0 {
			c = 0
		}
		if cutSet[c] && rng.Intn(3) != 0 {
			continue
		}
		cutSet[c] = true
	}
	cuts := make([]int, 0, len(cutSet)+1)
	for c := range cutSet {
		cuts = append(cuts, c)
	}
	sort.Ints(cuts)
	if rng.Intn(5) == 0 && len(cuts) > 0 { // an empty append (wake-up without growth)
		i := rng.Intn(len(cuts))
		dup := make([]int, 0, len(cuts)+1)
		dup = append(dup, cuts[:i+1]...)
		dup = append(dup, cuts[i:]...)
		cuts = dup
	}
	parts := cutParts(content, cuts)
	sp := &caseSpec{Parts: parts, Wake: make([]byte, len(parts))}
	for k := 1; k < len(parts); k++ {
		sp.Wake[k] = "mnw"[rng.Intn(3)]
	}
	switch rng.Intn(10) {
	case 0, 1, 2, 3:
		sp.Op = "reset"
	case 4, 5:
		sp.Op = "tail"
	default:
		sp.Op = "continue"
		if rng.Intn(5) != 0 {
			// saved offsets: line starts inside the part present at open
			var cands []int64
			for _, s := range lineStarts {
				if s <= len(parts[0]) && (s == 0 || (s <= len(content) && content[s-1] == '\n')) {
					cands = append(cands, int64(s))
				}
			}
			sp.Saved = map[string]int64{}
			names := []string{"default", "stdout", "stderr"}
			k := 1 + rng.Intn(2)
			for i := 0; i < k; i++ {
				sp.Saved[names[(i+rng.Intn(2))%3]] = cands[rng.Intn(len(cands))]
			}
		}
	}
	return sp
}
