package main

// Reference model of the file reader, written from the property text and the
// plugin / pipeline READMEs only. It knows nothing about read buffers, tails
// or scan counters: it looks at the whole file content after each append.
//
//   * the lines of a file are its maximal '\n'-terminated segments;
//   * a line is handed over once, in file order, in the first read round in
//     which it is complete, tagged with the offset just after its '\n';
//   * bytes after the last '\n' are never handed over;
//   * only lines that start at or after the start position are handed over:
//     reset -> 0, continue -> the smallest saved stream offset (0 if the file
//     has no entry), tail -> the size of the file when it was opened ("sets an
//     offset to the end of the file"; a line in progress at that moment is not
//     a complete line written after the start);
//   * max_event_size=m (pipeline README: "logs with size greater than
//     max_event_size are discarded unless cut_off_event_by_limit"): a line is
//     over the limit when its size exceeds m. Whether the terminating '\n'
//     counts is not documented, so a line whose size is m without and m+1 with
//     the newline is accepted either way (skipped or delivered unchanged);
//     over the limit + cut_off: "only the first max_event_size bytes are passed
//     further" - the cut itself is done by Pipeline.In, so the worker may pass
//     any data that Pipeline.In cuts to the right result: longer than m, first
//     m bytes equal to the line's, last byte '\n'.

import (
	"bytes"
	"fmt"
	"sort"
	"strings"
)

type caseSpec struct {
	Parts [][]byte         // Parts[0]: content when the file is opened; Parts[k]: k-th append (empty = wake-up without growth)
	Op    string           // reset | continue | tail
	Saved map[string]int64 // continue: entry of the offsets file (nil: none)
	Wake  []byte           // Wake[k] for k>=1: 'm' maintenance, 'n' create notification, 'w' write notification

	// NotifyAt[k] > 0: a write notification for the file is processed by the
	// provider right after the NotifyAt[k]-th read of round k (single-file groups only)
	NotifyAt []int

	cont []byte  // cache: concatenation of Parts
	sz   []int64 // cache: file size after each part
}

type runConfig struct {
	Buf int
	M   int
	Cut bool
}

func (c runConfig) limitKind() string {
	switch {
	case c.M == 0:
		return "none"
	case c.Cut:
		return "cut"
	default:
		return "skip"
	}
}

const (
	needExact  = iota // must be delivered, bytes unchanged
	needOption        // boundary size: delivered unchanged or skipped
	needCut           // must be delivered; Pipeline.In must be able to cut it to the first m bytes
	needAbsent        // over the limit, no cut-off: must not be delivered
)

type refLine struct {
	Start, End int64 // End = offset just after the newline
	Round      int   // first round in which the line is complete
	Need       int
}

type call struct {
	Offset int64
	Data   []byte
}

// startPos is the position from which lines are due.
func startPos(s *caseSpec) int64 {
	switch s.Op {
	case "continue":
		if s.Saved == nil {
			return 0
		}
		first := true
		var m int64
		for _, v := range s.Saved {
			if first || v < m {
				m = v
				first = false
			}
		}
		return m
	case "tail":
		return int64(len(s.Parts[0]))
	}
	return 0
}

func (s *caseSpec) content() []byte {
	if s.cont == nil {
		b := []byte{}
		for _, p := range s.Parts {
			b = append(b, p...)
		}
		s.cont = b
	}
	return s.cont
}

// sizeAfter[k] = file size after the k-th append (k=0: at open).
func (s *caseSpec) sizes() []int64 {
	if s.sz != nil {
		return s.sz
	}
	out := make([]int64, len(s.Parts))
	var n int64
	for i, p := range s.Parts {
		n += int64(len(p))
		out[i] = n
	}
	s.sz = out
	return out
}

// reference returns every line of the final file (also those before the start
// position, marked by due=false in the second result).
func reference(s *caseSpec, cfg runConfig) (lines []refLine, due []bool) {
	c := s.content()
	sizes := s.sizes()
	from := startPos(s)
	var start int64
	for i, b := range c {
		if b != '\n' {
			continue
		}
		end := int64(i) + 1
		l := refLine{Start: start, End: end}
		for k, sz := range sizes {
			if end <= sz {
				l.Round = k
				break
			}
		}
		size := int(end - start)
		switch {
		case cfg.M == 0 || size <= cfg.M:
			l.Need = needExact
		case size == cfg.M+1:
			if cfg.Cut {
				l.Need = needExact // not over the limit in one reading; in the other Pipeline.In cuts exactly the newline and puts it back
			} else {
				l.Need = needOption
			}
		case cfg.Cut:
			l.Need = needCut
		default:
			l.Need = needAbsent
		}
		lines = append(lines, l)
		due = append(due, start >= from)
		start = end
	}
	return lines, due
}

// ---- comparison -----------------------------------------------------------

type mismatch struct {
	Class  string // structural class, part of the signature
	Detail string
	Line   *refLine
	Round  int
}

// lineTrait classifies where a line lies relative to reads and rounds (only
// used for signatures and coverage, never for the verdict).
func lineTrait(s *caseSpec, cfg runConfig, l *refLine) string {
	sizes := s.sizes()
	if l.Round > 0 && l.Start < sizes[l.Round-1] {
		return "spans-rounds"
	}
	// position where the reads of that round begin
	var pos int64
	if l.Round > 0 {
		pos = sizes[l.Round-1]
	} else {
		pos = startPos(s)
		if s.Op == "tail" && pos > 0 {
			pos--
		}
	}
	if l.Start >= pos && (l.Start-pos)/int64(cfg.Buf) == (l.End-1-pos)/int64(cfg.Buf) {
		return "within-read"
	}
	return "spans-reads"
}

func dataShape(want, got []byte) string {
	switch {
	case len(got) == 0:
		return "empty"
	case len(got) < len(want) && bytes.HasSuffix(want, got):
		return "head-lost"
	case len(got) < len(want) && bytes.HasPrefix(want, got):
		return "end-lost"
	case len(got) > len(want) && bytes.HasSuffix(got, want):
		return "foreign-bytes-in-front"
	case len(got) > len(want) && bytes.HasPrefix(got, want):
		return "foreign-bytes-behind"
	case len(got) == len(want):
		return "bytes-differ"
	case len(got) < len(want):
		return "shorter"
	}
	return "longer"
}

// compareRound checks the calls of one job in one round. delivered records the
// line ends already delivered in earlier rounds of this pass.
func compareRound(s *caseSpec, cfg runConfig, lines []refLine, due []bool, round int, got []call, delivered map[int64]int) []mismatch {
	var out []mismatch
	content := s.content()
	byEnd := make(map[int64]int, len(lines))
	for i := range lines {
		byEnd[lines[i].End] = i
	}
	add := func(class, detail string, l *refLine) {
		out = append(out, mismatch{Class: class, Detail: detail, Line: l, Round: round})
	}
	var prev int64 = -1
	seenNow := map[int64]bool{}
	for gi := range got {
		g := &got[gi]
		if g.Offset <= prev {
			add("out-of-order", fmt.Sprintf("offset %d after %d", g.Offset, prev), nil)
		}
		prev = g.Offset
		idx, ok := byEnd[g.Offset]
		if !ok {
			// not the end of any line: find a due line with these bytes to name the shift
			class := "call-with-offset-that-ends-no-line"
			if len(g.Data) == 0 || g.Data[len(g.Data)-1] != '\n' {
				class = "unterminated-data-delivered"
			} else {
				for i := range lines {
					l := &lines[i]
					if due[i] && l.Round == round && bytes.Equal(content[l.Start:l.End], g.Data) && !seenNow[l.End] {
						d := g.Offset - l.End
						switch {
						case d == -1 || d == 1:
							class = fmt.Sprintf("offset-shift%+d", d)
						case g.Offset == l.Start:
							class = "offset-is-line-start"
						case d < 0:
							class = "offset-too-small"
						default:
							class = "offset-too-large"
						}
						seenNow[l.End] = true // do not also report it as missing
						add(class, fmt.Sprintf("line [%d,%d) delivered with offset %d", l.Start, l.End, g.Offset), l)
						class = ""
						break
					}
				}
			}
			if class != "" {
				add(class, fmt.Sprintf("offset %d data %s", g.Offset, quote(g.Data)), nil)
			}
			continue
		}
		l := &lines[idx]
		if seenNow[l.End] || delivered[l.End] > 0 {
			add("line-delivered-twice", fmt.Sprintf("offset %d", g.Offset), l)
			continue
		}
		seenNow[l.End] = true
		if !due[idx] {
			add("line-before-start-position-delivered", fmt.Sprintf("offset %d start position %d", g.Offset, startPos(s)), l)
			continue
		}
		if l.Round > round {
			add("line-delivered-before-complete", fmt.Sprintf("offset %d", g.Offset), l)
			continue
		}
		if l.Round < round {
			add("line-delivered-late", fmt.Sprintf("offset %d complete in round %d delivered in %d", g.Offset, l.Round, round), l)
		}
		want := content[l.Start:l.End]
		switch l.Need {
		case needExact, needOption:
			if !bytes.Equal(want, g.Data) {
				add("wrong-data:"+dataShape(want, g.Data), fmt.Sprintf("offset %d want %s got %s", g.Offset, quote(want), quote(g.Data)), l)
			}
		case needAbsent:
			add("oversize-line-not-skipped", fmt.Sprintf("offset %d size %d limit %d", g.Offset, len(want), cfg.M), l)
		case needCut:
			switch {
			case len(g.Data) <= cfg.M:
				add("cut:data-not-longer-than-limit", fmt.Sprintf("offset %d want prefix %s got %s", g.Offset, quote(want[:cfg.M]), quote(g.Data)), l)
			case !bytes.Equal(g.Data[:cfg.M], want[:cfg.M]):
				add("cut:first-bytes-differ", fmt.Sprintf("offset %d want prefix %s got %s", g.Offset, quote(want[:cfg.M]), quote(g.Data)), l)
			case g.Data[len(g.Data)-1] != '\n':
				add("cut:no-newline", fmt.Sprintf("offset %d got %s", g.Offset, quote(g.Data)), l)
			}
		}
	}
	for i := range lines {
		l := &lines[i]
		if !due[i] || l.Round != round || seenNow[l.End] {
			continue
		}
		if l.Need == needExact || l.Need == needCut {
			add("line-missing", fmt.Sprintf("line [%d,%d) %s not delivered in the round that completed it", l.Start, l.End, quote(content[l.Start:l.End])), l)
		}
	}
	for e := range seenNow {
		delivered[e]++
	}
	return out
}

func signature(s *caseSpec, cfg runConfig, m *mismatch) string {
	sig := "file.worker " + m.Class + " limit=" + cfg.limitKind()
	if m.Line != nil {
		sig += " line=" + lineTrait(s, cfg, m.Line)
		switch m.Line.Need {
		case needOption:
			sig += " size=limit+newline"
		case needCut, needAbsent:
			sig += " size=over-limit"
		}
	}
	if strings.HasPrefix(m.Class, "line-before-start") {
		sig += " op=" + s.Op
	}
	return sig
}

func quote(b []byte) string {
	if len(b) > 96 {
		return fmt.Sprintf("%q…(%d bytes)…%q", b[:40], len(b), b[len(b)-40:])
	}
	return fmt.Sprintf("%q", b)
}

func sortedKeys(m map[string]int64) []string {
	ks := make([]string, 0, len(m))
	for k := range m {
		ks = append(ks, k)
	}
	sort.Strings(ks)
	return ks
}
