package main

// Plugin-level sample: the real file input Plugin (watcher, maintenance,
// several long-lived workers with their own buffers) reads files that exist at
// start (offsets_op and a real offsets file apply) or are created later, and
// that are appended to while it runs. A recording InputPluginController takes
// the place of the pipeline. The comparison is made at quiescent states (every
// file has a done job whose read position equals the file size, nothing
// queued), so it does not depend on timing; a scenario that does not become
// quiescent within the watchdog is inconclusive.

import (
	"encoding/json"
	"fmt"
	"math/rand"
	"os"
	"path/filepath"
	"sort"
	"strings"
	"sync"
	"time"

	"github.com/ozontech/file.d/cfg"
	"github.com/ozontech/file.d/decoder"
	"github.com/ozontech/file.d/metric"
	"github.com/ozontech/file.d/pipeline"
	"github.com/ozontech/file.d/pipeline/metadata"
	filein "github.com/ozontech/file.d/plugin/input/file"
	"github.com/prometheus/client_golang/prometheus"
	"go.uber.org/zap"

	"verifharness/core"
)

type plugRecorder struct {
	mu    sync.Mutex
	cfg   runConfig
	calls map[string][]call // by source name
	reads int
}

func (r *plugRecorder) In(_ pipeline.SourceID, name string, offsets pipeline.Offsets, data []byte, _ bool, _ metadata.MetaData) uint64 {
	cp := append([]byte(nil), data...)
	if r.cfg.Cut && r.cfg.M > 0 && len(data) > r.cfg.M && data[len(data)-1] == '\n' {
		data[r.cfg.M] = '\n' // what Pipeline.In does to the worker's buffer
	}
	r.mu.Lock()
	r.calls[name] = append(r.calls[name], call{Offset: pipeline.VerifOffsetsCurrent(offsets), Data: cp})
	n := len(r.calls)
	r.mu.Unlock()
	return uint64(n)
}
func (r *plugRecorder) UseSpread()                        {}
func (r *plugRecorder) DisableStreams()                   {}
func (r *plugRecorder) SuggestDecoder(decoder.Type)       {}
func (r *plugRecorder) IncReadOps()                       { r.mu.Lock(); r.reads++; r.mu.Unlock() }
func (r *plugRecorder) IncMaxEventSizeExceeded(...string) {}

type plugFile struct {
	Name      string
	Spec      *caseSpec // Parts[0] = content at creation; Op/Saved as they apply to this file
	CreatedAt int       // step at which the file is created (0 = before Start)
	AppendAt  []int     // AppendAt[k] = step of the k-th append (k>=1), increasing
}

type plugScenario struct {
	Cfg      runConfig
	Workers  int
	Watch    bool
	Op       string
	Steps    int
	Files    []*plugFile
	SeedUsed int64
}

func genPlugScenario(seed int64) *plugScenario {
	rng := rand.New(rand.NewSource(seed))
	sc := &plugScenario{SeedUsed: seed}
	sc.Cfg.Buf = pick(rng, 1, 2, 3, 7, 16, 64, 128, 4096, 131072)
	switch rng.Intn(4) {
	case 0:
		sc.Cfg.M = 0
	case 1:
		sc.Cfg.M = 1 + rng.Intn(12)
	case 2:
		sc.Cfg.M = sc.Cfg.Buf + rng.Intn(3) - 1
	default:
		sc.Cfg.M = 20 + rng.Intn(200)
	}
	if sc.Cfg.M < 0 {
		sc.Cfg.M = 0
	}
	sc.Cfg.Cut = rng.Intn(2) == 0
	sc.Workers = 1 + rng.Intn(4)
	sc.Watch = rng.Intn(2) == 0
	sc.Op = []string{"continue", "continue", "tail", "reset"}[rng.Intn(4)]
	sc.Steps = 2 + rng.Intn(3)
	nFiles := 1 + rng.Intn(4)
	for i := 0; i < nFiles; i++ {
		gcfg := sc.Cfg
		if gcfg.Buf > 256 {
			gcfg.Buf = 256 // keeps the generated files small; the real buffer stays as configured
		}
		sp := genLargeSpec(rng, gcfg, 2000)
		// genLargeSpec chose its own op; the plugin has one offsets_op for the files found at start
		f := &plugFile{Name: fmt.Sprintf("f%d.log", i), Spec: sp}
		if rng.Intn(3) == 0 {
			f.CreatedAt = 1 + rng.Intn(sc.Steps)
		}
		if f.CreatedAt == 0 {
			sp.Op = sc.Op
			if sp.Op != "continue" || rng.Intn(4) == 0 {
				sp.Saved = nil
			} else if sp.Saved == nil {
				sp.Saved = map[string]int64{"default": 0}
			}
		} else {
			sp.Op, sp.Saved = "reset", nil // files that appear later always use reset (README)
		}
		// distribute the appends over later steps; appends that do not fit are merged into the last one
		step := f.CreatedAt
		var parts [][]byte
		parts = append(parts, sp.Parts[0])
		for k := 1; k < len(sp.Parts); k++ {
			if len(sp.Parts[k]) == 0 {
				continue // a wake-up without growth cannot be forced from outside the plugin
			}
			if step < sc.Steps {
				step++
				f.AppendAt = append(f.AppendAt, step)
				parts = append(parts, sp.Parts[k])
			} else {
				parts[len(parts)-1] = append(append([]byte(nil), parts[len(parts)-1]...), sp.Parts[k]...)
			}
		}
		sp.Parts = parts
		sp.Wake = make([]byte, len(parts))
		sp.cont, sp.sz = nil, nil
		sc.Files = append(sc.Files, f)
	}
	return sc
}

var plugSeq int

func runPlugScenario(a *agg, root string, sc *plugScenario) {
	plugSeq++
	dir := filepath.Join(root, fmt.Sprintf("sc%d", plugSeq))
	logs := filepath.Join(dir, "logs")
	if err := os.MkdirAll(logs, 0o755); err != nil {
		a.Inconclusive("harness error: mkdir")
		return
	}
	defer os.RemoveAll(dir)
	offsetsFile := filepath.Join(dir, "offsets.yaml")
	var ob strings.Builder
	for _, f := range sc.Files {
		if f.CreatedAt != 0 {
			continue
		}
		p := filepath.Join(logs, f.Name)
		if err := os.WriteFile(p, f.Spec.Parts[0], 0o644); err != nil {
			a.Inconclusive("harness error: write")
			return
		}
		if f.Spec.Saved != nil {
			sid, ino, err := filein.VerifC06SourceID(p)
			if err != nil {
				a.Inconclusive("harness error: stat")
				return
			}
			fmt.Fprintf(&ob, "- file: %s\n  inode: %d\n  source_id: %d\n  streams:\n", p, ino, uint64(sid))
			names := make([]string, 0, len(f.Spec.Saved))
			for n := range f.Spec.Saved {
				names = append(names, n)
			}
			sort.Strings(names)
			for _, n := range names {
				fmt.Fprintf(&ob, "    %s: %d\n", n, f.Spec.Saved[n])
			}
		}
	}
	if ob.Len() > 0 {
		if err := os.WriteFile(offsetsFile, []byte(ob.String()), 0o644); err != nil {
			a.Inconclusive("harness error: write offsets")
			return
		}
	}

	conf := &filein.Config{
		Paths:               filein.Paths{Include: []string{filepath.Join(logs, "*.log")}},
		OffsetsFile:         offsetsFile,
		PersistenceMode:     "async",
		ReadBufferSize:      sc.Cfg.Buf,
		MaxFiles:            64,
		OffsetsOp:           sc.Op,
		WorkersCount:        "gomaxprocs*1",
		MaintenanceInterval: "25ms",
		ShouldWatchChanges:  sc.Watch,
	}
	if err := cfg.SetDefaultValues(conf); err != nil {
		a.Inconclusive("harness error: config defaults")
		return
	}
	conf.ReadBufferSize = sc.Cfg.Buf
	if err := cfg.Parse(conf, map[string]int{"gomaxprocs": sc.Workers}); err != nil {
		a.Inconclusive("harness error: config parse: " + err.Error())
		return
	}
	rec := &plugRecorder{cfg: sc.Cfg, calls: map[string][]call{}}
	plug, _ := filein.Factory()
	p := plug.(*filein.Plugin)
	params := &pipeline.InputPluginParams{
		PluginDefaultParams: pipeline.PluginDefaultParams{
			PipelineName:     fmt.Sprintf("c06_%d_%d", os.Getpid(), plugSeq),
			PipelineSettings: &pipeline.Settings{MaxEventSize: sc.Cfg.M, CutOffEventByLimit: sc.Cfg.Cut},
			MetricCtl:        metric.NewCtl("c06_plugin", prometheus.NewRegistry(), 0, 0),
		},
		Controller: rec,
		Logger:     zap.NewNop().Sugar(),
	}
	p.Start(conf, params)
	stopped := false
	defer func() {
		if !stopped {
			p.Stop()
		}
	}()

	sizes := map[string]int64{} // files that exist -> size
	for _, f := range sc.Files {
		if f.CreatedAt == 0 {
			sizes[filepath.Join(logs, f.Name)] = int64(len(f.Spec.Parts[0]))
		}
	}
	quiescent := func() bool {
		deadline := time.Now().Add(30 * time.Second)
		for time.Now().Before(deadline) {
			jobs, queued := filein.VerifC06PluginState(p)
			ok := queued == 0
			seen := 0
			for _, j := range jobs {
				want, mine := sizes[j.Filename]
				if !mine {
					continue
				}
				seen++
				if !j.Done || j.CurOffset != want {
					ok = false
				}
			}
			if ok && seen == len(sizes) {
				return true
			}
			time.Sleep(3 * time.Millisecond)
		}
		return false
	}
	if !quiescent() {
		a.Inconclusive("watchdog: plugin not quiescent after start")
		return
	}
	for step := 1; step <= sc.Steps; step++ {
		for _, f := range sc.Files {
			path := filepath.Join(logs, f.Name)
			if f.CreatedAt == step {
				if err := os.WriteFile(path, f.Spec.Parts[0], 0o644); err != nil {
					a.Inconclusive("harness error: write")
					return
				}
				sizes[path] = int64(len(f.Spec.Parts[0]))
			}
			for k, at := range f.AppendAt {
				if at == step {
					if err := appendFile(path, f.Spec.Parts[k+1]); err != nil {
						a.Inconclusive("harness error: append")
						return
					}
					sizes[path] += int64(len(f.Spec.Parts[k+1]))
				}
			}
		}
		if !quiescent() {
			a.Inconclusive("watchdog: plugin not quiescent after a step")
			return
		}
	}
	p.Stop()
	stopped = true

	// compare the whole pass of every file
	rec.mu.Lock()
	defer rec.mu.Unlock()
	a.count("plugin_scenarios_compared", 1)
	a.count("plugin_read_ops", int64(rec.reads))
	a.count(fmt.Sprintf("plugin_workers_%d", sc.Workers), 1)
	if sc.Watch {
		a.count("plugin_woken_by_write_notifications", 1)
	} else {
		a.count("plugin_woken_by_maintenance", 1)
	}
	for _, f := range sc.Files {
		a.evals++
		path := filepath.Join(logs, f.Name)
		sp := f.Spec
		lines, due := reference(sp, sc.Cfg)
		for i := range lines {
			lines[i].Round = 0 // one pass; the round structure is not observable from outside
		}
		got := rec.calls[path]
		mm := compareRound(sp, sc.Cfg, lines, due, 0, got, map[int64]int{})
		if sc.Watch && len(mm) > 0 && onlyOffsetsDriftUp(sp, lines, due, got) {
			// the one known way in which write notifications racing with a read
			// round show up (same defect, same signature as the directed family)
			a.count("plugin_offsets_drifted_with_write_notifications", 1)
			a.Violation(sigNotifyDrift, "real Plugin with should_watch_file_changes: every line delivered, offsets drift upwards", map[string]any{
				"kind": "plugin", "seed": sc.SeedUsed, "config": sc.Cfg, "workers": sc.Workers, "file": specWitness(sp),
				"expected": expectedWitness(sp, lines, due, 0), "got": callsWitness(got),
			})
			mm = nil
		}
		for mi := range mm {
			m := &mm[mi]
			sig := "file.plugin " + m.Class + " limit=" + sc.Cfg.limitKind()
			if m.Line != nil && (m.Line.Need == needCut || m.Line.Need == needAbsent) {
				sig += " size=over-limit"
			}
			a.Violation(sig, m.Detail, map[string]any{
				"kind": "plugin", "seed": sc.SeedUsed, "config": sc.Cfg, "workers": sc.Workers, "watch_writes": sc.Watch, "offsets_op_at_start": sc.Op,
				"file": specWitness(sp), "created_at_step": f.CreatedAt, "append_steps": f.AppendAt,
				"expected": expectedWitness(sp, lines, due, 0), "got": callsWitness(got),
			})
		}
		nDue := 0
		for i := range lines {
			if due[i] {
				nDue++
			}
		}
		a.count("plugin_lines_due", int64(nDue))
		a.count("plugin_lines_delivered", int64(len(got)))
		a.count("plugin_files_op_"+sp.Op, 1)
		if f.CreatedAt > 0 {
			a.count("plugin_files_created_while_running", 1)
		}
		if len(mm) == 0 && len(lines) > 0 {
			bufc := fmt.Sprint(sc.Cfg.Buf)
			if sc.Cfg.Buf > 8 {
				bufc = "big"
			}
			a.fps[fmt.Sprintf("plugin b%s %s %s w%d watch=%v appends=%d created=%v lines=%d", bufc, sc.Cfg.limitKind(), sp.Op, sc.Workers, sc.Watch, len(f.AppendAt), f.CreatedAt > 0, bucket(len(lines)))] = struct{}{}
		}
	}
	for name := range rec.calls {
		known := false
		for _, f := range sc.Files {
			if filepath.Join(logs, f.Name) == name {
				known = true
			}
		}
		if !known {
			a.Violation("file.plugin call-for-unknown-source", name, map[string]any{"seed": sc.SeedUsed})
		}
	}
}

// onlyOffsetsDriftUp: every due line that must be delivered is delivered, in
// order, with acceptable bytes, nothing else is delivered, and the offsets are
// too large by amounts that never decrease (at least one is positive).
func onlyOffsetsDriftUp(sp *caseSpec, lines []refLine, due []bool, got []call) bool {
	content := sp.content()
	gi := 0
	var last int64
	positive := false
	for i := range lines {
		l := &lines[i]
		if !due[i] || l.Need == needAbsent {
			continue
		}
		want := content[l.Start:l.End]
		match := gi < len(got) && (string(got[gi].Data) == string(want) ||
			(l.Need == needCut && len(got[gi].Data) > 0 && len(got[gi].Data) <= len(want)+1<<20 && got[gi].Data[len(got[gi].Data)-1] == '\n'))
		if !match {
			if l.Need == needOption {
				continue
			}
			return false
		}
		d := got[gi].Offset - l.End
		if d < last {
			return false
		}
		if d > 0 {
			positive = true
		}
		last = d
		gi++
	}
	return gi == len(got) && positive
}

func bucket(n int) int {
	switch {
	case n <= 3:
		return n
	case n <= 10:
		return 10
	case n <= 50:
		return 50
	}
	return 100
}

type plugInput struct {
	Seeds []int64 `json:"seeds"`
}

func pluginChild(raw json.RawMessage, io *core.ChildIO) (any, error) {
	var in plugInput
	if err := json.Unmarshal(raw, &in); err != nil {
		return nil, err
	}
	a := newAgg()
	for _, seed := range in.Seeds {
		io.Log(map[string]any{"kind": "plugin", "seed": seed})
		runPlugScenario(a, io.Dir, genPlugScenario(seed))
	}
	return a.result(), nil
}

func runPluginLevel(c *core.Ctx, total *agg, base string, runs int) {
	nShards := workers
	if runs < nShards {
		nShards = runs
	}
	shards := make([]plugInput, nShards)
	for i := 0; i < runs; i++ {
		shards[i%nShards].Seeds = append(shards[i%nShards].Seeds, c.SubSeed("plugin", i))
	}
	var mu sync.Mutex
	core.ParallelFor(nShards, workers, func(si int) {
		dir, err := os.MkdirTemp(base, "plugin-")
		if err != nil {
			mu.Lock()
			total.Inconclusive("cannot create shard dir")
			mu.Unlock()
			return
		}
		r := core.RunChild("plugin", shards[si], core.ChildOpt{Timeout: 15 * time.Minute, GOMAXPROCS: 4, Dir: dir})
		_ = os.RemoveAll(dir)
		mu.Lock()
		defer mu.Unlock()
		switch {
		case r.TimedOut:
			total.Inconclusive("watchdog: plugin shard")
		case r.Crashed():
			last := r.LastLog()
			var l struct {
				Seed int64 `json:"seed"`
			}
			if last == nil || json.Unmarshal(last, &l) != nil {
				total.Inconclusive("plugin child died before its first scenario")
				return
			}
			mu.Unlock()
			d2, _ := os.MkdirTemp(base, "plugin-confirm-")
			r2 := core.RunChild("plugin", plugInput{Seeds: []int64{l.Seed}}, core.ChildOpt{Timeout: 15 * time.Minute, GOMAXPROCS: 4, Dir: d2})
			_ = os.RemoveAll(d2)
			mu.Lock()
			if !r2.Crashed() {
				total.Inconclusive("plugin child crash not reproduced alone")
				return
			}
			msg, fn := core.PanicFunc(r2.Stderr)
			total.Violation(fmt.Sprintf("file.plugin process died: %s @%s", core.NormalizeMsg(msg), fn),
				"the process running the real file input plugin died", map[string]any{"scenario_seed": l.Seed, "stderr": core.Trunc(r2.Stderr, 3000)})
		default:
			var sr shardResult
			if err := json.Unmarshal(r.Out, &sr); err != nil {
				total.Inconclusive("cannot decode plugin shard result")
				return
			}
			total.merge(&sr)
		}
	})
}
