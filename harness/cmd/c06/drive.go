package main

// Real side: the real worker.work / jobProvider of plugin/input/file driven
// through the verif_c06.go accessor over real temp files.

import (
	"fmt"
	"os"
	"path/filepath"

	"github.com/ozontech/file.d/pipeline"
	filein "github.com/ozontech/file.d/plugin/input/file"
)

// recorder is the controller handed to the worker. It copies what it is given
// and then does to the worker's buffer exactly what the real Pipeline.In does
// (checkInputBytes: for an over-limit event with cut-off it re-slices to the
// limit and appends '\n' in place, i.e. writes data[limit]).
type recorder struct {
	cfg      runConfig
	calls    []recCall
	arena    []byte
	readOps  int
	exceeded int

	// schedule injection: at the injectAt-th read of the round, inject() is run
	// in the worker's goroutine (between two reads), see caseSpec.NotifyAt
	injectAt int
	inject   func()
}

type recCall struct {
	Src      pipeline.SourceID
	Name     string
	Offset   int64
	off, end int // data in arena
	IsNew    bool
}

func (r *recorder) reset() {
	r.calls = r.calls[:0]
	r.arena = r.arena[:0]
	r.readOps = 0
	r.exceeded = 0
	r.injectAt = 0
	r.inject = nil
}

func (r *recorder) In(src pipeline.SourceID, name string, offsets pipeline.Offsets, data []byte, isNew bool) {
	o := len(r.arena)
	r.arena = append(r.arena, data...)
	r.calls = append(r.calls, recCall{Src: src, Name: name, Offset: pipeline.VerifOffsetsCurrent(offsets), off: o, end: len(r.arena), IsNew: isNew})
	if r.cfg.Cut && r.cfg.M > 0 && len(data) > r.cfg.M && data[len(data)-1] == '\n' {
		data[r.cfg.M] = '\n'
	}
}
func (r *recorder) ReadOp() {
	r.readOps++
	if r.inject != nil && r.readOps == r.injectAt {
		r.inject()
	}
}
func (r *recorder) SizeExceeded(string) { r.exceeded++ }

func (r *recorder) callsOf(src pipeline.SourceID) []call {
	var out []call
	for i := range r.calls {
		c := &r.calls[i]
		if c.Src == src {
			out = append(out, call{Offset: c.Offset, Data: append([]byte(nil), r.arena[c.off:c.end]...)})
		}
	}
	return out
}

// session runs groups of cases (1..n files read by one worker) with one
// configuration. The environment (worker, provider) lives across groups, as a
// worker lives across files in production; it is rebuilt after a panic.
type session struct {
	cfg   runConfig
	dir   string
	rec   *recorder
	env   *filein.VerifC06Env
	paths []string
}

func newSession(dir string, cfg runConfig) *session {
	s := &session{cfg: cfg, dir: dir, rec: &recorder{cfg: cfg}}
	s.env = filein.VerifC06NewEnv(cfg.M, cfg.Cut, s.rec)
	return s
}

func (s *session) path(i int) string {
	for len(s.paths) <= i {
		s.paths = append(s.paths, filepath.Join(s.dir, fmt.Sprintf("f%d.log", len(s.paths))))
	}
	return s.paths[i]
}

type groupResult struct {
	// Rounds[i][k] = calls for case i in round k
	Rounds   [][][]call
	ReadOps  int
	Exceeded int
	Reopened int
	// Shift[k]: by how much the write notification injected into round k of
	// case 0 changed the job's read position (must be 0: the file only grew)
	Shift    []int64
	Injected int
	Panic    string
	PanicAt  int // round
	Err      error
}

func appendFile(path string, b []byte) error {
	f, err := os.OpenFile(path, os.O_WRONLY|os.O_APPEND, 0o644)
	if err != nil {
		return err
	}
	_, err = f.Write(b)
	if cerr := f.Close(); err == nil {
		err = cerr
	}
	return err
}

// runGroup reads the given cases concurrently with one worker: every round the
// jobs that have something to do are queued in case order and one call of the
// real worker.work drains the queue.
func (s *session) runGroup(specs []*caseSpec) *groupResult {
	res := &groupResult{Rounds: make([][][]call, len(specs)), PanicAt: -1}
	jobs := make([]*filein.VerifC06Job, len(specs))
	rounds := 0
	for i, sp := range specs {
		if len(sp.Parts) > rounds {
			rounds = len(sp.Parts)
		}
		res.Rounds[i] = make([][]call, len(sp.Parts))
		p := s.path(i)
		// (truncating in place; a new inode per case is not needed and unlink+create is slower)
		if err := os.WriteFile(p, sp.Parts[0], 0o644); err != nil {
			res.Err = err
			return res
		}
		j, err := s.env.Open(p, sp.Op, sp.Saved)
		if err != nil {
			res.Err = err
			return res
		}
		jobs[i] = j
	}
	defer func() {
		if res.Panic != "" {
			// locks may be held: abandon the environment
			s.env = filein.VerifC06NewEnv(s.cfg.M, s.cfg.Cut, s.rec)
			return
		}
		for _, j := range jobs {
			if j != nil {
				j.Close()
			}
		}
	}()
	for k := 0; k < rounds; k++ {
		if k > 0 {
			for i, sp := range specs {
				if k >= len(sp.Parts) {
					continue
				}
				if len(sp.Parts[k]) > 0 {
					if err := appendFile(s.path(i), sp.Parts[k]); err != nil {
						res.Err = err
						return res
					}
				}
				switch sp.Wake[k] {
				case 'm':
					if rc := jobs[i].ResumeMaintenance(); rc == 4 {
						res.Reopened++
					} else if rc != 2 {
						res.Err = fmt.Errorf("maintenanceJob returned %d", rc)
						return res
					}
				case 'n':
					if err := jobs[i].ResumeNotify(false); err != nil {
						res.Err = err
						return res
					}
				default:
					if err := jobs[i].ResumeNotify(true); err != nil {
						res.Err = err
						return res
					}
				}
			}
		}
		s.rec.reset()
		res.Shift = append(res.Shift, 0)
		if len(specs) == 1 && k < len(specs[0].NotifyAt) && specs[0].NotifyAt[k] > 0 {
			// a write notification for this file is processed by the provider
			// (watcher goroutine in production) between two reads of this round
			kk := k
			s.rec.injectAt = specs[0].NotifyAt[k]
			s.rec.inject = func() {
				before := jobs[0].State().CurOffset
				if err := jobs[0].ResumeNotify(true); err != nil {
					res.Err = err
				}
				res.Shift[kk] = jobs[0].State().CurOffset - before
				res.Injected++
			}
		}
		if p := s.env.Run(s.cfg.Buf); p != "" {
			res.Panic = p
			res.PanicAt = k
			return res
		}
		res.ReadOps += s.rec.readOps
		res.Exceeded += s.rec.exceeded
		for i, sp := range specs {
			if k < len(sp.Parts) {
				res.Rounds[i][k] = s.rec.callsOf(jobs[i].SourceID())
			}
		}
		// a call for a source that is none of ours is impossible to attribute: count it on case 0
		for ci := range s.rec.calls {
			known := false
			for _, j := range jobs {
				if j.SourceID() == s.rec.calls[ci].Src {
					known = true
				}
			}
			if !known {
				res.Err = fmt.Errorf("In called with unknown source id %d", s.rec.calls[ci].Src)
				return res
			}
		}
	}
	for i, j := range jobs {
		st := j.State()
		if !st.Done {
			res.Err = fmt.Errorf("job %d not done after the last round", i)
		}
	}
	return res
}
