// C06 - file reader: each complete line once, with its end-of-line offset.
//
// The real worker.work of plugin/input/file reads real temp files (created,
// appended to and re-queued through the provider's own code paths); every
// (offset, data) it hands to its controller is compared, per read round, with
// an independent reference line splitter (model.go).
package main

import (
	"encoding/json"
	"fmt"
	"math/rand"
	"os"
	"path/filepath"
	"sort"
	"strings"
	"sync"
	"time"

	"verifharness/core"
)

// agg collects evidence locally (one per goroutine) and is merged at the end.
type agg struct {
	evals    int64
	counters map[string]int64
	fps      map[string]struct{}
	samples  []any
	vios     []vio
	vioSeen  map[string]int
	incon    map[string]int
}

type vio struct {
	Sig     string `json:"sig"`
	What    string `json:"what"`
	Witness any    `json:"witness"`
}

// shardResult is what a child process reports.
type shardResult struct {
	Evals    int64            `json:"evals"`
	Counters map[string]int64 `json:"counters"`
	FPs      []string         `json:"fps"`
	Samples  []any            `json:"samples"`
	Vios     []vio            `json:"vios"`
	VioSeen  map[string]int   `json:"vio_seen"`
	Incon    map[string]int   `json:"incon"`
}

func newAgg() *agg {
	return &agg{counters: map[string]int64{}, fps: map[string]struct{}{}, vioSeen: map[string]int{}, incon: map[string]int{}}
}

func (a *agg) count(k string, n int64) { a.counters[k] += n }

// Violation keeps the first two witnesses per signature (the parent reports them).
func (a *agg) Violation(sig, what string, witness any) {
	a.vioSeen[sig]++
	if a.vioSeen[sig] <= 2 && len(a.vios) < 60 {
		a.vios = append(a.vios, vio{Sig: sig, What: what, Witness: witness})
	}
}

func (a *agg) Inconclusive(reason string) { a.incon[reason]++ }

func (a *agg) result() *shardResult {
	r := &shardResult{Evals: a.evals, Counters: a.counters, Samples: a.samples, Vios: a.vios, VioSeen: a.vioSeen, Incon: a.incon}
	for fp := range a.fps {
		r.FPs = append(r.FPs, fp)
	}
	return r
}

func (a *agg) merge(r *shardResult) {
	a.evals += r.Evals
	for k, v := range r.Counters {
		a.counters[k] += v
	}
	for _, fp := range r.FPs {
		a.fps[fp] = struct{}{}
	}
	if len(a.samples) < 6 {
		a.samples = append(a.samples, r.Samples...)
	}
	for _, v := range r.Vios {
		n := 0
		for i := range a.vios {
			if a.vios[i].Sig == v.Sig {
				n++
			}
		}
		if n < 2 && len(a.vios) < 400 { // two witnesses per signature are enough
			a.vios = append(a.vios, v)
		}
	}
	for k, v := range r.VioSeen {
		a.vioSeen[k] += v
	}
	for k, v := range r.Incon {
		a.incon[k] += v
	}
}

func (a *agg) flush(c *core.Ctx) {
	c.Eval(int(a.evals))
	for _, k := range sortedKeys(a.counters) {
		c.Count(k, a.counters[k])
	}
	for fp := range a.fps {
		c.Nontrivial(fp)
	}
	for _, s := range a.samples {
		c.Sample(s)
	}
	sort.SliceStable(a.vios, func(i, j int) bool { return a.vios[i].Sig < a.vios[j].Sig })
	for _, v := range a.vios {
		c.Violation(v.Sig, v.What, v.Witness)
	}
	if len(a.vioSeen) > 0 {
		c.Extra("mismatches_by_signature", a.vioSeen)
	}
	reasons := make([]string, 0, len(a.incon))
	for k := range a.incon {
		reasons = append(reasons, k)
	}
	sort.Strings(reasons)
	for _, k := range reasons {
		for i := 0; i < a.incon[k]; i++ {
			c.Inconclusive(k)
		}
	}
}

func specWitness(sp *caseSpec) map[string]any {
	parts := make([]string, len(sp.Parts))
	for i, p := range sp.Parts {
		parts[i] = quote(p)
	}
	w := map[string]any{"parts_go_quoted": parts, "offsets_op": sp.Op, "saved_offsets": sp.Saved, "wake": string(sp.Wake[1:])}
	if sp.NotifyAt != nil {
		w["write_notification_processed_after_read_no_of_round"] = sp.NotifyAt
	}
	return w
}

// sigNotifyDrift is the signature of one specific defect (see FINDINGS.md). In
// the directed family it is emitted when the notification was seen to change
// the job's read position and anything delivered afterwards deviates; at plugin
// level when every line is delivered but offsets drift upwards.
const sigNotifyDrift = "file.provider write notification during a read round corrupts Job.curOffset: later offsets too large, or false truncation and the file delivered again"

func callsWitness(cs []call) []map[string]any {
	out := []map[string]any{}
	for i, c := range cs {
		if i >= 40 {
			out = append(out, map[string]any{"more": len(cs) - i})
			break
		}
		out = append(out, map[string]any{"offset": c.Offset, "data": quote(c.Data)})
	}
	return out
}

func expectedWitness(sp *caseSpec, lines []refLine, due []bool, round int) []map[string]any {
	out := []map[string]any{}
	content := sp.content()
	needs := []string{"deliver-unchanged", "deliver-unchanged-or-skip", "deliver(cut by Pipeline.In)", "skip"}
	for i, l := range lines {
		if !due[i] || l.Round != round {
			continue
		}
		if len(out) >= 40 {
			out = append(out, map[string]any{"more": true})
			break
		}
		out = append(out, map[string]any{"offset": l.End, "line": quote(content[l.Start:l.End]), "expect": needs[l.Need]})
	}
	return out
}

// repoFrame returns the first frame of the real code (not the accessor, not the logger).
func repoFrame(stack string) string {
	lines := strings.Split(stack, "\n")
	for i := 0; i+1 < len(lines); i++ {
		t := strings.TrimSpace(lines[i+1])
		if strings.HasPrefix(t, "/repo/") && !strings.Contains(t, "/repo/logger/") && !strings.Contains(t, "verif_c06.go") {
			f := strings.TrimSpace(lines[i])
			if j := strings.LastIndex(f, "("); j > 0 {
				f = f[:j]
			}
			return strings.TrimPrefix(f, "github.com/ozontech/file.d/")
		}
	}
	return "?"
}

// evaluate compares one executed group with the reference and records evidence.
func evaluate(a *agg, kind string, cfg runConfig, specs []*caseSpec, res *groupResult) {
	if res.Err != nil {
		a.Inconclusive("harness error: " + core.NormalizeMsg(res.Err.Error()))
		return
	}
	if res.Panic != "" {
		msg := strings.SplitN(res.Panic, "\n", 2)[0]
		sig := fmt.Sprintf("file.worker %s @%s limit=%s", core.NormalizeMsg(msg), repoFrame(res.Panic), cfg.limitKind())
		ws := []any{}
		for _, sp := range specs {
			ws = append(ws, specWitness(sp))
		}
		a.Violation(sig, "the real worker panicked while reading", map[string]any{"kind": kind, "config": cfg, "files": ws, "round": res.PanicAt, "panic": core.Trunc(res.Panic, 3000)})
		a.evals += int64(len(specs))
		return
	}
	a.count("groups_"+kind, 1)
	a.count("read_ops", int64(res.ReadOps))
	a.count("worker_size_exceeded_metric", int64(res.Exceeded))
	a.count("maintenance_reopened_descriptor", int64(res.Reopened))
	if len(specs) > 1 {
		a.count("cases_sharing_a_worker_with_another_file", int64(len(specs)))
	}
	for i, sp := range specs {
		a.evals++
		lines, due := reference(sp, cfg)
		delivered := map[int64]int{}
		content := sp.content()
		sizes := sp.sizes()
		var fp []string
		clean := true
		if sp.NotifyAt != nil {
			a.count("notify_during_round_cases", 1)
			if res.Injected == 0 {
				a.count("notify_during_round_read_not_reached", 1)
			}
		}
		// Directed family: a notification that changed the job's read position
		// (observed directly) is one defect with one signature, whatever it leads
		// to afterwards (offsets too large; or, because position > file size, a
		// false "file was truncated" and a second delivery of the whole file).
		if sp.NotifyAt != nil && len(specs) == 1 {
			shifted := false
			for _, sh := range res.Shift {
				if sh != 0 {
					shifted = true
				}
			}
			if shifted {
				a.count("notify_during_round_read_position_changed", 1)
				d3 := map[int64]int{}
				classes := map[string]bool{}
				for k := range sp.Parts {
					for _, m := range compareRound(sp, cfg, lines, due, k, res.Rounds[i][k], d3) {
						classes[m.Class] = true
					}
				}
				if len(classes) > 0 {
					twice := classes["line-delivered-twice"]
					if twice {
						a.count("notify_during_round_then_file_delivered_again", 1)
					} else {
						a.count("notify_during_round_then_offsets_too_large", 1)
					}
					rounds := []any{}
					for k := range sp.Parts {
						rounds = append(rounds, map[string]any{"expected": expectedWitness(sp, lines, due, k), "got": callsWitness(res.Rounds[i][k])})
					}
					cl := []string{}
					for c := range classes {
						cl = append(cl, c)
					}
					sort.Strings(cl)
					a.Violation(sigNotifyDrift, "a write notification processed between two reads of a round stores the descriptor position in Job.curOffset (Job.seek(0, SeekCurrent)); the worker then adds the round's bytes again",
						map[string]any{"kind": kind, "config": cfg, "file": specWitness(sp), "read_position_changed_by": res.Shift, "deviations": cl, "rounds": rounds})
					continue
				}
			}
		}
		for k := range sp.Parts {
			got := res.Rounds[i][k]
			mm := compareRound(sp, cfg, lines, due, k, got, delivered)
			for mi := range mm {
				m := &mm[mi]
				clean = false
				a.Violation(signature(sp, cfg, m), m.Detail, map[string]any{
					"kind": kind, "config": cfg, "file": specWitness(sp), "file_index_in_group": i, "files_in_group": len(specs),
					"round": k, "expected_in_round": expectedWitness(sp, lines, due, k), "got_in_round": callsWitness(got),
				})
			}
			if k > 0 {
				a.count("wake_"+string(sp.Wake[k]), 1)
				if len(sp.Parts[k]) == 0 {
					a.count("rounds_without_growth", 1)
				}
			}
			if n := sizes[k]; n > 0 && content[n-1] != '\n' {
				a.count("rounds_ending_with_unterminated_tail_held_back", 1)
			}
		}
		a.count("op_"+sp.Op, 1)
		if sp.Op == "continue" && len(sp.Saved) > 1 {
			a.count("op_continue_two_streams", 1)
		}
		if len(sp.Parts[0]) == 0 {
			a.count("file_empty_at_open", 1)
		}
		seen := map[string]bool{}
		for li := range lines {
			l := &lines[li]
			if !due[li] {
				a.count("lines_before_start_position", 1)
				continue
			}
			a.count("lines_due", 1)
			tr := lineTrait(sp, cfg, l)
			a.count("line_"+tr, 1)
			_, was := delivered[l.End]
			var outc string
			switch l.Need {
			case needExact:
				outc = "delivered"
			case needOption:
				if was {
					outc = "limit+newline:delivered"
				} else {
					outc = "limit+newline:skipped"
				}
			case needCut:
				outc = "over-limit:delivered-for-cut"
			case needAbsent:
				outc = "over-limit:skipped"
			}
			a.count("outcome_"+outc, 1)
			size := l.End - l.Start
			sc := "n"
			switch {
			case size == 1:
				sc = "empty"
				a.count("empty_lines", 1)
			case size == int64(cfg.Buf):
				sc = "=buf"
			case size == int64(cfg.Buf)+1:
				sc = "=buf+1"
			case size > int64(cfg.Buf):
				sc = ">buf"
			}
			// alignment of the line end with the end of a read chunk
			al := ""
			var pos int64
			if l.Round > 0 {
				pos = sizes[l.Round-1]
			} else {
				pos = startPos(sp)
			}
			if (l.End-pos)%int64(cfg.Buf) == 0 {
				al = "|"
			}
			key := tr + "/" + outc + "/" + sc + al
			if !seen[key] {
				seen[key] = true
				fp = append(fp, key)
			}
		}
		if clean && len(lines) > 0 {
			// fingerprint: configuration class + start + number of rounds + the set of line situations met
			bufc := fmt.Sprint(cfg.Buf)
			if cfg.Buf > 8 {
				bufc = "big"
			}
			a.fps[fmt.Sprintf("%s b%s %s %s r%d %s", kind, bufc, cfg.limitKind(), sp.Op, len(sp.Parts), strings.Join(fp, ","))] = struct{}{}
		}
		if len(a.samples) < 2 && len(lines) >= 2 && len(sp.Parts) >= 2 && len(content) < 200 {
			rounds := []any{}
			for k := range sp.Parts {
				rounds = append(rounds, callsWitness(res.Rounds[i][k]))
			}
			a.samples = append(a.samples, map[string]any{"kind": kind, "config": cfg, "file": specWitness(sp), "in_calls_per_round": rounds})
		}
	}
}

type tierPlan struct {
	SmallMaxN  int
	SmallBufs  []int
	SmallLims  []runConfig
	ExtraMaxN  int // further (buffer, limit) combinations on a smaller length bound
	ExtraBufs  []int
	ExtraLims  []runConfig
	NotifyMaxN int
	NotifyBufs []int
	LargeCases int
	BigLine    int
	PluginRuns int
}

func plan(c *core.Ctx) tierPlan {
	if c.Thorough() {
		return tierPlan{
			SmallMaxN:  10,
			SmallBufs:  []int{1, 2, 3, 4, 5, 64},
			SmallLims:  []runConfig{{M: 0}, {M: 2}, {M: 2, Cut: true}, {M: 3}, {M: 3, Cut: true}},
			ExtraMaxN:  8,
			ExtraBufs:  []int{1, 2, 3, 4, 5, 6, 7, 8, 9, 64},
			ExtraLims:  []runConfig{{M: 1}, {M: 1, Cut: true}, {M: 4}, {M: 4, Cut: true}, {M: 5}, {M: 5, Cut: true}, {M: 8}, {M: 8, Cut: true}},
			NotifyMaxN: 8, NotifyBufs: []int{1, 2, 3, 5, 64},
			LargeCases: 6000, BigLine: 300 << 10, PluginRuns: 400,
		}
	}
	return tierPlan{
		SmallMaxN:  8,
		SmallBufs:  []int{1, 2, 3, 4, 5, 64},
		SmallLims:  []runConfig{{M: 0}, {M: 2}, {M: 2, Cut: true}, {M: 3}, {M: 3, Cut: true}},
		NotifyMaxN: 6, NotifyBufs: []int{1, 2, 3, 5},
		LargeCases: 600, BigLine: 64 << 10, PluginRuns: 48,
	}
}

const workers = 16

// scratchBase: VERIF_SCRATCH if set; otherwise a tmpfs if there is one (millions
// of tiny create/append/unlink operations are ~30x slower on the ext4 /tmp of
// this sandbox because of journal commits), otherwise the temp dir.
func scratchBase() string {
	if os.Getenv("VERIF_SCRATCH") != "" {
		return core.ScratchBase()
	}
	if st, err := os.Stat("/dev/shm"); err == nil && st.IsDir() {
		if d, err := os.MkdirTemp("/dev/shm", "verif-c06-probe-"); err == nil {
			_ = os.Remove(d)
			return "/dev/shm"
		}
	}
	return core.ScratchBase()
}

// shardInput is the work of one child process.
type shardInput struct {
	Kind    string      `json:"kind"` // small | large
	Tasks   []smallTask `json:"tasks,omitempty"`
	WakeOff []int       `json:"wake_off,omitempty"`
	Seeds   []int64     `json:"seeds,omitempty"`
	BigLine int         `json:"big_line,omitempty"`
	Verbose bool        `json:"verbose,omitempty"` // log every group before running it (crash attribution)
}

func runSmallTask(a *agg, dir string, t smallTask, wake int, io *core.ChildIO, verbose bool) {
	sess := newSession(dir, t.Cfg)
	var specs []*caseSpec
	if t.Kind == "notify" {
		for m := t.MaskFrom; m < t.MaskTo; m++ {
			specs = notifyCases(t.N, m, t.Cfg.Buf, specs)
		}
		for _, sp := range specs {
			group := []*caseSpec{sp}
			if verbose {
				io.Log(map[string]any{"config": t.Cfg, "files": groupWitness(group)})
			}
			evaluate(a, "notify", t.Cfg, group, sess.runGroup(group))
		}
		return
	}
	for m := t.MaskFrom; m < t.MaskTo; m++ {
		specs = smallCases(t.N, m, &wake, specs)
	}
	// pair the i-th case with the i-th from the end: two different files read by one worker
	for i, j := 0, len(specs)-1; i <= j; i, j = i+1, j-1 {
		group := []*caseSpec{specs[i]}
		if j > i {
			group = append(group, specs[j])
		}
		if verbose {
			io.Log(map[string]any{"config": t.Cfg, "files": groupWitness(group)})
		}
		res := sess.runGroup(group)
		evaluate(a, "small", t.Cfg, group, res)
	}
}

func runLargeCase(a *agg, dir string, seed int64, bigLine int, io *core.ChildIO) {
	rng := rand.New(rand.NewSource(seed))
	cfg := genLargeConfig(rng)
	sess := newSession(dir, cfg)
	n := 1 + rng.Intn(3)
	group := make([]*caseSpec, n)
	for k := range group {
		group[k] = genLargeSpec(rng, cfg, bigLine)
	}
	res := sess.runGroup(group)
	evaluate(a, "large", cfg, group, res)
}

func groupWitness(group []*caseSpec) []any {
	ws := []any{}
	for _, sp := range group {
		ws = append(ws, specWitness(sp))
	}
	return ws
}

func shardChild(raw json.RawMessage, io *core.ChildIO) (any, error) {
	var in shardInput
	if err := json.Unmarshal(raw, &in); err != nil {
		return nil, err
	}
	dir := filepath.Join(io.Dir, "files")
	if err := os.MkdirAll(dir, 0o755); err != nil {
		return nil, err
	}
	a := newAgg()
	switch in.Kind {
	case "small":
		for i, t := range in.Tasks {
			io.Log(map[string]any{"kind": "small", "task": t, "wake_off": in.WakeOff[i]})
			runSmallTask(a, dir, t, in.WakeOff[i], io, in.Verbose)
		}
	case "large":
		for _, seed := range in.Seeds {
			io.Log(map[string]any{"kind": "large", "seed": seed, "big_line": in.BigLine})
			runLargeCase(a, dir, seed, in.BigLine, io)
		}
	}
	return a.result(), nil
}

// runShards executes shards in child processes and merges their results. A
// child that dies (logger.Fatal, unrecovered panic, runtime fatal error) is
// attributed to the last logged task, which is re-run alone to confirm.
func runShards(c *core.Ctx, total *agg, base string, shards []shardInput) {
	var mu sync.Mutex
	core.ParallelFor(len(shards), workers, func(si int) {
		dir, err := os.MkdirTemp(base, "shard-")
		if err != nil {
			mu.Lock()
			total.Inconclusive("cannot create shard dir")
			mu.Unlock()
			return
		}
		r := core.RunChild("shard", shards[si], core.ChildOpt{Timeout: 20 * time.Minute, GOMAXPROCS: 2, Dir: dir})
		_ = os.RemoveAll(dir)
		mu.Lock()
		defer mu.Unlock()
		switch {
		case r.TimedOut:
			total.Inconclusive("watchdog: shard " + shards[si].Kind)
		case r.Crashed():
			last := r.LastLog()
			var one shardInput
			var l struct {
				Task    smallTask `json:"task"`
				WakeOff int       `json:"wake_off"`
				Seed    int64     `json:"seed"`
				BigLine int       `json:"big_line"`
			}
			if last == nil || json.Unmarshal(last, &l) != nil {
				total.Inconclusive("child died before its first task: " + core.Trunc(core.NormalizeMsg(r.Stderr), 120))
				return
			}
			if shards[si].Kind == "small" {
				one = shardInput{Kind: "small", Tasks: []smallTask{l.Task}, WakeOff: []int{l.WakeOff}, Verbose: true}
			} else {
				one = shardInput{Kind: "large", Seeds: []int64{l.Seed}, BigLine: l.BigLine}
			}
			mu.Unlock()
			d2, _ := os.MkdirTemp(base, "confirm-")
			r2 := core.RunChild("shard", one, core.ChildOpt{Timeout: 20 * time.Minute, GOMAXPROCS: 2, Dir: d2})
			_ = os.RemoveAll(d2)
			mu.Lock()
			if !r2.Crashed() {
				total.Inconclusive("child crash not reproduced alone")
				return
			}
			msg, fn := core.PanicFunc(r2.Stderr)
			total.Violation(fmt.Sprintf("file.worker process died: %s @%s", core.NormalizeMsg(msg), fn),
				"the process running the real worker died", map[string]any{"task": json.RawMessage(last), "last_group": r2.LastLog(), "stderr": core.Trunc(r2.Stderr, 3000)})
		default:
			var sr shardResult
			if err := json.Unmarshal(r.Out, &sr); err != nil {
				total.Inconclusive("cannot decode shard result")
				return
			}
			total.merge(&sr)
		}
	})
}

func run(c *core.Ctx) {
	c.SetRule("real worker.work over real temp files vs. reference line splitter, per read round. " +
		"(1) exhaustive small scope: every newline placement in contents of length 0..N (other bytes pairwise distinct) x read-buffer sizes x max_event_size/cut_off settings x every split into <=3 appends (incl. empty file at open and wake-ups without growth) x start = reset | tail | continue from every saved line start; two files share one worker; " +
		"(2) seeded large cases: 1-3 files per worker, buffers 1..128KiB, lines sized around buffer and limit multiples, multi-byte/NUL/CR bytes, up to 5 appends cut at/before/after newlines; " +
		"(3) plugin level: the real Plugin (watcher, maintenance, several workers) reads files that are created and appended to while it runs. " +
		"distinct = configuration class x start x rounds x set of (line position relative to reads/rounds, limit outcome, size class, end aligned with chunk end)")
	c.Assume("regular files return full reads until EOF; appends are visible to the next read round")
	c.Assume("the recording controller does to the passed buffer what Pipeline.In does today (writes '\\n' at data[max_event_size] for an over-limit line with cut-off)")
	c.Assume("saved offsets are line starts (the only values a previous run can commit); truncation / rotation are out of scope of C06")
	pl := plan(c)
	only := os.Getenv("VERIF_C06_ONLY") // debugging aid: run one phase only; such a run never passes
	if only != "" {
		c.Fatal("VERIF_C06_ONLY=%s: partial debugging run", only)
		if v := os.Getenv("VERIF_C06_MAXN"); v != "" {
			fmt.Sscan(v, &pl.SmallMaxN)
		}
	}

	base, err := os.MkdirTemp(scratchBase(), "verif-c06-")
	if err != nil {
		c.Fatal("cannot create scratch dir: %v", err)
		return
	}
	defer os.RemoveAll(base)
	total := newAgg()
	phase := map[string]float64{}
	t0 := time.Now()
	lap := func(name string) {
		phase[name] = time.Since(t0).Seconds()
		t0 = time.Now()
	}

	// ---- (1) exhaustive small scope
	if only == "" || only == "small" {
		tasks := smallTasks(pl.SmallMaxN, pl.SmallBufs, pl.SmallLims)
		if pl.ExtraMaxN > 0 {
			tasks = append(tasks, smallTasks(pl.ExtraMaxN, pl.ExtraBufs, pl.ExtraLims)...)
		}
		tasks = append(tasks, notifyTasks(pl.NotifyMaxN, pl.NotifyBufs)...)
		nShards := workers * 4
		shards := make([]shardInput, nShards)
		for i := range shards {
			shards[i].Kind = "small"
		}
		for ti, t := range tasks {
			sh := &shards[ti%nShards]
			sh.Tasks = append(sh.Tasks, t)
			sh.WakeOff = append(sh.WakeOff, ti)
		}
		runShards(c, total, base, shards)
	}
	lap("small_scope_wall_s")
	smallEvals := total.evals
	c.Extra("small_scope", map[string]any{"max_length": pl.SmallMaxN, "buffers": pl.SmallBufs, "limits": pl.SmallLims,
		"extra_max_length": pl.ExtraMaxN, "extra_buffers": pl.ExtraBufs, "extra_limits": pl.ExtraLims,
		"notify_max_length": pl.NotifyMaxN, "notify_buffers": pl.NotifyBufs, "cases": smallEvals, "exhaustive_within_scope": true})

	// ---- (2) seeded large cases
	if only == "" || only == "large" {
		nShards := workers * 4
		shards := make([]shardInput, nShards)
		for i := range shards {
			shards[i].Kind = "large"
			shards[i].BigLine = pl.BigLine
		}
		for i := 0; i < pl.LargeCases; i++ {
			sh := &shards[i%nShards]
			sh.Seeds = append(sh.Seeds, c.SubSeed("large", i))
		}
		runShards(c, total, base, shards)
	}
	lap("large_wall_s")
	c.Extra("large_cases", total.evals-smallEvals)

	// ---- (3) plugin level
	if only == "" || only == "plugin" {
		runPluginLevel(c, total, base, pl.PluginRuns)
	}

	lap("plugin_wall_s")
	c.Extra("phase_wall_s", phase)
	fmt.Printf("phases: %v\n", phase)

	total.flush(c)

	// a run that did not observe the behaviours the property talks about decides nothing
	need := []string{
		"outcome_delivered", "outcome_over-limit:skipped", "outcome_over-limit:delivered-for-cut",
		"line_within-read", "line_spans-reads", "line_spans-rounds",
		"rounds_ending_with_unterminated_tail_held_back", "empty_lines",
		"op_reset", "op_continue", "op_tail", "lines_before_start_position",
		"wake_m", "wake_n", "wake_w", "rounds_without_growth", "maintenance_reopened_descriptor",
		"plugin_lines_delivered", "plugin_scenarios_compared",
	}
	for _, k := range need {
		if total.counters[k] == 0 {
			c.Fatal("behaviour class %q was never observed", k)
		}
	}
}

func main() {
	core.RegisterChild("shard", shardChild)
	core.RegisterChild("plugin", pluginChild)
	core.Main("C06", "exploration", run)
}
