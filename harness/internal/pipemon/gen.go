package pipemon

import (
	"encoding/json"
	"fmt"
	"math/rand"
	"strings"
	"sync"
	"time"

	"verifharness/core"
)

func pickInt(r *rand.Rand, xs ...int) int { return xs[r.Intn(len(xs))] }

// GenCase draws one pipeline case. kind selects the family:
//
//	"mix"      general C01/C02/C05 space
//	"dlq"      failing output with retries and dead queue
//	"hold"     join / hold heavy chains with short event time-outs (C04, C15-like)
//	"tiny"     capacity 1..2, single processor (C04/C05 back-pressure)
func GenCase(r *rand.Rand, seed int64, kind string) Case {
	cs := Case{Seed: seed, Name: kind}
	cs.Procs = pickInt(r, 1, 2, 4, 8)
	cs.Pool = []string{"std", "low_memory"}[r.Intn(2)]
	cs.Capacity = pickInt(r, 1, 2, 4, 16, 256)
	cs.AvgEventSize = pickInt(r, 64, 256, 4096)
	cs.EventTimeoutMs = pickInt(r, 100, 300, 30000)
	cs.Sources = 1 + r.Intn(6)
	cs.Streams = r.Intn(4)
	cs.PerSource = 60 + r.Intn(240)
	cs.Readers = 1 + r.Intn(4)
	cs.PadMax = pickInt(r, 0, 0, 40, 600)
	cs.OpWeights = map[string]int{"pass": 10, "discard": r.Intn(6), "break": r.Intn(3), "collapse": 0, "hold": 0}
	cs.Out = OutSpec{
		Workers: pickInt(r, 1, 2, 4), Count: pickInt(r, 1, 2, 5, 64), Bytes: pickInt(r, 0, 0, 300),
		FlushMs: pickInt(r, 20, 200), Plain: r.Intn(2) == 0, Retry: pickInt(r, 0, 1, 3), RetentMs: pickInt(r, 1, 5, 20), Mult: 2,
		FailPlan: "none",
	}
	switch r.Intn(4) {
	case 1:
		cs.Out.DelayUs = []int{3000, 0, 0, 0}
	case 2:
		cs.Out.DelayUs = []int{2500, 1200, 0, 300, 0, 0, 1800}
	case 3:
		for k := 0; k < 5; k++ {
			cs.Out.DelayUs = append(cs.Out.DelayUs, r.Intn(2500))
		}
	}
	script := ActionSpec{"type": "verif_script"}
	script2 := ActionSpec{"type": "verif_script", "field": "op2"}
	join := ActionSpec{"type": "join", "field": "msg", "start": "/^S:/", "continue": "/^C:/"}
	split := ActionSpec{"type": "split", "field": "arr"}
	discardA := ActionSpec{"type": "discard", "match_fields": map[string]any{"op2": "discard"}}
	switch kind {
	case "mix":
		if r.Intn(4) == 0 {
			cs.ResumePct = 60
		}
		switch r.Intn(8) {
		case 7:
			// a second split action sees the children of the first
			cs.Chain = []ActionSpec{script, split, split}
			cs.SplitPct = 35
			cs.NestedSplit = true
		case 0:
			cs.Chain = []ActionSpec{script}
		case 1:
			cs.Chain = []ActionSpec{script, script2}
		case 2:
			cs.Chain = []ActionSpec{script, split}
			cs.SplitPct = 30
		case 3:
			cs.Chain = []ActionSpec{split, script}
			cs.SplitPct = 30
		case 4:
			cs.Chain = []ActionSpec{join, script}
			cs.JoinPct, cs.ContPct = 15, 30
		case 5:
			cs.Chain = []ActionSpec{script}
			cs.OpWeights["hold"] = 3
			cs.OpWeights["collapse"] = 2
		case 6:
			cs.Chain = []ActionSpec{discardA, script}
		}
		if r.Intn(3) == 0 && !cs.Out.Plain {
			cs.Out.FailPlan = fmt.Sprintf("every:%d:%d", 2+r.Intn(3), 1+r.Intn(cs.Out.Retry+1))
			if cs.Out.Retry == 0 {
				cs.Out.FailPlan = "none"
			}
		}
		if cs.Out.Plain && r.Intn(3) == 0 {
			cs.Out.FailPlan = "rand:30"
		}
	case "dlq", "dlq-nosplit":
		// "dlq-nosplit" (C04): no split chains - split children that wait in a dead
		// queue alias their recycled parent (listed C05 finding) and can kill the
		// process, which C04 would have to count as a wedge
		cs.Chain = []ActionSpec{script}
		if r.Intn(3) == 0 && kind == "dlq" {
			cs.Chain = []ActionSpec{script, split}
			cs.SplitPct = 25
		}
		cs.Out.Plain = false
		cs.Out.Retry = pickInt(r, 0, 1, 2)
		cs.Out.RetentMs = pickInt(r, 1, 3)
		cs.Out.FailPlan = []string{"all", "rand:50", fmt.Sprintf("every:%d:%d", 2+r.Intn(3), 9)}[r.Intn(3)]
		if r.Intn(4) > 0 {
			cs.DLQ = &OutSpec{Workers: pickInt(r, 1, 2), Count: pickInt(r, 1, 4, 16), FlushMs: pickInt(r, 20, 150), Plain: true, FailPlan: "none"}
		}
		if DirectedIndex >= 0 && DirectedIndex%3 == 0 && kind == "dlq" {
			// every third case: split parents and their children share exhausted
			// batches that go to a dead queue
			cs.Chain = []ActionSpec{script, split}
			cs.SplitPct = 30
			if cs.DLQ == nil {
				cs.DLQ = &OutSpec{Workers: 1, Count: pickInt(r, 1, 4), FlushMs: 20, Plain: true, FailPlan: "none"}
			}
			if cs.Out.Count < 2 {
				cs.Out.Count = pickInt(r, 2, 5)
			}
			if strings.HasPrefix(cs.Out.FailPlan, "rand") {
				cs.Out.FailPlan = "all"
			}
		}
		cs.EventTimeoutMs = 30000
	case "hold":
		cs.EventTimeoutMs = pickInt(r, 100, 300)
		cs.PerSource = 20 + r.Intn(60)
		cs.PauseEvery = 3 + r.Intn(10)
		cs.PauseMs = cs.EventTimeoutMs + 250
		switch r.Intn(5) {
		case 0:
			cs.Chain = []ActionSpec{join}
		case 1:
			cs.Chain = []ActionSpec{script, join}
		case 2:
			cs.Chain = []ActionSpec{join, script}
		case 3:
			cs.Chain = []ActionSpec{script}
			cs.OpWeights["hold"] = 4
			cs.OpWeights["collapse"] = 3
		case 4:
			cs.Chain = []ActionSpec{script, script2}
			cs.OpWeights["hold"] = 3
			cs.OpWeights["collapse"] = 2
		}
		cs.JoinPct, cs.ContPct = 20, 40
		cs.Capacity = pickInt(r, 2, 4, 16, 256)
	case "directed":
		// pattern-driven schedules for windows that random traffic rarely hits
		cs.EventTimeoutMs = 300
		cs.Capacity = pickInt(r, 16, 256)
		cs.Procs = pickInt(r, 2, 4, 8)
		cs.Sources = 2 + r.Intn(5)
		cs.Readers = cs.Sources
		cs.Streams = r.Intn(2)
		cs.PerSource = 24 + r.Intn(24)
		cs.PauseMs = 25
		cs.Out.FailPlan = "none"
		cs.Out.FlushMs = 20
		switch pickDirected(r) {
		case 8:
			// one processor, several sources; every source ends on a collapsed event
			// followed by a discarded one (or by the time-out): the action stops
			// waiting and the processor has to go back to the other streams
			cs.Chain = []ActionSpec{script}
			cs.SingleProc = true
			cs.Procs = 1
			cs.Sources = 3 + r.Intn(3)
			cs.Readers = cs.Sources
			cs.Streams = 0
			cs.Pattern = []string{"N", "L", "D", "N", "L"}
			cs.PerSource = 5*(1+r.Intn(3)) + pickInt(r, 0, 3)
			cs.PadMax = 0
		case 7:
			// split in front of join: a child starts a new multi-line record (it
			// flushes the held line and is held itself) while its parent bypasses
			// join through ActionBreak
			cs.Chain = []ActionSpec{split, join}
			cs.Pattern = []string{"S", "J", "P", "N", "S", "C", "J", "N", "J", "P", "N"}
			cs.PadMax = 0
		case 6:
			// split in front of join, the children never reach join (dropped in
			// between): the parent bypasses the line that join holds
			cs.Chain = []ActionSpec{split, script, join}
			cs.Pattern = []string{"S", "K", "P", "N", "S", "C", "K", "N", "S", "K", "K", "P", "N"}
			cs.PadMax = 0
		case 5:
			// several streams are charged at once while all processors sleep, then one
			// processor is parked behind a held line for seconds: the others must serve
			// the remaining streams
			cs.Chain = []ActionSpec{join}
			cs.EventTimeoutMs = 30000
			cs.Procs = pickInt(r, 2, 4, 8) // the readers must really run in parallel
			cs.Sources = 5 + r.Intn(4)
			cs.Readers = cs.Sources
			cs.ChargeRendezvous = 3
			cs.Readers = cs.Sources
			cs.Streams = 0
			cs.Pattern = []string{"S", "P", "N", "N"}
			cs.PauseMs = 2600
			cs.PerSource = 3
			cs.PadMax = 0
		case 4:
			// the next line of a run arrives exactly when the stream time-out is due:
			// put() holds the stream lock across a streamer heartbeat tick, so the
			// heartbeat's tryUnblock and the woken processor compete for the stream
			cs.Chain = []ActionSpec{join}
			cs.Pattern = []string{"S", "P", "C", "N", "S", "C", "P", "C", "N"}
			cs.PauseMs = 320
			cs.PerSource = 10 + r.Intn(8)
			cs.Sources = 1 + r.Intn(3)
			cs.Readers = cs.Sources
			cs.HookSleeps = map[string][2]int{"stream.put.beforeSignal": {230000, 85}}
		case 0:
			// an earlier action discards an event of the sequence while join
			// holds one and the stream is momentarily empty
			cs.Chain = []ActionSpec{script, join}
			cs.Pattern = []string{"S", "D", "P", "N", "N", "S", "C", "D", "P", "N", "S", "Z", "N", "S", "C", "Z", "P", "N"}
		case 1:
			// join with match conditions: an event that does not match arrives mid-hold
			cs.Chain = []ActionSpec{{"type": "join", "field": "msg", "start": "/^S:/", "continue": "/^C:/", "match_fields": map[string]any{"jm": "y"}}}
			cs.Pattern = []string{"S", "X", "P", "N", "S", "C", "X", "N", "P"}
		case 2:
			// split parents whose children are all dropped: parent-only batches,
			// the last one is partial and must be flushed by the timer
			cs.Chain = []ActionSpec{split, script}
			cs.Pattern = []string{"K", "N", "K", "K", "P", "K"}
			cs.Out.Count = 64
			// whole cycles: every source ends on a parent that arrives after a
			// pause longer than flush timeout + batcher heartbeat, i.e. alone in
			// its batch
			cs.PerSource = 5 * (1 + r.Intn(3))
			cs.PauseMs = 260
			cs.PadMax = 0
		case 3:
			// script hold released by the next event / by the time-out after a pause
			cs.Chain = []ActionSpec{script}
			cs.Pattern = []string{"H", "N", "H", "P", "L", "L", "N", "H", "D", "P", "N"}
			cs.PauseMs = 450
			cs.PerSource = 12 + r.Intn(12)
		}
		cs.OpWeights = map[string]int{"pass": 1}
		cs.JoinPct, cs.ContPct, cs.SplitPct = 0, 0, 0
		if cs.Pattern[0] == "S" {
			cs.JoinPct = 1 // chain classification: join is hold-capable
		}
		if cs.Pattern[0] == "H" {
			cs.OpWeights["hold"] = 1
		}
		if cs.SingleProc {
			cs.OpWeights["collapse"] = 1
		}
	case "stop":
		// Stop while the output is retrying: nothing that was not delivered may be committed
		cs.Chain = []ActionSpec{script}
		cs.EventTimeoutMs = 30000
		cs.Capacity = pickInt(r, 16, 256)
		cs.Sources = 1 + r.Intn(3)
		cs.PerSource = 10 + r.Intn(30)
		cs.Out.Plain = false
		cs.Out.Retry = pickInt(r, 3, 5)
		cs.Out.RetentMs = pickInt(r, 100, 200)
		cs.Out.FailPlan = "all"
		cs.Out.FlushMs = 20
		cs.Out.DelayUs = nil
		cs.StopAfterMs = 150 + r.Intn(200)
		if r.Intn(2) == 0 {
			cs.DLQ = &OutSpec{Workers: 1, Count: 4, FlushMs: 20, Plain: true, FailPlan: "none"}
		}
	case "retry":
		// retries that eventually succeed or never give up (negative retry)
		cs.Chain = []ActionSpec{script}
		cs.EventTimeoutMs = 30000
		cs.Out.Plain = false
		cs.Out.Retry = pickInt(r, -1, -2, -7, 0, 1, 2, 3, 5)
		cs.Out.RetentMs = pickInt(r, 2, 5, 10)
		cs.Out.Mult = float64(pickInt(r, 1, 2, 3))
		n := 1 + r.Intn(4)
		if cs.Out.Retry >= 0 && n > cs.Out.Retry {
			n = cs.Out.Retry
		}
		cs.Out.FailPlan = fmt.Sprintf("every:%d:%d", 1+r.Intn(3), n)
		if n == 0 {
			cs.Out.FailPlan = "none"
		}
		cs.PerSource = 20 + r.Intn(60)
		if r.Intn(3) == 0 {
			cs.DLQ = &OutSpec{Workers: 1, Count: 4, FlushMs: 20, Plain: true, FailPlan: "none"}
		}
	case "volume":
		// many small events on few streams, half of them discarded, batches of one:
		// discards (processor) and commits (batch workers) of one stream meet constantly
		cs.Chain = []ActionSpec{script}
		cs.OpWeights = map[string]int{"pass": 10, "discard": 10}
		cs.Sources = 1 + r.Intn(2)
		cs.Readers = cs.Sources
		cs.Streams = r.Intn(2)
		cs.PerSource = 6000 + r.Intn(6000)
		cs.PadMax = 0
		cs.Capacity = pickInt(r, 64, 256)
		cs.Procs = pickInt(r, 2, 4, 8)
		cs.EventTimeoutMs = 30000
		cs.Out = OutSpec{Workers: pickInt(r, 2, 4), Count: 1, FlushMs: 20, Plain: true, FailPlan: "none"}
	case "tiny":
		cs.Capacity = pickInt(r, 1, 1, 2, 3)
		cs.Procs = pickInt(r, 1, 1, 2)
		cs.SingleProc = r.Intn(2) == 0
		cs.Chain = []ActionSpec{script}
		cs.Readers = 1 + r.Intn(4)
		cs.Sources = cs.Readers + r.Intn(3)
		cs.PerSource = 40 + r.Intn(100)
		cs.Out.Count = pickInt(r, 1, 2)
		if cs.Out.Count > cs.Capacity {
			cs.Out.Count = cs.Capacity
		}
		cs.Out.FlushMs = 20
		cs.EventTimeoutMs = pickInt(r, 100, 300)
	}
	// a batch that can never fill (capacity < batch count) is flushed by the
	// timer only: keep such runs short
	if cs.Capacity < cs.Out.Count || (cs.Out.Bytes > 0 && cs.Capacity < 4) || (cs.DLQ != nil && cs.Capacity < cs.DLQ.Count) {
		cs.Out.FlushMs = 20
		if cs.DLQ != nil {
			cs.DLQ.FlushMs = 20
		}
		if cs.PerSource > 40 {
			cs.PerSource = 20 + r.Intn(20)
		}
	}
	holds := cs.OpWeights["hold"] > 0 || cs.OpWeights["collapse"] > 0 || cs.JoinPct > 0
	if holds && cs.EventTimeoutMs > 300 && kind != "directed" {
		// a held event at the end of a stream is only released by the stream
		// time-out: keep it short so that runs stay short
		cs.EventTimeoutMs = pickInt(r, 100, 300)
	}
	if cs.PauseEvery > 0 {
		// at most ~6 pauses per reader
		lines := cs.PerSource * ((cs.Sources + cs.Readers - 1) / cs.Readers)
		if lines/cs.PauseEvery > 6 {
			cs.PauseEvery = lines/6 + 1
		}
	}
	if (kind == "hold" || kind == "directed") && r.Intn(2) == 0 {
		// stretch the streamer heartbeat's pass over the blocked streams so that
		// puts and wake-ups of blocked processors fall inside it
		if cs.HookSleeps == nil {
			cs.HookSleeps = map[string][2]int{}
		}
		cs.HookSleeps["stream.tryUnblock"] = [2]int{1000 + r.Intn(3000), 100}
	}
	if (kind == "mix" || kind == "tiny") && r.Intn(3) == 0 {
		// put() holds the stream lock a little longer now and then: finalizers of
		// the stream (processor discards, batcher commits) queue up on it
		if cs.HookSleeps == nil {
			cs.HookSleeps = map[string][2]int{}
		}
		cs.HookSleeps["stream.put.beforeSignal"] = [2]int{200 + r.Intn(800), 30}
	}
	if r.Intn(2) == 0 && kind != "volume" {
		if cs.HookSleeps == nil {
			cs.HookSleeps = map[string][2]int{}
		}
		for _, h := range []string{"router.beforeOut", "batcher.afterOut", "batcher.beforeCommitWait", "streamer.join.beforeAttach"} {
			if r.Intn(2) == 0 {
				cs.HookSleeps[h] = [2]int{100 + r.Intn(1500), 5 + r.Intn(30)}
			}
		}
	}
	return cs
}

type childIn struct{ Cases []Case }
type childOut struct{ Results []Result }

func init() {
	core.RegisterChild("pipemon", func(raw json.RawMessage, io *core.ChildIO) (any, error) {
		var in childIn
		if err := json.Unmarshal(raw, &in); err != nil {
			return nil, err
		}
		var out childOut
		for _, cs := range in.Cases {
			io.Log(cs)
			out.Results = append(out.Results, RunCase(cs, func(v any) { io.Log(v) }))
		}
		return out, nil
	})
}

// Races, when set, receives the race-detector reports of a child together
// with the cases that child ran.
var Races func(cases []Case, reports []string)

// RunAll runs the cases in child processes (grouped by GOMAXPROCS) and calls
// handle for every result; crash is called for a child that died, with the
// case it was running.
func RunAll(c *core.Ctx, cases []Case, perChild, workers int, handle func(Result), crash func(cs Case, res *core.ChildResult)) {
	byProcs := map[int][]Case{}
	for _, cs := range cases {
		byProcs[cs.Procs] = append(byProcs[cs.Procs], cs)
	}
	type group struct {
		procs int
		cases []Case
	}
	var groups []group
	for _, procs := range []int{1, 2, 4, 8, 16} {
		l := byProcs[procs]
		for i := 0; i < len(l); i += perChild {
			j := i + perChild
			if j > len(l) {
				j = len(l)
			}
			groups = append(groups, group{procs, l[i:j]})
		}
	}
	var mu sync.Mutex
	core.ParallelFor(len(groups), workers, func(i int) {
		g := groups[i]
		r := core.RunChild("pipemon", childIn{g.cases}, core.ChildOpt{Timeout: 12 * time.Minute, GOMAXPROCS: g.procs})
		mu.Lock()
		defer mu.Unlock()
		if r.Completed {
			var out childOut
			if err := json.Unmarshal(r.Out, &out); err != nil {
				c.Fatal("bad child output: %v", err)
				return
			}
			for _, x := range out.Results {
				handle(x)
			}
			if len(r.RaceReports) > 0 && Races != nil {
				Races(g.cases, r.RaceReports)
			}
			return
		}
		if r.TimedOut {
			c.Inconclusive("child watchdog")
			return
		}
		var last Case
		if l := r.LastLog(); l != nil {
			_ = json.Unmarshal(l, &last)
		}
		started := len(r.Log)
		// re-run the crashing case alone with tracing to capture the history before the crash
		if last.Name != "" {
			tr := last
			tr.Trace = true
			for k := 0; k < 3; k++ {
				mu.Unlock()
				r3 := core.RunChild("pipemon", childIn{[]Case{tr}}, core.ChildOpt{Timeout: 12 * time.Minute, GOMAXPROCS: g.procs})
				mu.Lock()
				if r3.Crashed() {
					n := len(r3.Log)
					from := n - 250
					if from < 1 {
						from = 1
					}
					r.Log = append(r.Log[:0:0], r3.Log[from:]...)
					r.Stderr = r3.Stderr
					break
				}
			}
		}
		crash(last, r)
		// the cases after the one that crashed still have to run
		var rest []Case
		for k := started; k < len(g.cases); k++ {
			rest = append(rest, g.cases[k])
		}
		if len(rest) > 0 && started > 0 {
			mu.Unlock()
			r2 := core.RunChild("pipemon", childIn{rest}, core.ChildOpt{Timeout: 12 * time.Minute, GOMAXPROCS: g.procs})
			mu.Lock()
			var out childOut
			if r2.Completed && json.Unmarshal(r2.Out, &out) == nil {
				for _, x := range out.Results {
					handle(x)
				}
			} else {
				c.Inconclusive("cases after a crashed case could not be completed")
			}
		}
	})
}

// DirectedIndex, when >= 0, selects the directed pattern round-robin (set by
// RunProperty per generated case) instead of drawing it.
var DirectedIndex = -1

func pickDirected(r *rand.Rand) int {
	n := r.Intn(6) // always draw: keeps the PRNG stream identical
	if DirectedIndex >= 0 {
		return DirectedIndex % 9
	}
	return n
}
