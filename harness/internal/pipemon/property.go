package pipemon

import (
	"fmt"
	"sort"

	"verifharness/core"
)

// Plan says how many cases of each family a tier runs.
type Plan map[string][2]int // kind -> {quick, thorough}

// RunProperty generates the cases of the plan, runs them and reports the
// violations tagged with prop. crashIsViolation: a process death while the
// pipeline runs refutes the property (C02/C04/C05) or is only inconclusive (C01).
func RunProperty(c *core.Ctx, prop string, plan Plan, crashIsViolation bool, extraCases []Case) {
	rng := c.Rand("pipemon-cases")
	var cases []Case
	kinds := make([]string, 0, len(plan))
	for k := range plan {
		kinds = append(kinds, k)
	}
	sort.Strings(kinds)
	for _, k := range kinds {
		n := c.N(plan[k][0], plan[k][1])
		for i := 0; i < n; i++ {
			cases = append(cases, GenCase(rng, c.SubSeed(k, i), k))
		}
	}
	cases = append(cases, extraCases...)
	if len(cases) > 0 {
		cases[0].Name = "sample"
	}
	otherProps := map[string]int{}
	RunAll(c, cases, 4, 12, func(r Result) {
		c.Eval(1)
		for k, v := range r.Stats {
			switch k {
			case "pool_max_outstanding", "procs", "pool_size_classes", "stick", "case_wall_ms":
				if v > c.Counter("max_"+k) {
					c.Count("max_"+k, v-c.Counter("max_"+k))
				}
			default:
				c.Count(k, v)
			}
		}
		if r.Inconclusive != "" {
			c.Inconclusive(r.Inconclusive)
		}
		for _, v := range r.Viol {
			if v.Prop == prop {
				c.Violation(prop+":"+v.Sig, v.What, map[string]any{"case": r.Case, "witness": v.Witness, "log_head": r.LogHead})
			} else {
				otherProps[v.Prop+":"+v.Sig]++
			}
		}
		if r.Stats["accepted"] > 0 && r.Inconclusive == "" {
			c.Nontrivial(r.Fingerprint)
		}
		if r.Case.Name == "sample" {
			h := r.LogHead
			if len(h) > 60 {
				h = h[:60]
			}
			c.Sample(map[string]any{"case": r.Case, "stats": r.Stats, "history_head": h})
		}
	}, func(cs Case, res *core.ChildResult) {
		c.Eval(1)
		msg, site := core.PanicSite(res.Stderr)
		c.Count("child_crashes", 1)
		sig := fmt.Sprintf("%s:pipeline-crash:%s@%s", prop, core.NormalizeMsg(msg), site)
		if crashIsViolation {
			c.Violation(sig, "the process died while the pipeline was running: "+msg, map[string]any{"case": cs, "stderr": core.Trunc(res.Stderr, 4000)})
		} else {
			c.Inconclusive("process died: " + core.NormalizeMsg(msg))
			c.Extra("crash_sample", map[string]any{"case": cs, "stderr": core.Trunc(res.Stderr, 2000)})
		}
	})
	if len(otherProps) > 0 {
		c.Extra("observations_for_other_properties", otherProps)
	}
}
