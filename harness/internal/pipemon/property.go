package pipemon

import (
	"encoding/json"
	"fmt"
	"os"
	"sort"
	"strings"

	"verifharness/core"
)

// Plan says how many cases of each family a tier runs.
type Plan map[string][2]int // kind -> {quick, thorough}

// RunProperty generates the cases of the plan, runs them and reports the
// violations tagged with prop. crashIsViolation: a process death while the
// pipeline runs refutes the property (C02/C04/C05) or is only inconclusive (C01).
func RunProperty(c *core.Ctx, prop string, plan Plan, crashIsViolation bool, extraCases []Case) {
	var cases []Case
	kinds := make([]string, 0, len(plan))
	for k := range plan {
		kinds = append(kinds, k)
	}
	sort.Strings(kinds)
	for _, k := range kinds {
		if only := os.Getenv("PIPEMON_ONLY"); only != "" && only != k {
			continue // debugging aid
		}
		n := c.N(plan[k][0], plan[k][1])
		rng := c.Rand("pipemon-cases-" + k) // one stream per family: families do not shift each other
		for i := 0; i < n; i++ {
			DirectedIndex = i
			cases = append(cases, GenCase(rng, c.SubSeed(k, i), k))
		}
		DirectedIndex = -1
	}
	cases = append(cases, extraCases...)
	if os.Getenv("PIPEMON_DUMP") != "" { // debugging aid
		for _, cs := range cases {
			b, _ := json.Marshal(cs)
			fmt.Println("CASE", string(b))
		}
	}
	if len(cases) > 0 {
		cases[0].Name = "sample"
	}
	otherProps := map[string]int{}
	raceKeys := map[string]int{}
	Races = func(cs []Case, reports []string) {
		for _, rr := range reports {
			c.Count("race_reports", 1)
			key := core.RaceKey(rr)
			raceKeys[key]++
			// a race on the memory of an event (its JSON tree) means two holders
			// own one event object at the same time: C05
			// the harness's own state dump (taken when a wedge is suspected) reads events
			// without synchronisation, like file.d's debug endpoint does: not a holder
			if strings.Contains(rr, "VerifDump") || strings.Contains(rr, "eventPool).dump") {
				c.Count("race_reports_from_state_dump", 1)
				continue
			}
			onEvent := strings.Contains(rr, "insane-json") || strings.Contains(rr, "pipeline.(*Event)")
			if onEvent && prop == "C05" {
				split := "no-split"
				for _, a := range cs[0].Chain {
					if fmt.Sprint(a["type"]) == "split" {
						split = "split"
					}
				}
				dlq := "no-dlq"
				if cs[0].DLQ != nil {
					dlq = "dlq"
				}
				sig := "C05:event-race:" + key + ":" + split + ":" + dlq
				if split == "split" && dlq == "dlq" {
					// one structural cause (children alias the parent's JSON tree while
					// they wait in the dead queue): classified by the configuration shape
					sig = "C05:event-race:split:dlq"
				}
				c.Violation(sig, "data race on the memory of an event: it is read/written by two holders at once", map[string]any{"case": cs[0], "report": core.Trunc(rr, 6000)})
			} else if raceKeys[key] == 1 {
				c.Extra("race_sample_"+fmt.Sprint(len(raceKeys)), map[string]any{"case": cs[0].Name, "chain": cs[0].Chain, "dlq": cs[0].DLQ != nil, "report": core.Trunc(rr, 5000)})
			}
		}
	}
	RunAll(c, cases, 1, 12, func(r Result) {
		c.Eval(1)
		for k, v := range r.Stats {
			switch k {
			case "pool_max_outstanding", "procs", "pool_size_classes", "stick", "case_wall_ms":
				if v > c.Counter("max_"+k) {
					c.Count("max_"+k, v-c.Counter("max_"+k))
				}
			default:
				c.Count(k, v)
			}
		}
		if r.Inconclusive != "" {
			c.Inconclusive(r.Inconclusive)
		}
		for _, v := range r.Viol {
			if v.Prop == prop {
				sig := prop + ":" + v.Sig
				switch {
				case chainClass(r.Case) == "multi-hold":
					// chains with two hold/collapse-capable actions process events
					// re-entrantly; every symptom is classified by that shape
					sig = prop + ":multi-hold-chain"
				case breakBeforeHold(r.Case) && (strings.Contains(v.Sig, "held-by-action") || strings.HasPrefix(v.Sig, "commit-out-of-order:late-event-via=main") || strings.HasPrefix(v.Sig, "commit-past-unfinished:via=main")):
					// ActionBreak at an earlier action bypasses a later action that holds
					// an event; the processor then abandons the held event
					sig = prop + ":break-before-hold-chain"
				}
				c.Violation(sig, v.What, map[string]any{"case": r.Case, "witness": v.Witness, "log_head": r.LogHead})
			} else {
				otherProps[v.Prop+":"+v.Sig]++
			}
		}
		if r.Stats["accepted"] > 0 && r.Inconclusive == "" {
			c.Nontrivial(r.Fingerprint)
		}
		if r.Stats["case_wall_ms"] > 20000 {
			c.Extra("slow_case_example", map[string]any{"case": r.Case, "stats": r.Stats})
		}
		if r.Case.Name == "sample" {
			h := r.LogHead
			if len(h) > 60 {
				h = h[:60]
			}
			c.Sample(map[string]any{"case": r.Case, "stats": r.Stats, "history_head": h})
		}
	}, func(cs Case, res *core.ChildResult) {
		c.Eval(1)
		msg, site := core.PanicFunc(res.Stderr)
		c.Count("child_crashes", 1)
		sig := fmt.Sprintf("%s:pipeline-crash:%s@%s:chain=%s", prop, core.NormalizeMsg(msg), site, chainClass(cs))
		if chainClass(cs) == "multi-hold" {
			sig = prop + ":multi-hold-chain"
		}
		hasSplit := false
		for _, a := range cs.Chain {
			if fmt.Sprint(a["type"]) == "split" {
				hasSplit = true
			}
		}
		if hasSplit && cs.DLQ != nil && strings.Contains(res.Stderr, "insane-json") {
			// split children alias their parent's JSON tree; with a dead queue the
			// parent is recycled while children still wait there (listed C05
			// finding): here the reader of such a child died instead of racing
			if prop == "C05" {
				c.Violation("C05:event-race:split:dlq", "the process died reading a split child whose parent had been recycled: "+msg, map[string]any{"case": cs, "stderr": core.Trunc(res.Stderr, 4000)})
			} else {
				c.Inconclusive("process died reading a split child whose parent had been recycled (listed C05 finding)")
			}
			return
		}
		if crashIsViolation {
			c.Violation(sig, "the process died while the pipeline was running: "+msg, map[string]any{"case": cs, "stderr": core.Trunc(res.Stderr, 4000), "history_tail": res.Log})
		} else {
			c.Inconclusive("process died: " + core.NormalizeMsg(msg))
			c.Extra("crash_sample", map[string]any{"case": cs, "stderr": core.Trunc(res.Stderr, 2000)})
		}
	})
	if len(raceKeys) > 0 {
		c.Extra("race_report_keys", raceKeys)
	}
	if len(otherProps) > 0 {
		c.Extra("observations_for_other_properties", otherProps)
	}
}

// chainClass classifies the action chain of a case for crash signatures:
// "multi-hold" when two or more actions can hold or collapse events (a held
// event propagated by the first can be held again by the second), else
// "single-hold" / "no-hold".
func chainClass(cs Case) string {
	n := 0
	for _, a := range cs.Chain {
		switch fmt.Sprint(a["type"]) {
		case "join", "join_template":
			if cs.JoinPct > 0 {
				n++
			}
		case "verif_script":
			if cs.OpWeights["hold"] > 0 || cs.OpWeights["collapse"] > 0 {
				n++
			}
		}
	}
	switch {
	case n >= 2:
		return "multi-hold"
	case n == 1:
		return "single-hold"
	}
	return "no-hold"
}

// breakBeforeHold: some action that can return ActionBreak sits before an
// action that can hold events.
func breakBeforeHold(cs Case) bool {
	if cs.OpWeights["break"] == 0 {
		return false
	}
	seenBreaker := false
	for _, a := range cs.Chain {
		switch fmt.Sprint(a["type"]) {
		case "verif_script":
			if seenBreaker && (cs.OpWeights["hold"] > 0 || cs.OpWeights["collapse"] > 0) {
				return true
			}
			seenBreaker = true
		case "join", "join_template":
			if seenBreaker && cs.JoinPct > 0 {
				return true
			}
		}
	}
	return false
}

func hasSplit(cs Case) bool {
	for _, a := range cs.Chain {
		if fmt.Sprint(a["type"]) == "split" {
			return true
		}
	}
	return false
}
