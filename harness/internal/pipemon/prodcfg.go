package pipemon

import (
	"github.com/ozontech/file.d/pipeline"
	insaneJSON "github.com/ozontech/insane-json"
)

// cmd/file.d sets this at start-up; with insane-json's own default (128) every
// event returned to the pool is above file.d's release threshold and gets its
// node pool re-allocated, which production never does.
func init() { insaneJSON.StartNodePoolSize = pipeline.DefaultJSONNodePoolSize }
