package pipemon

import (
	"encoding/json"
	"fmt"
	"math/rand"
	"strings"
	"sync"
	"sync/atomic"
	"time"

	"github.com/bitly/go-simplejson"
	"github.com/ozontech/file.d/fd"
	"github.com/ozontech/file.d/pipeline"
	"github.com/ozontech/file.d/verifhook"
	"github.com/prometheus/client_golang/prometheus"
	"go.uber.org/zap"

	// real action plugins used in chains
	_ "github.com/ozontech/file.d/plugin/action/discard"
	_ "github.com/ozontech/file.d/plugin/action/join"
	_ "github.com/ozontech/file.d/plugin/action/modify"
	_ "github.com/ozontech/file.d/plugin/action/split"
)

type genEvent struct {
	ID     string
	Src    uint64
	Stream string // "" = field absent (default stream name)
	Off    int64
	Line   []byte
	Op     string
	Kids   int
	Pause  bool // reader sleeps PauseMs after this event
}

type engine struct {
	cs       Case
	rec      *recorder
	ctl      pipeline.InputPluginController
	p        *pipeline.Pipeline
	gen      [][]genEvent // per source
	byID     map[string]*genEvent
	bySrcOff map[[2]uint64]string

	kidMu  sync.Mutex
	kidIDs map[*pipeline.Event]string

	// resumed sources: saved offsets per stream (read-only after generate)
	saved map[uint64]map[string]int64

	// pool monitor (C05)
	pmu            sync.Mutex
	outstanding    map[*pipeline.Event]int64
	maxOut         int
	gets, backs    int64
	poolViol       []Viol
	sizeClasses    map[int]bool
	waitersSeen    int64
	refusedByInput int64
}

func (e *engine) idByOffset(src uint64, off int64) string {
	if id, ok := e.bySrcOff[[2]uint64{src, uint64(off)}]; ok {
		return id
	}
	return fmt.Sprintf("<unknown %d/%d>", src, off)
}

// stableID identifies an event without trusting its JSON tree: pooled events
// by (source, offset); split children (fresh objects, never pooled) by pointer,
// their id being read the first time the output sees them (their parent cannot
// have been committed before that).
func (e *engine) stableID(ev *pipeline.Event) string {
	if ev.IsChildKind() {
		e.kidMu.Lock()
		defer e.kidMu.Unlock()
		id, ok := e.kidIDs[ev]
		if !ok {
			id = eventID(ev)
			e.kidIDs[ev] = id
		}
		return id
	}
	return e.idByOffset(uint64(ev.SourceID), ev.Offset)
}

func (e *engine) poolViolation(sig, what string, w any) {
	if len(e.poolViol) < 5 {
		e.poolViol = append(e.poolViol, Viol{Prop: "C05", Sig: sig, What: what, Witness: w})
	}
}

// StreamName the pipeline will use for a generated event.
func streamName(s string) string {
	if s == "" {
		return string(pipeline.DefaultStreamName)
	}
	return s
}

func pick(rng *rand.Rand, w map[string]int) string {
	total := 0
	keys := []string{"pass", "discard", "break", "collapse", "hold"}
	for _, k := range keys {
		total += w[k]
	}
	if total == 0 {
		return "pass"
	}
	x := rng.Intn(total)
	for _, k := range keys {
		if x < w[k] {
			return k
		}
		x -= w[k]
	}
	return "pass"
}

func (e *engine) generate() {
	rng := rand.New(rand.NewSource(e.cs.Seed))
	e.byID = map[string]*genEvent{}
	e.gen = make([][]genEvent, e.cs.Sources)
	for s := 0; s < e.cs.Sources; s++ {
		off := int64(0)
		pat := 0
		for i := 0; i < e.cs.PerSource; i++ {
			g := genEvent{ID: fmt.Sprintf("s%d-%d", s+1, i+1), Src: uint64(s + 1)}
			if e.cs.Streams > 0 {
				g.Stream = string(rune('a' + rng.Intn(e.cs.Streams)))
			}
			g.Op = pick(rng, e.cs.OpWeights)
			m := map[string]any{"id": g.ID, "op": g.Op, "op2": pick(rng, e.cs.OpWeights), "jm": "y"}
			if g.Stream != "" {
				m["stream"] = g.Stream
			}
			r := rng.Intn(100)
			switch {
			case r < e.cs.JoinPct:
				m["msg"] = "S:" + g.ID + ";"
			case r < e.cs.JoinPct+e.cs.ContPct:
				m["msg"] = "C:" + g.ID + ";"
			default:
				m["msg"] = "N:" + g.ID + ";"
				if e.cs.JoinPct > 0 && rng.Intn(12) == 0 {
					m["msg"] = []any{7, map[string]any{"k": g.ID}, nil}[rng.Intn(3)]
				}
			}
			kidOps := map[string]int{"pass": 8, "discard": 2}
			kidMsg := "N:kid;"
			split := rng.Intn(100) < e.cs.SplitPct
			if n := len(e.cs.Pattern); n > 0 {
				// pattern-driven: skip pause tokens, they mark the previous event
				for e.cs.Pattern[pat%n] == "P" {
					if len(e.gen[s]) > 0 {
						e.gen[s][len(e.gen[s])-1].Pause = true
					}
					pat++
				}
				tok := e.cs.Pattern[pat%n]
				pat++
				g.Op, split = "pass", false
				m["op2"] = "pass"
				m["msg"] = "N:" + g.ID + ";"
				switch tok {
				case "S":
					m["msg"] = "S:" + g.ID + ";"
				case "C":
					m["msg"] = "C:" + g.ID + ";"
				case "X":
					delete(m, "jm")
				case "Z":
					// the join field exists but is not a string
					m["msg"] = []any{5, map[string]any{"k": g.ID}, nil}[rng.Intn(3)]
				case "D":
					g.Op = "discard"
				case "B":
					g.Op = "break"
				case "H":
					g.Op = "hold"
				case "L":
					g.Op = "collapse"
				case "K":
					split = true
					kidOps = map[string]int{"discard": 1}
				case "J":
					split = true
					kidMsg = "S:kid;"
				}
				m["op"] = g.Op
			}
			if split {
				g.Kids = 1 + rng.Intn(4)
				var arr []any
				for k := 0; k < g.Kids; k++ {
					kid := map[string]any{"id": fmt.Sprintf("%s.c%d", g.ID, k), "pid": g.ID, "op": pick(rng, kidOps), "msg": kidMsg}
					if e.cs.NestedSplit && rng.Intn(2) == 0 {
						kid["arr"] = []any{map[string]any{"id": fmt.Sprintf("%s.c%d.d0", g.ID, k), "pid": g.ID, "op": "pass", "msg": "N:grandkid;"}}
					}
					arr = append(arr, kid)
				}
				m["arr"] = arr
			}
			if e.cs.PadMax > 0 {
				n := rng.Intn(e.cs.PadMax + 1)
				if rng.Intn(10) == 0 {
					n = e.cs.PadMax * 8
				}
				m["pad"] = strings.Repeat("x", n)
			}
			b, _ := json.Marshal(m)
			b = append(b, '\n')
			off += int64(len(b))
			g.Off = off
			g.Line = b
			e.gen[s] = append(e.gen[s], g)
		}
	}
	e.saved = map[uint64]map[string]int64{}
	for s := range e.gen {
		if rng.Intn(100) >= e.cs.ResumePct || len(e.gen[s]) < 4 {
			continue
		}
		m := map[string]int64{}
		// every stream gets the offset of some event of the first half as "committed"
		for i := 0; i < len(e.gen[s])/2; i++ {
			g := &e.gen[s][i]
			if rng.Intn(3) == 0 {
				m[streamName(g.Stream)] = g.Off
			}
		}
		if len(m) > 0 {
			e.saved[uint64(s+1)] = m
		}
	}
	e.bySrcOff = map[[2]uint64]string{}
	for s := range e.gen {
		for i := range e.gen[s] {
			g := &e.gen[s][i]
			e.byID[g.ID] = g
			e.bySrcOff[[2]uint64{g.Src, uint64(g.Off)}] = g.ID
		}
	}
}

type hookCounters struct {
	stick, btick, ptick, unblock int64
}

// RunCase executes the case against the real pipeline and judges the log.
func RunCase(cs Case, trace func(any)) Result {
	res := Result{Case: cs, Stats: map[string]int64{}}
	verifhook.Reset()
	hc := &hookCounters{}
	rec := &recorder{t0: time.Now(), stick: &hc.stick}
	if cs.Trace {
		rec.trace = trace
	}
	eng := &engine{cs: cs, rec: rec, outstanding: map[*pipeline.Event]int64{}, sizeClasses: map[int]bool{}, kidIDs: map[*pipeline.Event]string{}}
	cur = eng
	eng.generate()

	verifhook.Arm("streamer.tick", func() { atomic.AddInt64(&hc.stick, 1) })
	verifhook.Arm("batcher.tick", func() { atomic.AddInt64(&hc.btick, 1) })
	verifhook.Arm("pool.std.tick", func() { atomic.AddInt64(&hc.ptick, 1) })
	verifhook.Arm("pool.low.tick", func() { atomic.AddInt64(&hc.ptick, 1) })
	verifhook.Arm("stream.unblock", func() { atomic.AddInt64(&hc.unblock, 1) })
	hrng := rand.New(rand.NewSource(cs.Seed ^ 0x5eed))
	var hmu sync.Mutex
	for name, sp := range cs.HookSleeps {
		us, pct := sp[0], sp[1]
		verifhook.Arm(name, func() {
			hmu.Lock()
			hit := hrng.Intn(100) < pct
			hmu.Unlock()
			if hit {
				time.Sleep(time.Duration(us) * time.Microsecond)
			}
		})
	}
	if cs.ChargeRendezvous > 1 {
		var rmu sync.Mutex
		waiting := 0
		release := make(chan struct{})
		verifhook.Arm("streamer.makeCharged.enter", func() {
			rmu.Lock()
			waiting++
			ch := release
			if waiting >= cs.ChargeRendezvous {
				waiting = 0
				close(release)
				release = make(chan struct{})
				rmu.Unlock()
				return
			}
			rmu.Unlock()
			select {
			case <-ch:
			case <-time.After(3 * time.Millisecond):
				rmu.Lock()
				if ch == release && waiting > 0 {
					waiting--
				}
				rmu.Unlock()
			}
		})
	}
	defer verifhook.Reset()

	avg := cs.AvgEventSize
	if avg == 0 {
		avg = 256
	}
	settings := &pipeline.Settings{
		Decoder: "json", Capacity: cs.Capacity, AvgEventSize: avg, MetaCacheSize: 32,
		MaintenanceInterval: 5 * time.Second,
		EventTimeout:        time.Duration(cs.EventTimeoutMs) * time.Millisecond,
		Antispam:            pipeline.AntispamSettings{Threshold: pipeline.DefaultAntispamThreshold, MaintenanceInterval: 5 * time.Second},
		StreamField:         "stream", Pool: pipeline.PoolType(cs.Pool),
		MaxEventSize: cs.MaxEventSize,
		Metric:       &pipeline.MetricSettings{HoldDuration: pipeline.DefaultMetricHoldDuration},
	}
	p := pipeline.New(fmt.Sprintf("verif_%d", time.Now().UnixNano()), settings, prometheus.NewRegistry(), zap.NewNop())
	eng.p = p
	if cs.SingleProc {
		p.DisableParallelism()
	}
	p.SetInput(&pipeline.InputPluginInfo{
		PluginStaticInfo:  &pipeline.PluginStaticInfo{Type: "verif_input"},
		PluginRuntimeInfo: &pipeline.PluginRuntimeInfo{Plugin: &monInput{eng: eng}},
	})
	chainJSON, _ := json.Marshal(cs.Chain)
	sj, _ := simplejson.NewJson(chainJSON)
	if err := fd.SetupActions(p, fd.DefaultPluginRegistry, sj, map[string]int{"capacity": cs.Capacity, "gomaxprocs": 4}); err != nil {
		res.Inconclusive = "setup actions: " + err.Error()
		return res
	}
	p.SetOutput(&pipeline.OutputPluginInfo{
		PluginStaticInfo:  &pipeline.PluginStaticInfo{Type: "verif_out"},
		PluginRuntimeInfo: &pipeline.PluginRuntimeInfo{Plugin: &monOutput{eng: eng, name: "main", spec: cs.Out}},
	})
	if cs.DLQ != nil {
		p.SetDeadQueueOutput(&pipeline.OutputPluginInfo{
			PluginStaticInfo:  &pipeline.PluginStaticInfo{Type: "verif_dlq"},
			PluginRuntimeInfo: &pipeline.PluginRuntimeInfo{Plugin: &monOutput{eng: eng, name: "dlq", spec: *cs.DLQ}},
		})
	}
	// pool monitor: count after the real get returned and before the real back
	// is called: the monitor's number is a lower bound of the true in-flight count.
	p.VerifWrapPool(pipeline.VerifPoolObserver{
		OnGet: func(ev *pipeline.Event, size int) {
			eng.pmu.Lock()
			eng.gets++
			if _, dup := eng.outstanding[ev]; dup {
				eng.poolViolation("pool-double-handout", "pool handed out an event object that is still outstanding", map[string]any{"gets": eng.gets})
			}
			eng.outstanding[ev] = eng.gets
			if n := len(eng.outstanding); n > eng.maxOut {
				eng.maxOut = n
				if n > cs.Capacity {
					eng.poolViolation("pool-capacity-exceeded", fmt.Sprintf("%d events outstanding > capacity %d", n, cs.Capacity), map[string]any{"gets": eng.gets, "backs": eng.backs})
				}
			}
			c := 0
			for s := size; s > 0; s >>= 1 {
				c++
			}
			eng.sizeClasses[c] = true
			eng.pmu.Unlock()
			if w := p.VerifPoolWaiters(); w > 0 {
				atomic.AddInt64(&eng.waitersSeen, 1)
			}
		},
		OnBack: func(ev *pipeline.Event) {
			eng.pmu.Lock()
			eng.backs++
			if _, ok := eng.outstanding[ev]; !ok {
				eng.poolViolation("pool-back-of-free-event", "an event that is not outstanding was returned to the pool (double back)", map[string]any{"backs": eng.backs})
			}
			delete(eng.outstanding, ev)
			eng.pmu.Unlock()
		},
	})
	p.VerifSetPoolWakeup(50 * time.Millisecond)
	pipeline.VerifSetFinalizeObserver(func(pp *pipeline.Pipeline, ev *pipeline.Event, notify, back bool) {
		if pp != p {
			return
		}
		info := pipeline.VerifInfo(ev)
		if info.Kind == "TIMEOUT" || info.Kind == "CHILD" || info.Kind == "UNLOCK" {
			return
		}
		rec.add(Rec{K: "fin", Src: uint64(ev.SourceID), Off: ev.Offset, Notify: notify, Back: back, Kind: info.Kind})
	})
	defer pipeline.VerifSetFinalizeObserver(nil)
	// stream.commitSeq must never go backwards (a regression leaves the stream
	// attached and detaching forever once it is the tail of the stream)
	var cmu sync.Mutex
	lastCommitSeq := map[string]uint64{}
	commitRegress := ""
	pipeline.VerifSetStreamCommitObserver(func(pp *pipeline.Pipeline, src uint64, stream string, evSeq uint64, load func() uint64) {
		if pp != p {
			return
		}
		k := fmt.Sprintf("%d/%s", src, strings.Clone(stream))
		cmu.Lock()
		v := load()
		if prev, ok := lastCommitSeq[k]; ok && v < prev && commitRegress == "" {
			commitRegress = fmt.Sprintf("stream %s: commit sequence went backwards from %d to %d (observed after the commit of event seq %d)", k, prev, v, evSeq)
		}
		lastCommitSeq[k] = v
		cmu.Unlock()
	})
	defer pipeline.VerifSetStreamCommitObserver(nil)

	p.Start()

	// ---- readers ----
	var wg sync.WaitGroup
	readers := cs.Readers
	if readers < 1 {
		readers = 1
	}
	if readers > cs.Sources {
		readers = cs.Sources
	}
	// all readers start at the same instant: several streams get charged back to
	// back while every processor is still asleep
	startCh := make(chan struct{})
	defer func() {
		select {
		case <-startCh:
		default:
			close(startCh)
		}
	}()
	for r := 0; r < readers; r++ {
		wg.Add(1)
		go func(r int) {
			defer wg.Done()
			<-startCh
			rrng := rand.New(rand.NewSource(cs.Seed + int64(r)*7919))
			var mine []int
			for s := r; s < cs.Sources; s += readers {
				mine = append(mine, s)
			}
			next := make([]int, cs.Sources)
			left := len(mine) * cs.PerSource
			n := 0
			for left > 0 {
				s := mine[rrng.Intn(len(mine))]
				if next[s] >= len(eng.gen[s]) {
					continue
				}
				g := &eng.gen[s][next[s]]
				next[s]++
				left--
				rec.add(Rec{K: "in.call", ID: g.ID, Src: g.Src, Off: g.Off, Stream: streamName(g.Stream)})
				var so pipeline.SliceMap
				if m := eng.saved[g.Src]; m != nil {
					for k, v := range m {
						so.Set(pipeline.StreamName(k), v)
					}
				}
				seq := eng.ctl.In(pipeline.SourceID(g.Src), fmt.Sprintf("src%d", g.Src), pipeline.NewOffsets(g.Off, so), g.Line, false, nil)
				rec.add(Rec{K: "in.ret", ID: g.ID, Src: g.Src, Off: g.Off, Seq: seq})
				n++
				if (cs.PauseEvery > 0 && n%cs.PauseEvery == 0) || g.Pause {
					time.Sleep(time.Duration(cs.PauseMs) * time.Millisecond)
				}
			}
		}(r)
	}
	time.Sleep(2 * time.Millisecond) // let every reader reach the barrier
	close(startCh)
	readersDone := make(chan struct{})
	go func() { wg.Wait(); close(readersDone) }()
	earlyStop := make(chan struct{})
	if cs.StopAfterMs > 0 {
		go func() {
			time.Sleep(time.Duration(cs.StopAfterMs) * time.Millisecond)
			rec.add(Rec{K: "stop.call"})
			p.Stop()
			rec.add(Rec{K: "stop.ret"})
			close(earlyStop)
		}()
	}

	// ---- wait for quiescence, deciding on logical progress ----
	// progress = number of events returned to the pool. A wedge is declared
	// when events are still in use and no event was finalized during
	// `patience` streamer heartbeat ticks (200 ms each) after the last progress.
	patience := int64(cs.EventTimeoutMs/200+1)*2 + int64(maxBackoffMs(cs)/200) + int64((cs.Out.FlushMs+dlqFlush(cs))/200) + 15
	wallDeadline := time.Now().Add(4 * time.Minute)
	lastBacks, lastProgressTick := int64(-1), atomic.LoadInt64(&hc.stick)
	lastWallProgress := time.Now()
	zeroSamples := 0
	readersFinished := false
	wedged := false
	stoppedEarly := false
	heartbeatStalled := false
	var samplerMu sync.Mutex
	var samplerStates []pipeline.VerifStreamState
	samplerStop := make(chan struct{})
	defer close(samplerStop)
	go func() {
		for {
			select {
			case <-samplerStop:
				return
			default:
			}
			st := p.VerifStreamerState()
			samplerMu.Lock()
			samplerStates = st
			samplerMu.Unlock()
			time.Sleep(15 * time.Millisecond)
		}
	}()
	lastSeenTick, lastTickWall := int64(-1), time.Now()
	starved := map[string]int64{}
	starvedViol := ""
	lastStarveSample, lastStarveWall := int64(-1), time.Now()
	for {
		select {
		case <-readersDone:
			readersFinished = true
		default:
		}
		eng.pmu.Lock()
		backs := eng.backs
		out := len(eng.outstanding)
		eng.pmu.Unlock()
		tick := atomic.LoadInt64(&hc.stick)
		if backs != lastBacks {
			lastBacks, lastProgressTick, lastWallProgress = backs, tick, time.Now()
		}
		// a stream that stays charged (pending events, no processor) without being
		// served while some processor is idle: "a processor asleep while work is queued"
		if cs.StopAfterMs == 0 && (tick != lastStarveSample || time.Since(lastStarveWall) > 20*time.Millisecond) {
			lastStarveSample, lastStarveWall = tick, time.Now()
			idle := p.VerifActiveProcs() < p.VerifProcCount()
			seenNow := map[string]bool{}
			if idle {
				// the snapshot is taken by a sampler goroutine: it takes the streamer's
				// locks and must not be able to hang this loop when they are deadlocked
				samplerMu.Lock()
				states := samplerStates
				samplerMu.Unlock()
				for _, st := range states {
					if st.InCharged && st.HasFirst && !st.Attached {
						k := fmt.Sprintf("%d/%s/%d", st.SourceID, st.Name, st.AwaySeq)
						seenNow[k] = true
						if _, ok := starved[k]; !ok {
							starved[k] = tick
						} else if tick-starved[k] >= 10 && starvedViol == "" {
							starvedViol = fmt.Sprintf("stream %d/%s stayed charged and unserved (away seq %d) for %d streamer heartbeat ticks while %d of %d processors were idle", st.SourceID, st.Name, st.AwaySeq, tick-starved[k], p.VerifProcCount()-p.VerifActiveProcs(), p.VerifProcCount())
						}
					}
				}
			}
			for k := range starved {
				if !seenNow[k] {
					delete(starved, k)
				}
			}
		}
		if starvedViol != "" && cs.Name == "directed" {
			break // verdict reached: no need to sit out the rest of the schedule
		}
		if readersFinished && out == 0 && p.VerifPoolInUse() == 0 {
			zeroSamples++
			if zeroSamples >= 3 {
				break
			}
		} else {
			zeroSamples = 0
		}
		if tick-lastProgressTick > patience {
			wedged = true
			break
		}
		if cs.StopAfterMs > 0 {
			select {
			case <-earlyStop:
				// stopped on purpose: nothing more will be finalized
				stoppedEarly = true
			default:
			}
			if stoppedEarly {
				time.Sleep(50 * time.Millisecond)
				break
			}
		}
		if tick != lastSeenTick {
			lastSeenTick, lastTickWall = tick, time.Now()
		}
		if time.Since(lastWallProgress) > 20*time.Second && time.Since(lastTickWall) > 20*time.Second {
			// the heartbeat sleeps 200 ms per tick: 20 s without a single tick is
			// not load, the heartbeat goroutine itself is stuck
			heartbeatStalled = true
			wedged = true
			break
		}
		if time.Now().After(wallDeadline) {
			res.Inconclusive = "wall-clock watchdog while progress was still being made"
			break
		}
		time.Sleep(3 * time.Millisecond)
	}
	res.Stats["quiescent"] = 0
	if zeroSamples >= 3 {
		res.Stats["quiescent"] = 1
		time.Sleep(10 * time.Millisecond) // late duplicates
	}
	if wedged {
		// the dump takes the streamer's locks: if they are held forever (deadlock)
		// it never returns, so it runs aside with a deadline
		dumped := make(chan struct{})
		var dump string
		var state any
		go func() {
			dump = p.VerifDump()
			state = p.VerifStreamerState()
			close(dumped)
		}()
		select {
		case <-dumped:
			res.Dump, res.StreamState = dump, state
		case <-time.After(3 * time.Second):
			res.Dump = "state dump did not return within 3 s: the streamer's locks are held"
			res.Stats["dump_blocked"] = 1
		}
	}
	eng.pmu.Lock()
	outstandingEnd := len(eng.outstanding)
	eng.pmu.Unlock()
	rawInUse := p.VerifPoolRawInUse()
	procCount := p.VerifProcCount()

	if heartbeatStalled {
		res.Stats["heartbeat_stalled"] = 1
	}
	cmu.Lock()
	if commitRegress != "" {
		res.Viol = append(res.Viol, Viol{Prop: "C04", Sig: "stream-commit-seq-regressed", What: commitRegress})
		res.Viol = append(res.Viol, Viol{Prop: "C02", Sig: "stream-commit-seq-regressed", What: commitRegress})
	}
	cmu.Unlock()
	if starvedViol != "" {
		res.Viol = append(res.Viol, Viol{Prop: "C04", Sig: "processor-asleep-while-stream-charged", What: starvedViol})
	}
	if stoppedEarly {
		res.Stats["stopped_early"] = 1
		res.Stats["quiescent"] = 0
	} else if cs.StopAfterMs == 0 {
		stopped := make(chan struct{})
		go func() { p.Stop(); close(stopped) }()
		select {
		case <-stopped:
		case <-time.After(15 * time.Second):
			res.Stats["stop_hung"] = 1
		}
	}

	log := rec.snapshot()
	res.Stats["case_wall_ms"] = time.Since(rec.t0).Milliseconds()
	res.Stats["stick"] = atomic.LoadInt64(&hc.stick)
	res.Stats["timeouts_injected"] = atomic.LoadInt64(&hc.unblock)
	res.Stats["pool_waiters_seen"] = atomic.LoadInt64(&eng.waitersSeen)
	res.Stats["refused_by_input"] = atomic.LoadInt64(&eng.refusedByInput)
	res.Stats["pool_max_outstanding"] = int64(eng.maxOut)
	res.Stats["pool_gets"] = eng.gets
	res.Stats["pool_size_classes"] = int64(len(eng.sizeClasses))
	res.Stats["procs"] = int64(procCount)
	judge(eng, log, &res, wedged, readersFinished, outstandingEnd, rawInUse, patience)
	if len(res.Viol) > 0 || cs.Name == "sample" {
		res.LogHead = log
		if len(res.LogHead) > 300 {
			res.LogHead = res.LogHead[:300]
		}
	}
	return res
}

func maxBackoffMs(cs Case) int {
	if cs.Out.Plain || cs.Out.RetentMs == 0 {
		return 0
	}
	n := cs.Out.Retry
	if n < 0 || n > 6 {
		n = 6
	}
	ms := float64(cs.Out.RetentMs)
	total := 0.0
	m := cs.Out.Mult
	if m == 0 {
		m = 2
	}
	for i := 0; i <= n; i++ {
		total += ms * 1.5
		ms *= m
	}
	return int(total)
}

func dlqFlush(cs Case) int {
	if cs.DLQ == nil {
		return 0
	}
	return cs.DLQ.FlushMs
}
