package pipemon

import (
	"fmt"
	"sort"
	"strings"
)

type evState struct {
	g         *genEvent
	accepted  bool
	acceptT   int64
	key       string // src/stream
	idx       int    // index in key's accepted list
	acked     bool   // contained in a batch whose send returned ok
	ackT      int64
	dropped   bool // finalize(notify=false, back=true): discard / collapse
	dropT     int64
	held      bool // finalize(notify=false, back=false)
	givenUp   bool // retries exhausted, no dead queue: reported through the error callback
	toDLQ     bool // retries exhausted, handed to the dead queue
	dlqT      int64
	commits   int
	commitT   int64
	drops     int
	kidsAcked int
	kidsDLQ   int
	kidsDrop  int
	inBatch   bool // seen in some send.call (any attempt)
	parentOut bool // parent seen (as P:id) in a send.call that returned ok, or via giveup
}

func (s *evState) terminal() bool { return s.acked || s.dropped || s.givenUp }

func (s *evState) where() string {
	switch {
	case s.toDLQ && !s.acked:
		return "dead-queue-pending"
	case s.held && !s.inBatch:
		return "held-by-action"
	case s.inBatch && !s.acked:
		return "in-output-unacked"
	case !s.inBatch:
		return "in-pipeline"
	}
	return "finished"
}

func judge(e *engine, log []Rec, res *Result, wedged, readersFinished bool, outstandingEnd int, rawInUse int64, patience int64) {
	cs := e.cs
	add := func(prop, sig, what string, w any) {
		n := 0
		for _, v := range res.Viol {
			if v.Prop == prop {
				n++
			}
		}
		if n < 6 {
			res.Viol = append(res.Viol, Viol{prop, sig, what, w})
		}
	}
	// focus extracts the records that mention the given events (witness)
	focus := func(ids ...string) []Rec {
		want := map[string]bool{}
		offs := map[[2]int64]bool{}
		for _, id := range ids {
			want[id] = true
			if g := e.byID[id]; g != nil {
				offs[[2]int64{int64(g.Src), g.Off}] = true
			}
		}
		var out []Rec
		for _, x := range log {
			hit := want[x.ID] || offs[[2]int64{int64(x.Src), x.Off}]
			for _, id := range x.IDs {
				if want[strings.TrimPrefix(id, "P:")] {
					hit = true
				}
			}
			if x.K == "act" && x.Res == "timeout" {
				hit = true
			}
			if hit && len(out) < 120 {
				out = append(out, x)
			}
		}
		return out
	}
	st := map[string]*evState{}
	for id, g := range e.byID {
		st[id] = &evState{g: g}
	}
	bySrcOff := map[string]string{}
	for id, g := range e.byID {
		bySrcOff[fmt.Sprintf("%d/%d", g.Src, g.Off)] = id
	}
	lists := map[string][]string{}
	frontier := map[string]int{}
	lastCommitOff := map[string]int64{}
	lastCommitDLQ := map[string]bool{}
	kidParent := func(id string) (string, bool) {
		if i := strings.Index(id, ".c"); i > 0 {
			return id[:i], true
		}
		return "", false
	}
	type batchKey struct {
		out string
		seq int64
	}
	pendingBatch := map[batchKey][]string{}
	var completionInv, sendRets int
	lastRetSeq := map[string]int64{}
	dropsOvertaking := 0
	inflightNow := 0
	broke := map[string]bool{}

	for _, x := range log {
		switch x.K {
		case "in.ret":
			s := st[x.ID]
			if s == nil {
				continue
			}
			if x.Seq != 0 {
				s.accepted = true
				s.acceptT = x.T
				s.key = fmt.Sprintf("%d/%s", x.Src, streamName(s.g.Stream))
				if cs.Spread {
					s.key = fmt.Sprintf("%d/*", x.Src)
				}
				s.idx = len(lists[s.key])
				lists[s.key] = append(lists[s.key], x.ID)
				inflightNow++
			}
		case "fin":
			id := bySrcOff[fmt.Sprintf("%d/%d", x.Src, x.Off)]
			s := st[id]
			if s == nil {
				add("C02", "finalize-of-unknown-event", fmt.Sprintf("finalize for source %d offset %d that was never read", x.Src, x.Off), x)
				continue
			}
			if !x.Notify && x.Back {
				s.drops++
				if !s.dropped {
					s.dropped, s.dropT = true, x.T
					inflightNow--
					if inflightNow > 0 {
						dropsOvertaking++
					}
				}
			}
			if !x.Notify && !x.Back {
				s.held = true
			}
		case "send.call":
			pendingBatch[batchKey{x.Out, x.Batch}] = x.IDs
			for _, id := range x.IDs {
				id = strings.TrimPrefix(id, "P:")
				if s := st[id]; s != nil {
					s.inBatch = true
				}
			}
		case "send.ret":
			sendRets++
			if x.OK {
				if last, ok := lastRetSeq[x.Out]; ok && x.Batch < last {
					completionInv++
				}
				if x.Batch > lastRetSeq[x.Out] {
					lastRetSeq[x.Out] = x.Batch
				}
				for _, id := range pendingBatch[batchKey{x.Out, x.Batch}] {
					if strings.HasPrefix(id, "P:") {
						if s := st[id[2:]]; s != nil {
							s.parentOut = true
						}
						continue
					}
					if pid, isKid := kidParent(id); isKid {
						if s := st[pid]; s != nil {
							s.kidsAcked++
						}
						continue
					}
					if s := st[id]; s != nil && !s.acked {
						s.acked, s.ackT = true, x.T
					}
				}
			}
		case "giveup":
			for _, id := range x.IDs {
				id = strings.TrimPrefix(id, "P:")
				if pid, isKid := kidParent(id); isKid {
					if s := st[pid]; s != nil {
						if x.OK {
							s.kidsDLQ++
						} else {
							s.kidsDrop++
						}
					}
					continue
				}
				if s := st[id]; s != nil {
					if x.OK {
						s.toDLQ, s.dlqT = true, x.T
					} else {
						s.givenUp = true
					}
				}
			}
		case "act":
			if x.Res == "break" {
				broke[x.ID] = true
			}
			if x.Res == "discard" {
				if pid, isKid := kidParent(x.ID); isKid {
					if s := st[pid]; s != nil {
						s.kidsDrop++
					}
				}
			}
		case "commit":
			id := bySrcOff[fmt.Sprintf("%d/%d", x.Src, x.Off)]
			s := st[id]
			if s == nil {
				add("C02", "commit-of-unknown-event", fmt.Sprintf("commit for source %d offset %d that was never read", x.Src, x.Off), x)
				continue
			}
			s.commits++
			if s.commits > 1 {
				add("C02", "double-commit", fmt.Sprintf("event %s committed %d times", id, s.commits), x)
				continue
			}
			s.commitT = x.T
			if !s.dropped {
				inflightNow--
			}
			// a split parent is acknowledged when all its children are finished
			if s.g.Kids > 0 && x.Kind == "PARENT" {
				if s.kidsAcked+s.kidsDrop >= s.g.Kids {
					s.acked = true
				}
			}
			// ---- C01 (a): acknowledged before commit ----
			if !s.acked && !s.givenUp {
				where := s.where()
				if s.g.Kids > 0 && x.Kind == "PARENT" {
					where = "split-parent-with-unfinished-children"
					if s.kidsDLQ > 0 {
						where = "split-parent-with-children-pending-in-dead-queue"
					}
				}
				add("C01", "commit-before-ack:"+where, fmt.Sprintf("event %s was committed to the input but no output had acknowledged it (state: %s)", id, s.where()), map[string]any{"commit": x, "event": id, "trace": focus(id)})
			}
			// ---- C01 (b): nothing earlier on the same source+stream is unfinished ----
			l := lists[s.key]
			f := frontier[s.key]
			for f < len(l) && (st[l[f]].terminal() || l[f] == id) {
				f++
			}
			frontier[s.key] = f
			if f < s.idx {
				b := st[l[f]]
				via := "main"
				if s.toDLQ {
					via = "dead-queue"
				}
				sig := "commit-past-unfinished:via=" + via + ":blocked-by=" + b.where()
				if via == "dead-queue" || b.toDLQ || b.kidsDLQ > 0 || s.kidsDLQ > 0 {
					sig = "commit-past-unfinished:dead-queue-involved"
				}
				if b.where() == "held-by-action" && broke[id] {
					sig += ":overtaker=break"
				}
				add("C01", sig,
					fmt.Sprintf("event %s (offset %d) was committed while the earlier event %s (offset %d) of the same source and stream was neither acknowledged nor dropped (%s)", id, s.g.Off, l[f], b.g.Off, b.where()),
					map[string]any{"commit": x, "unfinished": l[f], "key": s.key, "trace": focus(id, l[f])})
			}
			// ---- C02: strictly increasing offsets per source+stream as seen by the input ----
			ck := fmt.Sprintf("%d/%s", x.Src, x.Stream)
			if cs.Spread {
				ck = fmt.Sprintf("%d/*", x.Src)
			}
			if last, ok := lastCommitOff[ck]; ok && x.Off <= last && !cs.Spread {
				via := "main"
				if s.toDLQ {
					via = "dead-queue"
				}
				sig := "commit-out-of-order:late-event-via=" + via
				if s.toDLQ || lastCommitDLQ[ck] {
					// one of the two events left the main batcher's commit sequence
					// through the dead queue
					sig = "commit-out-of-order:dead-queue-involved"
				}
				add("C02", sig,
					fmt.Sprintf("source/stream %s: offset %d committed after offset %d (event %s arrived through the %s output; the newer one through dead queue: %v)", ck, x.Off, last, id, via, lastCommitDLQ[ck]),
					map[string]any{"commit": x, "trace": focus(id)})
			}
			if x.Off > lastCommitOff[ck] {
				lastCommitOff[ck] = x.Off
				lastCommitDLQ[ck] = s.toDLQ
			}
			if !cs.Spread && x.Stream != streamName(s.g.Stream) {
				add("C02", "commit-wrong-stream", fmt.Sprintf("event %s read on stream %q was committed on stream %q", id, streamName(s.g.Stream), x.Stream), x)
			}
		}
	}

	// ---- end-of-run accounting ----
	accepted, committed, dropped, unaccounted := 0, 0, 0, 0
	var firstUn *evState
	var firstUnID string
	ids := make([]string, 0, len(st))
	for id := range st {
		ids = append(ids, id)
	}
	sort.Strings(ids)
	for _, id := range ids {
		s := st[id]
		if !s.accepted {
			continue
		}
		accepted++
		if s.drops > 1 {
			add("C02", "double-drop", fmt.Sprintf("event %s silently finalized %d times", id, s.drops), nil)
		}
		if s.commits > 0 && s.dropped {
			add("C02", "commit-and-drop", fmt.Sprintf("event %s was both committed and silently dropped", id), nil)
		}
		switch {
		case s.commits > 0:
			committed++
		case s.dropped:
			dropped++
		default:
			unaccounted++
			if firstUn == nil {
				firstUn, firstUnID = s, id
			}
		}
	}
	res.Stats["accepted"] = int64(accepted)
	res.Stats["committed"] = int64(committed)
	res.Stats["dropped"] = int64(dropped)
	res.Stats["unaccounted"] = int64(unaccounted)
	res.Stats["completion_inversions"] = int64(completionInv)
	res.Stats["send_attempts"] = int64(sendRets)
	res.Stats["drops_overtaking_inflight"] = int64(dropsOvertaking)
	quiescent := res.Stats["quiescent"] == 1
	if quiescent {
		if unaccounted > 0 {
			add("C02", "unaccounted-at-idle:"+firstUn.where(), fmt.Sprintf("pipeline idle (pool in-use 0) but %d accepted events have neither a commit nor a silent drop, e.g. %s (%s)", unaccounted, firstUnID, firstUn.where()), nil)
		}
		if e.gets != e.backs {
			add("C05", "pool-get-back-mismatch", fmt.Sprintf("pipeline idle but pool gets=%d backs=%d", e.gets, e.backs), nil)
		}
		if rawInUse != 0 {
			add("C05", "pool-inuse-nonzero-at-idle", fmt.Sprintf("pipeline idle but the pool's in-use counter is %d", rawInUse), nil)
		}
	}
	if wedged && res.Inconclusive == "" {
		where := "unknown"
		if firstUn != nil {
			where = firstUn.where()
		}
		add("C04", "wedge:"+where, fmt.Sprintf("%d events still in use and none was finalized during %d streamer heartbeat ticks after the last progress (readers finished=%v); first unfinished event %s (%s)", outstandingEnd, patience, readersFinished, firstUnID, where),
			map[string]any{"dump": res.Dump, "streams": res.StreamState})
		if outstandingEnd > 0 && readersFinished {
			add("C05", "pool-leak:"+where, fmt.Sprintf("%d events never returned to the pool (pipeline stopped making progress)", outstandingEnd), nil)
		}
		if unaccounted > 0 {
			add("C02", "unaccounted-at-idle:"+where, fmt.Sprintf("pipeline stopped making progress with %d accepted events neither committed nor dropped, e.g. %s", unaccounted, firstUnID), nil)
		}
	}
	res.Viol = append(res.Viol, e.poolViol...)

	has := func(k string) string {
		if res.Stats[k] > 0 {
			return k
		}
		return ""
	}
	chain := ""
	for _, a := range cs.Chain {
		chain += fmt.Sprint(a["type"]) + ","
	}
	res.Fingerprint = strings.Join([]string{
		fmt.Sprintf("pool=%s cap=%d procs=%d w=%d c=%d plain=%v retry=%d fail=%s dlq=%v chain=%s", cs.Pool, cs.Capacity, cs.Procs, cs.Out.Workers, cs.Out.Count, cs.Out.Plain, cs.Out.Retry, strings.SplitN(cs.Out.FailPlan, ":", 2)[0], cs.DLQ != nil, chain),
		has("completion_inversions"), has("drops_overtaking_inflight"), has("timeouts_injected"), has("pool_waiters_seen"), has("dropped"),
	}, "|")
}
