package pipemon

import (
	"fmt"
	"sort"
	"strings"
)

type evState struct {
	g         *genEvent
	accepted  bool
	acceptT   int64
	key       string // src/stream
	idx       int    // index in key's accepted list
	acked     bool   // contained in a batch whose send returned ok
	ackT      int64
	dropped   bool // finalize(notify=false, back=true): discard / collapse
	dropT     int64
	held      bool // finalize(notify=false, back=false)
	givenUp   bool // retries exhausted, no dead queue: reported through the error callback
	toDLQ     bool // retries exhausted, handed to the dead queue
	dlqT      int64
	commits   int
	commitT   int64
	drops     int
	kidsAcked int
	kidsDLQ   int
	kidsDrop  int
	inBatch   bool // seen in some send.call (any attempt)
	parentOut bool // parent seen (as P:id) in a send.call that returned ok, or via giveup
}

func (s *evState) terminal() bool { return s.acked || s.dropped || s.givenUp }

func (s *evState) where() string {
	switch {
	case s.toDLQ && !s.acked:
		return "dead-queue-pending"
	case s.held && !s.inBatch:
		return "held-by-action"
	case s.inBatch && !s.acked:
		return "in-output-unacked"
	case !s.inBatch:
		return "in-pipeline"
	}
	return "finished"
}

func judge(e *engine, log []Rec, res *Result, wedged, readersFinished bool, outstandingEnd int, rawInUse int64, patience int64) {
	cs := e.cs
	add := func(prop, sig, what string, w any) {
		n := 0
		for _, v := range res.Viol {
			if v.Prop == prop {
				n++
			}
		}
		if n < 6 {
			res.Viol = append(res.Viol, Viol{prop, sig, what, w})
		}
	}
	// focus extracts the records that mention the given events (witness)
	focus := func(ids ...string) []Rec {
		want := map[string]bool{}
		offs := map[[2]int64]bool{}
		for _, id := range ids {
			want[id] = true
			if g := e.byID[id]; g != nil {
				offs[[2]int64{int64(g.Src), g.Off}] = true
			}
		}
		var out []Rec
		for _, x := range log {
			hit := want[x.ID] || offs[[2]int64{int64(x.Src), x.Off}]
			for _, id := range x.IDs {
				if want[strings.TrimPrefix(id, "P:")] {
					hit = true
				}
			}
			if x.K == "act" && x.Res == "timeout" {
				hit = true
			}
			if hit && len(out) < 120 {
				out = append(out, x)
			}
		}
		return out
	}
	st := map[string]*evState{}
	for id, g := range e.byID {
		st[id] = &evState{g: g}
	}
	bySrcOff := map[string]string{}
	for id, g := range e.byID {
		bySrcOff[fmt.Sprintf("%d/%d", g.Src, g.Off)] = id
	}
	lists := map[string][]string{}
	frontier := map[string]int{}
	lastCommitOff := map[string]int64{}
	lastCommitDLQ := map[string]bool{}
	kidParent := func(id string) (string, bool) {
		if i := strings.Index(id, ".c"); i > 0 {
			return id[:i], true
		}
		return "", false
	}
	type batchKey struct {
		out string
		seq int64
	}
	pendingBatch := map[batchKey][]string{}
	var completionInv, sendRets int
	lastRetSeq := map[string]int64{}
	dropsOvertaking := 0
	inflightNow := 0
	broke := map[string]bool{}

	for _, x := range log {
		switch x.K {
		case "in.ret":
			s := st[x.ID]
			if s == nil {
				continue
			}
			if x.Seq != 0 {
				s.accepted = true
				s.acceptT = x.T
				s.key = fmt.Sprintf("%d/%s", x.Src, streamName(s.g.Stream))
				if cs.Spread {
					s.key = fmt.Sprintf("%d/*", x.Src)
				}
				s.idx = len(lists[s.key])
				lists[s.key] = append(lists[s.key], x.ID)
				inflightNow++
			}
		case "fin":
			id := bySrcOff[fmt.Sprintf("%d/%d", x.Src, x.Off)]
			s := st[id]
			if s == nil {
				add("C02", "finalize-of-unknown-event", fmt.Sprintf("finalize for source %d offset %d that was never read", x.Src, x.Off), x)
				continue
			}
			if !x.Notify && x.Back {
				s.drops++
				if !s.dropped {
					s.dropped, s.dropT = true, x.T
					inflightNow--
					if inflightNow > 0 {
						dropsOvertaking++
					}
				}
			}
			if !x.Notify && !x.Back {
				s.held = true
			}
		case "send.call":
			pendingBatch[batchKey{x.Out, x.Batch}] = x.IDs
			for _, id := range x.IDs {
				id = strings.TrimPrefix(id, "P:")
				if s := st[id]; s != nil {
					s.inBatch = true
				}
			}
		case "send.ret":
			sendRets++
			if x.OK {
				if last, ok := lastRetSeq[x.Out]; ok && x.Batch < last {
					completionInv++
				}
				if x.Batch > lastRetSeq[x.Out] {
					lastRetSeq[x.Out] = x.Batch
				}
				for _, id := range pendingBatch[batchKey{x.Out, x.Batch}] {
					if strings.HasPrefix(id, "P:") {
						if s := st[id[2:]]; s != nil {
							s.parentOut = true
						}
						continue
					}
					if pid, isKid := kidParent(id); isKid {
						if s := st[pid]; s != nil {
							s.kidsAcked++
						}
						continue
					}
					if s := st[id]; s != nil && !s.acked {
						s.acked, s.ackT = true, x.T
					}
				}
			}
		case "giveup":
			for _, id := range x.IDs {
				id = strings.TrimPrefix(id, "P:")
				if pid, isKid := kidParent(id); isKid {
					if s := st[pid]; s != nil {
						if x.OK {
							s.kidsDLQ++
						} else {
							s.kidsDrop++
						}
					}
					continue
				}
				if s := st[id]; s != nil {
					if x.OK {
						s.toDLQ, s.dlqT = true, x.T
					} else {
						s.givenUp = true
					}
				}
			}
		case "act":
			if x.Res == "break" {
				broke[x.ID] = true
			}
			if x.Res == "discard" {
				if pid, isKid := kidParent(x.ID); isKid {
					if s := st[pid]; s != nil {
						s.kidsDrop++
					}
				}
			}
		case "commit":
			id := bySrcOff[fmt.Sprintf("%d/%d", x.Src, x.Off)]
			s := st[id]
			if s == nil {
				add("C02", "commit-of-unknown-event", fmt.Sprintf("commit for source %d offset %d that was never read", x.Src, x.Off), x)
				continue
			}
			s.commits++
			if s.commits > 1 {
				add("C02", "double-commit", fmt.Sprintf("event %s committed %d times", id, s.commits), x)
				continue
			}
			s.commitT = x.T
			if !s.dropped {
				inflightNow--
			}
			// a split parent is acknowledged when all its children are finished
			if s.g.Kids > 0 && x.Kind == "PARENT" {
				if s.kidsAcked+s.kidsDrop >= s.g.Kids {
					s.acked = true
				}
			}
			// ---- C01 (a): acknowledged before commit ----
			if !s.acked && !s.givenUp {
				where := s.where()
				if s.g.Kids > 0 && x.Kind == "PARENT" {
					where = "split-parent-with-unfinished-children"
					if s.kidsDLQ > 0 || s.toDLQ {
						where = "split-parent-with-children-pending-in-dead-queue"
					}
				}
				add("C01", "commit-before-ack:"+where, fmt.Sprintf("event %s was committed to the input but no output had acknowledged it (state: %s)", id, s.where()), map[string]any{"commit": x, "event": id, "trace": focus(id)})
			}
			// ---- C01 (b): nothing earlier on the same source+stream is unfinished ----
			l := lists[s.key]
			f := frontier[s.key]
			for f < len(l) && (st[l[f]].terminal() || l[f] == id) {
				f++
			}
			frontier[s.key] = f
			if f < s.idx {
				b := st[l[f]]
				via := "main"
				if s.toDLQ {
					via = "dead-queue"
				}
				sig := "commit-past-unfinished:via=" + via + ":blocked-by=" + b.where()
				if via == "dead-queue" || b.toDLQ || b.kidsDLQ > 0 || s.kidsDLQ > 0 {
					sig = "commit-past-unfinished:dead-queue-involved"
				}
				if b.where() == "held-by-action" && broke[id] {
					sig += ":overtaker=break"
				}
				add("C01", sig,
					fmt.Sprintf("event %s (offset %d) was committed while the earlier event %s (offset %d) of the same source and stream was neither acknowledged nor dropped (%s)", id, s.g.Off, l[f], b.g.Off, b.where()),
					map[string]any{"commit": x, "unfinished": l[f], "key": s.key, "trace": focus(id, l[f])})
			}
			// ---- C02: strictly increasing offsets per source+stream as seen by the input ----
			ck := fmt.Sprintf("%d/%s", x.Src, x.Stream)
			if cs.Spread {
				ck = fmt.Sprintf("%d/*", x.Src)
			}
			if last, ok := lastCommitOff[ck]; ok && x.Off <= last && !cs.Spread {
				via := "main"
				if s.toDLQ {
					via = "dead-queue"
				}
				sig := "commit-out-of-order:late-event-via=" + via
				if s.toDLQ || lastCommitDLQ[ck] {
					// one of the two events left the main batcher's commit sequence
					// through the dead queue
					sig = "commit-out-of-order:dead-queue-involved"
				}
				add("C02", sig,
					fmt.Sprintf("source/stream %s: offset %d committed after offset %d (event %s arrived through the %s output; the newer one through dead queue: %v)", ck, x.Off, last, id, via, lastCommitDLQ[ck]),
					map[string]any{"commit": x, "trace": focus(id)})
			}
			if x.Off > lastCommitOff[ck] {
				lastCommitOff[ck] = x.Off
				lastCommitDLQ[ck] = s.toDLQ
			}
			if !cs.Spread && x.Stream != streamName(s.g.Stream) {
				add("C02", "commit-wrong-stream", fmt.Sprintf("event %s read on stream %q was committed on stream %q", id, streamName(s.g.Stream), x.Stream), x)
			}
		}
	}

	judgeRetry(cs, log, add, res.Stats["quiescent"] == 1 || wedged)

	// ---- end-of-run accounting ----
	accepted, committed, dropped, unaccounted := 0, 0, 0, 0
	var firstUn *evState
	var firstUnID string
	ids := make([]string, 0, len(st))
	for id := range st {
		ids = append(ids, id)
	}
	sort.Strings(ids)
	for _, id := range ids {
		s := st[id]
		if !s.accepted {
			continue
		}
		accepted++
		if s.drops > 1 {
			add("C02", "double-drop", fmt.Sprintf("event %s silently finalized %d times", id, s.drops), nil)
		}
		if s.commits > 0 && s.dropped {
			add("C02", "commit-and-drop", fmt.Sprintf("event %s was both committed and silently dropped", id), nil)
		}
		switch {
		case s.commits > 0:
			committed++
		case s.dropped:
			dropped++
		default:
			unaccounted++
			if firstUn == nil {
				firstUn, firstUnID = s, id
			}
		}
	}
	res.Stats["accepted"] = int64(accepted)
	res.Stats["committed"] = int64(committed)
	res.Stats["dropped"] = int64(dropped)
	res.Stats["unaccounted"] = int64(unaccounted)
	res.Stats["completion_inversions"] = int64(completionInv)
	res.Stats["send_attempts"] = int64(sendRets)
	res.Stats["drops_overtaking_inflight"] = int64(dropsOvertaking)
	quiescent := res.Stats["quiescent"] == 1
	if quiescent {
		if unaccounted > 0 {
			add("C02", "unaccounted-at-idle:"+firstUn.where(), fmt.Sprintf("pipeline idle (pool in-use 0) but %d accepted events have neither a commit nor a silent drop, e.g. %s (%s)", unaccounted, firstUnID, firstUn.where()), nil)
		}
		if e.gets != e.backs {
			add("C05", "pool-get-back-mismatch", fmt.Sprintf("pipeline idle but pool gets=%d backs=%d", e.gets, e.backs), nil)
		}
		if rawInUse != 0 {
			add("C05", "pool-inuse-nonzero-at-idle", fmt.Sprintf("pipeline idle but the pool's in-use counter is %d", rawInUse), nil)
		}
	}
	if wedged && res.Inconclusive == "" {
		where := "unknown"
		if firstUn != nil {
			where = firstUn.where()
		}
		if res.Stats["heartbeat_stalled"] == 1 {
			where = "streamer-heartbeat-stalled"
		}
		add("C04", "wedge:"+where, fmt.Sprintf("%d events still in use and none was finalized during %d streamer heartbeat ticks after the last progress (readers finished=%v); first unfinished event %s (%s)", outstandingEnd, patience, readersFinished, firstUnID, where),
			map[string]any{"dump": res.Dump, "streams": res.StreamState})
		if outstandingEnd > 0 && readersFinished {
			add("C05", "pool-leak:"+where, fmt.Sprintf("%d events never returned to the pool (pipeline stopped making progress)", outstandingEnd), nil)
		}
		if unaccounted > 0 {
			add("C02", "unaccounted-at-idle:"+where, fmt.Sprintf("pipeline stopped making progress with %d accepted events neither committed nor dropped, e.g. %s", unaccounted, firstUnID), nil)
		}
	}
	res.Viol = append(res.Viol, e.poolViol...)

	has := func(k string) string {
		if res.Stats[k] > 0 {
			return k
		}
		return ""
	}
	chain := ""
	for _, a := range cs.Chain {
		chain += fmt.Sprint(a["type"]) + ","
	}
	res.Fingerprint = strings.Join([]string{
		fmt.Sprintf("pool=%s cap=%d procs=%d w=%d c=%d plain=%v retry=%d fail=%s dlq=%v chain=%s", cs.Pool, cs.Capacity, cs.Procs, cs.Out.Workers, cs.Out.Count, cs.Out.Plain, cs.Out.Retry, strings.SplitN(cs.Out.FailPlan, ":", 2)[0], cs.DLQ != nil, chain),
		has("completion_inversions"), has("drops_overtaking_inflight"), has("timeouts_injected"), has("pool_waiters_seen"), has("dropped"),
	}, "|")
}

// judgeRetry is the C09 oracle: retry counts, growing pauses (lower envelope),
// one-way routing of an exhausted batch.
func judgeRetry(cs Case, log []Rec, add func(prop, sig, what string, w any), ended bool) {
	if cs.Out.Plain {
		return
	}
	type att struct {
		callT, retT  int64
		callW, retW  int64
		ok, returned bool
		ids          []string
	}
	batches := map[int64][]*att{}
	gaveUp := map[int64]Rec{}
	giveupOf := map[string]int{} // id -> how many give-ups named it
	var order []int64
	dlqOut := map[string]int{}
	dlqAck := map[string]int64{}
	commitT := map[string]int64{}
	commits := map[string]int{}
	pendingDLQ := map[int64][]string{}
	dlqSent := map[string]bool{}
	stopReturned := false
	lastMainBatch := int64(-1)
	idOf := func(src uint64, off int64) string { return fmt.Sprintf("%d/%d", src, off) }
	_ = idOf
	for _, x := range log {
		switch x.K {
		case "send.call":
			if x.Out == "main" {
				if _, ok := batches[x.Batch]; !ok {
					order = append(order, x.Batch)
				}
				batches[x.Batch] = append(batches[x.Batch], &att{callT: x.T, callW: x.WallUs, ids: x.IDs})
				lastMainBatch = x.Batch
			} else {
				pendingDLQ[x.Batch] = x.IDs
				for _, id := range x.IDs {
					dlqSent[id] = true
				}
			}
		case "send.ret":
			if x.Out == "main" {
				l := batches[x.Batch]
				if len(l) > 0 {
					a := l[len(l)-1]
					a.retT, a.retW, a.ok, a.returned = x.T, x.WallUs, x.OK, true
				}
			} else if x.OK {
				for _, id := range pendingDLQ[x.Batch] {
					if _, seen := dlqAck[id]; !seen {
						dlqAck[id] = x.T
					}
				}
			}
		case "giveup":
			if x.Out == "main" {
				// the give-up belongs to the batch whose attempt failed last before it
				best := int64(-1)
				for seq, l := range batches {
					a := l[len(l)-1]
					if a.returned && !a.ok && a.retT < x.T && sameSet(a.ids, x.IDs) {
						if _, dup := gaveUp[seq]; !dup && (best < 0 || seq < best) {
							best = seq
						}
					}
				}
				if best >= 0 {
					gaveUp[best] = x
				}
				for _, id := range x.IDs {
					giveupOf[id]++
				}
			}
		case "dlq.out":
			dlqOut[x.ID]++
		case "stop.ret":
			stopReturned = true
		}
	}
	_ = lastMainBatch
	// Stop drains the main output first (batches in flight may still exhaust
	// their retries and be handed over) and the dead queue after it: when Stop
	// has returned, everything handed to the dead queue has been written by it
	// except the last, partially filled batch (fewer events than its count limit).
	if stopReturned && cs.DLQ != nil && cs.DLQ.Bytes == 0 && cs.DLQ.Count > 0 {
		var lost []string
		for id := range dlqOut {
			if !dlqSent[id] {
				lost = append(lost, id)
			}
		}
		if len(lost) >= cs.DLQ.Count {
			sort.Strings(lost)
			add("C09", "handed-to-dead-queue-but-never-written-at-stop", fmt.Sprintf("%d events of exhausted batches were handed to the dead-queue output and never written by it although Stop returned (a partial last batch holds fewer than %d): the dead queue was not accepting events any more", len(lost), cs.DLQ.Count), lost)
		}
	}
	// commits by id need the engine's offset table: rebuild from in.call records
	byOff := map[string]string{}
	kinds := map[string]string{}
	for _, x := range log {
		if x.K == "in.call" {
			byOff[fmt.Sprintf("%d/%d", x.Src, x.Off)] = x.ID
		}
	}
	for _, x := range log {
		if x.K == "commit" {
			id := byOff[fmt.Sprintf("%d/%d", x.Src, x.Off)]
			commits[id]++
			kinds[id] = x.Kind
			if _, ok := commitT[id]; !ok {
				commitT[id] = x.T
			}
		}
	}
	strip := func(id string) string { return strings.TrimPrefix(id, "P:") }
	for _, seq := range order {
		l := batches[seq]
		fails := 0
		for _, a := range l {
			if a.returned && !a.ok {
				fails++
			}
		}
		last := l[len(l)-1]
		gu, exhausted := gaveUp[seq]
		if exhausted {
			if cs.Out.Retry < 0 {
				add("C09", "gave-up-with-negative-retry", fmt.Sprintf("batch %d was given up after %d failed sends although retry=%d means retry forever", seq, fails, cs.Out.Retry), gu)
			} else if fails < cs.Out.Retry+1 {
				add("C09", "gave-up-too-early", fmt.Sprintf("batch %d was given up after %d failed sends; configured retries %d require at least %d", seq, fails, cs.Out.Retry, cs.Out.Retry+1), gu)
			}
		}
		// growing pauses: lower envelope 0.5*MinRetention*Multiplier^i (capped at 60 s)
		for i := 0; i+1 < len(l); i++ {
			if !l[i].returned {
				continue
			}
			want := 0.5 * float64(cs.Out.RetentMs) * 1000
			m := cs.Out.Mult
			if m == 0 {
				m = 2
			}
			for k := 0; k < i; k++ {
				want *= m
			}
			if want > 60e6*0.5 {
				want = 60e6 * 0.5
			}
			got := float64(l[i+1].callW - l[i].retW)
			if got < want*0.98 {
				add("C09", "retry-pause-too-short", fmt.Sprintf("batch %d: pause %d before attempt %d was %.1f ms, the randomised exponential back-off (min retention %d ms, multiplier %.1f) allows no less than %.1f ms", seq, i, i+1, got/1000, cs.Out.RetentMs, m, want/1000), nil)
				break
			}
		}
		// no commit while the batch is neither acknowledged nor given up
		endT := int64(-1)
		switch {
		case last.returned && last.ok:
			endT = last.retT
		case exhausted:
			endT = gu.T
		}
		for _, id := range last.ids {
			sid := strip(id)
			if strings.Contains(sid, ".c") {
				continue // children are never committed
			}
			ct, committed := commitT[sid]
			if !committed {
				continue
			}
			if endT < 0 {
				add("C09", "commit-while-retries-pending", fmt.Sprintf("event %s of batch %d was committed although the last send of the batch failed and it was neither retried again nor given up (%d failed sends)", sid, seq, fails), nil)
			} else if ct < endT && !(exhausted && dlqAck[id] > 0) {
				add("C09", "commit-before-final-send", fmt.Sprintf("event %s of batch %d was committed before the final send returned / gave up", sid, seq), nil)
			}
		}
		if !exhausted {
			// acknowledged by the main output: committed exactly once by it
			if ended && last.returned && last.ok && cs.StopAfterMs == 0 {
				for _, id := range last.ids {
					sid := strip(id)
					if strings.Contains(sid, ".c") {
						continue
					}
					if commits[sid] == 0 {
						add("C09", "acknowledged-batch-never-committed", fmt.Sprintf("event %s of batch %d was acknowledged by the main output but never committed (the run went idle or stopped making progress)", sid, seq), nil)
						break
					}
				}
			}
			continue
		}
		// one-way routing
		for _, id := range gu.IDs {
			sid := strip(id)
			isKid := strings.Contains(sid, ".c")
			if gu.OK { // dead queue configured
				if dlqOut[id] != 1 {
					add("C09", fmt.Sprintf("dead-queue-handover-count=%d", dlqOut[id]), fmt.Sprintf("event %s of the exhausted batch %d was handed to the dead-queue output %d times (want exactly once)", id, seq, dlqOut[id]), gu)
				}
				if !isKid {
					if ack, ok := dlqAck[id]; ok {
						if ct, c := commitT[sid]; c && ct < ack {
							add("C09", "committed-before-dead-queue-ack", fmt.Sprintf("event %s was routed to the dead queue but committed before the dead queue acknowledged it (committed by the main output)", sid), gu)
						}
					} else if !strings.HasPrefix(id, "P:") {
						if _, c := commitT[sid]; c {
							add("C09", "committed-without-dead-queue-ack", fmt.Sprintf("event %s was routed to the dead queue and committed although the dead queue never acknowledged it", sid), gu)
						}
					}
				}
			}
			if giveupOf[id] > 1 {
				add("C09", "error-callback-twice", fmt.Sprintf("event %s was reported through the error callback %d times", id, giveupOf[id]), gu)
			}
			if !isKid && commits[sid] > 1 {
				add("C09", "exhausted-event-committed-twice", fmt.Sprintf("event %s of an exhausted batch was committed %d times", sid, commits[sid]), gu)
			}
		}
	}
}

func sameSet(a, b []string) bool {
	if len(a) != len(b) {
		return false
	}
	x := append([]string(nil), a...)
	y := append([]string(nil), b...)
	sort.Strings(x)
	sort.Strings(y)
	for i := range x {
		if x[i] != y[i] {
			return false
		}
	}
	return true
}
