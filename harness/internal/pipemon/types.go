// Package pipemon drives a real pipeline.Pipeline (real streamer, processors,
// pools, router, batchers) with monitoring plugins at the boundary only and
// records every In / action result / finalize / send / Commit / pool get+back
// on one logical clock. Oracles for C01, C02, C04, C05 (and parts of C09, C15)
// are pure functions over that log.
package pipemon

// ActionSpec is one action of the chain, configured through fd.SetupActions
// (the real JSON config path). Type "verif_script" is the harness action.
type ActionSpec map[string]any

// OutSpec configures a monitoring output built on the real Batcher /
// RetriableBatcher.
type OutSpec struct {
	Workers  int
	Count    int
	Bytes    int
	FlushMs  int
	Plain    bool    // plain Batcher (no retries)
	Retry    int     // AttemptNum for RetriableBatcher
	RetentMs int     // MinRetention
	Mult     float64 // Multiplier
	// FailPlan decides which send attempts fail:
	//  "none"            never
	//  "every:K:N"       every K-th batch fails its first N attempts
	//  "rand:P"          each attempt fails with probability P% (seeded)
	//  "all"             every attempt fails
	FailPlan string
	// DelayUs: OutFn duration plan by batch seq (cyclic), microseconds.
	DelayUs []int
}

// Case is one pipeline execution.
type Case struct {
	Name       string
	Seed       int64
	Procs      int // GOMAXPROCS of the child (processor count = 2×)
	SingleProc bool

	Pool           string // std | low_memory
	Capacity       int
	AvgEventSize   int
	EventTimeoutMs int
	MaxEventSize   int

	Sources    int
	Streams    int // distinct stream-field values per source (0 = field absent)
	PerSource  int
	Readers    int
	PauseEvery int // reader pause (ms = PauseMs) after that many lines (0 = never)
	PauseMs    int

	// OpWeights: relative weights of script ops for generated events
	// (pass, discard, break, collapse, hold).
	OpWeights map[string]int
	// JoinPct: percentage of events that are join start lines; ContPct: continuation lines.
	JoinPct, ContPct int
	// SplitPct: percentage of events carrying an array to be split.
	SplitPct int
	PadMax   int

	Chain []ActionSpec
	Out   OutSpec
	DLQ   *OutSpec // nil = no dead queue

	// HookSleeps: hook point -> [micros, percent]
	HookSleeps map[string][2]int

	// Pattern, when set, replaces the random op/msg choice: events of every
	// source cycle through these tokens: S join start line, C continuation,
	// N normal line, X normal line without the "jm" field, D script discard,
	// B script break, H script hold, L script collapse, K split parent whose
	// children are all discarded, J split parent whose children are join start
	// lines, P reader pause of PauseMs (no event).
	Pattern []string
	// StopAfterMs > 0: Pipeline.Stop is called that long after the readers
	// started, while the output may still be retrying.
	StopAfterMs int

	// ResumePct: percentage of sources that are "resumed": the input hands saved
	// per-stream offsets to In and its PassEvent refuses records at or below
	// them (what the file input does after a restart).
	ResumePct int
	// NestedSplit: split children carry a nested array under the same field
	// (exercises a second split action on children).
	NestedSplit bool

	// ChargeRendezvous > 1: callers of streamer.makeCharged wait (at most 3 ms)
	// until that many have arrived, so several streams are charged back to back.
	ChargeRendezvous int

	Trace bool // stream every record to the child's on-disk log (used when re-running a crashing case)

	Spread bool // input calls UseSpread + DisableStreams (kafka-like)
}

// Rec is one event of the recorded history.
type Rec struct {
	T      int64    `json:"t"`
	K      string   `json:"k"`
	ID     string   `json:"id,omitempty"`
	Src    uint64   `json:"src,omitempty"`
	Off    int64    `json:"off,omitempty"`
	Stream string   `json:"stream,omitempty"`
	Seq    uint64   `json:"seq,omitempty"`
	Out    string   `json:"out,omitempty"`
	Batch  int64    `json:"batch,omitempty"`
	Att    int      `json:"att,omitempty"`
	IDs    []string `json:"ids,omitempty"`
	OK     bool     `json:"ok,omitempty"`
	Kind   string   `json:"kind,omitempty"`
	Notify bool     `json:"notify,omitempty"`
	Back   bool     `json:"back,omitempty"`
	Res    string   `json:"res,omitempty"`
	Act    int      `json:"act,omitempty"`
	N      int64    `json:"n,omitempty"`
	WallUs int64    `json:"wall_us,omitempty"`
	STick  int64    `json:"stick,omitempty"` // streamer heartbeat ticks
}

// Viol is a refuting observation, tagged with the property it refutes.
type Viol struct {
	Prop    string `json:"prop"`
	Sig     string `json:"sig"`
	What    string `json:"what"`
	Witness any    `json:"witness,omitempty"`
}

// Result of one case.
type Result struct {
	Case         Case
	Viol         []Viol
	Inconclusive string
	Fingerprint  string
	Stats        map[string]int64
	LogHead      []Rec  `json:",omitempty"`
	Dump         string `json:",omitempty"`
	StreamState  any    `json:",omitempty"`
}
